#!/usr/bin/env python3
"""
Seeded-change bookkeeping (development tool, not a registered check).

  tools_seeded.py confirm <outdir> <PROP>      # verify an agent's deliverables and store them under seeded/
  tools_seeded.py run <seed-id>|all [--checks C01,C02|own|all] [--tier quick] [--verif DIR] [--via-repo]
  tools_seeded.py table                        # markdown table of results (for DESIGN.md)

`confirm` works in a scratch git worktree of /repo under /tmp (removed afterwards): demo exits 0 on the
clean tree and 1 with the patch, and typedpy's own suite has no failure outside the 4 baseline ones.
`run` applies the patch in a scratch worktree and points the checks at it with VERIF_REPO (default), or
with --via-repo applies it to /repo itself (git apply … / git checkout -- .) exactly as a user would.
Results are stored in seeded/<seed-id>/results.json.
"""
import argparse
import json
import os
import re
import shutil
import subprocess
import sys

HERE = os.path.dirname(os.path.abspath(__file__))
SEEDED = os.path.join(HERE, "seeded")
PY = "/venv/bin/python"
BASELINE_FAIL = "test_create_stub_using_script"


def sh(cmd, cwd=None, env=None, timeout=3600):
    p = subprocess.run(cmd, cwd=cwd, env=env, stdout=subprocess.PIPE, stderr=subprocess.STDOUT,
                       text=True, timeout=timeout, shell=isinstance(cmd, str))
    return p.returncode, p.stdout


def worktree(path):
    if os.path.exists(path):
        sh(["git", "-C", "/repo", "worktree", "remove", "--force", path])
        shutil.rmtree(path, ignore_errors=True)
    rc, out = sh(["git", "-C", "/repo", "worktree", "add", "-q", "--detach", path, "HEAD"])
    assert rc == 0, out
    return path


def drop_worktree(path):
    sh(["git", "-C", "/repo", "worktree", "remove", "--force", path])
    shutil.rmtree(path, ignore_errors=True)


def run_demo(wt, demo):
    shutil.copy(demo, os.path.join(wt, "_demo.py"))
    env = dict(os.environ, PYTHONPATH=wt, PYTHONHASHSEED="0")
    rc, out = sh([PY, "_demo.py"], cwd=wt, env=env, timeout=600)
    os.remove(os.path.join(wt, "_demo.py"))
    return rc, out[-1500:]


def confirm(outdir, prop):
    meta = json.load(open(os.path.join(outdir, "meta.json")))
    for i, ch in enumerate(meta["changes"], 1):
        sid = f"{prop}-{i + int(os.environ.get('SEED_OFFSET', '0'))}"
        patch = os.path.join(outdir, ch["patch"])
        demo = os.path.join(outdir, ch["demo"])
        wt = worktree(f"/tmp/sv_{sid}")
        rec = {"seed": sid, "property": prop}
        try:
            rc0, out0 = run_demo(wt, demo)
            rc, out = sh(["git", "apply", "--check", patch], cwd=wt)
            if rc != 0:
                print(sid, "patch does not apply:", out); continue
            sh(["git", "apply", patch], cwd=wt)
            touched = sh(["git", "diff", "--name-only"], cwd=wt)[1].split()
            rc1, out1 = run_demo(wt, demo)
            rct, outt = sh([PY, "-m", "pytest", "-q", "-p", "no:cacheprovider", "--timeout=900", "-q",
                            "-x", "--deselect", "tests/test_create_pyi.py::test_create_stub_using_script"],
                           cwd=wt, env=dict(os.environ, PYTHONPATH=wt), timeout=1800)
            tail = outt.strip().splitlines()[-1] if outt.strip() else ""
            tests_ok = rct == 0 and "failed" not in tail and "error" not in tail.lower()
            ok = rc0 == 0 and rc1 == 1 and tests_ok and all(t.startswith("typedpy/") for t in touched)
            rec.update(demo_clean_exit=rc0, demo_patched_exit=rc1, demo_patched_output=out1,
                       tests_tail=tail, touched=touched, confirmed=ok)
            print(sid, "confirmed" if ok else "NOT confirmed", "| demo clean", rc0, "patched", rc1, "|", tail, "|", touched)
            if ok:
                d = os.path.join(SEEDED, sid)
                os.makedirs(d, exist_ok=True)
                shutil.copy(patch, os.path.join(d, "patch.diff"))
                shutil.copy(demo, os.path.join(d, "demo.py"))
                m = {"seed": sid, "property": prop, "summary": ch.get("summary"), "why_breaks": ch.get("why_breaks"),
                     "trigger": ch.get("trigger"), "files": touched,
                     "base_commit": sh(["git", "-C", "/repo", "rev-parse", "--short", "HEAD"])[1].strip(),
                     "confirmed": {"demo_exit_clean": rc0, "demo_exit_patched": rc1, "tests": tail,
                                   "demo_output_patched": out1}}
                json.dump(m, open(os.path.join(d, "meta.json"), "w"), indent=1)
        finally:
            drop_worktree(wt)


def reconfirm(seed):
    """re-validate a stored seed against /repo's CURRENT HEAD (fix commits may have landed since)"""
    d = os.path.join(SEEDED, seed)
    meta = json.load(open(os.path.join(d, "meta.json")))
    wt = worktree(f"/tmp/sc_{seed}")
    try:
        rc0, _ = run_demo(wt, os.path.join(d, "demo.py"))
        rc, out = sh(["git", "apply", "--check", os.path.join(d, "patch.diff")], cwd=wt)
        if rc != 0:
            status = {"applies": False}
        else:
            sh(["git", "apply", os.path.join(d, "patch.diff")], cwd=wt)
            rc1, out1 = run_demo(wt, os.path.join(d, "demo.py"))
            rct, outt = sh([PY, "-m", "pytest", "-q", "-p", "no:cacheprovider", "--timeout=900", "-q", "-x", "--deselect",
                            "tests/test_create_pyi.py::test_create_stub_using_script"], cwd=wt,
                           env=dict(os.environ, PYTHONPATH=wt), timeout=1800)
            tail = outt.strip().splitlines()[-1] if outt.strip() else ""
            status = {"applies": True, "demo_exit_clean": rc0, "demo_exit_patched": rc1, "tests": tail,
                      "valid": rc0 == 0 and rc1 == 1 and rct == 0}
        status["head"] = sh(["git", "-C", "/repo", "rev-parse", "--short", "HEAD"])[1].strip()
        meta["reconfirmed"] = status
        json.dump(meta, open(os.path.join(d, "meta.json"), "w"), indent=1)
        print(seed, status)
    finally:
        drop_worktree(wt)


def own_checks(verif):
    return sorted("C" + re.match(r"c(\d+)\.py", f).group(1) for f in os.listdir(os.path.join(verif, "harness/props"))
                  if re.match(r"c\d+\.py", f))


def run(seed, checks, tier, verif, via_repo, seedenv):
    d = os.path.join(SEEDED, seed)
    meta = json.load(open(os.path.join(d, "meta.json")))
    avail = own_checks(verif)
    if checks == "own":
        todo = [meta["property"]] if meta["property"] in avail else []
    elif checks == "all":
        todo = avail
    else:
        todo = [c for c in checks.split(",") if c in avail]
    patch = os.path.join(d, "patch.diff")
    if via_repo:
        rc, out = sh(["git", "-C", "/repo", "apply", patch]); assert rc == 0, out
        repo = "/repo"
    else:
        repo = worktree(f"/tmp/sr_{seed}")
        rc, out = sh(["git", "apply", patch], cwd=repo); assert rc == 0, out
    res_path = os.path.join(d, "results.json")
    results = json.load(open(res_path)) if os.path.exists(res_path) else {}
    try:
        for c in todo:
            env = dict(os.environ, VERIF_REPO=repo, VERIF_SEED=str(seedenv))
            rc, out = sh(["./check", c, "--tier", tier], cwd=verif, env=env, timeout=3600)
            viol = [l for l in out.splitlines() if l.startswith("VIOLATION")]
            replay_what = None
            if viol:
                m = re.search(r"replay=(\S+)", viol[0])
                if m:
                    try:
                        r = json.load(open(os.path.join(verif, m.group(1))))
                        replay_what = (r.get("key") or r.get("what") or r.get("reason") or "")
                        if isinstance(replay_what, str):
                            replay_what = replay_what[:300]
                    except Exception:
                        pass
            results[f"{c}:{tier}"] = {"exit": rc, "violation": viol[0] if viol else None, "replay_key": replay_what,
                                     "mode": "via-repo" if via_repo else "VERIF_REPO", "seed": seedenv}
            print(seed, c, tier, "exit", rc, viol[0] if viol else "", "|", replay_what)
            json.dump(results, open(res_path, "w"), indent=1)
    finally:
        if via_repo:
            sh(["git", "-C", "/repo", "checkout", "--", "."])
        else:
            drop_worktree(repo)


def table():
    rows = []

    def nat(s):
        m = re.match(r"C(\d+)-(\d+)", s)
        return (int(m.group(1)), int(m.group(2))) if m else (99, 0)
    for s in sorted(os.listdir(SEEDED), key=nat):
        mp = os.path.join(SEEDED, s, "meta.json")
        if not os.path.exists(mp):
            continue
        m = json.load(open(mp))
        rp = os.path.join(SEEDED, s, "results.json")
        r = json.load(open(rp)) if os.path.exists(rp) else {}
        caught = sorted({k.split(":")[0] for k, v in r.items() if v["exit"] == 1 and v["violation"]})

        def how(v):
            if v["exit"] == 1:
                return "caught" + (" (no-failing-input-found)" if "no-failing-input-found" in (v.get("violation") or "") else "")
            return "MISSED (exit %s)" % v["exit"]
        own = [f"{k.split(':')[1]}: {how(v)}" for k, v in r.items() if k.split(":")[0] == m["property"]]
        rc = m.get("reconfirmed") or {}
        note = ""
        if rc and rc.get("valid") is False:
            note = ("superseded at /repo %s (%s); last result on the tree it applied to: "
                    % (rc.get("head", "?"), "patch no longer applies" if rc.get("applies") is False
                       else "no longer breaks the property"))
        rows.append(f"| {s} | {(m.get('summary') or '')[:110]} | {note}{'; '.join(own)} | {' '.join(caught)} |")
    print("| seed | change | own check | caught by |\n|---|---|---|---|")
    print("\n".join(rows))


if __name__ == "__main__":
    ap = argparse.ArgumentParser()
    sub = ap.add_subparsers(dest="cmd")
    a = sub.add_parser("confirm"); a.add_argument("outdir"); a.add_argument("prop")
    b = sub.add_parser("run"); b.add_argument("seed"); b.add_argument("--checks", default="own")
    b.add_argument("--tier", default="quick"); b.add_argument("--verif", default=HERE)
    b.add_argument("--via-repo", action="store_true"); b.add_argument("--seedenv", default="0")
    sub.add_parser("table")
    r = sub.add_parser("reconfirm"); r.add_argument("seed")
    args = ap.parse_args()
    if args.cmd == "confirm":
        confirm(args.outdir, args.prop)
    elif args.cmd == "run":
        seeds = sorted(os.listdir(SEEDED)) if args.seed == "all" else [args.seed]
        for s in seeds:
            if os.path.exists(os.path.join(SEEDED, s, "meta.json")):
                run(s, args.checks, args.tier, args.verif, args.via_repo, args.seedenv)
    elif args.cmd == "table":
        table()
    elif args.cmd == "reconfirm":
        reconfirm(args.seed)
