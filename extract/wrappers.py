"""
(T) Wrappers table: for each typed collection wrapper (`_ListStruct`, `_DictStruct`, `_DequeStruct`
in typedpy/fields/collections_impl.py) and EVERY mutating member of its native base type
(found by probing list/dict/deque on scratch objects, not from a hand list), how the wrapper
treats it: overridden? immutability guard? routes a mutated copy through
`setattr(self._instance, <field name>, copied)` (i.e. full re-validation)? calls the native
mutator on `self` via `super()`?  Read off the AST of the working tree.

Also the accessor table: every non-mutating member of the native types that can hand out
references to the payload, and whether the wrapper overrides it.
"""
import ast
import collections
import copy
import os

from .common import repo_root, write_if_changed, lean_str, lean_bool

NATIVE = {"list": list, "dict": dict, "deque": collections.deque}
WRAPPER_CLASS = {"list": "_ListStruct", "dict": "_DictStruct", "deque": "_DequeStruct"}

CANNED_ARGS = [(), (0,), (1,), ([7],), (0, 7), ("k",), ("k", 7), ({"z": 1},), (slice(0, 1),), (2,), ([("z", 1)],)]


def _scratch(kind):
    if kind == "list":
        return [3, 1, 2]
    if kind == "dict":
        return {"k": 1, "j": 2}
    return collections.deque([3, 1, 2])


def native_mutators(kind):
    """names of members of the native type that can change the object's content"""
    t = NATIVE[kind]
    out = []
    for name in sorted(dir(t)):
        if name in ("__init__", "__new__", "__class__", "__init_subclass__", "__subclasshook__", "__setattr__",
                    "__delattr__", "__reduce__", "__reduce_ex__", "__getstate__", "__setstate__", "__sizeof__",
                    "__dir__", "__getattribute__", "__class_getitem__", "__format__", "__repr__", "__str__",
                    "__hash__", "__doc__"):
            continue
        member = getattr(t, name)
        if not callable(member):
            continue
        mutates = False
        for args in CANNED_ARGS:
            obj = _scratch(kind)
            before = copy.deepcopy(obj)
            try:
                getattr(obj, name)(*args)
            except Exception:
                pass
            if obj != before or list(obj) != list(before):
                mutates = True
                break
        if mutates:
            out.append(name)
    return out


def native_accessors(kind):
    """non-mutating public members (candidates for handing out payload references)"""
    t = NATIVE[kind]
    muts = set(native_mutators(kind))
    keep = []
    for name in sorted(dir(t)):
        if name in muts:
            continue
        if name in ("__getitem__", "__iter__", "__reversed__", "__add__", "__mul__", "__rmul__", "__or__", "__ror__",
                    "copy", "__copy__", "get", "items", "values", "keys", "index", "count", "__contains__", "__len__"):
            keep.append(name)
    return keep


def _is_super_call(node, names):
    """node is `super().<name>(...)` for name in names"""
    return (isinstance(node, ast.Call) and isinstance(node.func, ast.Attribute) and node.func.attr in names
            and isinstance(node.func.value, ast.Call) and isinstance(node.func.value.func, ast.Name)
            and node.func.value.func.id == "super")


def _is_guard(node):
    return (isinstance(node, ast.Call) and isinstance(node.func, ast.Attribute)
            and node.func.attr == "_raise_if_immutable")


def _is_reassign(node):
    """setattr(self._instance, <anything>, <value>)"""
    if not (isinstance(node, ast.Call) and isinstance(node.func, ast.Name) and node.func.id == "setattr"
            and len(node.args) == 3):
        return False
    tgt = node.args[0]
    return isinstance(tgt, ast.Attribute) and tgt.attr == "_instance"


def _is_instance_test(node):
    """getattr(self, "_instance", None) used as a truth test"""
    return (isinstance(node, ast.Call) and isinstance(node.func, ast.Name) and node.func.id == "getattr"
            and len(node.args) >= 2 and isinstance(node.args[1], ast.Constant) and node.args[1].value == "_instance")


def _cond_reassign(fn):
    """every re-assignment in fn sits under `if getattr(self, "_instance", None):`"""
    guarded, total = 0, 0
    for node in ast.walk(fn):
        if isinstance(node, ast.Call) and _is_reassign(node):
            total += 1
    for node in ast.walk(fn):
        if isinstance(node, ast.If) and _is_instance_test(node.test):
            guarded += sum(1 for n in ast.walk(node) if isinstance(n, ast.Call) and _is_reassign(n))
    return total > 0 and guarded == total


def _self_method_calls(fn):
    """names of methods invoked on `self` (delegation to another override)"""
    out = set()
    for node in ast.walk(fn):
        if (isinstance(node, ast.Call) and isinstance(node.func, ast.Attribute)
                and isinstance(node.func.value, ast.Name) and node.func.value.id == "self"):
            out.add(node.func.attr)
        if isinstance(node, ast.Subscript) and isinstance(node.value, ast.Name) and node.value.id == "self" \
                and isinstance(node.ctx, (ast.Store, ast.Del)):
            out.add("__setitem__" if isinstance(node.ctx, ast.Store) else "__delitem__")
    return out


def analyse():
    path = os.path.join(repo_root(), "typedpy", "fields", "collections_impl.py")
    tree = ast.parse(open(path, encoding="utf-8").read())
    classes = {n.name: n for n in tree.body if isinstance(n, ast.ClassDef)}
    rows, acc_rows = [], []
    for kind in ("list", "dict", "deque"):
        cls = classes.get(WRAPPER_CLASS[kind])
        methods = {n.name: n for n in (cls.body if cls else []) if isinstance(n, ast.FunctionDef)}
        muts = native_mutators(kind)
        facts = {}
        for m in muts:
            fn = methods.get(m)
            if fn is None:
                facts[m] = dict(overridden=False, guard=False, reassign=False, superCall=False, delegates=[], cond=False)
                continue
            calls = [n for n in ast.walk(fn) if isinstance(n, ast.Call)]
            facts[m] = dict(
                overridden=True,
                guard=any(_is_guard(c) for c in calls),
                reassign=any(_is_reassign(c) for c in calls),
                superCall=any(_is_super_call(c, set(muts)) for c in calls),
                delegates=sorted(_self_method_calls(fn) & set(muts)),
                cond=_cond_reassign(fn),
            )
        # a method that only delegates to other safe overrides inherits their guard / reassign
        changed = True
        while changed:
            changed = False
            for m, f in facts.items():
                if f["overridden"] and not f["reassign"] and f["delegates"] and not f["superCall"]:
                    if all(facts[d]["reassign"] for d in f["delegates"]):
                        f["reassign"] = True
                        f["guard"] = f["guard"] or all(facts[d]["guard"] for d in f["delegates"])
                        changed = True
        for m in muts:
            rows.append((kind, m, facts[m]))
        for a in native_accessors(kind):
            acc_rows.append((kind, a, a in methods))
    return rows, acc_rows


def nested_bound():
    """are typed wrappers nested inside another wrapper bound to their parent (a nested mutation re-assigns and so
    re-validates the owning field), or to the scratch Structure() their parent was validated on (today)?  Probed on
    the real code for the three wrapper kinds; `True` only if every probe rejects an ill-typed nested mutation and
    leaves the instance unchanged."""
    try:
        import typedpy as T
        A = type("NbProbe", (T.Structure,), {"n": T.Array[T.Array[T.Integer]], "d": T.Array[T.Deque[T.Integer]],
                                              "m": T.Array[T.Map[T.String, T.Integer]], "_required": []})
        verdicts = []
        for f, val, call in (("n", [[1]], lambda w: w.append("bad")),
                             ("d", [collections.deque([1])], lambda w: w.appendleft("bad")),
                             ("m", [{"a": 1}], lambda w: w.__setitem__("b", "bad"))):
            x = A(**{f: val})
            before = str(x)
            try:
                call(getattr(x, f)[0])
                verdicts.append(False)
            except (TypeError, ValueError):
                verdicts.append(str(x) == before)
        return all(verdicts)
    except Exception:
        return False


def nested_deep_immutable():
    """does a typed wrapper at nesting depth 3 of an ImmutableStructure refuse its mutators?  (The first version of the
    nested-wrapper repair left deep-copied wrappers - an immutable owner deep-copies what it stores - bound to the stand-in
    owner of their original: such a wrapper acts on a copy and does not raise.  Harmless for C04, but the machine says
    `raises`; the generators leave that corner out while the probe says no.)"""
    try:
        import typedpy as T
        I = type("NdProbe", (T.ImmutableStructure,), {"w": T.Array[T.Map[T.String, T.Array[T.Integer]]]})
        i = I(w=[{"a": [1]}])
        try:
            i.w[0]["a"].append(2)
            return False
        except ValueError:
            return True
    except Exception:
        return False


def delitem_hook():
    """does `del x[f]` run the class's __validate__ hook (and restore the instance when it raises)?  Probed."""
    try:
        import typedpy as T

        def __validate__(self):
            if self.__dict__.get("a") is None:
                raise ValueError("a is needed")
        P = type("DhProbe", (T.Structure,), {"a": T.Integer, "b": T.Integer, "_required": [], "__validate__": __validate__})
        x = P(a=1, b=2)
        before = str(x)
        try:
            del x["a"]
            return False
        except ValueError:
            return str(x) == before
    except Exception:
        return False


def render(rows, acc_rows):
    lines = ["/- GENERATED by extract/wrappers.py from typedpy/fields/collections_impl.py — do not edit. -/",
             "import TypedpyModel.Core.Tables", "namespace Typedpy.Generated", "",
             "def wrappers : List MethodRec := ["]
    items = []
    for kind, m, f in rows:
        items.append(f"  {{ wrapper := {lean_str(kind)}, method := {lean_str(m)}, overridden := {lean_bool(f['overridden'])}, "
                     f"guard := {lean_bool(f['guard'])}, reassign := {lean_bool(f['reassign'])}, "
                     f"superCall := {lean_bool(f['superCall'])}, condInstance := {lean_bool(f.get('cond', False))} }}")
    lines.append(",\n".join(items))
    lines += ["]", "", "def accessors : List AccessorRec := ["]
    lines.append(",\n".join(f"  {{ wrapper := {lean_str(k)}, method := {lean_str(a)}, overridden := {lean_bool(o)} }}"
                            for k, a, o in acc_rows))
    lines += ["]", "", "/-- nested typed wrappers re-assign (re-validate) their parent: probed on the real code -/",
              f"def nestedBound : Bool := {lean_bool(nested_bound())}", "",
              "/-- `Structure.__delitem__` runs the class's `__validate__` hook and rolls back: probed on the real code -/",
              f"def delitemHook : Bool := {lean_bool(delitem_hook())}", "", "end Typedpy.Generated", ""]
    return "\n".join(lines)


def generate():
    rows, acc_rows = analyse()
    changed = write_if_changed("Wrappers.lean", render(rows, acc_rows))
    return rows, acc_rows, changed


if __name__ == "__main__":
    rows, acc, changed = generate()
    for kind, m, f in rows:
        print(kind, m, f)
    print("accessors:", acc)
    print("changed:", changed)
