"""
(T) translator for C20: scan the working tree of typedpy (VERIF_REPO, default /repo) with `ast` for every site
that writes state shared by all instances of a class (hence by all threads) while validating / assigning /
serializing:

  * an attribute of a Field object reachable from a class:  `setattr(<field expr>, "<attr>", v)`,
    `<field expr>.<attr> = v`, `self.<attr> = v` inside a method of a Field class (outside definition-time methods);
  * an entry of a module-level dict cache:  `CACHE[k] = v` inside a function.

and regenerate lean/TypedpyModel/Generated/SharedWrites.lean (a Lean list of records).  The file is written only
when its content changes.  `scan()` additionally returns line-level detail used by the `sched` harness suite to
recognise write / store / read-back events of a site function.
"""
import ast
import json
import os
import sys

ROOT = os.path.dirname(os.path.dirname(os.path.abspath(__file__)))
OUT = os.path.join(ROOT, "lean", "TypedpyModel", "Generated", "SharedWrites.lean")

# methods that only run while a class / field is being *defined* (single-threaded import time), or that copy /
# unpickle an object that is not yet shared
DEFINITION_TIME = {
    "__init__", "__new__", "__set_name__", "__init_subclass__", "__setstate__", "__getstate__", "__deepcopy__",
    "__copy__", "__getitem__", "__class_getitem__", "_try_default_value", "_set_immutable", "init_array_like",
    "__prepare__",
}
SCAN_DIRS = ["typedpy/fields", "typedpy/structures", "typedpy/serialization", "typedpy"]


def repo_dir():
    return os.environ.get("VERIF_REPO", "/repo")


def py_files(repo):
    """every module of the package: the listed directories first (stable row order), then every other sub-package"""
    seen = []
    dirs = [os.path.join(repo, d) for d in SCAN_DIRS]
    for base, sub, _ in os.walk(os.path.join(repo, "typedpy")):
        sub.sort()
        if base not in dirs and "__pycache__" not in base:
            dirs.append(base)
    for full in dirs:
        if not os.path.isdir(full):
            continue
        for n in sorted(os.listdir(full)):
            p = os.path.join(full, n)
            if n.endswith(".py") and os.path.isfile(p) and p not in seen:
                seen.append(p)
    return seen


def names_in(node):
    return {n.id for n in ast.walk(node) if isinstance(n, ast.Name)}


def root_name(e):
    while isinstance(e, (ast.Attribute, ast.Subscript, ast.Call)):
        e = e.value if not isinstance(e, ast.Call) else e.func
    return e.id if isinstance(e, ast.Name) else None


def field_classes(trees):
    """class names that are Field classes (transitively, by simple base name) or mixed into one"""
    bases = {}
    for tree in trees.values():
        for n in ast.walk(tree):
            if isinstance(n, ast.ClassDef):
                bs = []
                for b in n.bases:
                    if isinstance(b, ast.Name):
                        bs.append(b.id)
                    elif isinstance(b, ast.Attribute):
                        bs.append(b.attr)
                bases.setdefault(n.name, set()).update(bs)
    fieldish = {"Field"}
    changed = True
    while changed:
        changed = False
        for c, bs in bases.items():
            if c not in fieldish and bs & fieldish:
                fieldish.add(c)
                changed = True
    mixins = set()
    for c in list(fieldish):
        for b in bases.get(c, ()):  # mixins of field classes
            if b not in fieldish and b in bases:
                mixins.add(b)
    return fieldish | mixins


class FuncScan:
    """per-function analysis: which names denote shared field objects, which names carry per-call data"""

    def __init__(self, fn, in_field_class, fclasses=()):
        self.fn = fn
        self.fclasses = set(fclasses)
        args = fn.args
        params = [a.arg for a in args.posonlyargs + args.args + args.kwonlyargs]
        if args.vararg:
            params.append(args.vararg.arg)
        if args.kwarg:
            params.append(args.kwarg.arg)
        self.has_self = "self" in params
        self.is_field_ctx = self.has_self and (in_field_class or "self" in [a.arg for a in args.kwonlyargs])
        self.tainted = {p for p in params if p not in ("self", "cls")}
        self.fieldish = {"self"} if self.is_field_ctx else set()
        # a function that is handed a Field object: a parameter called *field*, or any name the function tests with
        # isinstance(name, <Field class>)  (e.g. deserialize_single_field(field, ...): isinstance(field, SerializableField))
        self.fieldish |= {p for p in params if "field" in p.lower() and p not in ("self", "cls")
                          and not p.lower().endswith(("name", "names", "by_name"))}
        for n in ast.walk(fn):
            if isinstance(n, ast.Call) and isinstance(n.func, ast.Name) and n.func.id == "isinstance" and len(n.args) == 2 \
                    and isinstance(n.args[0], ast.Name):
                cs = n.args[1].elts if isinstance(n.args[1], ast.Tuple) else [n.args[1]]
                names = {c.id for c in cs if isinstance(c, ast.Name)}
                if names & self.fclasses:
                    self.fieldish.add(n.args[0].id)
        self.tainted -= {p for p in self.fieldish if p in params}   # the Field object itself is not per-call data
        self._fix()

    def _assignments(self):
        for n in ast.walk(self.fn):
            if isinstance(n, ast.Assign):
                for t in n.targets:
                    yield t, n.value
            elif isinstance(n, ast.AnnAssign) and n.value is not None:
                yield n.target, n.value
            elif isinstance(n, ast.AugAssign):
                yield n.target, n.value
            elif isinstance(n, (ast.For, ast.comprehension)):
                yield n.target, n.iter
            elif isinstance(n, ast.NamedExpr):
                yield n.target, n.value

    def _fix(self):
        changed = True
        while changed:
            changed = False
            for tgt, val in self._assignments():
                tn = {n.id for n in ast.walk(tgt) if isinstance(n, ast.Name)} if not isinstance(tgt, ast.Name) else {tgt.id}
                if isinstance(tgt, (ast.Attribute, ast.Subscript)):
                    continue
                vn = names_in(val)
                if vn & self.tainted and not tn <= self.tainted:
                    self.tainted |= tn
                    changed = True
                # a name bound from an expression rooted at a field object denotes (part of) a field object
                r = root_name(val)
                if isinstance(val, ast.Call) and isinstance(val.func, ast.Name) and val.func.id in ("enumerate", "zip", "list", "tuple", "reversed") and val.args:
                    r = root_name(val.args[0])
                if isinstance(val, ast.Call) and isinstance(val.func, ast.Name) and val.func.id == "getattr" and val.args:
                    r = root_name(val.args[0])      # getattr(f, "attr", default): (part of) the field object
                if isinstance(val, (ast.ListComp, ast.SetComp, ast.GeneratorExp)):
                    r = root_name(val.elt)          # options = [f for f in self.get_fields() if ..]
                if isinstance(val, (ast.IfExp,)):
                    r = root_name(val.body)
                if isinstance(val, ast.BinOp):
                    r = root_name(val.left)
                if isinstance(val, (ast.Tuple, ast.List)) and val.elts:
                    r = root_name(val.elts[0])
                if r not in self.fieldish and isinstance(val, (ast.Tuple, ast.List)) and not isinstance(tgt, ast.Name):
                    # for suffix, sub in (("_key", key_field), ("_value", value_field)): a literal that mentions field objects
                    hit = [x for x in ast.walk(val) if isinstance(x, ast.Name) and x.id in self.fieldish]
                    if hit:
                        r = hit[0].id
                if r in self.fieldish and not tn <= self.fieldish:
                    rooted_at_instance = any(isinstance(x, ast.Attribute) and x.attr in ("_instance",) for x in ast.walk(val))
                    if not rooted_at_instance:
                        self.fieldish |= tn
                        changed = True

    def container_aliases(self):
        """local names bound to a container reached THROUGH a field object: `x = getattr(f, "_reg", ..)`, `y = x[k]`"""
        out = set()
        changed = True
        while changed:
            changed = False
            for tgt, val in self._assignments():
                if not isinstance(tgt, ast.Name) or tgt.id in out:
                    continue
                via_getattr = isinstance(val, ast.Call) and isinstance(val.func, ast.Name) and val.func.id == "getattr" \
                    and val.args and root_name(val.args[0]) in self.fieldish
                via_alias = isinstance(val, ast.Subscript) and isinstance(val.value, ast.Name) and val.value.id in out
                if via_getattr or via_alias:
                    out.add(tgt.id)
                    changed = True
        return out

    def is_field_expr(self, e):
        r = root_name(e)
        if r is None or r not in self.fieldish:
            return False
        if any(isinstance(x, ast.Attribute) and x.attr == "_instance" for x in ast.walk(e)):
            return False
        if any(isinstance(x, ast.Attribute) and x.attr == "__dict__" for x in ast.walk(e)):
            return False
        return True

    def value_kind(self, v):
        if names_in(v) - _lambda_params(v) & self.tainted:
            return "perCall"
        derived = set()     # local names holding (something computed from) a scratch `_name`
        for tgt, val in self._assignments():
            if isinstance(tgt, ast.Name) and any(isinstance(x, ast.Attribute) and x.attr == "_name" for x in ast.walk(val)):
                derived.add(tgt.id)
        for x in ast.walk(v):
            if isinstance(x, ast.Attribute) and x.attr == "_name":
                return "ownerName"
            if isinstance(x, ast.Name) and x.id in derived:
                return "ownerName"
        return "definitionOnly"


def _lambda_params(v):
    out = set()
    for x in ast.walk(v):
        if isinstance(x, ast.Lambda):
            out |= {a.arg for a in x.args.args}
        if isinstance(x, ast.comprehension):
            out |= names_in(x.target)
    return out


def _same_collection(fn, loopvar, expr):
    """does `expr` subscript the collection that the loop variable `loopvar` iterates over?  (for field in C: ... C[0])"""
    if not isinstance(expr, ast.Subscript):
        return False
    for n in ast.walk(fn):
        if isinstance(n, ast.For) and isinstance(n.target, ast.Name) and n.target.id == loopvar:
            it = n.iter
            if isinstance(it, ast.Call) and isinstance(it.func, ast.Name) and it.func.id in ("enumerate", "list", "tuple") and it.args:
                it = it.args[0]
            if ast.unparse(it) == ast.unparse(expr.value):
                return True
    return False


def _span(node):
    return [node.lineno, node.col_offset, node.end_lineno, node.end_col_offset]


def _mentions_attr(val, obj, attr):
    """does the expression read `<obj>.<attr>` (or getattr(<obj>, "<attr>"))?"""
    o = ast.unparse(obj)
    for x in ast.walk(val):
        if isinstance(x, ast.Attribute) and x.attr == attr and ast.unparse(x.value) == o:
            return True
        if isinstance(x, ast.Call) and isinstance(x.func, ast.Name) and x.func.id == "getattr" and len(x.args) >= 2 \
                and _const_str(x.args[1]) == attr and ast.unparse(x.args[0]) == o:
            return True
    return False


def _guarded_by_membership(fn, stmt, name):
    """is the store `name[k] = v` preceded in the function by a test of `name` (`k in name`, `name.get(k ..)`)?"""
    for n in ast.walk(fn):
        if getattr(n, "lineno", 10 ** 9) > stmt.lineno:
            continue
        if isinstance(n, ast.Compare) and any(isinstance(o, (ast.In, ast.NotIn)) for o in n.ops) and \
                any(isinstance(c, ast.Name) and c.id == name for c in n.comparators):
            return True
        if isinstance(n, ast.Call) and isinstance(n.func, ast.Attribute) and n.func.attr == "get" and \
                isinstance(n.func.value, ast.Name) and n.func.value.id == name:
            return True
    return False


def _dict_of(e):
    """`f` for the expressions `f.__dict__` and `vars(f)`"""
    if isinstance(e, ast.Attribute) and e.attr == "__dict__":
        return e.value
    if isinstance(e, ast.Call) and isinstance(e.func, ast.Name) and e.func.id == "vars" and len(e.args) == 1:
        return e.args[0]
    return None


def _const_str(n):
    return n.value if isinstance(n, ast.Constant) and isinstance(n.value, str) else None


def scan(repo=None):
    repo = repo or repo_dir()
    trees = {}
    for p in py_files(repo):
        try:
            trees[p] = ast.parse(open(p, encoding="utf-8").read())
        except SyntaxError:
            continue
    fclasses = field_classes(trees)
    rows = []
    for path, tree in trees.items():
        rel = os.path.relpath(path, repo)
        module_dicts = set()
        for n in tree.body:
            if isinstance(n, ast.Assign) and len(n.targets) == 1 and isinstance(n.targets[0], ast.Name):
                v = n.value
                if isinstance(v, ast.Dict) or (isinstance(v, ast.Call) and isinstance(v.func, ast.Name)
                                               and v.func.id in ("dict", "defaultdict", "OrderedDict")):
                    module_dicts.add(n.targets[0].id)

        def visit(body, cls, cls_node=None):
            for n in body:
                if isinstance(n, ast.ClassDef):
                    visit(n.body, n.name, n)
                elif isinstance(n, (ast.FunctionDef, ast.AsyncFunctionDef)):
                    scan_fn(n, cls, cls_node)

        def scan_fn(fn, cls, cls_node=None):
            if fn.name in DEFINITION_TIME:
                return
            qual = f"{cls}.{fn.name}" if cls else fn.name
            fs = FuncScan(fn, cls in fclasses, fclasses)
            writes = []
            rmw_lines = set()
            atomic_lines = set()
            for n in ast.walk(fn):
                if isinstance(n, ast.Call) and len(n.args) == 3 and (
                        (isinstance(n.func, ast.Name) and n.func.id == "setattr") or
                        (isinstance(n.func, ast.Attribute) and n.func.attr == "__setattr__")):
                    # setattr(f, "a", v) / object.__setattr__(f, "a", v) / super().__setattr__ is 2-ary (not here);
                    # a computed attribute name is recorded as <dynamic>
                    attr = _const_str(n.args[1])
                    if fs.is_field_expr(n.args[0]):
                        writes.append((n.lineno, n.args[0], attr if attr is not None else "<dynamic>", n.args[2], n))
                elif isinstance(n, ast.Call) and isinstance(n.func, ast.Attribute) and n.func.attr in _MUTATORS \
                        and isinstance(n.func.value, ast.Attribute) and fs.is_field_expr(n.func.value.value):
                    # f.attr.append(x) / f.attr.setdefault(k, v) / f.attr.update(..): a container hanging off a shared Field
                    val = n.args[-1] if n.args else ast.Constant(value=None)
                    writes.append((n.lineno, n.func.value.value, n.func.value.attr, val, n))
                    if n.func.attr != "setdefault":
                        rmw_lines.add(n.lineno)
                elif isinstance(n, ast.Call) and isinstance(n.func, ast.Attribute) and n.func.attr in _MUTATORS \
                        and isinstance(n.func.value, ast.Name) and n.func.value.id in fs.container_aliases():
                    # d = getattr(f, "_registry", ..)[k] ... d.setdefault(h, v) / d.update(..): through a local alias
                    val = n.args[-1] if n.args else ast.Constant(value=None)
                    writes.append((n.lineno, n.func.value, "<container>", val, n))
                    if n.func.attr == "setdefault":
                        atomic_lines.add(n.lineno)      # test and store in ONE dict operation
                    elif _guarded_by_membership(fn, n, n.func.value.id):
                        rmw_lines.add(n.lineno)
                elif isinstance(n, (ast.Assign, ast.AugAssign, ast.AnnAssign)):
                    tgts = n.targets if isinstance(n, ast.Assign) else [n.target]
                    val = n.value
                    if val is None:
                        continue
                    for t in tgts:
                        if isinstance(t, ast.Attribute) and fs.is_field_expr(t.value):
                            writes.append((n.lineno, t.value, t.attr, val, t))
                            if isinstance(n, ast.AugAssign) or _mentions_attr(val, t.value, t.attr):
                                rmw_lines.add(n.lineno)     # x.a += 1 / x.a = x.a + 1: read-modify-write
                        elif isinstance(t, ast.Subscript) and _dict_of(t.value) is not None and fs.is_field_expr(_dict_of(t.value)):
                            # f.__dict__["a"] = v / vars(f)["a"] = v
                            a = _const_str(t.slice)
                            writes.append((n.lineno, _dict_of(t.value), a if a is not None else "<dynamic>", val, t))
                        elif isinstance(t, ast.Subscript) and isinstance(t.value, ast.Name) and t.value.id in fs.fieldish \
                                and t.value.id not in ("self", "cls") and t.value.id in fs.container_aliases():
                            # d = getattr(f, "_registry", ..)[k] ... d[h] = v: an entry of a container hanging off a shared Field
                            writes.append((n.lineno, t.value, "<container>", val, t))
                            if _guarded_by_membership(fn, n, t.value.id):
                                rmw_lines.add(n.lineno)     # `if h not in d: d[h] = v` / `d.get(h) ... d[h] = v`: check-then-act
                        elif isinstance(t, ast.Subscript) and isinstance(t.value, ast.Attribute) and fs.is_field_expr(t.value.value) \
                                and t.value.attr != "__dict__":
                            # f.attr[k] = v: an entry of a container hanging off a shared Field object
                            writes.append((n.lineno, t.value.value, t.value.attr, val, t))
                            if isinstance(n, ast.AugAssign) or _mentions_attr(val, t.value.value, t.value.attr):
                                rmw_lines.add(n.lineno)
                        elif isinstance(t, ast.Subscript) and isinstance(t.value, ast.Name) and t.value.id in module_dicts:
                            rmw = isinstance(n, ast.AugAssign) or any(
                                isinstance(x, ast.Name) and x.id == t.value.id for x in ast.walk(val))
                            rows.append({"path": rel, "file": os.path.basename(rel), "func": qual, "attr": t.value.id,
                                         "target": "<module>", "readBack": True,
                                         "valueKind": "readModifyWrite" if rmw else
                                         "publishedIncomplete" if _mutated_after_publish(fn, n, t, tgts)
                                         else "keyedCache",
                                         "line": n.lineno, "events": {}, "first_line": _first_line(fn), "last_line": fn.end_lineno})
            for lineno, tgt, attr, val, wnode in writes:
                tgt_s = ast.unparse(tgt)
                # read back: the same function later hands the object to `<tgt>.__set__(..)` (which stores under
                # and reports errors with that attribute) or reads `getattr(<tgt>, attr)` / `<tgt>.<attr>`
                # "ops": the same events at BYTECODE granularity - the source span of the node whose instruction (CALL /
                # STORE_ATTR / STORE_SUBSCR) performs the access
                events = {"W": lineno, "S": [], "R": [], "N": [], "spans": _stmt_spans(fn), "ops": [["W"] + _span(wnode)]}
                read_back = False
                rhs_nodes = set()
                for st in ast.walk(fn):
                    if isinstance(st, ast.Assign):
                        rhs_nodes |= {id(x) for x in ast.walk(st.value)}
                    if isinstance(st, ast.Assign) and isinstance(st.value, ast.Call) and \
                            isinstance(st.value.func, ast.Name) and st.value.func.id == "Structure" and \
                            st.lineno not in events["N"]:
                        events["N"].append(st.lineno)
                        events["ops"].append(["N"] + _span(st.value))
                # local names bound to the very object (`matched = field`): handing THEM to `__set__` reads the attribute too
                aliases = {tgt_s}
                for st in ast.walk(fn):
                    if isinstance(st, ast.Assign) and ast.unparse(st.value) == tgt_s:
                        aliases |= {t.id for t in st.targets if isinstance(t, ast.Name)}
                for m in ast.walk(fn):
                    if isinstance(m, ast.Call):
                        if (isinstance(m.func, ast.Attribute) and m.func.attr == "__set__"
                                and ast.unparse(m.func.value) == tgt_s):
                            read_back = True
                            if _stmt_line(fn, m) not in events["S"]:
                                events["S"].append(_stmt_line(fn, m))
                            events["ops"].append(["S"] + _span(m))
                        elif (isinstance(m.func, ast.Attribute) and m.func.attr == "__set__"
                              and ast.unparse(m.func.value) in aliases):
                            # `matched = field` ... `matched.__set__(instance, value)`: the alias names the object (the loop
                            # variable may have moved on), so the event carries the alias as its own target expression
                            read_back = True
                            events.setdefault("Sx", []).append([_stmt_line(fn, m), ast.unparse(m.func.value)] + _span(m))
                        elif (isinstance(m.func, ast.Attribute) and m.func.attr == "__set__"
                              and ast.unparse(m.func.value) != "super()" and fs.is_field_expr(m.func.value)
                              and isinstance(tgt, ast.Name) and _same_collection(fn, tgt.id, m.func.value)):
                            # another expression for one of the objects the loop variable ranges over
                            # (`self.get_fields()[0].__set__(instance, value)`): an S event with its OWN target expression
                            read_back = True
                            events.setdefault("Sx", []).append([_stmt_line(fn, m), ast.unparse(m.func.value)] + _span(m))
                        if (isinstance(m.func, ast.Name) and m.func.id == "getattr" and len(m.args) >= 2
                                and _const_str(m.args[1]) == attr and ast.unparse(m.args[0]) == tgt_s):
                            read_back = True
                            # evaluation order inside one statement: right-hand side of an assignment first
                            events["R"].append([_stmt_line(fn, m), [0 if id(m) in rhs_nodes else 1, m.lineno, m.col_offset]])
                            events["ops"].append(["R"] + _span(m))
                    elif isinstance(m, ast.Attribute) and isinstance(m.ctx, ast.Load) and m.attr == attr \
                            and ast.unparse(m.value) == tgt_s and tgt_s != "self":
                        read_back = True
                if tgt_s == "self" and cls_node is not None:
                    # another method of the class reads the attribute back (e.g. _validate() leaves it, __set__ uses it)
                    read_back = read_back or any(
                        isinstance(m, ast.Attribute) and isinstance(m.ctx, ast.Load) and m.attr == attr
                        and isinstance(m.value, ast.Name) and m.value.id == "self"
                        for g in cls_node.body if isinstance(g, (ast.FunctionDef, ast.AsyncFunctionDef)) and g is not fn
                        for m in ast.walk(g))
                if tgt_s == "self" and not read_back:
                    read_back = any(isinstance(m, ast.Attribute) and isinstance(m.ctx, ast.Load) and m.attr == attr
                                    and ast.unparse(m.value) == "self" for m in ast.walk(fn)) or \
                        any(isinstance(m, ast.Call) and isinstance(m.func, ast.Name) and m.func.id == "getattr"
                            and len(m.args) >= 2 and _const_str(m.args[1]) == attr and ast.unparse(m.args[0]) == "self"
                            for m in ast.walk(fn))
                # the function's reads of ITS OWN `self.<attr>` (and `super().__set__(..)`, which stores / reports under it):
                # shared accesses too when `self` is itself a nested item whose attribute another site rewrites
                wlines = {w[0] for w in writes}
                events["Sself"] = sorted({m.lineno for m in ast.walk(fn)
                                          if ((isinstance(m, ast.Attribute) and isinstance(m.ctx, ast.Load) and m.attr == attr
                                               and isinstance(m.value, ast.Name) and m.value.id == "self")
                                              or (isinstance(m, ast.Call) and isinstance(m.func, ast.Attribute)
                                                  and m.func.attr == "__set__" and ast.unparse(m.func.value) == "super()"))
                                          and m.lineno not in wlines}) if fs.has_self and tgt_s != "self" else []
                rows.append({"path": rel, "file": os.path.basename(rel), "func": qual, "attr": attr, "target": tgt_s,
                             "valueKind": "readModifyWrite" if lineno in rmw_lines else
                             "keyedCache" if lineno in atomic_lines else fs.value_kind(val),
                             "readBack": read_back or lineno in rmw_lines, "line": lineno,
                             "value": ast.unparse(val), "events": events,
                             "first_line": _first_line(fn), "last_line": fn.end_lineno})

        visit(tree.body, None)
    for path, tree in trees.items():
        rows.extend(scan_containers(tree, os.path.relpath(path, repo)))
        rows.extend(scan_memoized(tree, os.path.relpath(path, repo)))
    rows.extend(scan_mode_toggles(trees, repo))
    rows.extend(scan_shared_containers(trees, repo))
    rows.sort(key=lambda r: (r["path"], r["line"]))
    return rows


def scan_shared_containers(trees, repo):
    """entries of MODULE-level dicts written through a method (`D.setdefault(k, v)`, `D.update(..)`) and of CLASS-level
    containers (`Cls.attr[k] = v`, `cls.attr.append(x)`, `self.__class__.attr.add(x)`, `type(self).attr[k] += 1`) written
    while operations run.  A single grow operation is atomic (keyedCache); computing the new content from the old
    (`+=`, `C[k] = C.get(k, 0) + 1`) is a read-modify-write; `setdefault` whose result is then filled is
    publish-before-fill."""
    class_names = set()
    for tree in trees.values():
        class_names |= {n.name for n in ast.walk(tree) if isinstance(n, ast.ClassDef)}
    rows = []

    def class_owner(e):
        """`Cls` / `cls` / `self.__class__` / `type(self)` -> printable owner, else None"""
        if isinstance(e, ast.Name) and (e.id in class_names or e.id == "cls"):
            return e.id
        if isinstance(e, ast.Attribute) and e.attr == "__class__" and isinstance(e.value, ast.Name):
            return ast.unparse(e)
        if isinstance(e, ast.Call) and isinstance(e.func, ast.Name) and e.func.id == "type" and len(e.args) == 1:
            return ast.unparse(e)
        return None

    for path, tree in trees.items():
        rel = os.path.relpath(path, repo)
        module_conts = {n.targets[0].id for n in tree.body if isinstance(n, ast.Assign) and len(n.targets) == 1
                        and isinstance(n.targets[0], ast.Name) and _is_container_expr(n.value)}
        for q, f in _all_functions(tree):
            if f.name in DEFINITION_TIME:
                continue

            def row(attr, target, kind, line):
                rows.append({"path": rel, "file": os.path.basename(rel), "func": q, "attr": attr, "target": target,
                             "valueKind": kind, "readBack": True, "line": line, "events": {},
                             "first_line": _first_line(f), "last_line": f.end_lineno})

            def cont(e):
                """(attr, target) when `e` denotes a module-level container or a class-level attribute"""
                if isinstance(e, ast.Name) and e.id in module_conts:
                    return e.id, "<module>"
                if isinstance(e, ast.Attribute) and class_owner(e.value):
                    return e.attr, class_owner(e.value)
                return None

            for n in ast.walk(f):
                if isinstance(n, ast.Call) and isinstance(n.func, ast.Attribute) and n.func.attr in _GROW and cont(n.func.value):
                    attr, target = cont(n.func.value)
                    if target == "<module>" and n.func.attr not in ("setdefault", "update"):
                        continue        # add / append on module-level containers: scan_containers (transient entries)
                    kind = "keyedCache"
                    if n.func.attr == "setdefault" and _filled_after(f, n):
                        kind = "publishedIncomplete"
                    if any(isinstance(x, (ast.Name, ast.Attribute)) and ast.unparse(x) == ast.unparse(n.func.value)
                           for a in n.args for x in ast.walk(a)):
                        kind = "readModifyWrite"
                    row(attr, target, kind, n.lineno)
                elif isinstance(n, (ast.Assign, ast.AugAssign, ast.AnnAssign)) and n.value is not None:
                    for t in (n.targets if isinstance(n, ast.Assign) else [n.target]):
                        if isinstance(t, ast.Subscript) and cont(t.value) and cont(t.value)[1] != "<module>":
                            attr, target = cont(t.value)
                            rmw = isinstance(n, ast.AugAssign) or any(
                                isinstance(x, ast.Attribute) and ast.unparse(x) == ast.unparse(t.value) for x in ast.walk(n.value))
                            row(attr, target, "readModifyWrite" if rmw else "keyedCache", n.lineno)
                        elif isinstance(t, ast.Attribute) and class_owner(t.value) and isinstance(n, ast.AugAssign):
                            row(t.attr, class_owner(t.value), "readModifyWrite", n.lineno)   # Cls.counter += 1
                        elif isinstance(t, ast.Name) and t.id in module_conts and isinstance(n, ast.AugAssign):
                            row(t.id, "<module>", "readModifyWrite", n.lineno)
    return rows


def _filled_after(fn, call):
    """is the object returned by `C.setdefault(k, <new>)` mutated later in the function?"""
    names = set()
    for st in ast.walk(fn):
        if isinstance(st, ast.Assign) and st.value is call:
            names |= {t.id for t in st.targets if isinstance(t, ast.Name)}
    for n in ast.walk(fn):
        if getattr(n, "lineno", 0) <= call.lineno:
            continue
        if isinstance(n, ast.Call) and isinstance(n.func, ast.Attribute) and n.func.attr in _MUTATORS \
                and isinstance(n.func.value, ast.Name) and n.func.value.id in names:
            return True
        if isinstance(n, (ast.Assign, ast.AugAssign)):
            for t in (n.targets if isinstance(n, ast.Assign) else [n.target]):
                if isinstance(t, (ast.Subscript, ast.Attribute)) and isinstance(t.value, ast.Name) and t.value.id in names:
                    return True
    return False


def scan_memoized(tree, rel):
    """functions memoised by functools (lru_cache / cache): a process-wide cache keyed by the arguments (write-once per key)"""
    out = []
    for q, f in _all_functions(tree):
        for d in f.decorator_list:
            name = ast.unparse(d.func if isinstance(d, ast.Call) else d)
            if name.split(".")[-1] in ("lru_cache", "cache", "cached_property"):
                out.append({"path": rel, "file": os.path.basename(rel), "func": q, "attr": "<" + name.split(".")[-1] + ">",
                            "target": "<module>", "valueKind": "keyedCache", "readBack": True, "line": f.lineno,
                            "events": {}, "first_line": _first_line(f), "last_line": f.end_lineno})
    return out


def scan_mode_toggles(trees, repo):
    """process-wide MODE flags flipped while an operation runs: class-level attributes of typedpy classes
    (Structure._fail_fast, TypedPyDefaults.*) are configuration; a function that is not itself a pure setter and assigns
    one, or calls a pure setter (Structure.set_fail_fast(..)), changes the behaviour of every other thread for the
    duration (and interleaved save / restore can leave the wrong mode behind)."""
    class_names = set()
    for tree in trees.values():
        class_names |= {n.name for n in ast.walk(tree) if isinstance(n, ast.ClassDef)}

    def class_attr_writes(fn):
        out = []
        for n in ast.walk(fn):
            if isinstance(n, (ast.Assign, ast.AugAssign, ast.AnnAssign)):
                for t in (n.targets if isinstance(n, ast.Assign) else [n.target]):
                    if isinstance(t, ast.Attribute) and isinstance(t.value, ast.Name) and \
                            (t.value.id in class_names or t.value.id == "cls"):
                        out.append((n.lineno, f"{t.value.id}.{t.attr}"))
        return out

    def is_pure_setter(fn):
        body = [st for st in fn.body if not (isinstance(st, ast.Expr) and isinstance(st.value, ast.Constant))]
        return bool(body) and all(isinstance(st, (ast.Assign, ast.AnnAssign, ast.Return, ast.Pass)) for st in body) \
            and bool(class_attr_writes(fn))

    setters = set()
    fns = []
    for path, tree in trees.items():
        for q, f in _all_functions(tree):
            fns.append((path, q, f))
            if is_pure_setter(f):
                setters.add(f.name)
    rows = []
    for path, q, f in fns:
        if f.name in DEFINITION_TIME or f.name in setters or is_pure_setter(f):
            continue
        rel = os.path.relpath(path, repo)
        hits = [(ln, w) for ln, w in class_attr_writes(f) if not w.startswith("cls.")]
        for n in ast.walk(f):
            if isinstance(n, ast.Call) and isinstance(n.func, ast.Attribute) and n.func.attr in setters \
                    and isinstance(n.func.value, ast.Name) and n.func.value.id in class_names | {"cls", "self"}:
                hits.append((n.lineno, f"{n.func.value.id}.{n.func.attr}()"))
        seen = set()
        for ln, w in sorted(hits):
            if w in seen:
                continue
            seen.add(w)
            rows.append({"path": rel, "file": os.path.basename(rel), "func": q, "attr": w.rstrip("()").split(".", 1)[1],
                         "target": w, "valueKind": "modeToggle", "readBack": True, "line": ln, "events": {},
                         "first_line": _first_line(f), "last_line": f.end_lineno})
    return rows


_CONTAINER_CALLS = {"dict", "set", "list", "defaultdict", "OrderedDict", "deque", "Counter", "WeakValueDictionary",
                    "WeakKeyDictionary", "WeakSet"}
_GROW = {"add", "append", "appendleft", "update", "setdefault", "extend", "insert", "__setitem__"}
_SHRINK = {"clear", "discard", "remove", "pop", "popitem", "popleft", "__delitem__"}


def _first_line(fn):
    """co_firstlineno of the function's code object: the line of its first decorator, if any"""
    return min([fn.lineno] + [d.lineno for d in fn.decorator_list])


def _is_container_expr(v):
    if isinstance(v, (ast.Dict, ast.Set, ast.List)):
        return True
    if isinstance(v, ast.Call):
        f = v.func
        name = f.id if isinstance(f, ast.Name) else f.attr if isinstance(f, ast.Attribute) else None
        return name in _CONTAINER_CALLS
    return False


def _functions(node, prefix=""):
    """(qualified name, FunctionDef) of every function below `node` (not descending into nested functions)"""
    for n in ast.iter_child_nodes(node):
        if isinstance(n, (ast.FunctionDef, ast.AsyncFunctionDef)):
            yield prefix + n.name, n
        elif isinstance(n, ast.ClassDef):
            yield from _functions(n, prefix + n.name + ".")
        elif not isinstance(n, ast.Lambda):
            yield from _functions(n, prefix)


def _all_functions(node, prefix=""):
    for q, f in _functions(node, prefix):
        yield q, f
        yield from _all_functions(f, q + ".")


def _uses(fn, name):
    """(grow lines, shrink lines, lines of `x in name` tests, lines of `name[..]` loads) inside fn (nested functions included)"""
    grow, shrink, tests, loads = [], [], [], []
    for n in ast.walk(fn):
        if isinstance(n, ast.Call) and isinstance(n.func, ast.Attribute) and isinstance(n.func.value, ast.Name) \
                and n.func.value.id == name:
            if n.func.attr in _GROW:
                grow.append(n.lineno)
            if n.func.attr in _SHRINK:
                shrink.append(n.lineno)
        elif isinstance(n, (ast.Assign, ast.AugAssign, ast.AnnAssign)):
            for t in (n.targets if isinstance(n, ast.Assign) else [n.target]):
                if isinstance(t, ast.Subscript) and isinstance(t.value, ast.Name) and t.value.id == name:
                    grow.append(n.lineno)
        elif isinstance(n, ast.Delete):
            for t in n.targets:
                if isinstance(t, ast.Subscript) and isinstance(t.value, ast.Name) and t.value.id == name:
                    shrink.append(n.lineno)
        elif isinstance(n, ast.Compare) and any(isinstance(o, (ast.In, ast.NotIn)) for o in n.ops) and \
                any(isinstance(c, ast.Name) and c.id == name for c in n.comparators):
            tests.append(n.lineno)
        elif isinstance(n, ast.Subscript) and isinstance(n.ctx, ast.Load) and isinstance(n.value, ast.Name) \
                and n.value.id == name:
            loads.append(n.lineno)
    return grow, shrink, tests, loads


def scan_containers(tree, rel):
    """process-wide mutable containers (module level, or created in an enclosing function and captured by an inner function
    that outlives it, e.g. a decorator's wrapper) whose entries COME AND GO while operations run:
      * transientEntries: some function adds entries and some function removes / clears them - the content reflects the
        operations in flight in ALL threads (an "in progress" set, a bounded / evicting cache);
      * checkThenGet: `if k in C: ... C[k]` on such a container - another thread can remove k in between."""
    out = []
    containers = []     # (name, scope description, functions that can see it)
    for n in tree.body:
        if isinstance(n, ast.Assign) and len(n.targets) == 1 and isinstance(n.targets[0], ast.Name) \
                and _is_container_expr(n.value):
            containers.append((n.targets[0].id, "<module>", list(_all_functions(tree))))
    for q, f in _all_functions(tree):
        inner = list(_all_functions(f, q + "."))
        if not inner:
            continue
        for n in f.body:
            if isinstance(n, ast.Assign) and len(n.targets) == 1 and isinstance(n.targets[0], ast.Name) \
                    and _is_container_expr(n.value):
                name = n.targets[0].id
                users = [(iq, g) for iq, g in inner if any(isinstance(x, ast.Name) and x.id == name for x in ast.walk(g))]
                if users:
                    containers.append((name, f"<closure of {q}>", users))
    base = os.path.basename(rel)
    for name, scope, fns in containers:
        uses = [(q, f, _uses(f, name)) for q, f in fns if f.name not in DEFINITION_TIME]
        if not (any(u[0] for _, _, u in uses) and any(u[1] for _, _, u in uses)):
            continue

        def innermost(q):
            return not [iq for iq, _, iu in uses if iq != q and iq.startswith(q + ".") and (iu[0] or iu[1] or iu[2])]

        def row(q, f, kind, line):
            return {"path": rel, "file": base, "func": q, "attr": name, "target": scope, "valueKind": kind,
                    "readBack": True, "line": line, "events": {}, "first_line": _first_line(f), "last_line": f.end_lineno}
        for q, f, u in uses:
            if (u[0] or u[1]) and innermost(q):
                out.append(row(q, f, "transientEntries", (u[0] + u[1])[0]))
            if u[2] and u[3] and innermost(q):
                out.append(row(q, f, "checkThenGet", u[2][0]))
    return out


_MUTATORS = {"update", "append", "extend", "add", "setdefault", "pop", "popitem", "clear", "insert", "remove",
             "__setitem__", "appendleft"}


def _mutated_after_publish(fn, stmt, sub, tgts):
    """is the object stored into the module-level cache by `stmt` still being built afterwards?  (publish-before-fill:
    another thread can then take the half-built object out of the cache)"""
    names = {t.id for t in tgts if isinstance(t, ast.Name)}
    if isinstance(stmt.value, ast.Name):
        names.add(stmt.value.id)
    cache = sub.value.id
    line = stmt.end_lineno or stmt.lineno

    def is_published(e):
        # the published name, or CACHE[...] itself
        if isinstance(e, ast.Name):
            return e.id in names
        return isinstance(e, ast.Subscript) and isinstance(e.value, ast.Name) and e.value.id == cache

    in_loop = any(isinstance(l, (ast.For, ast.While)) and l.lineno <= stmt.lineno <= (l.end_lineno or l.lineno)
                  for l in ast.walk(fn))
    for n in ast.walk(fn):
        ln = getattr(n, "lineno", None)
        if ln is None or n is stmt or (ln <= line and not in_loop):
            continue
        if isinstance(n, (ast.Assign, ast.AugAssign, ast.AnnAssign)):
            for t in (n.targets if isinstance(n, ast.Assign) else [n.target]):
                if isinstance(t, (ast.Subscript, ast.Attribute)) and is_published(t.value):
                    return True
        if isinstance(n, ast.Delete):
            for t in n.targets:
                if isinstance(t, ast.Subscript) and is_published(t.value):
                    return True
        if isinstance(n, ast.Call) and isinstance(n.func, ast.Attribute) and n.func.attr in _MUTATORS \
                and is_published(n.func.value):
            return True
    return False


def _stmt_spans(fn):
    """[first line, last line] of every simple statement that spans several lines"""
    out = []
    for s in ast.walk(fn):
        if isinstance(s, ast.stmt) and not isinstance(s, (ast.FunctionDef, ast.For, ast.If, ast.While, ast.With, ast.Try,
                                                          ast.ClassDef)):
            if (s.end_lineno or s.lineno) > s.lineno:
                out.append([s.lineno, s.end_lineno])
    return sorted(out)


def _stmt_line(fn, node):
    """first line of the innermost statement containing `node`"""
    best = node.lineno
    for s in ast.walk(fn):
        if isinstance(s, ast.stmt) and not isinstance(s, (ast.FunctionDef, ast.For, ast.If, ast.While, ast.With, ast.Try)):
            if s.lineno <= node.lineno <= (s.end_lineno or s.lineno):
                if any(x is node for x in ast.walk(s)):
                    best = s.lineno
    return best


def key_of(r):
    return f"shared-{r['attr']}:{r['file']}:{r['func']}"


def lean_str(s):
    return json.dumps(s, ensure_ascii=False)


def render(rows):
    seen = []
    for r in rows:
        t = (r["path"], r["file"], r["func"], r["attr"], r["target"], r["valueKind"], r["readBack"])
        if t not in seen:
            seen.append(t)
    out = ["/- GENERATED by extract/shared_writes.py from the typedpy working tree — do not edit. -/",
           "import TypedpyModel.Sem.SharedWrite", "namespace Typedpy.Generated", "open Typedpy.Sched", "",
           "def sharedWrites : List SharedWrite := ["]
    items = []
    for (path, file, func, attr, target, kind, rb) in seen:
        items.append(f"  {{ path := {lean_str(path)}, file := {lean_str(file)}, func := {lean_str(func)}, "
                     f"attr := {lean_str(attr)}, target := {lean_str(target)}, valueKind := .{kind}, "
                     f"readBack := {'true' if rb else 'false'} }}")
    out.append(",\n".join(items))
    out += ["]", "", "end Typedpy.Generated", ""]
    return "\n".join(out)


def regenerate(repo=None, out=OUT):
    rows = scan(repo)
    text = render(rows)
    os.makedirs(os.path.dirname(out), exist_ok=True)
    old = open(out, encoding="utf-8").read() if os.path.exists(out) else None
    if old != text:
        tmp = out + ".tmp"
        with open(tmp, "w", encoding="utf-8") as f:
            f.write(text)
        os.replace(tmp, out)
    return rows


def pin():
    """refresh the committed Pinned copy from the current Generated table"""
    text = open(OUT, encoding="utf-8").read()
    text = text.replace("GENERATED by extract/shared_writes.py from the typedpy working tree — do not edit.",
                        "PINNED copy of Generated/SharedWrites.lean at the tree Sem/Sched.lean was last aligned with "
                        "(for reviewers; refresh with extract/shared_writes.py --pin).")
    text = text.replace("namespace Typedpy.Generated", "namespace Typedpy.Pinned").replace(
        "end Typedpy.Generated", "end Typedpy.Pinned")
    with open(os.path.join(ROOT, "lean", "TypedpyModel", "Pinned", "SharedWrites.lean"), "w", encoding="utf-8") as f:
        f.write(text)


if __name__ == "__main__":
    rs = regenerate()
    if "--pin" in sys.argv:
        pin()
    if "-v" in sys.argv:
        for r in rs:
            print(key_of(r), r["line"], r["target"], r["valueKind"], r["readBack"], r.get("events"))
    print(f"shared_writes: {len(rs)} sites -> {os.path.relpath(OUT, ROOT)}")
