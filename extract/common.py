import os

ROOT = os.path.dirname(os.path.dirname(os.path.abspath(__file__)))
GEN_DIR = os.path.join(ROOT, "lean", "TypedpyModel", "Generated")


def repo_root():
    return os.environ.get("VERIF_REPO", "/repo")


def write_if_changed(name, text):
    os.makedirs(GEN_DIR, exist_ok=True)
    path = os.path.join(GEN_DIR, name)
    old = open(path, encoding="utf-8").read() if os.path.exists(path) else None
    if old != text:
        with open(path, "w", encoding="utf-8") as f:
            f.write(text)
        return True
    return False


def lean_str(s):
    return '"' + s.replace("\\", "\\\\").replace('"', '\\"') + '"'


def lean_bool(b):
    return "true" if b else "false"
