"""
(T) translator for C15: scan $VERIF_REPO/typedpy/**/*.py with `ast` for process-wide mutable state
and regenerate lean/TypedpyModel/Generated/Registries.lean (written only when the content changes).

Rows (see lean/TypedpyModel/Sem/WorldTables.lean, `RegistryRec`):
  * module-level / class-level mutable objects (dict, list, set) that some function writes;
  * class-level counters (`Cls.attr += …`) and configuration attributes (`Cls.attr = …` in a function,
    every attribute of a class named *Defaults);
  * `functools.lru_cache` / `cache` decorated functions (key = the arguments);
  * writes onto user classes after definition: `cls.x = …`, `setattr(cls, x, …)`;
  * in-place mutation of a container that is a *definition attribute* of a class (`_required`, `_fields`,
    `_field_by_name`, …) obtained without copying, directly or through a callee that mutates its parameter.

  * attributes written onto FIELD INSTANCES by methods other than the constructor (`self.x = …`,
    `setattr(option, "x", …)` in `__set__` / `serialize` / …): a Field object is shared by a class and every class
    derived from it, so the stored value must be a function of the field's own definition; a value that depends
    on what the method was called with (the value being validated, the instance) is state carried from one use
    to the next — and from one class to another (`useValue`);
  * mutable DEFAULT ARGUMENTS that the function mutates, returns or stores (one object for every call);
  * CLOSURE CELLS: a mutable local of a function that a nested function it returns / installs writes to (the
    memo of a hand-written caching decorator), `nonlocal` rebinding;
  * class-level switches (`Structure._fail_fast`, …) and `*Defaults` attributes are configuration only while
    nothing but explicit setters (`set_*`) write them;
  * global configuration READ while generating something that is then installed on a class or put into a
    registry (`configCapture`): the value in effect at generation time is frozen into per-class state.

The key kind of a dict registry is classified from the expressions used in `REG[key] = …`.
This is a narrow idiom matcher, not a Python semantics: state the matcher cannot see is not modelled
(the property is claimed partial; the fresh-interpreter comparison is the backstop).
"""
import ast
import json
import os
import sys

ROOT = os.path.dirname(os.path.dirname(os.path.abspath(__file__)))
OUT = os.path.join(ROOT, "lean", "TypedpyModel", "Generated", "Registries.lean")
FINDINGS_FRAGMENT = os.path.join(ROOT, "known_findings_C15.json")

CLASS_PARAMS = {"cls", "clazz", "klass", "structure", "struct_class", "the_class", "structure_class", "owner"}
MUTATORS = {"append", "extend", "insert", "pop", "remove", "clear", "update", "add", "discard", "sort",
            "reverse", "setdefault", "popitem", "appendleft", "popleft", "extendleft", "__setitem__",
            "__delitem__"}
MUTABLE_CALLS = {"dict", "list", "set", "defaultdict", "OrderedDict", "deque", "Counter", "WeakKeyDictionary",
                 "WeakValueDictionary", "WeakSet", "ChainMap"}
COPY_CALLS = {"list", "dict", "set", "tuple", "sorted", "copy", "deepcopy", "frozenset", "OrderedDict"}
# what StructMeta.__new__ computes: rebinding one of these after definition rewrites the definition
STRUCT_DEF_ATTRS = {"_required", "_optional", "_fields", "_field_by_name", "_constants", "__signature__",
                    "__annotations__"}
BASE_HINTS = ("__mro__", "__bases__", "__base__", "mro")


def repo_dir():
    return os.environ.get("VERIF_REPO", "/repo")


def py_files(repo):
    out = []
    base = os.path.join(repo, "typedpy")
    for d, _, names in os.walk(base):
        for n in names:
            if n.endswith(".py"):
                out.append(os.path.join(d, n))
    return sorted(out)


def mutable_kind(v):
    if isinstance(v, (ast.Dict, ast.DictComp)):
        return "dict"
    if isinstance(v, (ast.List, ast.ListComp)):
        return "list"
    if isinstance(v, (ast.Set, ast.SetComp)):
        return "set"
    if isinstance(v, ast.Call):
        f = v.func
        n = f.id if isinstance(f, ast.Name) else f.attr if isinstance(f, ast.Attribute) else None
        if n in MUTABLE_CALLS:
            return {"dict": "dict", "defaultdict": "dict", "OrderedDict": "dict", "Counter": "dict",
                    "list": "list", "deque": "list", "set": "set", "WeakKeyDictionary": "dict",
                    "WeakValueDictionary": "dict", "WeakSet": "set", "ChainMap": "dict"}[n]
    return None


class Func:
    def __init__(self, node, file, cls, parent):
        self.node, self.file, self.cls, self.parent = node, file, cls, parent
        a = node.args
        self.params = [x.arg for x in a.posonlyargs + a.args] + [x.arg for x in a.kwonlyargs]
        self.pos = [x.arg for x in a.posonlyargs + a.args]
        self.name = node.name
        self.qual = (cls + "." if cls else "") + node.name

    def all_params(self):
        p, f = set(self.params), self.parent
        while f is not None:
            p |= set(f.params)
            f = f.parent
        return p

    def body_nodes(self, strict=False):
        """nodes of this function, not descending into nested function definitions (`strict`: not even into
        the ones that are statements of the body itself)"""
        stack = list(self.node.body)
        while stack:
            n = stack.pop()
            if strict and isinstance(n, (ast.FunctionDef, ast.AsyncFunctionDef, ast.Lambda)):
                continue
            yield n
            for ch in ast.iter_child_nodes(n):
                if not isinstance(ch, (ast.FunctionDef, ast.AsyncFunctionDef, ast.Lambda)):
                    stack.append(ch)


class Scan:
    def __init__(self, repo):
        self.repo = repo
        self.trees = {}
        self.funcs = []
        self.classes = {}       # name -> (file, ClassDef)
        self.metaclasses = set()
        self.str_consts = {}    # NAME -> "string"
        self.rows = {}
        for p in py_files(repo):
            rel = os.path.relpath(p, repo)
            try:
                self.trees[rel] = ast.parse(open(p, encoding="utf-8").read())
            except SyntaxError:
                continue
        for rel, tree in self.trees.items():
            self._collect(rel, tree.body, None, None)
            for n in tree.body:
                if isinstance(n, ast.Assign) and len(n.targets) == 1 and isinstance(n.targets[0], ast.Name) \
                        and isinstance(n.value, ast.Constant) and isinstance(n.value.value, str):
                    self.str_consts[n.targets[0].id] = n.value.value
        self.by_name = {}
        for f in self.funcs:
            self.by_name.setdefault(f.name, []).append(f)

    def _collect(self, rel, body, cls, parent):
        for n in body:
            if isinstance(n, ast.ClassDef):
                self.classes[n.name] = (rel, n)
                if any(isinstance(b, ast.Name) and b.id == "type" for b in n.bases):
                    self.metaclasses.add(n.name)
                self._collect(rel, n.body, n.name, None)
            elif isinstance(n, (ast.FunctionDef, ast.AsyncFunctionDef)):
                f = Func(n, rel, cls, parent)
                self.funcs.append(f)
                self._collect_nested(rel, n, cls, f)

    def _collect_nested(self, rel, fn, cls, parent):
        for n in ast.walk(fn):
            if n is fn:
                continue
            if isinstance(n, (ast.FunctionDef, ast.AsyncFunctionDef)):
                # register once, with the nearest enclosing function as parent (approximation: `parent`)
                if not any(g.node is n for g in self.funcs):
                    self.funcs.append(Func(n, rel, cls, parent))

    # ------------------------------------------------------------------ helpers
    def add(self, file, name, site, kind, key, after):
        k = (name, kind, site) if kind in ("inPlaceClassAttr", "inPlaceCacheEntry", "earlyBoundClassAttr",
                                           "sharedReturnMutated", "configCapture", "defaultArg", "inheritedMemo",
                                           "mroRead") \
            else (name, kind)   # one row per in-place write SITE
        if k in self.rows:
            r = self.rows[k]
            r["writtenAfterDef"] = r["writtenAfterDef"] or after
            order = ["className", "otherClass", "partialArgs", "useValue", "unknown", "classIdentity", "fieldIdentity",
                     "globalConfig", "none"]
            if order.index(key) < order.index(r["key"]):
                r["key"], r["site"] = key, site
            elif not r["site"]:
                r["site"] = site
        else:
            self.rows[k] = {"file": file, "name": name, "site": site, "kind": kind, "key": key,
                            "writtenAfterDef": after}

    def const_str(self, e):
        if isinstance(e, ast.Constant) and isinstance(e.value, str):
            return e.value
        if isinstance(e, ast.Name):
            return self.str_consts.get(e.id)
        return None

    def local_value(self, f, name):
        for n in f.body_nodes():
            if isinstance(n, ast.Assign) and any(isinstance(t, ast.Name) and t.id == name for t in n.targets):
                return n.value
        return None

    def is_class_expr(self, f, e, depth=0):
        """'own' if e denotes the class that is the subject of the function, 'other' for another class
        reached from it (base, mro member), None if not class-like"""
        if isinstance(e, ast.Name):
            if e.id in f.all_params():
                return "own" if e.id in CLASS_PARAMS else None
            if depth < 3:
                v = self.local_value(f, e.id)
                if v is not None:
                    return self.is_class_expr(f, v, depth + 1)
                for n in f.body_nodes():
                    if isinstance(n, ast.For) and isinstance(n.target, ast.Name) and n.target.id == e.id:
                        src = ast.dump(n.iter)
                        if any(h in src for h in BASE_HINTS):
                            return "other"
            return None
        if isinstance(e, ast.Attribute) and e.attr == "__class__":
            return "own"
        src = ast.dump(e)
        if any(("'" + h + "'") in src for h in BASE_HINTS):
            return "other"
        if isinstance(e, ast.Call) and isinstance(e.func, ast.Name) and e.func.id == "type" and len(e.args) == 1:
            return "own"
        return None

    def classify_key(self, f, e, depth=0):
        if isinstance(e, ast.Tuple):
            ks = [self.classify_key(f, x, depth) for x in e.elts]
            for k in ("className", "classIdentity", "fieldIdentity"):
                if k in ks:
                    return k
            return "unknown"
        if isinstance(e, ast.Attribute) and e.attr in ("__name__", "__qualname__"):
            return "className"
        if isinstance(e, (ast.JoinedStr, ast.Call)) and "__name__" in ast.dump(e):
            return "className"
        if isinstance(e, ast.Constant):
            return "none"
        if isinstance(e, ast.Name):
            if e.id in f.all_params():
                if e.id in CLASS_PARAMS or self.used_as_class(f, e.id):
                    return "classIdentity"
                if e.id in ("field", "self", "the_field"):
                    return "fieldIdentity"
                return "unknown"
            if depth < 3:
                v = self.local_value(f, e.id)
                if v is not None:
                    return self.classify_key(f, v, depth + 1)
            return "unknown"
        if isinstance(e, ast.Attribute) and e.attr == "__class__":
            return "classIdentity"
        return "unknown"

    def used_as_class(self, f, name):
        """the function treats `name` as a class object: isinstance(name, type), issubclass(name, …),
        name.__name__ / __mro__ / __bases__"""
        for n in f.body_nodes():
            if isinstance(n, ast.Attribute) and isinstance(n.value, ast.Name) and n.value.id == name \
                    and n.attr in ("__name__", "__qualname__", "__mro__", "__bases__"):
                return True
            if isinstance(n, ast.Call) and isinstance(n.func, ast.Name) and n.args \
                    and isinstance(n.args[0], ast.Name) and n.args[0].id == name:
                if n.func.id == "issubclass":
                    return True
                if n.func.id == "isinstance" and len(n.args) == 2 and isinstance(n.args[1], ast.Name) \
                        and n.args[1].id == "type":
                    return True
        return False

    def is_definition_time(self, f):
        return f.cls in self.metaclasses and f.name in ("__new__", "__prepare__", "__init__")

    # ------------------------------------------------------------------ passes
    def run(self):
        self.pass_containers()
        self.pass_lru()
        self.pass_class_attr_writes()
        self.pass_inplace()
        self.pass_key_completeness()
        self.pass_cache_entry_mutation()
        self.pass_early_bound()
        self.pass_shared_return_mutation()
        self.pass_field_instance_writes()
        self.pass_default_args()
        self.pass_closure_cells()
        self.pass_config_capture()
        self.pass_inherited_memo()
        self.pass_class_object_containers()
        self.pass_mro_read()
        self.pass_namespace_writes()
        return sorted(self.rows.values(), key=lambda r: (r["file"], r["name"], r["kind"], r["site"]))

    # ------------------------------------------------------------------ data/control dependencies
    @staticmethod
    def _names(e):
        return {n.id for n in ast.walk(e) if isinstance(n, ast.Name)} if e is not None else set()

    @staticmethod
    def _free_names(e):
        """names read by an expression, without the parameters of lambdas and the targets of comprehensions in it"""
        if e is None:
            return set()
        bound = set()
        for n in ast.walk(e):
            if isinstance(n, ast.Lambda):
                a = n.args
                bound |= {x.arg for x in a.posonlyargs + a.args + a.kwonlyargs}
                if a.vararg:
                    bound.add(a.vararg.arg)
                if a.kwarg:
                    bound.add(a.kwarg.arg)
            elif isinstance(n, ast.comprehension):
                bound |= {m.id for m in ast.walk(n.target) if isinstance(m, ast.Name)}
        return {n.id for n in ast.walk(e) if isinstance(n, ast.Name)} - bound

    def dependencies(self, f, exc=False, attr_stores=None):
        """flow-insensitive dependencies of the local names of `f` (data + control), and every subscript
        store with the control context it executes under.  `exc`: statements of a `try` body also depend on the
        arguments of every call in that body (any call may raise and skip them); names are the FREE names of
        an expression.  `attr_stores`: list that receives (target base expr, attr, value expr, ctrl) of every
        attribute store / setattr call"""
        deps, stores = {}, []
        names = self._free_names if exc else self._names

        def bind(t, src):
            if isinstance(t, ast.Name):
                deps.setdefault(t.id, set()).update(src)
            elif isinstance(t, (ast.Tuple, ast.List)):
                for x in t.elts:
                    bind(x, src)
            elif isinstance(t, (ast.Subscript, ast.Attribute)):
                base = t.value
                while isinstance(base, (ast.Subscript, ast.Attribute)):
                    base = base.value
                if isinstance(base, ast.Name):
                    deps.setdefault(base.id, set()).update(src | names(getattr(t, "slice", None)))

        def visit(stmts, ctrl):
            for st in stmts:
                if isinstance(st, (ast.FunctionDef, ast.AsyncFunctionDef, ast.ClassDef)):
                    continue
                if attr_stores is not None:
                    if isinstance(st, (ast.Assign, ast.AugAssign, ast.AnnAssign)) and getattr(st, "value", None) is not None:
                        for t in (st.targets if isinstance(st, ast.Assign) else [st.target]):
                            if isinstance(t, ast.Attribute):
                                attr_stores.append((t.value, t.attr, st.value, set(ctrl)))
                    if isinstance(st, ast.Expr) and isinstance(st.value, ast.Call) and isinstance(st.value.func, ast.Name) \
                            and st.value.func.id == "setattr" and len(st.value.args) == 3:
                        a = st.value.args
                        attr_stores.append((a[0], self.const_str(a[1]) or "<dynamic>", a[2], set(ctrl)))
                if isinstance(st, ast.Assign):
                    for t in st.targets:
                        bind(t, names(st.value) | ctrl)
                        if isinstance(t, ast.Subscript):
                            stores.append((t, st.value, set(ctrl)))
                elif isinstance(st, (ast.AugAssign, ast.AnnAssign)):
                    bind(st.target, names(st.value) | ctrl | (names(st.target) if isinstance(st, ast.AugAssign) else set()))
                elif isinstance(st, ast.Expr) and isinstance(st.value, ast.Call) \
                        and isinstance(st.value.func, ast.Attribute) and st.value.func.attr in MUTATORS:
                    bind(st.value.func.value if not isinstance(st.value.func.value, ast.Name)
                         else st.value.func.value, names(st.value) | ctrl)
                elif isinstance(st, ast.If):
                    c2 = ctrl | names(st.test)
                    visit(st.body, c2)
                    visit(st.orelse, c2)
                elif isinstance(st, (ast.For, ast.AsyncFor)):
                    bind(st.target, names(st.iter) | ctrl)
                    c2 = ctrl | names(st.iter)
                    visit(st.body, c2)
                    visit(st.orelse, c2)
                elif isinstance(st, ast.While):
                    c2 = ctrl | names(st.test)
                    visit(st.body, c2)
                    visit(st.orelse, c2)
                elif isinstance(st, ast.Try):
                    c2 = set(ctrl)
                    if exc:
                        # a statement of the try body runs only if no call of an EARLIER statement raised
                        for b in st.body:
                            visit([b], c2)
                            for m in ast.walk(b):
                                if isinstance(m, ast.Call):
                                    c2 |= names(m)
                    else:
                        visit(st.body, c2)
                    for h in st.handlers:
                        visit(h.body, c2)
                    visit(st.orelse, c2)
                    visit(st.finalbody, ctrl)
                elif isinstance(st, (ast.With, ast.AsyncWith)):
                    for it in st.items:
                        if it.optional_vars is not None:
                            bind(it.optional_vars, names(it.context_expr) | ctrl)
                    visit(st.body, ctrl)
        visit(f.node.body, set())

        def closure(start):
            seen, todo = set(), list(start)
            while todo:
                n = todo.pop()
                if n in seen:
                    continue
                seen.add(n)
                todo.extend(deps.get(n, ()))
            return seen
        return closure, stores

    def pass_key_completeness(self):
        """a memo `REG[key] = value` written in a function must be keyed by every parameter the value
        depends on (through data or control flow); otherwise calls that differ in the omitted argument
        share an entry"""
        for f in self.funcs:
            closure, stores = self.dependencies(f)
            params = set(f.params) - {"self"}
            for t, value, ctrl in stores:
                ref = self.registry_ref(t.value)
                if not ref:
                    continue
                vparams = closure(self._names(value) | ctrl) & params
                kparams = closure(self._names(t.slice)) & params
                missing = vparams - kparams
                if missing:
                    file = (self.module_objs.get(ref) or self.class_attrs.get(ref) or (f.file,))[0]
                    r = self.rows.get((ref, "dict"))
                    if r is not None:
                        r["key"], r["site"] = "partialArgs", f.qual
                    else:
                        self.add(file, ref, f.qual, "dict", "partialArgs", True)

    def pass_shared_return_mutation(self):
        """a function that returns a module-level / class-level mutable object itself (not a copy), directly
        or by returning the result of such a function, hands out process-wide state; a caller that mutates
        what it got (`x = f(); x[k] = v`) changes it for every later caller"""
        def shared_name(f, e):
            if isinstance(e, ast.Name) and e.id in self.module_objs and e.id not in f.all_params() \
                    and self.local_value(f, e.id) is None:
                return e.id
            if isinstance(e, ast.Attribute) and isinstance(e.value, ast.Name):
                owner = e.value.id
                if owner in ("self", "cls") and f.cls:
                    owner = f.cls
                ref = owner + "." + e.attr
                if ref in self.class_attrs and self.class_attrs[ref][1]:
                    return ref
            return None

        def call_name(e):
            if isinstance(e, ast.Call):
                fn = e.func
                return fn.id if isinstance(fn, ast.Name) else fn.attr if isinstance(fn, ast.Attribute) else None
            return None

        returns = {}
        changed = True
        while changed:
            changed = False
            for f in self.funcs:
                if f.name in returns:
                    continue
                local = {}
                for n in f.body_nodes():
                    if isinstance(n, ast.Assign) and len(n.targets) == 1 and isinstance(n.targets[0], ast.Name):
                        r = shared_name(f, n.value) or returns.get(call_name(n.value))
                        if r:
                            local[n.targets[0].id] = r
                for n in f.body_nodes():
                    if isinstance(n, ast.Return) and n.value is not None:
                        v = n.value
                        r = shared_name(f, v) or returns.get(call_name(v)) or \
                            (local.get(v.id) if isinstance(v, ast.Name) else None)
                        if r:
                            returns[f.name] = r
                            changed = True
                            break
        if not returns:
            return
        for f in self.funcs:
            aliases = {}
            for n in f.body_nodes():
                if isinstance(n, ast.Assign) and len(n.targets) == 1 and isinstance(n.targets[0], ast.Name):
                    r = returns.get(call_name(n.value))
                    if r:
                        aliases[n.targets[0].id] = r
            if not aliases:
                continue
            for n in f.body_nodes():
                hit = None
                if isinstance(n, ast.Call) and isinstance(n.func, ast.Attribute) and n.func.attr in MUTATORS \
                        and isinstance(n.func.value, ast.Name):
                    hit = aliases.get(n.func.value.id)
                if isinstance(n, (ast.Assign, ast.AugAssign)):
                    for t in (n.targets if isinstance(n, ast.Assign) else [n.target]):
                        if isinstance(t, ast.Subscript) and isinstance(t.value, ast.Name):
                            hit = hit or aliases.get(t.value.id)
                        if isinstance(n, ast.AugAssign) and isinstance(t, ast.Name):
                            hit = hit or aliases.get(t.id)
                if isinstance(n, ast.Delete):
                    for t in n.targets:
                        if isinstance(t, ast.Subscript) and isinstance(t.value, ast.Name):
                            hit = hit or aliases.get(t.value.id)
                if hit:
                    file = (self.module_objs.get(hit) or self.class_attrs.get(hit) or (f.file,))[0]
                    self.add(file, hit, f.qual, "sharedReturnMutated", "none", True)

    def pass_early_bound(self):
        """an attribute that operations write onto classes after definition (`serialize`, …) must be looked
        up when it is used: a function that reads it from ANOTHER class than its subject once, and lets a
        closure it returns / installs capture the value, freezes whatever that class had at generation time"""
        postdef = {r["name"][4:] for r in self.rows.values()
                   if r["kind"] == "classAttrWrite" and r["name"].startswith("cls.")}
        for f in self.funcs:
            nested = [n for n in ast.walk(f.node)
                      if n is not f.node and isinstance(n, (ast.FunctionDef, ast.AsyncFunctionDef, ast.Lambda))]
            if not nested:
                continue
            captured = set()
            for g in nested:
                params = {a.arg for a in g.args.args + g.args.kwonlyargs + g.args.posonlyargs}
                for n in ast.walk(g):
                    if isinstance(n, ast.Name) and isinstance(n.ctx, ast.Load) and n.id not in params:
                        captured.add(n.id)
            for n in f.body_nodes():
                if not (isinstance(n, ast.Assign) and len(n.targets) == 1 and isinstance(n.targets[0], ast.Name)):
                    continue
                name, v = n.targets[0].id, n.value
                attr, src = None, None
                if isinstance(v, ast.Attribute):
                    attr, src = v.attr, v.value
                elif isinstance(v, ast.Call) and isinstance(v.func, ast.Name) and v.func.id == "getattr" \
                        and len(v.args) >= 2:
                    attr, src = self.const_str(v.args[1]), v.args[0]
                if attr in postdef and name in captured and self.is_class_expr(f, src) != "own" \
                        and self.denotes_class(f, src):
                    self.add(f.file, "cls." + attr, f.qual, "earlyBoundClassAttr", "otherClass", True)

    def denotes_class(self, f, e, depth=0):
        """the expression (or the local it names) is a class reached from a field or instance:
        `x._ty`, `x._newclass`, `x.__class__`, a class parameter, a member of an MRO"""
        src = ast.dump(e)
        if any(("attr='" + a + "'") in src for a in ("_ty", "_newclass", "__class__", "__mro__", "__bases__", "__base__")):
            return True
        if isinstance(e, ast.Name):
            if e.id in CLASS_PARAMS and e.id in f.all_params():
                return True
            if depth < 3:
                for n in f.body_nodes():
                    if isinstance(n, ast.Assign) and any(isinstance(t, ast.Name) and t.id == e.id for t in n.targets):
                        if self.denotes_class(f, n.value, depth + 1):
                            return True
        return False

    def pass_cache_entry_mutation(self):
        """an object handed out by a cache (a registry entry returned by its memo function, the result of
        an lru_cache function) must not be mutated by its receivers: the entry itself would change"""
        cache_fns = {}
        for f in self.funcs:
            if any("lru_cache" in ast.dump(d) or "'cache'" in ast.dump(d) for d in f.node.decorator_list):
                cache_fns[f.name] = f.name
                continue
            stored = {}
            for n in f.body_nodes():
                if isinstance(n, ast.Assign):
                    for t in n.targets:
                        if isinstance(t, ast.Subscript) and self.registry_ref(t.value) and isinstance(n.value, ast.Name):
                            stored[n.value.id] = self.registry_ref(t.value)
            for n in f.body_nodes():
                if isinstance(n, ast.Return) and n.value is not None:
                    v = n.value
                    if isinstance(v, ast.Subscript) and self.registry_ref(v.value):
                        cache_fns[f.name] = self.registry_ref(v.value)
                    elif isinstance(v, ast.Name) and v.id in stored:
                        cache_fns[f.name] = stored[v.id]

        def cache_expr(e, aliases):
            if isinstance(e, ast.Call):
                fn = e.func
                n = fn.id if isinstance(fn, ast.Name) else fn.attr if isinstance(fn, ast.Attribute) else None
                return cache_fns.get(n)
            if isinstance(e, ast.IfExp):
                return cache_expr(e.body, aliases) or cache_expr(e.orelse, aliases)
            if isinstance(e, ast.BoolOp):
                for v in e.values:
                    r = cache_expr(v, aliases)
                    if r:
                        return r
                return None
            if isinstance(e, ast.Name):
                return aliases.get(e.id)
            return None

        for f in self.funcs:
            aliases = {}
            changed = True
            while changed:
                changed = False
                for n in f.body_nodes():
                    if isinstance(n, ast.Assign) and len(n.targets) == 1 and isinstance(n.targets[0], ast.Name):
                        r = cache_expr(n.value, aliases)
                        if r and aliases.get(n.targets[0].id) != r:
                            aliases[n.targets[0].id] = r
                            changed = True
            hits = []
            for n in f.body_nodes():
                if isinstance(n, ast.Call) and isinstance(n.func, ast.Attribute) and n.func.attr in MUTATORS:
                    r = cache_expr(n.func.value, aliases)
                    if r:
                        hits.append(r)
                if isinstance(n, (ast.Assign, ast.AugAssign)):
                    for t in (n.targets if isinstance(n, ast.Assign) else [n.target]):
                        if isinstance(t, ast.Subscript):
                            r = cache_expr(t.value, aliases)
                            if r:
                                hits.append(r)
                        if isinstance(n, ast.AugAssign) and isinstance(t, ast.Name) and t.id in aliases:
                            hits.append(aliases[t.id])
                if isinstance(n, ast.Delete):
                    for t in n.targets:
                        if isinstance(t, ast.Subscript):
                            r = cache_expr(t.value, aliases)
                            if r:
                                hits.append(r)
            for r in hits:
                self.add(f.file, r, f.qual, "inPlaceCacheEntry", "classIdentity", True)


    # ------------------------------------------------------------------ state on Field instances
    def field_classes(self):
        """names of the classes that (transitively, by base-class NAME) derive from `Field`"""
        out = {"Field"}
        changed = True
        while changed:
            changed = False
            for cname, (_, cd) in self.classes.items():
                if cname in out:
                    continue
                for b in cd.bases:
                    bn = b.id if isinstance(b, ast.Name) else b.attr if isinstance(b, ast.Attribute) else None
                    if isinstance(b, ast.Subscript):
                        v = b.value
                        bn = v.id if isinstance(v, ast.Name) else v.attr if isinstance(v, ast.Attribute) else None
                    if bn in out:
                        out.add(cname)
                        changed = True
                        break
        return out

    CONSTRUCTION_METHODS = {"__init__", "__new__", "__set_name__", "__init_subclass__", "__class_getitem__",
                            "__getitem__", "__setstate__", "__deepcopy__", "__copy__", "__reduce__"}

    USE_METHODS = {"__set__", "__get__", "__delete__", "serialize", "deserialize", "validate", "_validate",
                   "__call__", "validate_size", "validate_wrapper"}
    USE_PARAMS = {"instance", "value", "val", "values", "owner", "obj", "input_data", "data", "struct", "structure"}

    def data_closure(self, f):
        """data-only (no control) dependencies of the locals of `f`"""
        deps = {}

        def bind(t, src):
            if isinstance(t, ast.Name):
                deps.setdefault(t.id, set()).update(src)
            elif isinstance(t, (ast.Tuple, ast.List)):
                for x in t.elts:
                    bind(x, src)
        for n in f.body_nodes(strict=True):
            if isinstance(n, ast.Assign):
                for t in n.targets:
                    bind(t, self._free_names(n.value))
            elif isinstance(n, (ast.For, ast.AsyncFor)):
                bind(n.target, self._free_names(n.iter))
            elif isinstance(n, ast.comprehension):
                bind(n.target, self._free_names(n.iter))

        def closure(start):
            seen, todo = set(), list(start)
            while todo:
                x = todo.pop()
                if x in seen:
                    continue
                seen.add(x)
                todo.extend(deps.get(x, ()))
            return seen
        return closure

    def loop_top_rebinds(self, f):
        """(loop variable, attribute) pairs that are rebound by the FIRST statement of the loop body that binds the
        variable: per-call scratch state (written before it is read in every iteration)"""
        out = set()
        for n in f.body_nodes(strict=True):
            if isinstance(n, (ast.For, ast.AsyncFor)) and n.body:
                lv = {m.id for m in ast.walk(n.target) if isinstance(m, ast.Name)}
                st = n.body[0]
                if isinstance(st, ast.Expr) and isinstance(st.value, ast.Call) and isinstance(st.value.func, ast.Name) \
                        and st.value.func.id == "setattr" and len(st.value.args) == 3 \
                        and isinstance(st.value.args[0], ast.Name) and st.value.args[0].id in lv:
                    out.add((st.value.args[0].id, self.const_str(st.value.args[1]) or "<dynamic>"))
                if isinstance(st, ast.Assign):
                    for t in st.targets:
                        if isinstance(t, ast.Attribute) and isinstance(t.value, ast.Name) and t.value.id in lv:
                            out.add((t.value.id, t.attr))
        return out

    def pass_field_instance_writes(self):
        """a Field object belongs to a class DEFINITION and is shared by every class that inherits the field;
        what a method of the descriptor / serializer protocol stores on it (or on one of its option / item
        fields) must not depend on what the method was called with"""
        fcls = self.field_classes()
        for f in self.funcs:
            if f.cls not in fcls or f.name in self.CONSTRUCTION_METHODS or f.parent is not None:
                continue
            if not f.pos or f.pos[0] != "self":
                continue
            attr_stores = []
            closure, _ = self.dependencies(f, exc=True, attr_stores=attr_stores)
            dclosure = self.data_closure(f)
            rebinds = self.loop_top_rebinds(f)
            params = set(f.params) - {"self"}
            use_params = params if f.name in self.USE_METHODS else (params & self.USE_PARAMS)
            for base, attr, value, ctrl in attr_stores:
                bnames = self._free_names(base)
                if not bnames:
                    continue
                is_self = isinstance(base, ast.Name) and base.id == "self"
                # the object written is the field itself or something reached from it by DATA flow (an option, an item)
                if not is_self:
                    src = dclosure(bnames)
                    if "self" not in src or any(
                            isinstance(m, ast.Call) and isinstance(m.func, ast.Name) and m.func.id[:1].isupper()
                            for nm in src for m in [self.local_value(f, nm)] if m is not None):
                        continue
                vdeps = closure(self._free_names(value) | ctrl) & use_params
                if vdeps and not is_self and isinstance(base, ast.Name) and (base.id, attr) in rebinds:
                    vdeps = set()        # rebound at the top of every iteration before it is used
                name = "%s.%s" % (f.cls if is_self else "<field of %s>" % f.cls, attr)
                self.add(f.file, name, f.qual, "fieldAttrWrite", "useValue" if vdeps else "fieldIdentity", True)

    # ------------------------------------------------------------------ mutable default arguments
    def pass_default_args(self):
        """`def f(x, acc=[])`: the default object is created once; a function that mutates, returns or stores it
        carries state from one call to the next"""
        for f in self.funcs:
            a = f.node.args
            pos = a.posonlyargs + a.args
            pairs = list(zip(pos[len(pos) - len(a.defaults):], a.defaults)) + \
                [(x, d) for x, d in zip(a.kwonlyargs, a.kw_defaults) if d is not None]
            for arg, d in pairs:
                if not mutable_kind(d):
                    continue
                p = arg.arg
                escapes = False
                for n in f.body_nodes():
                    if isinstance(n, ast.Call) and isinstance(n.func, ast.Attribute) and n.func.attr in MUTATORS \
                            and isinstance(n.func.value, ast.Name) and n.func.value.id == p:
                        escapes = True
                    if isinstance(n, (ast.Assign, ast.AugAssign)):
                        for t in (n.targets if isinstance(n, ast.Assign) else [n.target]):
                            if isinstance(t, ast.Subscript) and isinstance(t.value, ast.Name) and t.value.id == p:
                                escapes = True
                            if isinstance(t, (ast.Attribute, ast.Subscript)) and isinstance(n.value, ast.Name) \
                                    and n.value.id == p:
                                escapes = True          # stored somewhere that outlives the call
                    if isinstance(n, ast.Return) and isinstance(n.value, ast.Name) and n.value.id == p:
                        escapes = True
                    if isinstance(n, ast.Delete):
                        for t in n.targets:
                            if isinstance(t, ast.Subscript) and isinstance(t.value, ast.Name) and t.value.id == p:
                                escapes = True
                if escapes:
                    self.add(f.file, "%s(%s=)" % (f.qual, p), f.qual, "defaultArg", "unknown", True)

    # ------------------------------------------------------------------ closure cells
    def pass_closure_cells(self):
        """a mutable local of an enclosing function that a nested function writes to lives as long as the nested
        function does (the memo of a caching decorator applied at import time is process-wide state);
        `nonlocal x` rebinding likewise"""
        for f in self.funcs:
            nested = [g for g in self.funcs if g.parent is f]
            if not nested:
                continue
            cells = {}
            escaping = set()       # nested functions that outlive the call: returned, stored, installed
            for n in f.body_nodes(strict=True):
                if isinstance(n, (ast.Assign, ast.AnnAssign)):
                    tgt, val = self._assign(n)
                    if tgt and val is not None and mutable_kind(val):
                        cells[tgt] = mutable_kind(val)
                vals = []
                if isinstance(n, ast.Return) and n.value is not None:
                    vals.append(n.value)
                if isinstance(n, ast.Assign) and any(isinstance(t, (ast.Attribute, ast.Subscript)) for t in n.targets):
                    vals.append(n.value)
                if isinstance(n, ast.Call) and isinstance(n.func, ast.Name) and n.func.id == "setattr":
                    vals.extend(n.args[2:])
                for v in vals:
                    escaping |= self._names(v)
            # a local that aliases a nested function (wrapper = wraps(f)(inner)) escapes with it
            for n in f.body_nodes(strict=True):
                if isinstance(n, ast.Assign) and len(n.targets) == 1 and isinstance(n.targets[0], ast.Name) \
                        and n.targets[0].id in escaping:
                    escaping |= self._names(n.value)
            for g in nested:
                if g.name not in escaping:
                    continue
                gparams = set(g.params)
                glocals = {t.id for n in g.body_nodes(strict=True) if isinstance(n, ast.Assign)
                           for t in n.targets if isinstance(t, ast.Name)}
                for n in g.body_nodes(strict=True):
                    if isinstance(n, ast.Nonlocal):
                        for name in n.names:
                            self.add(f.file, "%s.%s" % (f.qual, name), g.qual, "closureCell", "unknown", True)
                    ref, key = None, None
                    if isinstance(n, (ast.Assign, ast.AugAssign)):
                        for t in (n.targets if isinstance(n, ast.Assign) else [n.target]):
                            if isinstance(t, ast.Subscript) and isinstance(t.value, ast.Name) \
                                    and t.value.id in cells and t.value.id not in gparams | glocals:
                                ref, key = t.value.id, self.classify_key(g, t.slice)
                    if isinstance(n, ast.Call) and isinstance(n.func, ast.Attribute) and n.func.attr in MUTATORS \
                            and isinstance(n.func.value, ast.Name) and n.func.value.id in cells \
                            and n.func.value.id not in gparams | glocals:
                        ref = n.func.value.id
                        key = "none"
                        if n.func.attr in ("setdefault", "pop", "__setitem__", "__delitem__") and n.args:
                            key = self.classify_key(g, n.args[0])
                    if ref:
                        if cells[ref] != "dict" and key != "className":
                            key = "none"
                        self.add(f.file, "%s.%s" % (f.qual, ref), g.qual, "closureCell", key, True)

    # ------------------------------------------------------------------ configuration captured at use time
    def config_names(self):
        return {r["name"] for r in self.rows.values() if r["kind"] == "config"}

    def pass_config_capture(self):
        """a function that installs something on a class after its definition (`cls.x = …`) or stores into a
        registry, and computes what it installs from a global configuration attribute, freezes the value the
        configuration had at that moment into per-class state: restoring the configuration does not restore
        the class"""
        cfg = self.config_names()
        if not cfg:
            return

        def cfg_reads(e):
            out = set()
            for n in ast.walk(e):
                if isinstance(n, ast.Attribute) and isinstance(n.value, ast.Name) \
                        and (n.value.id + "." + n.attr) in cfg and isinstance(n.ctx, ast.Load):
                    out.add(n.value.id + "." + n.attr)
            return out

        for f in self.funcs:
            if self.is_definition_time(f) or f.name.startswith("set_"):
                continue
            reads = {}       # local name -> config attrs it was computed from
            direct = set()
            for n in f.body_nodes():
                if isinstance(n, ast.Assign):
                    r = cfg_reads(n.value)
                    if r:
                        for t in n.targets:
                            if isinstance(t, ast.Name):
                                reads.setdefault(t.id, set()).update(r)
            if not reads and not any(cfg_reads(d) for d in f.node.args.defaults + [x for x in f.node.args.kw_defaults if x]):
                # configuration read directly inside the installed expression is handled below
                pass
            attr_stores = []
            closure, stores = self.dependencies(f, exc=False, attr_stores=attr_stores)
            dclosure = self.data_closure(f)     # DATA flow only: the flow-insensitive control closure of a long
                                                # function relates everything to everything
            nested = [n for n in ast.walk(f.node)
                      if n is not f.node and isinstance(n, (ast.FunctionDef, ast.AsyncFunctionDef, ast.Lambda))]

            def captured_cfg(value, ctrl=()):
                """config attributes the installed value depends on: read in the expression itself, through a
                local computed from configuration (data or control), or captured by a nested function that is
                the value"""
                out = set(cfg_reads(value))
                vnames = dclosure(self._names(value) | set(ctrl))
                for g in nested:
                    gname = getattr(g, "name", None)
                    if gname and gname in vnames:
                        gp = {a.arg for a in g.args.args + g.args.kwonlyargs + g.args.posonlyargs}
                        for m in ast.walk(g):
                            if isinstance(m, ast.Name) and isinstance(m.ctx, ast.Load) and m.id not in gp:
                                vnames |= dclosure({m.id})
                for nm in vnames:
                    out |= reads.get(nm, set())
                return out

            for base, attr, value, ctrl in attr_stores:
                if not self.is_class_expr(f, base):
                    continue
                for c in sorted(captured_cfg(value, ctrl)):
                    self.add(f.file, "cls.%s<-%s" % (attr, c), f.qual, "configCapture", "classIdentity", True)
            for t, value, ctrl in stores:
                ref = self.registry_ref(t.value)
                if not ref:
                    continue
                for c in sorted(captured_cfg(value, ctrl)):
                    self.add(f.file, "%s<-%s" % (ref, c), f.qual, "configCapture", "classIdentity", True)
            # a call, under configuration-dependent control or with configuration-derived arguments, of a helper
            # that writes an attribute onto the class it is given
            for call, ctrl in self.calls_with_ctrl(f):
                cn = call.func.id if isinstance(call.func, ast.Name) else \
                    call.func.attr if isinstance(call.func, ast.Attribute) else None
                for g in self.by_name.get(cn, []):
                    if g is f:
                        continue
                    wattrs = self.class_param_writes(g)
                    if not wattrs:
                        continue
                    if not any(self.is_class_expr(f, a) for a in call.args):
                        continue
                    direct = dclosure(self._names(call) | set(ctrl))
                    hit = set(cfg_reads(call))
                    for nm in direct:
                        hit |= reads.get(nm, set())
                    for c in sorted(hit):
                        for attr in sorted(wattrs):
                            self.add(f.file, "cls.%s<-%s" % (attr, c), f.qual, "configCapture", "classIdentity", True)

    def pass_inherited_memo(self):
        """a memo kept as a class attribute — the function returns what it reads with `getattr(cls, X, …)` /
        `cls.X` and stores a computed object with `cls.X = …` / `setattr(cls, X, …)` — is looked up through the
        MRO: a subclass finds the entry stored on its base class.  Reading `cls.__dict__` is identity-keyed."""
        for f in self.funcs:
            if self.is_definition_time(f):
                continue
            written = {}
            for n in f.body_nodes(strict=True):
                if isinstance(n, ast.Assign):
                    for t in n.targets:
                        if isinstance(t, ast.Attribute) and self.is_class_expr(f, t.value) == "own" \
                                and not isinstance(n.value, ast.Constant):
                            written[t.attr] = n.value
                if isinstance(n, ast.Call) and isinstance(n.func, ast.Name) and n.func.id == "setattr" \
                        and len(n.args) == 3 and self.is_class_expr(f, n.args[0]) == "own" \
                        and not isinstance(n.args[2], ast.Constant):
                    a = self.const_str(n.args[1])
                    if a:
                        written[a] = n.args[2]
            if not written:
                continue
            readers = {}      # local name -> attr it was read from (through the MRO)
            for n in f.body_nodes(strict=True):
                if isinstance(n, ast.Assign) and len(n.targets) == 1 and isinstance(n.targets[0], ast.Name):
                    v = n.value
                    a = None
                    if isinstance(v, ast.Call) and isinstance(v.func, ast.Name) and v.func.id == "getattr" \
                            and len(v.args) >= 2 and self.is_class_expr(f, v.args[0]) == "own":
                        a = self.const_str(v.args[1])
                    elif isinstance(v, ast.Attribute) and self.is_class_expr(f, v.value) == "own":
                        a = v.attr
                    if a in written:
                        readers[n.targets[0].id] = a
            for n in f.body_nodes(strict=True):
                if isinstance(n, ast.Return) and n.value is not None:
                    v = n.value
                    a = readers.get(v.id) if isinstance(v, ast.Name) else None
                    if a is None and isinstance(v, ast.Call) and isinstance(v.func, ast.Name) and v.func.id == "getattr" \
                            and len(v.args) >= 2 and self.is_class_expr(f, v.args[0]) == "own":
                        a = self.const_str(v.args[1])
                    if a is None and isinstance(v, ast.Attribute) and self.is_class_expr(f, v.value) == "own":
                        a = v.attr
                    if a in written:
                        self.add(f.file, "cls." + a, f.qual, "inheritedMemo", "otherClass", True)

    def pass_class_object_containers(self):
        """a container reached through a class OBJECT (`cls._memo[k] = v`, `self.__class__._seen.append(x)`,
        `getattr(cls, "_memo")[k] = v`) that is not one of the class's definition attributes: when the attribute is
        declared on a typedpy base class the one object is shared by every subclass, so the key decides whether classes
        can see each other's entries; a container created per class is still looked up through the MRO"""
        def_attrs = self.definition_attrs()
        for f in self.funcs:
            if self.is_definition_time(f):
                continue
            aliases = {}
            for n in f.body_nodes(strict=True):
                if isinstance(n, ast.Assign) and len(n.targets) == 1 and isinstance(n.targets[0], ast.Name):
                    a = self.attr_read(f, n.value)
                    if a and a not in def_attrs:
                        aliases[n.targets[0].id] = a

            def target_attr(e):
                if isinstance(e, ast.Name):
                    return aliases.get(e.id)
                a = self.attr_read(f, e)
                return a if (a and a not in def_attrs) else None

            for n in f.body_nodes(strict=True):
                attr, key = None, "none"
                if isinstance(n, (ast.Assign, ast.AugAssign)):
                    for t in (n.targets if isinstance(n, ast.Assign) else [n.target]):
                        if isinstance(t, ast.Subscript):
                            a = target_attr(t.value)
                            if a:
                                attr, key = a, self.classify_key(f, t.slice)
                elif isinstance(n, ast.Delete):
                    for t in n.targets:
                        if isinstance(t, ast.Subscript):
                            a = target_attr(t.value)
                            if a:
                                attr, key = a, self.classify_key(f, t.slice)
                elif isinstance(n, ast.Call) and isinstance(n.func, ast.Attribute) and n.func.attr in MUTATORS:
                    a = target_attr(n.func.value)
                    if a:
                        attr = a
                        if n.func.attr in ("setdefault", "pop", "__setitem__", "__delitem__") and n.args:
                            key = self.classify_key(f, n.args[0])
                if not attr:
                    continue
                owners = [c for c in self.classes if (c + "." + attr) in self.class_attrs
                          and self.class_attrs[c + "." + attr][1]]
                if owners:
                    # declared (as a mutable object) on a typedpy class: ONE object for that class and all its subclasses
                    name = owners[0] + "." + attr
                    kind = self.class_attrs[name][1]
                    file = self.class_attrs[name][0]
                    if kind != "dict" and key != "className":
                        key = "none"
                    self.add(file, name, f.qual, kind, key, True)
                else:
                    # created per class somewhere else: still found through the MRO by subclasses
                    self.add(f.file, "cls." + attr, f.qual, "dict", key if key != "none" else "unknown", True)

    def pass_mro_read(self):
        """an attribute that operations install on classes after definition with a COMPUTED value (`serialize`) is read,
        in a function's own body, from ANOTHER class than the function's subject with `getattr(X, attr)` / `X.attr`
        and without consulting `X.__dict__`: the lookup goes through the MRO, so what was installed on a BASE class
        of X answers for X — whether X "has" the attribute then depends on whether its base class was used"""
        computed = set()
        for g in self.funcs:
            if self.is_definition_time(g):
                continue
            for n in g.body_nodes(strict=True):
                if isinstance(n, ast.Assign):
                    for t in n.targets:
                        if isinstance(t, ast.Attribute) and self.is_class_expr(g, t.value) \
                                and not isinstance(n.value, ast.Constant):
                            computed.add(t.attr)
                if isinstance(n, ast.Call) and isinstance(n.func, ast.Name) and n.func.id == "setattr" \
                        and len(n.args) == 3 and self.is_class_expr(g, n.args[0]) \
                        and not isinstance(n.args[2], ast.Constant):
                    a = self.const_str(n.args[1])
                    if a:
                        computed.add(a)
        computed -= self.definition_attrs()
        if not computed:
            return
        for f in self.funcs:
            if self.is_definition_time(f):
                continue
            def norm(e):
                if isinstance(e, ast.Name):
                    v = self.local_value(f, e.id)
                    if v is not None:
                        return ast.dump(v)
                return ast.dump(e)
            guarded = set()      # (expression, attr) pairs for which X.__dict__ is consulted
            for n in f.body_nodes(strict=True):
                if isinstance(n, ast.Compare) and len(n.comparators) == 1 and isinstance(n.ops[0], (ast.In, ast.NotIn)):
                    c = n.comparators[0]
                    if isinstance(c, ast.Attribute) and c.attr == "__dict__":
                        guarded.add((norm(c.value), self.const_str(n.left)))
            # only reads that DECIDE something (operands of a comparison, `hasattr`) count: dispatching a call through
            # the attribute when an instance is in hand is late binding, not a generation-time decision
            cands = []
            for n in f.body_nodes(strict=True):
                if isinstance(n, ast.Compare):
                    cands.extend([n.left] + list(n.comparators))
                if isinstance(n, ast.Call) and isinstance(n.func, ast.Name) and n.func.id == "hasattr":
                    cands.append(n)
            for n in cands:
                attr, src = None, None
                if isinstance(n, ast.Attribute) and isinstance(n.ctx, ast.Load) and n.attr in computed:
                    attr, src = n.attr, n.value
                elif isinstance(n, ast.Call) and isinstance(n.func, ast.Name) and n.func.id in ("getattr", "hasattr") \
                        and len(n.args) >= 2 and self.const_str(n.args[1]) in computed:
                    attr, src = self.const_str(n.args[1]), n.args[0]
                if attr is None or isinstance(src, ast.Call):
                    continue
                own = self.is_class_expr(f, src) == "own"
                if not own and not self.denotes_class(f, src):
                    continue
                if isinstance(src, ast.Name) and src.id in self.classes:
                    continue          # a typedpy class named literally (`FastSerializable.serialize`)
                if (norm(src), attr) in guarded:
                    continue
                self.add(f.file, "cls." + attr, f.qual, "mroRead", "otherClass", True)

    def pass_namespace_writes(self):
        """writes into a module namespace at run time: `globals()[k] = v`, `setattr(sys.modules[...], k, v)`,
        `sys.modules[k] = v` — process-wide state keyed by a NAME"""
        for f in self.funcs:
            for n in f.body_nodes(strict=True):
                if isinstance(n, (ast.Assign, ast.AugAssign)):
                    for t in (n.targets if isinstance(n, ast.Assign) else [n.target]):
                        if isinstance(t, ast.Subscript):
                            v = t.value
                            if isinstance(v, ast.Call) and isinstance(v.func, ast.Name) and v.func.id in ("globals", "vars"):
                                self.add(f.file, v.func.id + "()", f.qual, "dict", "className"
                                         if self.classify_key(f, t.slice) == "className" else "unknown", True)
                            if isinstance(v, ast.Attribute) and v.attr == "modules" and isinstance(v.value, ast.Name) \
                                    and v.value.id == "sys":
                                self.add(f.file, "sys.modules", f.qual, "dict", "unknown", True)
                if isinstance(n, ast.Call) and isinstance(n.func, ast.Name) and n.func.id == "setattr" and n.args:
                    a0 = n.args[0]
                    if isinstance(a0, ast.Subscript) and isinstance(a0.value, ast.Attribute) and a0.value.attr == "modules":
                        self.add(f.file, "sys.modules[...]", f.qual, "dict", "unknown", True)

    def class_param_writes(self, g):
        """attributes that `g` writes onto a class it receives as a parameter"""
        out = set()
        for n in g.body_nodes(strict=True):
            if isinstance(n, ast.Assign):
                for t in n.targets:
                    if isinstance(t, ast.Attribute) and self.is_class_expr(g, t.value) == "own":
                        out.add(t.attr)
            if isinstance(n, ast.Call) and isinstance(n.func, ast.Name) and n.func.id == "setattr" and len(n.args) >= 2 \
                    and self.is_class_expr(g, n.args[0]) == "own":
                out.add(self.const_str(n.args[1]) or "<dynamic>")
        return out

    def calls_with_ctrl(self, f):
        """(call node, names the control context depends on) for the expression-statement calls of `f`"""
        out = []

        def visit(stmts, ctrl):
            for st in stmts:
                if isinstance(st, (ast.FunctionDef, ast.AsyncFunctionDef, ast.ClassDef)):
                    continue
                if isinstance(st, ast.Expr) and isinstance(st.value, ast.Call):
                    out.append((st.value, set(ctrl)))
                elif isinstance(st, ast.If):
                    c2 = ctrl | self._names(st.test)
                    visit(st.body, c2)
                    visit(st.orelse, c2)
                elif isinstance(st, (ast.For, ast.AsyncFor, ast.While)):
                    c2 = ctrl | self._names(st.iter if not isinstance(st, ast.While) else st.test)
                    visit(st.body, c2)
                    visit(st.orelse, c2)
                elif isinstance(st, ast.Try):
                    visit(st.body, ctrl)
                    for h in st.handlers:
                        visit(h.body, ctrl)
                    visit(st.orelse, ctrl)
                    visit(st.finalbody, ctrl)
                elif isinstance(st, (ast.With, ast.AsyncWith)):
                    visit(st.body, ctrl)
        visit(f.node.body, set())
        return out

    def registry_ref(self, e):
        """name of the module-/class-level object an expression refers to, if any"""
        if isinstance(e, ast.Name) and e.id in self.module_objs:
            return e.id
        if isinstance(e, ast.Attribute) and isinstance(e.value, ast.Name) and e.value.id in self.classes:
            return e.value.id + "." + e.attr
        return None

    def pass_containers(self):
        self.module_objs = {}   # name -> (file, kind)
        self.class_attrs = {}   # "Cls.attr" -> (file, kind|None, value node)
        for rel, tree in self.trees.items():
            for n in tree.body:
                tgt, val = self._assign(n)
                if tgt and mutable_kind(val):
                    self.module_objs[tgt] = (rel, mutable_kind(val))
        for cname, (rel, cd) in self.classes.items():
            for n in cd.body:
                tgt, val = self._assign(n)
                if tgt:
                    self.class_attrs[cname + "." + tgt] = (rel, mutable_kind(val) if val is not None else None, val)
            if cname.endswith("Defaults"):
                for n in cd.body:
                    tgt, val = self._assign(n)
                    if tgt and not tgt.startswith("__"):
                        self.add(rel, cname + "." + tgt, "", "config", "globalConfig", True)
        # writes
        for f in self.funcs:
            after = not self.is_definition_time(f)
            for n in f.body_nodes():
                if isinstance(n, (ast.Assign, ast.AugAssign, ast.AnnAssign)):
                    targets = n.targets if isinstance(n, ast.Assign) else [n.target]
                    for t in targets:
                        if isinstance(t, ast.Subscript):
                            ref = self.registry_ref(t.value)
                            if ref:
                                self._container_write(f, ref, self.classify_key(f, t.slice), after)
                        elif isinstance(t, ast.Attribute) and isinstance(t.value, ast.Name) \
                                and t.value.id in self.classes and t.value.id.endswith("Defaults"):
                            # the global defaults are configuration only while nothing but explicit setters write them
                            if not f.name.startswith("set_"):
                                self.add(f.file, t.value.id + "." + t.attr, f.qual, "config", "unknown", after)
                        elif isinstance(t, ast.Attribute) and isinstance(t.value, ast.Name) \
                                and t.value.id in self.classes:
                            ref = t.value.id + "." + t.attr
                            if isinstance(n, ast.AugAssign):
                                self.add(f.file, ref, f.qual, "counter", "none", after)
                            elif f.name.startswith("set_") or not after:
                                self.add(f.file, ref, f.qual, "config", "globalConfig", after)
                            else:
                                # a class-level switch is configuration only while explicit setters write it
                                self.add(f.file, ref, f.qual, "config", "unknown", after)
                elif isinstance(n, ast.Delete):
                    for t in n.targets:
                        if isinstance(t, ast.Subscript):
                            ref = self.registry_ref(t.value)
                            if ref:
                                self._container_write(f, ref, self.classify_key(f, t.slice), after)
                elif isinstance(n, ast.Call) and isinstance(n.func, ast.Attribute) and n.func.attr in MUTATORS:
                    ref = self.registry_ref(n.func.value)
                    if ref:
                        key = "none"
                        if n.func.attr in ("setdefault", "pop", "__setitem__", "__delitem__") and n.args:
                            key = self.classify_key(f, n.args[0])
                        self._container_write(f, ref, key, after)
                elif isinstance(n, ast.Global):
                    # a module global rebound by an operation: shared by all classes, keyed by nothing we can see
                    for name in n.names:
                        self.add(f.file, name, f.qual, "config", "unknown", after)

    def _container_write(self, f, ref, key, after):
        if ref in self.module_objs:
            file, kind = self.module_objs[ref]
        elif ref in self.class_attrs:
            file, kind, _ = self.class_attrs[ref]
            kind = kind or "dict"
        else:
            file, kind = f.file, "dict"
        if kind != "dict" and key not in ("className",):
            key = "none"
        self.add(file, ref, f.qual, kind, key, after)

    @staticmethod
    def _assign(n):
        if isinstance(n, ast.Assign) and len(n.targets) == 1 and isinstance(n.targets[0], ast.Name):
            return n.targets[0].id, n.value
        if isinstance(n, ast.AnnAssign) and isinstance(n.target, ast.Name):
            return n.target.id, n.value
        return None, None

    def pass_lru(self):
        for f in self.funcs:
            for d in f.node.decorator_list:
                src = ast.dump(d)
                if "lru_cache" in src or "'cache'" in src:
                    params = [p for p in f.params if p != "self"]
                    if params and all(p in CLASS_PARAMS for p in params):
                        key = "classIdentity"
                    elif not params:
                        key = "none"
                    else:
                        key = "unknown"
                    self.add(f.file, f.name, f.qual, "lruCache", key, True)

    def pass_class_attr_writes(self):
        def_attrs = self.definition_attrs()
        plain_add = self.add

        def add(file, name, site, kind, key, after):
            # rebinding a DEFINITION attribute of a class after its definition rewrites the definition
            if name.startswith("cls.") and name[4:] in STRUCT_DEF_ATTRS:
                kind = "inPlaceClassAttr"
            plain_add(file, name, site, kind, key, after)
        self.add = add
        try:
            self._pass_class_attr_writes()
        finally:
            self.add = plain_add

    def _pass_class_attr_writes(self):
        for f in self.funcs:
            if self.is_definition_time(f):
                continue
            for n in f.body_nodes():
                if isinstance(n, (ast.Assign, ast.AugAssign)):
                    targets = n.targets if isinstance(n, ast.Assign) else [n.target]
                    for t in targets:
                        if isinstance(t, ast.Attribute):
                            who = self.is_class_expr(f, t.value)
                            if who:
                                self.add(f.file, "cls." + t.attr, f.qual, "classAttrWrite",
                                         "classIdentity" if who == "own" else "otherClass", True)
                elif isinstance(n, ast.Call) and isinstance(n.func, ast.Name) and n.func.id == "setattr" \
                        and len(n.args) >= 2:
                    who = self.is_class_expr(f, n.args[0])
                    attr = self.const_str(n.args[1])
                    if who:
                        self.add(f.file, "cls." + (attr or "<dynamic>"), f.qual, "classAttrWrite",
                                 "classIdentity" if who == "own" else "otherClass", True)

    def definition_attrs(self):
        """attributes that make up a class definition: SPECIAL_ATTRIBUTES of consts.py plus what
        StructMeta.__new__ sets on the new class"""
        attrs = {"_required", "_optional", "_fields", "_field_by_name", "_constants", "__annotations__",
                 "__signature__", "_serialization_mapper", "_deserialization_mapper"}
        for rel, tree in self.trees.items():
            if rel.endswith("consts.py"):
                for n in tree.body:
                    if isinstance(n, ast.Assign) and isinstance(n.value, ast.Constant) \
                            and isinstance(n.value.value, str) and n.value.value.startswith("_"):
                        attrs.add(n.value.value)
        return attrs

    def pass_inplace(self):
        def_attrs = self.definition_attrs()
        # 1. parameters mutated in place (fixpoint through calls)
        mut = {}
        for f in self.funcs:
            s = set()
            for n in f.body_nodes():
                if isinstance(n, ast.Call) and isinstance(n.func, ast.Attribute) and n.func.attr in MUTATORS \
                        and isinstance(n.func.value, ast.Name) and n.func.value.id in f.params:
                    s.add(n.func.value.id)
                if isinstance(n, (ast.Assign, ast.AugAssign)):
                    for t in (n.targets if isinstance(n, ast.Assign) else [n.target]):
                        if isinstance(t, ast.Subscript) and isinstance(t.value, ast.Name) and t.value.id in f.params:
                            s.add(t.value.id)
                        if isinstance(n, ast.AugAssign) and isinstance(t, ast.Name) and t.id in f.params:
                            s.add(t.id)
                if isinstance(n, ast.Delete):
                    for t in n.targets:
                        if isinstance(t, ast.Subscript) and isinstance(t.value, ast.Name) and t.value.id in f.params:
                            s.add(t.value.id)
            mut[id(f)] = s

        def passed_to_mutating(f, name):
            for n in f.body_nodes():
                if isinstance(n, ast.Call):
                    cn = n.func.id if isinstance(n.func, ast.Name) else \
                        n.func.attr if isinstance(n.func, ast.Attribute) else None
                    for g in self.by_name.get(cn, []):
                        pos = g.pos[1:] if (isinstance(n.func, ast.Attribute) and g.pos[:1] in (["self"], ["cls"])) else g.pos
                        for i, a in enumerate(n.args):
                            if isinstance(a, ast.Name) and a.id == name and i < len(pos) and pos[i] in mut[id(g)]:
                                return g.qual
                        for kw in n.keywords:
                            if isinstance(kw.value, ast.Name) and kw.value.id == name and kw.arg in mut[id(g)]:
                                return g.qual
            return None

        changed = True
        while changed:
            changed = False
            for f in self.funcs:
                for p in f.params:
                    if p not in mut[id(f)] and passed_to_mutating(f, p):
                        mut[id(f)].add(p)
                        changed = True

        # 2. accessor methods that hand out a definition attribute without copying
        accessors = {}
        for f in self.funcs:
            body = [n for n in f.node.body if not (isinstance(n, ast.Expr) and isinstance(n.value, ast.Constant))]
            if len(body) == 1 and isinstance(body[0], ast.Return) and body[0].value is not None:
                a = self.attr_read(f, body[0].value)
                if a:
                    accessors[f.name] = a

        # 3. aliases of definition attributes that are mutated
        for f in self.funcs:
            if self.is_definition_time(f):
                continue
            aliases = {}
            for n in f.body_nodes():
                if isinstance(n, ast.Assign) and len(n.targets) == 1 and isinstance(n.targets[0], ast.Name):
                    a = self.attr_read(f, n.value, accessors)
                    if a:
                        aliases[n.targets[0].id] = a
            local_mut = set()
            for n in f.body_nodes():
                if isinstance(n, ast.Call) and isinstance(n.func, ast.Attribute) and n.func.attr in MUTATORS:
                    if isinstance(n.func.value, ast.Name):
                        local_mut.add(n.func.value.id)
                    else:
                        a = self.attr_read(f, n.func.value, accessors)
                        if a and a in def_attrs:
                            self.add(f.file, "cls." + a, f.qual, "inPlaceClassAttr", "classIdentity", True)
                if isinstance(n, (ast.Assign, ast.AugAssign)):
                    for t in (n.targets if isinstance(n, ast.Assign) else [n.target]):
                        if isinstance(t, ast.Subscript):
                            if isinstance(t.value, ast.Name):
                                local_mut.add(t.value.id)
                            else:
                                a = self.attr_read(f, t.value, accessors)
                                if a and a in def_attrs:
                                    self.add(f.file, "cls." + a, f.qual, "inPlaceClassAttr", "classIdentity", True)
                if isinstance(n, ast.Delete):
                    for t in n.targets:
                        if isinstance(t, ast.Subscript):
                            if isinstance(t.value, ast.Name):
                                local_mut.add(t.value.id)
                            else:
                                a = self.attr_read(f, t.value, accessors)
                                if a and a in def_attrs:
                                    self.add(f.file, "cls." + a, f.qual, "inPlaceClassAttr", "classIdentity", True)
            for name, a in aliases.items():
                if a not in def_attrs:
                    continue
                if name in local_mut or passed_to_mutating(f, name):
                    self.add(f.file, "cls." + a, f.qual, "inPlaceClassAttr", "classIdentity", True)

    def attr_read(self, f, e, accessors=None):
        """attribute name if `e` evaluates to the object stored in an attribute of a class (no copy)"""
        if isinstance(e, ast.Call):
            fn = e.func
            if isinstance(fn, ast.Name) and fn.id == "getattr" and len(e.args) >= 2 and self.is_class_expr(f, e.args[0]):
                return self.const_str(e.args[1])
            if isinstance(fn, ast.Attribute) and fn.attr == "get" and e.args:
                src = fn.value
                if isinstance(src, ast.Attribute) and src.attr == "__dict__" and self.is_class_expr(f, src.value):
                    return self.const_str(e.args[0])
                if isinstance(src, ast.Name):
                    v = self.local_value(f, src.id)
                    if isinstance(v, ast.Attribute) and v.attr == "__dict__" and self.is_class_expr(f, v.value):
                        return self.const_str(e.args[0])
            if accessors and isinstance(fn, ast.Attribute) and fn.attr in accessors and not e.args \
                    and self.is_class_expr(f, fn.value):
                return accessors[fn.attr]
            return None
        if isinstance(e, ast.Attribute) and self.is_class_expr(f, e.value) and not e.attr.startswith("__"):
            return e.attr
        return None


# ---------------------------------------------------------------------- Lean output

def lean_str(s):
    return json.dumps(s, ensure_ascii=False)


def known_keys():
    if not os.path.exists(FINDINGS_FRAGMENT):
        return []
    data = json.load(open(FINDINGS_FRAGMENT))
    return sorted({f["key"] for f in data.get("findings", []) if f.get("status") == "open"})


def render(rows, namespace="Generated"):
    out = ["/-", "  GENERATED by extract/registries.py from the typedpy working tree — do not edit.",
           "  Process-wide mutable state of typedpy (C15).", "-/",
           "import TypedpyModel.Sem.WorldTables", f"namespace Typedpy.World.{namespace}", "open Typedpy.World", "",
           "def registries : List RegistryRec := ["]
    body = []
    for r in rows:
        body.append("  { file := %s, name := %s, site := %s, kind := .%s, key := .%s, writtenAfterDef := %s }" % (
            lean_str(r["file"]), lean_str(r["name"]), lean_str(r["site"]), r["kind"], r["key"],
            "true" if r["writtenAfterDef"] else "false"))
    out.append(",\n".join(body))
    out.append("]")
    out.append("")
    if namespace == "Generated":
        out.append("/-- keys of the open C15 findings that are tied to a table row (from known_findings_C15.json) -/")
        out.append("def knownFindingKeys : List String := [" + ", ".join(lean_str(k) for k in known_keys()) + "]")
        out.append("")
    out.append(f"end Typedpy.World.{namespace}")
    return "\n".join(out) + "\n"


def scan(repo=None):
    return Scan(repo or repo_dir()).run()


def write_if_changed(path, text):
    os.makedirs(os.path.dirname(path), exist_ok=True)
    if os.path.exists(path) and open(path, encoding="utf-8").read() == text:
        return False
    tmp = path + ".tmp%d" % os.getpid()
    with open(tmp, "w", encoding="utf-8") as f:
        f.write(text)
    os.replace(tmp, path)
    return True


def regenerate():
    rows = scan()
    changed = write_if_changed(OUT, render(rows))
    return rows, changed


if __name__ == "__main__":
    if len(sys.argv) > 1 and sys.argv[1] == "--pin":
        rows = scan()
        p = os.path.join(ROOT, "lean", "TypedpyModel", "Pinned", "Registries.lean")
        write_if_changed(p, render(rows, "Pinned"))
        print("pinned", len(rows), "rows ->", p)
    else:
        rows, changed = regenerate()
        for r in rows:
            print(r)
        print("changed" if changed else "unchanged", OUT)
