"""
(T) translator for C13: regenerates lean/TypedpyModel/Generated/TypeMap.lean from the working tree
of typedpy (VERIF_REPO, default /repo) by calling the real `convert_basic_types`, `type_is_generic`,
`get_typing_lib_info`, `FieldMeta.__getitem__` and `_or_fields` on every builtin, `typing` alias and
PEP-585/604 form of the C13 vocabulary.  The file is written only when its content changes.

    python -m extract.type_map            # regenerate Generated/TypeMap.lean
    python -m extract.type_map --pin      # also rewrite Pinned/TypeMap.lean (only together with Sem/Elaborate.lean)
"""
import collections
import datetime
import json
import os
import sys
import typing

ROOT = os.path.dirname(os.path.dirname(os.path.abspath(__file__)))
GEN = os.path.join(ROOT, "lean", "TypedpyModel", "Generated", "TypeMap.lean")
PIN = os.path.join(ROOT, "lean", "TypedpyModel", "Pinned", "TypeMap.lean")

HEADS = {
    "Integer": "integer", "String": "string", "Float": "float", "Boolean": "boolean", "Anything": "anything",
    "Array": "array", "Map": "map", "Set": "set", "ImmutableSet": "immSet", "Deque": "deque", "Tuple": "tuple",
    "AnyOf": "anyOf", "DateField": "dateField", "DateTime": "dateTime", "TimeField": "timeField",
}

ATOMS = [
    ("int", int), ("str", str), ("float", float), ("bool", bool), ("list", list), ("dict", dict), ("set", set),
    ("frozenset", frozenset), ("tuple", tuple), ("deque", collections.deque),
    ("date", datetime.date), ("datetime", datetime.datetime), ("time", datetime.time),
    ("tAny", typing.Any), ("tUnion", typing.Union), ("tOptional", typing.Optional),
    ("tList", typing.List), ("tDict", typing.Dict), ("tSet", typing.Set), ("tFrozenSet", typing.FrozenSet),
    ("tDeque", typing.Deque), ("tTuple", typing.Tuple),
    ("noneType", type(None)),
]

FORMS = [
    "list[int]", "List[int]", "Array[Integer]", "Array(items=Integer)", "Array[int]", "list[Integer]", "list[Integer()]",
    "set[int]", "TSet[int]", "Set[Integer]", "Set(items=Integer)",
    "frozenset[int]", "FrozenSet[int]", "ImmutableSet[Integer]", "ImmutableSet(items=Integer)",
    "deque[int]", "TDeque[int]", "Deque[Integer]", "Deque(items=Integer)",
    "dict[str, int]", "Dict[str, int]", "Map[String, Integer]", "Map(items=[String, Integer])", "Map[str, int]",
    "Optional[int]", "Optional[Integer]", "Union[int, None]", "AnyOf[Integer, None]", "AnyOf[int, None]",
    "Union[int, str]", "AnyOf[Integer, String]", "AnyOf[int, str]", "Integer | String", "Integer | str",
    "Integer() | String()", "int | str", "int | None", "Integer | None", "list[int] | None", "list[int | str]",
    "Array[int | str]", "Union[int, int]", "Union[int, Integer]", "Optional[int | str]", "Integer | list[int]",
    "Array(items=int)", "list[None]", "List[None]", "Array[None]",
    "tuple[int]", "typing.Tuple[int]", "Tuple[Integer]", "Tuple[int]", "Tuple(items=Integer)", "Tuple(items=Integer())",
    "tuple[Integer]", "tuple[int, str]", "Tuple[Integer, String]",
]

FORM_NS_SRC = """
import typing, collections
from collections import deque
from typing import Optional, Union, List, Dict, FrozenSet, Any
from typing import Set as TSet, Deque as TDeque
from typedpy import *
"""


def head_of(cls):
    name = getattr(cls, "__name__", type(cls).__name__)
    if name in HEADS:
        return "." + HEADS[name]
    return f'(.other {json.dumps(name)})'


def lean_opt(x):
    return "none" if x is None else f"(some {x})"


def probe(fn):
    from typedpy.structures import Field
    from typedpy.structures.structures import FieldMeta
    FieldMeta._registry = {}
    try:
        r = fn()
    except Exception as e:  # pylint: disable=broad-except
        return f'(.err {json.dumps(type(e).__name__)})'
    if r is None:
        return ".none"
    if isinstance(r, type) and issubclass(r, Field):
        return f"(.cls {head_of(r)})"
    if isinstance(r, Field):
        return f"(.inst {head_of(type(r))})"
    return f'(.err {json.dumps("unexpected:" + type(r).__name__)})'


def shape(fn):
    """canonical text of a Field (class or instance) / None / exception"""
    sys.path.insert(0, ROOT)
    from harness import dump
    from typedpy.structures import Field
    try:
        r = fn()
    except Exception as e:  # pylint: disable=broad-except
        return "ERR:" + type(e).__name__
    if r is None:
        return "None"
    try:
        if isinstance(r, type) and issubclass(r, Field):
            return "cls:" + json.dumps(dump.normalize_decl(dump.dump_field(r())), sort_keys=True)
        if isinstance(r, Field):
            return json.dumps(dump.normalize_decl(dump.dump_field(r)), sort_keys=True)
    except Exception as e:  # pylint: disable=broad-except
        return "UNDUMPABLE:" + type(e).__name__
    return "OTHER:" + type(r).__name__


def rows():
    from typedpy.structures.type_mapping import convert_basic_types
    from typedpy.structures.structures import get_typing_lib_info, _or_fields, Field
    from typedpy.utility import type_is_generic
    from typedpy import Integer
    atom_by_obj = {}
    for name, obj in ATOMS:
        try:
            atom_by_obj[obj] = name
        except TypeError:
            pass
    out = []
    for name, obj in ATOMS:
        try:
            c = convert_basic_types(obj)
            cbt = None if c is None else head_of(c)
        except Exception as e:  # pylint: disable=broad-except
            cbt = f'(.other {json.dumps("raised:" + type(e).__name__)})'
        try:
            generic = bool(type_is_generic(obj))
        except Exception:  # pylint: disable=broad-except
            generic = False
        origin = getattr(obj, "__origin__", None)
        try:
            origin_atom = atom_by_obj.get(origin) if origin is not None else None
        except TypeError:
            origin_atom = None

        def second_option():
            r = _or_fields(Integer, obj)
            return r.get_fields()[1]

        out.append("  { atom := .%s, cbt := %s, generic := %s, origin := %s, isClass := %s,\n"
                   "    gtli := %s, item := %s, orRight := %s }" % (
                       name, lean_opt(cbt), str(generic).lower(),
                       lean_opt("." + origin_atom) if origin_atom else "none",
                       str(isinstance(obj, type)).lower(),
                       probe(lambda: get_typing_lib_info(obj)), probe(lambda: Field[obj]), probe(second_option)))
    return out


def form_rows():
    import types
    from typedpy.structures.structures import get_typing_lib_info, _or_fields, Field
    from typedpy import Integer
    sys.path.insert(0, ROOT)
    from harness import dump
    out = []
    for i, form in enumerate(FORMS):
        modname = f"_verif_c13_form_{i}"
        mod = types.ModuleType(modname)
        sys.modules[modname] = mod
        try:
            exec(FORM_NS_SRC, mod.__dict__)  # pylint: disable=exec-used

            def ev():
                return eval(form, mod.__dict__)  # pylint: disable=eval-used

            def ann():
                src = f"class K(Structure):\n    a: {form}\n"
                exec(compile(src, modname + ".py", "exec"), mod.__dict__)  # pylint: disable=exec-used
                return mod.K
            try:
                k = ann()
                d = dump.normalize_decl(dump.dump_class(k))
                ann_s = json.dumps({"fields": d["fields"], "required": d["required"]}, sort_keys=True)
            except Exception as e:  # pylint: disable=broad-except
                ann_s = "ERR:" + type(e).__name__
            out.append("  { form := %s, gtli := %s, item := %s, orRight := %s,\n    ann := %s }" % (
                json.dumps(form),
                json.dumps(shape(lambda: get_typing_lib_info(ev()))),
                json.dumps(shape(lambda: Field[ev()])),
                json.dumps(shape(lambda: _or_fields(Integer, ev()).get_fields()[1])),
                json.dumps(ann_s)))
        finally:
            sys.modules.pop(modname, None)
    return out


class _CleanRegistry:
    """probe with an empty `FieldMeta._registry` (implicit-wrapper cache) and leave it untouched, so that the
    table does not depend on what ran before in this process"""

    def __enter__(self):
        from typedpy.structures.structures import FieldMeta
        self.meta = FieldMeta
        self.saved = FieldMeta._registry
        FieldMeta._registry = {}

    def __exit__(self, *a):
        self.meta._registry = self.saved


def render(namespace):
    with _CleanRegistry():
        body = ",\n".join(rows())
    with _CleanRegistry():
        forms = ",\n".join(form_rows())
    return (
        "/-\n  %s/TypeMap.lean — image of typedpy's builtin/typing -> field conversion functions on the C13\n"
        "  vocabulary.  GENERATED by extract/type_map.py from the typedpy working tree; do not edit.\n-/\n"
        "import TypedpyModel.Sem.ElabTypes\nnamespace Typedpy.%s\n\n"
        "def typeMap : TypeMap := [\n%s\n]\n\n"
        "def formRows : List FormRow := [\n%s\n]\n\n"
        "end Typedpy.%s\n" % (namespace, namespace, body, forms, namespace))


def write_if_changed(path, text):
    os.makedirs(os.path.dirname(path), exist_ok=True)
    if os.path.exists(path) and open(path, encoding="utf-8").read() == text:
        return False
    tmp = path + ".tmp"
    with open(tmp, "w", encoding="utf-8") as f:
        f.write(text)
    os.replace(tmp, path)
    return True


def regenerate(pin=False):
    changed = write_if_changed(GEN, render("Generated"))
    if pin:
        write_if_changed(PIN, render("Pinned"))
    return changed


if __name__ == "__main__":
    repo = os.environ.get("VERIF_REPO", "/repo")
    if repo not in sys.path:
        sys.path.insert(0, repo)
    print("changed" if regenerate(pin="--pin" in sys.argv) else "unchanged")
