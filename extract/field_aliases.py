"""
(T) dynamic probe for C20: does the LIBRARY make two different field declarations share a Field object?

`extract/shared_writes.py` finds the sites that write scratch state (`_name`) into item / key / value / option Field
objects.  Those writes are harmless between two threads that work on DIFFERENT fields or classes only as long as
different declarations own different Field objects (this is the hypothesis `conflictFreeB` of `C20_partial`: calls on
different declarations touch disjoint cells).  Whether that holds is a fact about how typedpy elaborates declarations
(`FieldMeta.__getitem__`, `get_typing_lib_info`, `convert_basic_types`, `_map_to_field`, the collection metaclasses), so it is
probed on the imported working tree: every spelling of the declaration vocabulary below is written out freshly (source
text, `exec`) for two fields of one class and one field of a second class, in one class per spelling and in one class
with ALL spellings, and every Field object reachable from each (class, field) root through instance attributes is
collected.  A Field object reachable from two different roots is an alias row.

Output: lean/TypedpyModel/Generated/FieldAliases.lean (written only when the content changes):
`fieldAliases : List FieldAlias` (expected: empty), `probedSpellings`, `probedObjects` (non-vacuity).
"""
import os
import sys
import typing

from .common import lean_str, write_if_changed

# declaration spellings: (key, annotation-or-assignment, source of the right-hand side).  Every use re-evaluates the
# source text, so nothing is shared by the probe itself.
SPELLINGS = [
    ("optional-field", "ann", "typing.Optional[String]"),
    ("optional-int", "ann", "typing.Optional[int]"),
    ("optional-struct", "ann", "typing.Optional[Inner]"),
    ("optional-array", "ann", "typing.Optional[Array[Integer]]"),
    ("anyof-none", "ann", "AnyOf[Integer, None]"),
    ("anyof-none-assign", "asg", "AnyOf[Integer, None]"),
    ("anyof-three-none", "asg", "AnyOf[Integer, String, None]"),
    ("pep604-none", "ann", "int | None"),
    ("pep604-union", "ann", "int | str"),
    ("union", "ann", "typing.Union[int, str]"),
    ("union-none", "ann", "typing.Union[int, str, None]"),
    ("builtin-int", "ann", "int"),
    ("builtin-str", "ann", "str"),
    ("field-class", "ann", "Integer"),
    ("field-class-assign", "asg", "Integer"),
    ("field-instance", "asg", "Integer(minimum=0)"),
    ("array", "asg", "Array[Integer]"),
    ("array-builtin", "asg", "Array[int]"),
    ("array-of-optional", "asg", "Array[AnyOf[Integer, None]]"),
    ("array-struct", "asg", "Array[Inner]"),
    ("typing-list", "ann", "typing.List[int]"),
    ("pep585-list", "ann", "list[int]"),
    ("list-of-optional", "ann", "list[typing.Optional[int]]"),
    ("deque", "asg", "Deque[Integer]"),
    ("set", "asg", "Set[Integer]"),
    ("immutable-set", "asg", "ImmutableSet[Integer]"),
    ("pep585-set", "ann", "set[int]"),
    ("tuple", "asg", "Tuple[Integer, String]"),
    ("tuple-homog", "asg", "Tuple[Integer]"),
    ("pep585-tuple", "ann", "tuple[int, str]"),
    ("map", "asg", "Map[String, Integer]"),
    ("pep585-dict", "ann", "dict[str, int]"),
    ("typing-dict", "ann", "typing.Dict[str, int]"),
    ("map-of-optional", "ann", "dict[str, typing.Optional[int]]"),
    ("anyof", "asg", "AnyOf[Integer, String]"),
    ("oneof", "asg", "OneOf[Integer, String]"),
    ("allof", "asg", "AllOf[Integer, Number]"),
    ("notfield", "asg", "NotField[String]"),
    ("enum", "asg", "Enum[1, 2, 3]"),
    ("struct-ref", "ann", "Inner"),
    ("structure-reference", "asg", "StructureReference(u=Integer, v=Array[Integer])"),
    ("default", "asg", "Array(items=Integer, default=lambda: [1])"),
]

PRELUDE = """
import typing
from typedpy import *
from typedpy import Structure

class Inner(Structure):
    u = Integer
    w = Array[String]
    _required = []
"""


def _class_src(name, fields):
    """fields: [(field name, how, rhs source)]"""
    lines = [f"class {name}(Structure):"]
    for f, how, rhs in fields:
        lines.append(f"    {f}: {rhs}" if how == "ann" else f"    {f} = {rhs}")
    lines.append("    _required = []")
    return "\n".join(lines) + "\n"


def _reach(field, Field, seen=None, path=""):
    """Field objects reachable from `field` through instance attributes (not through referenced Structure classes)"""
    seen = {} if seen is None else seen
    if not isinstance(field, Field) or id(field) in seen:
        return seen
    seen[id(field)] = (field, path)
    for k, v in sorted(vars(field).items()):
        if isinstance(v, Field):
            _reach(v, Field, seen, f"{path}.{k}")
        elif isinstance(v, (list, tuple)):
            for i, x in enumerate(v):
                if isinstance(x, Field):
                    _reach(x, Field, seen, f"{path}.{k}[{i}]")
    return seen


def probe():
    """returns (alias rows, number of spellings that could be declared, number of Field objects walked, skipped)"""
    from typedpy.structures import Field
    base = {}
    exec(PRELUDE, base)  # pylint: disable=exec-used
    roots = []      # (spelling, class name, field name, field object)
    usable = []
    skipped = []
    for i, (key, how, rhs) in enumerate(SPELLINGS):
        ns = dict(base)
        src = _class_src(f"P{i}a", [("x", how, rhs), ("y", how, rhs)]) + _class_src(f"P{i}b", [("z", how, rhs)])
        try:
            exec(src, ns)  # pylint: disable=exec-used
        except Exception as e:  # a spelling this tree does not support is not probed (recorded for the evidence)
            skipped.append(f"{key}: {type(e).__name__}")
            continue
        usable.append((key, how, rhs))
        for cname, fname in ((f"P{i}a", "x"), (f"P{i}a", "y"), (f"P{i}b", "z")):
            fobj = ns[cname].get_all_fields_by_name().get(fname)
            if fobj is not None:
                roots.append((key, cname, fname, fobj))
    # one class with every usable spelling in a differently named field, and a second one (cross-spelling sharing)
    for cname in ("PAll1", "PAll2"):
        ns = dict(base)
        try:
            exec(_class_src(cname, [(f"f{j}", how, rhs) for j, (key, how, rhs) in enumerate(usable)]), ns)  # pylint: disable=exec-used
            for j, (key, how, rhs) in enumerate(usable):
                fobj = ns[cname].get_all_fields_by_name().get(f"f{j}")
                if fobj is not None:
                    roots.append((key, cname, f"f{j}", fobj))
        except Exception as e:
            skipped.append(f"{cname}: {type(e).__name__}")
    owners = {}
    for key, cname, fname, fobj in roots:
        for oid, (obj, path) in _reach(fobj, Field).items():
            owners.setdefault(oid, (obj, []))[1].append((key, cname, fname, path))
    rows = []
    seen_rows = set()
    for oid, (obj, own) in owners.items():
        decls = sorted({(c, f) for _, c, f, _ in own})
        if len(decls) < 2:
            continue
        spell = sorted({k for k, _, _, _ in own})
        scope = "cross-class" if len({c for c, _ in decls}) > 1 else "same-class"
        path = sorted({p for _, _, _, p in own})[0]
        row = (type(obj).__name__, scope, ",".join(spell[:6]), path or "<the field itself>")
        if row not in seen_rows:
            seen_rows.add(row)
            rows.append(row)
    rows.sort()
    return rows, len(usable), len(owners), skipped


def render(rows, n_spell, n_obj):
    out = ["/- GENERATED by extract/field_aliases.py (dynamic probe of the imported typedpy working tree) — do not edit. -/",
           "import TypedpyModel.Sem.SharedWrite", "namespace Typedpy.Generated", "open Typedpy.Sched", "",
           f"def probedSpellings : Nat := {n_spell}", f"def probedObjects : Nat := {n_obj}", "",
           "def fieldAliases : List FieldAlias := ["]
    out.append(",\n".join(
        f"  {{ objType := {lean_str(t)}, scope := {lean_str(s)}, spellings := {lean_str(sp)}, path := {lean_str(p)} }}"
        for t, s, sp, p in rows))
    out += ["]", "", "end Typedpy.Generated", ""]
    return "\n".join(out)


def regenerate():
    rows, n_spell, n_obj, skipped = probe()
    write_if_changed("FieldAliases.lean", render(rows, n_spell, n_obj))
    return rows, n_spell, n_obj, skipped


if __name__ == "__main__":
    sys.path.insert(0, os.environ.get("VERIF_REPO", "/repo"))
    rs, ns, no, sk = regenerate()
    for r in rs:
        print("ALIAS", r)
    print(f"field_aliases: {len(rs)} aliases, {ns} spellings, {no} Field objects; skipped {sk}")
