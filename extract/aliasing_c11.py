"""
(T) translator for C11: regenerate lean/TypedpyModel/Generated/AliasingC11.lean from $VERIF_REPO on every run.

One row per (copy operation, kind of object) saying what the code does with the OBJECT GRAPH there
(Sem/AliasC11.lean reads the rows):

    op    copy | deepcopy | pickle
    kind  structure | immStructure | listStruct | dictStruct | dequeStruct
    mode  self_ (the object itself comes back) | shallow (new object, same first-level values) | deep
    back  where the `_instance` back-reference of a copied wrapper points:
          detach (a plain container comes back) | memoOrOwner (new owner when the owner is being copied, else the
          ORIGINAL owner) | memoOrDetach (new owner when the owner is being copied, else a plain container) |
          memoOrCopyOwner (pickle: the owner travels with the wrapper) | owner (always the original owner)
    ownerMutated   taking the copy re-assigns the field of the original owner

Two independent readings are combined:

  * AST idioms of `Structure.__copy__ / __deepcopy__ / __getstate__ / __setstate__` (structures.py) and of
    `_ListStruct / _DictStruct / _DequeStruct .__copy__ / __deepcopy__ / __getstate__ / __setstate__ / __reduce__`
    (collections_impl.py): `return self` under the immutability test, `result.__dict__.update(self.__dict__)`,
    `setattr(result, k, deepcopy(v, memo))`, `memo.get(instance_id, self._instance)` (optionally behind the
    "copied on its own" guard of the repair), a `__copy__` that returns `self.copy()` (absent: copyreg rebuilds the
    wrapper through its overridden mutators), `"the_instance": self._instance` in the pickled state;
  * an identity probe on the real code: the operation is run on sentinel instances (a mutable and an immutable
    class with Array / Map / Deque fields and an untyped list), and the returned graph is compared by `is` with the
    graph it was given; the owner is fingerprinted before and after.

The probe decides the row; where an idiom was recognised the two readings must agree (`agree`), which is a proof
obligation (`C11.copy_tables_ok`).
"""
import ast
import os

from .common import repo_root, write_if_changed, lean_bool, lean_str

OPS = ["copy", "deepcopy", "pickle"]
WRAPPERS = {"listStruct": ("_ListStruct", "arr"), "dictStruct": ("_DictStruct", "m"), "dequeStruct": ("_DequeStruct", "d")}


# ------------------------------------------------------------------ AST reading

def _parse(rel):
    return ast.parse(open(os.path.join(repo_root(), "typedpy", rel), encoding="utf-8").read())


def _method(tree, cls, fn):
    for n in tree.body:
        if isinstance(n, ast.ClassDef) and n.name == cls:
            for m in n.body:
                if isinstance(m, ast.FunctionDef) and m.name == fn:
                    return m
    return None


def _src(node):
    return ast.unparse(node) if node is not None else ""


def ast_readings():
    """(op, kind) -> idiom string ('' when nothing recognisable)"""
    out = {}
    st = _parse("structures/structures.py")
    dc = _src(_method(st, "Structure", "__deepcopy__"))
    if "return self" in dc and "ImmutableStructure" in dc:
        out[("deepcopy", "immStructure")] = "self_"
    if "deepcopy(v, memo)" in dc and "setattr(result" in dc and "memo[id(self)] = result" in dc:
        out[("deepcopy", "structure")] = "deep"
    cp = _src(_method(st, "Structure", "__copy__"))
    if "result.__dict__.update(self.__dict__)" in cp:
        out[("copy", "structure")] = "shallow"
        out[("copy", "immStructure")] = "shallow"
    gs, ss = _src(_method(st, "Structure", "__getstate__")), _src(_method(st, "Structure", "__setstate__"))
    if gs and "self.__dict__.update(state)" in ss:
        out[("pickle", "structure")] = "deep"
        out[("pickle", "immStructure")] = "deep"
    co = _parse("fields/collections_impl.py")
    for kind, (cls, _) in WRAPPERS.items():
        d = _src(_method(co, cls, "__deepcopy__"))
        if "memo.get(instance_id, self._instance)" in d:
            out[("deepcopy", kind)] = "memoOrDetach" if "_copied_on_its_own(self, memo)" in d else "memoOrOwner"
        c = _method(co, cls, "__copy__")
        if c is None:
            out[("copy", kind)] = "owner"          # copyreg: __reduce_ex__ + __setstate__ + items re-stored through the overrides
        elif "return self.copy()" in _src(c):
            out[("copy", kind)] = "detach"
        g = _src(_method(co, cls, "__getstate__"))
        if "self._instance" in g and _method(co, cls, "__setstate__") is not None:
            out[("pickle", kind)] = "memoOrCopyOwner"
    return out


# ------------------------------------------------------------------ identity probe

def _classes():
    from typedpy import Structure, ImmutableStructure, Array, Map, Deque, Integer, String, Anything
    body = lambda: {"arr": Array[Integer], "m": Map[String, Integer], "d": Deque[Integer], "u": Anything,
                    "_required": []}
    mut = type("C11ProbeMutable", (Structure,), body())
    imm = type("C11ProbeImmutable", (ImmutableStructure,), body())
    return mut, imm


def _fresh(cls):
    import collections
    return cls(arr=[1, 2], m={"a": 1}, d=collections.deque([1, 2]), u=[[1], [2]])


def _do(op, x):
    import copy
    import pickle
    if op == "copy":
        return copy.copy(x)
    if op == "deepcopy":
        return copy.deepcopy(x)
    return pickle.loads(pickle.dumps(x))


def _fp(x):
    return repr(sorted((k, repr(v)) for k, v in x.__dict__.items() if not k.startswith("_")))


def probe():
    """[(op, kind, row)] with row = dict(mode, back, ownerMutated)"""
    import sys
    mut, imm = _classes()
    # pickle resolves classes by module attribute
    mod = sys.modules[mut.__module__]
    saved = {n: getattr(mod, n, None) for n in (mut.__name__, imm.__name__)}
    setattr(mod, mut.__name__, mut)
    setattr(mod, imm.__name__, imm)
    rows = []
    try:
        for op in OPS:
            for kind, cls in (("structure", mut), ("immStructure", imm)):
                x = _fresh(cls)
                try:
                    y = _do(op, x)
                    if y is x:
                        mode = "self_"
                    elif y.__dict__["u"] is x.__dict__["u"]:
                        mode = "shallow"
                    else:
                        mode = "deep"
                except Exception:
                    mode = "self_"     # cannot tell: the unsafe answer
                rows.append((op, kind, {"mode": mode, "back": "detach", "ownerMutated": False}))
            for kind, (wcls, f) in WRAPPERS.items():
                x = _fresh(mut)
                w = x.__dict__[f]
                before = _fp(x)
                row = {"mode": "deep" if op != "copy" else "shallow", "back": "owner", "ownerMutated": False}
                try:
                    y = _do(op, w)
                    row["ownerMutated"] = _fp(x) != before
                    owner = getattr(y, "_instance", None)
                    if type(y).__name__ != wcls:
                        alone = "detach"
                    elif owner is x:
                        alone = "owner"
                    else:
                        alone = "newOwner"
                    # the same wrapper copied as part of its owner
                    x2 = _fresh(mut)
                    z = _do(op, x2)
                    inside = getattr(z.__dict__[f], "_instance", None)
                    rebound = inside is z
                    if op == "copy":
                        row["back"] = "detach" if alone == "detach" else "owner"
                    elif alone == "detach":
                        row["back"] = "memoOrDetach" if rebound else "detach"
                    elif alone == "owner":
                        row["back"] = "memoOrOwner" if rebound else "owner"
                    else:
                        row["back"] = "memoOrCopyOwner" if rebound else "owner"
                except Exception:
                    row["ownerMutated"] = _fp(x) != before
                rows.append((op, kind, row))
    finally:
        for n, v in saved.items():
            if v is None:
                try:
                    delattr(mod, n)
                except AttributeError:
                    pass
            else:
                setattr(mod, n, v)
    return rows


def render(rows, readings, namespace="Typedpy.Generated"):
    lines = ["/- GENERATED by extract/aliasing_c11.py from the typedpy working tree — do not edit. -/",
             "import TypedpyModel.Sem.AliasC11", f"namespace {namespace}", "open Typedpy.AliasC11", "",
             "def copyRows : List CopyRow := ["]
    body = []
    for op, kind, r in rows:
        a = readings.get((op, kind), "")
        probed = r["mode"] if kind in ("structure", "immStructure") else r["back"]
        agree = (a == "") or (a == probed)
        body.append(f"  {{ op := .{op}, kind := .{kind}, mode := .{r['mode']}, back := .{r['back']}, "
                    f"ownerMutated := {lean_bool(r['ownerMutated'])}, astMode := {lean_str(a)}, agree := {lean_bool(agree)} }}")
    lines.append(",\n".join(body))
    lines += ["]", "", f"end {namespace}", ""]
    return "\n".join(lines)


def generate():
    rows = probe()
    readings = ast_readings()
    changed = write_if_changed("AliasingC11.lean", render(rows, readings))
    return rows, readings, changed


if __name__ == "__main__":
    rows, readings, changed = generate()
    for op, kind, r in rows:
        print(op, kind, r, "ast=" + readings.get((op, kind), ""))
    print("changed:", changed)
