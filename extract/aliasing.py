"""
(T) translator for C19: regenerate lean/TypedpyModel/Generated/Aliasing.lean from $VERIF_REPO on every run.

One row per (operation, site) of the statement — site = (field kind, element category) for the
field-level operations (construct, setattr, deserialize, serialize, Field.serialize, fast serialization)
and a named class-/document-level site for convert_dict, class derivation, structure_to_schema and
schema_to_struct_code — saying what the code does there:

    argMutated : the operation edits an object of the caller in place
    returns    : fresh | aliasInternal | aliasArg | scalar | raises     (output side)
    retainsArg : the instance keeps the caller's object itself          (input side)
    shallow    : the copy made is one level deep only

Two independent readings are combined:

  * AST idioms where a recognisable one exists: the `return value` / `lambda value: value` short cuts of
    the collection fields' `serialize` methods (array.py, deque_field.py, map_field.py, set_field.py,
    tuple_field.py) versus list/dict comprehensions; the delegation `obj.serialize(val)` of
    fast_serialization.py (fast rows inherit the field rows); `copy.deepcopy(` on the parameter in
    versioned_mapping.py; in-place mutators (`.remove(`, `.append(` …) applied in
    `schema_to_struct_code` to a name bound to a part of the `schema` parameter without an intervening
    copy; `super().__init__(…)` in the `_ListStruct/_DequeStruct/_DictStruct` constructors (the copy into
    the wrapper).
  * a dynamic alias probe (harness/aliasprobe.py + the witness cases of harness/suites/alias.py): the real
    operation is run on sentinel objects, the returned / retained object graph is compared by `is` with the
    graph it was given, arguments are deep-snapshotted before and after.

The probe decides the row; where an idiom was recognised the two readings must agree (`agree`), which is a
proof obligation (`tables_ok`).  A site without idiom has astMode = "".
"""
import ast
import os

from .common import repo_root, write_if_changed, lean_bool, lean_str

MUTATORS = {"append", "extend", "insert", "pop", "remove", "clear", "update", "sort", "reverse", "setdefault",
            "popitem", "add", "discard", "__setitem__", "__delitem__"}
COPY_CALLS = {"list", "dict", "set", "tuple", "sorted", "copy", "deepcopy", "frozenset", "OrderedDict"}

COLL_FILES = {"array": ("fields/array.py", "Array"), "deque": ("fields/deque_field.py", "Deque"),
              "map": ("fields/map_field.py", "Map"), "set": ("fields/set_field.py", "Set"),
              "tuple": ("fields/tuple_field.py", "Tuple")}
POS_KIND = {"array": "arrayPos", "deque": "dequePos", "tuple": "tuplePos"}
GENERIC_CATS = ["scalar", "any", "coll", "inline", "wrap"]


def _parse(rel):
    path = os.path.join(repo_root(), "typedpy", rel)
    return ast.parse(open(path, encoding="utf-8").read())


def _find(tree, cls, fn):
    for n in tree.body:
        if isinstance(n, ast.ClassDef) and n.name == cls:
            for m in n.body:
                if isinstance(m, ast.FunctionDef) and m.name == fn:
                    return m
    return None


def _find_fn(tree, fn):
    for n in ast.walk(tree):
        if isinstance(n, ast.FunctionDef) and n.name == fn:
            return n
    return None


def _expr_mode(e, param="value"):
    """what a returned expression does with the stored value"""
    if isinstance(e, ast.Name) and e.id == param:
        return "alias"
    if isinstance(e, (ast.ListComp, ast.DictComp, ast.SetComp)):
        return "rebuild"
    if isinstance(e, ast.Call) and isinstance(e.func, ast.Name) and e.func.id in ("list", "dict", "tuple") \
            and len(e.args) == 1 and isinstance(e.args[0], ast.Name) and e.args[0].id == param:
        return "shallow"
    if isinstance(e, ast.Call) and isinstance(e.func, ast.Attribute) and e.func.attr == "deepcopy":
        return "deep"
    if isinstance(e, ast.Call) and isinstance(e.func, ast.Name) and e.func.id == "deepcopy":
        return "deep"
    return None


def _labels(test):
    s = ast.unparse(test)
    out = []
    if "Number" in s or "String" in s:
        out.append("numstr")
    if "ClassReference" in s:
        out.append("struct")
    if s.replace(" ", "").endswith(",list)") or ", list)" in s:
        out.append("pos")
    if "Field)" in s and "ClassReference" not in s and "Number" not in s:
        out.append("field")
    if "is not None" in s:
        out.append("typed")
    return out


def coll_serialize_modes(kind):
    """{cat | 'pos' | 'untyped': mode} read off `<Coll>.serialize`"""
    rel, cls = COLL_FILES[kind]
    fn = _find(_parse(rel), cls, "serialize")
    if fn is None:
        return {}
    found = []   # (labels, mode)

    def walk(stmts, labels):
        for st in stmts:
            if isinstance(st, ast.If):
                ls = _labels(st.test)
                if "cached" in ast.unparse(st.test):
                    continue
                walk(st.body, labels + ls)
                walk(st.orelse, labels)
            elif isinstance(st, ast.Return) and st.value is not None:
                m = _expr_mode(st.value)
                if m:
                    found.append((labels, m))
            elif isinstance(st, ast.Assign) and isinstance(st.value, ast.Lambda):
                tgt = st.targets[0]
                if isinstance(tgt, ast.Attribute) and tgt.attr == "_serialize":
                    args = st.value.args.args
                    m = _expr_mode(st.value.body, args[0].arg if args else "value")
                    if m:
                        found.append((labels, m))
    walk(fn.body, [])
    out = {}
    specific = set()
    for labels, m in found:
        if "numstr" in labels:
            out["number"] = out["string"] = m
            specific |= {"number", "string"}
        elif "struct" in labels:
            out["struct"] = m
            specific.add("struct")
        elif "pos" in labels:
            out["pos"] = m
        elif "field" in labels or ("typed" in labels and kind == "map"):
            for c in GENERIC_CATS:
                out.setdefault(c, m)
            out["_generic"] = m
        elif not labels:
            out["untyped"] = m
    if "_generic" in out:
        for c in ("number", "string", "struct"):
            if c not in specific:
                out.setdefault(c, out["_generic"])
        del out["_generic"]
    return out


def fast_delegates():
    """fast serialization hands the stored value to `<field>.serialize(val)`"""
    fn = _find_fn(_parse("serialization/fast_serialization.py"), "_get_serialize")
    if fn is None:
        return False
    for n in ast.walk(fn):
        if isinstance(n, ast.Call) and isinstance(n.func, ast.Attribute) and n.func.attr == "serialize" \
                and isinstance(n.func.value, ast.Name) and n.func.value.id == "obj":
            return True
    return False


def convert_modes():
    tree = _parse("serialization/versioned_mapping.py")
    out = {}
    fn = _find_fn(tree, "convert_dict")
    if fn is not None:
        param = fn.args.args[0].arg
        deep = any(isinstance(n, ast.Call) and ast.unparse(n.func).endswith("deepcopy") and n.args
                   and isinstance(n.args[0], ast.Name) and n.args[0].id == param for n in ast.walk(fn))
        out["document"] = "deep" if deep else "alias"
    fn = _find_fn(tree, "_convert")
    if fn is not None:
        # Constant values: `out_dict[k] = copy.deepcopy(v())`
        const_deep = any(isinstance(n, ast.Call) and ast.unparse(n.func).endswith("deepcopy") and n.args
                         and isinstance(n.args[0], ast.Call) for n in ast.walk(fn))
        out["mapping"] = "deep" if const_deep else "alias"
    return out


def schema_to_code_mutates():
    """does schema_to_struct_code apply an in-place mutator to an object obtained from its `schema` parameter
    without copying it first?"""
    # only the schema -> code direction (in the other direction `definitions` is a documented accumulator)
    to_code = lambda n: any(t in n for t in ("to_code", "to_struct_code", "field_code", "from_schema", "from_json_schema"))
    return module_mutates_params("json_schema/json_schema_mapping.py",
                                 {"schema", "definitions_schema", "definitions"}, to_code)


def mapper_arg_mutates(fn_name):
    """does aggregate_(de)serialization_mappers edit the caller's `mapper=` object (a list of chained mappers is
    used as it is) in place?"""
    return fn_mutates_param("serialization/mappers.py", fn_name, {"override_mapper"})


def fn_mutates_param(rel, fn_name, params):
    """tiny taint analysis over the statements of one function in source order: a name is tainted while it is
    bound to (part of) a parameter object without an intervening copy; an in-place mutator call, an augmented
    assignment or a subscript store/delete on a tainted name means the caller's object is edited"""
    fn = _find_fn(_parse(rel), fn_name)
    if fn is None:
        return None
    return _fn_node_mutates(fn, params)


def module_mutates_params(rel, param_names, name_filter=None):
    """the same analysis over EVERY function / method of a module that has one of the named parameters (the
    schema -> code direction hands the caller's schema and definitions down through many small functions)"""
    tree = _parse(rel)
    seen = None
    for fn in [n for n in ast.walk(tree) if isinstance(n, ast.FunctionDef)]:
        ps = {a.arg for a in fn.args.posonlyargs + fn.args.args + fn.args.kwonlyargs} & set(param_names)
        if not ps or (name_filter and not name_filter(fn.name)):
            continue
        seen = bool(seen) or _fn_node_mutates(fn, ps)
    return seen


def _fn_node_mutates(fn, params):
    mutated = False
    tainted2 = set()
    for st in _linear(fn):
        if isinstance(st, ast.Assign) and len(st.targets) == 1 and isinstance(st.targets[0], ast.Name):
            name = st.targets[0].id
            if _derived_with(st.value, params, tainted2):
                tainted2.add(name)
            else:
                tainted2.discard(name)
        if isinstance(st, ast.AugAssign) and _derived_with(st.target, params, tainted2):
            mutated = True
        for n in ast.walk(st) if not isinstance(st, (ast.For, ast.If, ast.While, ast.With, ast.Try)) else []:
            if isinstance(n, ast.Call) and isinstance(n.func, ast.Attribute) and n.func.attr in MUTATORS:
                if _derived_with(n.func.value, params, tainted2):
                    mutated = True
            if isinstance(n, (ast.Subscript,)) and isinstance(n.ctx, (ast.Store, ast.Del)):
                if _derived_with(n.value, params, tainted2):
                    mutated = True
    return mutated


def _linear(fn):
    """statements of a function in source order, flattened through compound statements"""
    out = []

    def rec(stmts):
        for st in stmts:
            out.append(st)
            for attr in ("body", "orelse", "finalbody"):
                sub = getattr(st, attr, None)
                if isinstance(sub, list) and sub and isinstance(sub[0], ast.stmt):
                    rec(sub)
    rec(fn.body)
    return out


def _derived_with(e, params, tainted):
    if isinstance(e, ast.Name):
        return e.id in params or e.id in tainted
    if isinstance(e, ast.Subscript):
        return _derived_with(e.value, params, tainted)
    if isinstance(e, ast.Call):
        f = e.func
        if isinstance(f, ast.Name) and f.id in COPY_CALLS:
            return False
        if isinstance(f, ast.Attribute):
            if f.attr in ("copy", "deepcopy"):
                return False
            if f.attr in ("get", "setdefault", "values", "items"):
                return _derived_with(f.value, params, tainted)
        return False
    if isinstance(e, ast.IfExp):
        return _derived_with(e.body, params, tainted) or _derived_with(e.orelse, params, tainted)
    if isinstance(e, ast.BoolOp):
        return any(_derived_with(v, params, tainted) for v in e.values)
    return False


def to_json_schema_returns_state():
    """does some field class's `to_json_schema` return an attribute of the field / its class (or a module-level
    name) instead of building the literal?  -> the returned schema would contain that shared object"""
    found = None
    base = os.path.join(repo_root(), "typedpy")
    for sub in ("extfields", "fields"):
        d = os.path.join(base, sub)
        for name in sorted(os.listdir(d)):
            if not name.endswith(".py"):
                continue
            tree = ast.parse(open(os.path.join(d, name), encoding="utf-8").read())
            module_names = {t.id for n in tree.body if isinstance(n, ast.Assign) for t in n.targets
                            if isinstance(t, ast.Name) and isinstance(n.value, (ast.Dict, ast.List))}
            for cls in [n for n in tree.body if isinstance(n, ast.ClassDef)]:
                for fn in [m for m in cls.body if isinstance(m, ast.FunctionDef) and m.name == "to_json_schema"]:
                    found = found or False
                    for r in [n for n in ast.walk(fn) if isinstance(n, ast.Return) and n.value is not None]:
                        v = r.value
                        if isinstance(v, ast.Attribute) and isinstance(v.value, ast.Name) and v.value.id in ("self", "cls", cls.name):
                            found = True
                        if isinstance(v, ast.Name) and v.id in module_names:
                            found = True
    return found


def wrapper_delegation():
    """{wrapper kind: which option `<Wrapper>.serialize` hands every value to}, read off multified_wrappers.py:
    `return <self.get_fields()[0]>.serialize(value)` -> "first"; `self._not_nonefield.serialize(value)` with
    `_not_nonefield` assigned inside the loop over the options in `__init__` -> "last-non-none";
    `raise` -> "raises"; anything else -> "first-fit" (value directed)"""
    tree = _parse("fields/multified_wrappers.py")
    out = {}
    for kind, cls in (("anyOf", "AnyOf"), ("allOf", "AllOf"), ("oneOf", "OneOf"), ("notF", "NotField")):
        fn = _find(tree, cls, "serialize")
        if fn is None:
            out[kind] = "first-fit"
            continue
        src = ast.unparse(fn)
        loop_returns = [r for l in ast.walk(fn) if isinstance(l, ast.For) and isinstance(l.target, ast.Name)
                        for r in ast.walk(l) if isinstance(r, ast.Return) and isinstance(r.value, ast.Call)
                        and isinstance(r.value.func, ast.Attribute) and r.value.func.attr == "serialize"
                        and isinstance(r.value.func.value, ast.Name) and r.value.func.value.id == l.target.id]
        if loop_returns:
            # `for field in <options>: ... return field.serialize(value)`: the option is chosen by the value
            out[kind] = "first-fit"
        elif any(isinstance(n, ast.Raise) for n in ast.walk(fn)) and not any(isinstance(n, ast.Return) for n in ast.walk(fn)):
            out[kind] = "raises"
        elif "_not_nonefield" in src:
            init = _find(tree, cls, "__init__")
            loops = [n for n in ast.walk(init) if isinstance(n, ast.For)] if init else []
            in_loop = any("_not_nonefield" in ast.unparse(l) for l in loops)
            brk = any(isinstance(n, ast.Break) for l in loops for n in ast.walk(l))
            out[kind] = ("first-non-none" if brk else "last-non-none") if in_loop else "first-fit"
        elif "get_fields()[0]" in src:
            out[kind] = "first"
        elif "get_fields()[-1]" in src:
            out[kind] = "last"
        else:
            out[kind] = "first-fit"
    return out


# ------------------------------------------------------------------ what `<Field>.__set__` stores / `serialize_val` returns

def _final_store_arg(fn, param="value"):
    """the expression a `__set__` finally stores: the 2nd argument of its LAST top-level `super().__set__(instance, X)`
    (the trusted short cut `if ..._trust_supplied_values...: super().__set__(...); return` is by contract and skipped)"""
    last = None
    for st in fn.body:
        if isinstance(st, ast.Expr) and isinstance(st.value, ast.Call):
            c = st.value
            if isinstance(c.func, ast.Attribute) and c.func.attr == "__set__" and isinstance(c.func.value, ast.Call) \
                    and isinstance(c.func.value.func, ast.Name) and c.func.value.func.id == "super" and len(c.args) == 2:
                last = c.args[1]
    return last


def _is_copy_expr(e, param):
    """an expression that builds a new object (a call other than a bare pass-through, a comprehension, a literal)"""
    if isinstance(e, (ast.ListComp, ast.DictComp, ast.SetComp, ast.List, ast.Dict, ast.Set, ast.Tuple)):
        return True
    if isinstance(e, ast.Call):
        return True
    if isinstance(e, ast.IfExp):
        # `value if isinstance(value, frozenset) else frozenset(value)`: the kept branch is an immutable object
        return _is_copy_expr(e.orelse, param) or _is_copy_expr(e.body, param)
    return False


def wrapper_store_modes():
    """{kind: "alias" | "rebuild"} for the multi-field wrappers' `__set__`: `super().__set__(instance, value)` with the
    parameter itself keeps the caller's object; `super().__set__(instance, instance.__dict__[self._name])` (what the
    matched option stored) delegates the copy to the option"""
    tree = _parse("fields/multified_wrappers.py")
    out = {}
    for kind, cls in (("anyOf", "AnyOf"), ("oneOf", "OneOf"), ("allOf", "AllOf"), ("notF", "NotField")):
        fn = _find(tree, cls, "__set__")
        if fn is None:
            continue
        x = _final_store_arg(fn)
        if x is None:
            continue
        if isinstance(x, ast.Name) and x.id == "value":
            # still the parameter, unless it was rebound to what an option stored (`value = instance.__dict__[...]`)
            rebound = any(isinstance(st, ast.Assign) and any(isinstance(t, ast.Name) and t.id == "value" for t in st.targets)
                          for st in ast.walk(fn))
            out[kind] = "rebuild" if rebound else "alias"
        else:
            out[kind] = "rebuild"
    return out


def simple_store_modes():
    """{kind: mode} for ClassReference (TypedField.__set__ stores the instance it is given), StructureReference (builds a
    new structure from the dict) and Anything (no `__set__` of its own: `Field.__set__` puts the value into
    `instance.__dict__`)"""
    out = {}
    st = _parse("structures/structures.py")
    fn = _find(st, "TypedField", "__set__")
    x = _final_store_arg(fn) if fn is not None else None
    if x is not None:
        out["struct"] = "alias" if isinstance(x, ast.Name) and x.id == "value" else "rebuild"
    fn = _find(_parse("fields/structure_reference.py"), "StructureReference", "__set__")
    x = _final_store_arg(fn) if fn is not None else None
    if x is not None:
        if isinstance(x, ast.Name) and x.id != "value":
            binds = [a.value for a in ast.walk(fn) if isinstance(a, ast.Assign)
                     and any(isinstance(t, ast.Name) and t.id == x.id for t in a.targets)]
            out["inline"] = "rebuild" if binds and all(isinstance(b, ast.Call) for b in binds) else "alias"
        else:
            out["inline"] = "alias" if isinstance(x, ast.Name) else "rebuild"
    anything = [n for n in _parse("fields/anything.py").body if isinstance(n, ast.ClassDef) and n.name == "Anything"]
    fn = _find(st, "Field", "__set__")
    if anything and fn is not None and not any(isinstance(m, ast.FunctionDef) and m.name == "__set__" for m in anything[0].body):
        stores = [a for a in ast.walk(fn) if isinstance(a, ast.Assign) and isinstance(a.targets[0], ast.Subscript)
                  and "__dict__" in ast.unparse(a.targets[0])]
        if stores:
            out["any"] = "alias" if any(isinstance(a.value, ast.Name) and a.value.id == "value" for a in stores) else "rebuild"
    return out


def private_copy_skips_tuples():
    """`_private_copy` (multified_wrappers.py) deep-copies the value when `isinstance(value, (<kinds>))`: True when the
    kinds do not include `tuple` (a tuple holding mutable elements is then stored as given); None without the helper"""
    fn = _find_fn(_parse("fields/multified_wrappers.py"), "_private_copy")
    if fn is None:
        return None
    tests = [n for n in ast.walk(fn) if isinstance(n, ast.Call) and isinstance(n.func, ast.Name) and n.func.id == "isinstance"
             and len(n.args) == 2 and isinstance(n.args[0], ast.Name) and n.args[0].id == "value"]
    if not tests:
        return None
    return not any("tuple" in ast.unparse(t.args[1]) for t in tests)


def coll_store_modes():
    """{(kind, "typed" | "untyped"): mode} for Set / ImmutableSet / Tuple `__set__` (the collections without a typed
    wrapper class): is what is finally stored still the parameter object on some non-trusted path?"""
    out = {}
    for kind, rel, cls in (("set", "fields/set_field.py", "Set"), ("immSet", "fields/set_field.py", "ImmutableSet"),
                           ("tuple", "fields/tuple_field.py", "Tuple")):
        fn = _find(_parse(rel), cls, "__set__")
        if fn is None:
            continue
        x = _final_store_arg(fn)
        if x is None:
            continue
        if not (isinstance(x, ast.Name) and x.id == "value"):
            # stored through another name: look at how that name was bound
            binds = [st.value for st in ast.walk(fn) if isinstance(st, ast.Assign)
                     and any(isinstance(t, ast.Name) and isinstance(x, ast.Name) and t.id == x.id for t in st.targets)]
            m = "rebuild" if binds and all(_is_copy_expr(b, "value") for b in binds) else "alias"
            out[(kind, "typed")] = out[(kind, "untyped")] = m
            continue
        # stored as `value`: unconditional top-level rebinding, or rebinding per branch of an if-chain
        top = [st for st in fn.body if isinstance(st, ast.Assign)
               and any(isinstance(t, ast.Name) and t.id == "value" for t in st.targets)]
        if any(_is_copy_expr(st.value, "value") for st in top):
            out[(kind, "typed")] = out[(kind, "untyped")] = "rebuild"
            continue
        typed = untyped = "alias"
        for st in fn.body:
            if not isinstance(st, ast.If) or "_trust_supplied_values" in ast.unparse(st.test):
                continue
            node = st
            while isinstance(node, ast.If):
                assigns = [a for a in node.body if isinstance(a, ast.Assign)
                           and any(isinstance(t, ast.Name) and t.id == "value" for t in a.targets)
                           and _is_copy_expr(a.value, "value")]
                if assigns:
                    if "items" in ast.unparse(node.test):
                        typed = "rebuild"
                    else:
                        untyped = "rebuild"
                node = node.orelse[0] if len(node.orelse) == 1 and isinstance(node.orelse[0], ast.If) else None
        out[(kind, "typed")], out[(kind, "untyped")] = typed, untyped
    return out


def serialize_val_modes():
    """{label: mode} read off `serialize_val` (the regular Serializer): what the branch of each collection kind
    returns — a comprehension (rebuild) or the stored value itself (alias).  labels: map, pos, typed, untyped, tuple,
    generic-seq, struct, wrapper"""
    fn = _find_fn(_parse("serialization/serialization.py"), "serialize_val")
    if fn is None:
        return {}
    param = "val"
    out = {}

    def ret_mode(e):
        m = _expr_mode(e, param)
        if m:
            return m
        if isinstance(e, ast.Call):
            return "rebuild"          # delegates to another serializer function
        return None

    def returns_in(stmts):
        return [n.value for st in stmts for n in ast.walk(st) if isinstance(n, ast.Return) and n.value is not None]

    for st in fn.body:
        if not isinstance(st, ast.If):
            continue
        test = ast.unparse(st.test)
        if "SizedCollection" in test:
            for sub in st.body:
                if isinstance(sub, ast.If) and "Map" in ast.unparse(sub.test):
                    ms = {ret_mode(r) for r in returns_in(sub.body)}
                    out["map"] = "alias" if "alias" in ms else "rebuild" if ms == {"rebuild"} else None
                elif isinstance(sub, ast.If):
                    node, labels = sub, []
                    while isinstance(node, ast.If):
                        t = ast.unparse(node.test)
                        lab = "pos" if "list" in t else "typed" if "Field" in t else None
                        rs = returns_in(node.body)
                        if lab and rs:
                            out[lab] = ret_mode(rs[0])
                        if node.orelse and not (len(node.orelse) == 1 and isinstance(node.orelse[0], ast.If)):
                            rs = returns_in(node.orelse)
                            if rs:
                                out["untyped"] = ret_mode(rs[0])
                            node = None
                        else:
                            node = node.orelse[0] if node.orelse else None
        elif "Tuple" in test and "tuple" in test:
            rs = returns_in(st.body)
            if rs:
                out["tuple"] = ret_mode(rs[0])
        elif "MultiFieldWrapper" in test:
            rs = returns_in(st.body)
            if rs:
                out["wrapper"] = ret_mode(rs[0])
        elif "isinstance(val, Structure)" in test and "ClassReference" in ast.unparse(st):
            rs = returns_in(st.body)
            if rs:
                out["struct"] = ret_mode(rs[-1])
    return {k: v for k, v in out.items() if v}


def wrapper_ctor_copies():
    """{kind: True/False}: the typed wrapper's constructor copies the incoming collection (`super().__init__(x)`)"""
    tree = _parse("fields/collections_impl.py")
    out = {}
    for kind, cls in (("array", "_ListStruct"), ("deque", "_DequeStruct"), ("map", "_DictStruct")):
        fn = _find(tree, cls, "__init__")
        if fn is None:
            continue
        out[kind] = any(isinstance(n, ast.Call) and isinstance(n.func, ast.Attribute) and n.func.attr == "__init__"
                        and isinstance(n.func.value, ast.Call) and isinstance(n.func.value.func, ast.Name)
                        and n.func.value.func.id == "super" and n.args for n in ast.walk(fn))
    return out


def owner_copy_idioms():
    """{"in": bool, "set": bool, "out": bool}: the defensive deep copies of immutable owners, read off structures.py —
    `Structure.__setattr__` (`value = deepcopy(value) ...` under an IS_IMMUTABLE test), `Field.__set__`
    (`deepcopy(value)` under IS_IMMUTABLE) and `Field.__get__` (`return deepcopy(res) if (is_immutable ...`)"""
    tree = _parse("structures/structures.py")

    def has_deepcopy_of(fn, name):
        if fn is None:
            return None
        guarded = "IS_IMMUTABLE" in ast.unparse(fn) or "is_immutable" in ast.unparse(fn)
        calls = [n for n in ast.walk(fn) if isinstance(n, ast.Call) and ast.unparse(n.func).endswith("deepcopy")
                 and n.args and isinstance(n.args[0], ast.Name) and n.args[0].id == name]
        return bool(calls) and guarded
    return {"in": has_deepcopy_of(_find(tree, "Structure", "__setattr__"), "value"),
            "set": has_deepcopy_of(_find(tree, "Field", "__set__"), "value"),
            "out": has_deepcopy_of(_find(tree, "Field", "__get__"), "res")}


def ast_readings():
    """{(op, kind, cat): astMode}"""
    out = {}
    own = owner_copy_idioms()
    for op, key in (("construct", "in"), ("deserialize", "in"), ("setattr", "set"), ("serialize", "out"),
                    ("fieldSerialize", "out"), ("fastSerialize", "out")):
        if own.get(key) is not None:
            out[(op, "owner", "none")] = "deep" if own[key] else "alias"
    delegates = fast_delegates()
    for kind in list(COLL_FILES) + ["immSet"]:
        modes = coll_serialize_modes("set" if kind == "immSet" else kind)
        for cat, m in modes.items():
            sites = [(POS_KIND[kind], "none")] if cat == "pos" and kind in POS_KIND else \
                [] if cat == "pos" else [(kind, cat)]
            for k, c in sites:
                out[("fieldSerialize", k, c)] = m
                if delegates:
                    out[("fastSerialize", k, c)] = m
    for site, m in convert_modes().items():
        out[("convert", site, "any")] = m
    mut = schema_to_code_mutates()
    if mut is not None:
        out[("schemaToCode", "schema", "any")] = "mutates" if mut else "keeps"
    for op, fname in (("deserialize", "aggregate_deserialization_mappers"), ("serialize", "aggregate_serialization_mappers")):
        mut = mapper_arg_mutates(fname)
        if mut is not None:
            out[(op, "mapping", "any")] = "mutates" if mut else "keeps"
    st = to_json_schema_returns_state()
    if st is not None:
        out[("toSchema", "fieldState", "any")] = "alias" if st else "deep"
    for kind, copies in wrapper_ctor_copies().items():
        for op in ("construct", "setattr"):
            for cat in ("number", "string", "scalar", "coll", "inline", "wrap", "untyped", "any", "struct"):
                out[(op, kind, cat)] = "rebuild" if copies else "alias"
    # what the multi-field wrappers' `__set__` finally stores (visible where the option is a container: the rows of
    # scalar / by-reference options show the option's behaviour, not the wrapper's)
    skips = private_copy_skips_tuples()
    for kind, m in wrapper_store_modes().items():
        for op in ("construct", "setattr"):
            for cat in (("untyped",) if kind == "notF" else ("coll", "inline", "wrap")):
                out[(op, kind, cat)] = m
            if kind in ("oneOf", "allOf"):
                # the wrapper stores `_private_copy(instance, value)`: a copy of "the mutable kinds" — is a tuple one of them?
                out[(op, kind, "tupl")] = "alias" if (m == "alias" or skips) else m
            elif kind == "anyOf":
                out[(op, kind, "tupl")] = m
    for kind, m in simple_store_modes().items():
        for op in ("construct", "setattr"):
            out[(op, kind, "none")] = m
    # Set / ImmutableSet / Tuple `__set__`
    for (kind, typed), m in coll_store_modes().items():
        cats = ("untyped",) if typed == "untyped" else ("number", "string", "scalar", "any", "coll", "struct", "inline", "wrap")
        for op in ("construct", "setattr"):
            for cat in cats:
                out[(op, kind, cat)] = m
                if kind == "tuple":
                    out[(op, "tuplePos", "none")] = m
    # `<Wrapper>.serialize` (fast serialization, <field>.serialize): a delegation `<option>.serialize(value)` hands on
    # what the option builds; OneOf.serialize raises
    for kind, how in wrapper_delegation().items():
        if kind == "notF" or how == "first-fit":
            continue
        for op in ("fieldSerialize",) + (("fastSerialize",) if delegates else ()):
            for cat in ("number", "string", "scalar", "any", "coll", "struct", "inline", "wrap"):
                out[(op, kind, cat)] = "error" if how == "raises" else "rebuild"
    # the regular Serializer: `serialize_val`
    sv = serialize_val_modes()
    allcats = ("number", "string", "scalar", "any", "coll", "struct", "inline", "wrap")
    if "map" in sv:
        for cat in allcats + ("untyped",):
            out[("serialize", "map", cat)] = sv["map"]
    if "typed" in sv:
        for kind in ("array", "deque", "set", "immSet"):
            for cat in allcats:
                out[("serialize", kind, cat)] = sv["typed"]
    if "untyped" in sv:
        for kind in ("array", "deque", "set", "immSet"):
            out[("serialize", kind, "untyped")] = sv["untyped"]
    if "pos" in sv:
        for kind in ("arrayPos", "dequePos"):
            out[("serialize", kind, "none")] = sv["pos"]
    if "tuple" in sv:
        out[("serialize", "tuplePos", "none")] = sv["tuple"]
        for cat in allcats:
            out[("serialize", "tuple", cat)] = sv["tuple"]
    if "wrapper" in sv:
        for kind in ("anyOf", "oneOf", "allOf"):
            for cat in allcats:
                out[("serialize", kind, cat)] = sv["wrapper"]
    if "struct" in sv:
        out[("serialize", "struct", "none")] = out[("serialize", "inline", "none")] = sv["struct"]
    return out


# ------------------------------------------------------------------ dynamic probe

def _descendant_shared(paths, p):
    return any(q[:len(p)] == p and len(q) > len(p) for q in paths)


def probe_row(op, kind, cat, impl, node_path):
    """row facts from the real run of a witness case"""
    row = {"argMutated": not impl.get("args_same", True), "returns": "fresh", "retainsArg": False, "shallow": False,
           "deep": False}
    if not impl.get("ok"):
        row["returns"] = "raises"
        return row
    paths = [list(p) for p in impl.get("shared_paths", [])]
    below = _descendant_shared(paths, node_path)
    # (a tuple / frozenset handed on as it is, is no mutable object itself: it counts when something below it is shared)
    node_shared = node_path in paths or (below and node_path in [list(p) for p in impl.get("shared_all_paths", [])])
    leaf_site = kind in ("any", "owner", "misfit", "document", "mapping", "names", "required", "enumValues", "default", "schema",
                         "fieldState")
    is_input = op in ("construct", "setattr", "deserialize", "derive")
    aliased = node_shared or (leaf_site and kind not in ("any",) and below)
    if aliased:
        if is_input:
            row["retainsArg"] = True
        else:
            row["returns"] = "aliasArg" if op == "convert" else "aliasInternal"
    elif leaf_site and below:
        row["shallow"] = True
    return row


def mode_of_row(op, kind, row):
    """mirror of AliasRow.mode (Sem/Alias.lean) — used only to compare with the AST reading"""
    if row["returns"] == "raises":
        return "error"
    is_input = op in ("construct", "setattr", "deserialize", "derive")
    leaf = kind in ("any", "owner", "misfit", "document", "mapping", "names", "required", "enumValues", "default", "schema",
                    "fieldState")
    if is_input:
        return "alias" if row["retainsArg"] else "shallow" if row["shallow"] else "deep" if leaf or row.get("deep") else "rebuild"
    if row["returns"] in ("fresh", "scalar"):
        return "shallow" if row["shallow"] else "deep" if leaf or row.get("deep") else "rebuild"
    return "alias"


def agree(ast_mode, op, kind, row):
    if not ast_mode:
        return True
    m = mode_of_row(op, kind, row)
    if ast_mode in ("mutates", "keeps"):
        return (ast_mode == "mutates") == row["argMutated"]
    if m == "error" or ast_mode == "error":
        return True          # the idiom says how the value would be copied; the probe could not get that far (and a
                             # site the source says raises hands out nothing)
    if ast_mode == "rebuild":
        return m in ("rebuild", "deep")
    if ast_mode == "deep":
        return m in ("deep", "rebuild")
    if ast_mode == "shallow":
        return m in ("shallow", "rebuild")
    return ast_mode == m


def probe_all():
    """run the witness cases on the real code; returns [(op, kind, cat, rowfacts)]"""
    from harness.suites import alias as S
    rows = []
    inner_site = {"any": ("any", "none"), "struct": ("struct", "none"), "inline": ("inline", "none"),
                  "coll": ("array", "untyped"), "wrap": ("anyOf", "coll"), "tupl": ("tuplePos", "none")}
    done_all = {}
    for op in S.FIELD_OPS:
        # top-level site of the operation
        if op in ("construct", "deserialize", "serialize", "fastSerialize"):
            c = S.witness_case(op, "array", "number")
            impl = S.run_impl(c)
            rows.append((op, "root", "none", probe_row(op, "root", "none", impl, [])))
        done = {}
        sites = S.field_sites()
        sites = [s for s in sites if s[0] not in S.WRAP_KINDS] + [s for s in sites if s[0] == "anyOf"] + \
                [s for s in sites if s[0] in S.WRAP_KINDS and s[0] != "anyOf"]
        for kind, cat in sites:
            c = S.witness_case(op, kind, cat)
            if c is None:
                continue
            impl = S.run_impl(c)
            if "unbuildable" in impl:
                continue
            node = [] if op in ("setattr", "fieldSerialize") else ["opt"] if kind == "owner" else ["f"]
            chain = S.site_chain(impl.get("rshape") or impl.get("shape") or {"s": "scalar"}, node)
            if kind != "owner" and (kind, cat) not in [(k, c) for d, k, c in chain if d == len(node)]:
                continue      # for this operation the witness does not exercise that site (value-directed shape)
            r = probe_row(op, kind, cat, impl, node)
            paths = [list(q) for q in impl.get("shared_paths", [])] if impl.get("ok") else []
            any_shared = any(q[:len(node)] == node for q in paths)
            if kind in S.WRAP_KINDS and cat in inner_site:
                # a wrapper consumes no path step: aliasing caused by the option itself belongs to the option's row
                inner = done.get(inner_site[cat])
                if cat == "tupl":
                    # the Tuple option of the wrapper witness on its own (its content is untyped, unlike the tuplePos row's)
                    bc = S.bare_witness_case(op, cat)
                    bi = S.run_impl(bc) if bc else {}
                    bpaths = [list(q) for q in bi.get("shared_paths", [])] if bi.get("ok") else []
                    inner = {"returns": "fresh" if bi.get("ok") else "raises", "_node_shared": node in bpaths,
                             "_any_shared": any(q[:len(node)] == node for q in bpaths)}
                if (inner is None or inner["returns"] == "raises") and op == "fastSerialize":
                    # fast serialization delegates to <field>.serialize: same behaviour where the check at
                    # create_serializer time does not look
                    inner = done_all.get("fieldSerialize", {}).get(inner_site[cat])
                if inner is not None and inner.get("_node_shared"):
                    if r["retainsArg"] or r["returns"] in ("aliasInternal", "aliasArg"):
                        r["retainsArg"] = False
                        if r["returns"] in ("aliasInternal", "aliasArg"):
                            r["returns"] = "fresh"
                if inner is not None and inner.get("_any_shared") and not any_shared and r["returns"] == "fresh" \
                        and not r["retainsArg"]:
                    # the option on its own shares something, behind this wrapper nothing is shared: the wrapper
                    # copies generically instead of delegating to the option
                    r["deep"] = True
            r["_any_shared"] = any_shared
            r["_node_shared"] = node in paths
            done[(kind, cat)] = r
            rows.append((op, kind, cat, r))
        done_all[op] = done
    # class- and document-level operations
    for c in S.directed_cases():
        op = c["op"]
        if op == "toSchema" and c.get("cls", {}).get("name") == "Sch":
            # worst case over every schema witness: plain classes, defaulted fields, the ext field kinds with
            # plain / callable defaults
            impls = [S.run_impl(c2) for c2 in S.directed_cases() if c2["op"] == "toSchema"]
            impls = [i for i in impls if "unbuildable" not in i]
            impl = S.run_impl(c)
            mutated = any(not i.get("args_same", True) for i in impls)
            r0 = probe_row(op, "root", "none", impl, [])
            r0["argMutated"] = mutated
            rows.append((op, "root", "none", r0))
            for site in ("required", "enumValues", "default", "fieldState"):
                r = probe_row(op, site, "any", impl, [site])
                for i2 in impls:
                    r2 = probe_row(op, site, "any", i2, [site])
                    if r2["returns"] not in ("fresh", "raises"):
                        r["returns"] = r2["returns"]
                r["argMutated"] = mutated and site == "required"
                rows.append((op, site, "any", r))
            rows.append((op, "any", "none", probe_row(op, "any", "none", impl, ["__none__"])))
        if op == "schemaToCode" and c.get("cls", {}).get("name") == "Dflt":
            impl = S.run_impl(c)
            # worst case over every schema -> code witness (inline nested objects with defaults, definitions, raw schemas)
            impls = [S.run_impl(c2) for c2 in S.directed_cases() if c2["op"] == "schemaToCode"]
            r = probe_row(op, "schema", "any", impl, ["schema"])
            r["argMutated"] = any(not i.get("args_same", True) for i in impls if "unbuildable" not in i)
            r["returns"] = "scalar" if impl.get("ok") else "raises"
            rows.append((op, "schema", "any", r))
            rows.append((op, "root", "none", dict(r)))
    # the `mapper=` argument of the (de)serialization entry points: None / dict / list x camel_case_convert
    marg = {}
    for c in S.directed_cases():
        if c["op"] in ("deserialize", "serialize") and c.get("mapper") not in (None, "none"):
            impl = S.run_impl(c)
            if "unbuildable" in impl:
                continue
            r = marg.setdefault(c["op"], {"argMutated": False, "returns": "fresh", "retainsArg": False,
                                          "shallow": False, "deep": False})
            r["argMutated"] |= not impl.get("args_same", True)
    for op, r in marg.items():
        rows.append((op, "mapping", "any", r))
    derive = {}
    for c in S.directed_cases():
        if c["op"] == "derive":
            impl = S.run_impl(c)
            for site in ("names", "required", "mapping", "enumValues", "default", "fieldState"):
                node = ["mapper"] if site == "mapping" else [site]
                r = probe_row("derive", site, "any", impl, node)
                old = derive.get(site)
                if old is None:
                    derive[site] = r
                else:   # worst case over Omit / Pick / Extend / Partial / AllFieldsRequired
                    old["argMutated"] |= r["argMutated"]
                    old["retainsArg"] |= r["retainsArg"]
                    old["shallow"] |= r["shallow"]
            r0 = probe_row("derive", "root", "none", impl, [])
            derive.setdefault("root", r0)["argMutated"] |= r0["argMutated"]
    for site, r in derive.items():
        rows.append(("derive", site, "none" if site == "root" else "any", r))
    rows.append(("derive", "any", "none", {"argMutated": False, "returns": "fresh", "retainsArg": False, "shallow": False, "deep": False}))
    conv = {}
    for doc in S.CONVERT_DOCS:
        for ms in ([S.CONVERT_MAPPINGS[0]], [S.CONVERT_MAPPINGS[1], S.CONVERT_MAPPINGS[2]], [S.CONVERT_MAPPINGS[3]], []):
            impl = S.run_impl({"suite": "alias", "op": "convert", "doc": doc, "mappings": ms})
            for site in ("document", "mapping"):
                r = probe_row("convert", site, "any", impl, [site])
                if r["returns"] == "raises":
                    continue
                old = conv.get(site)
                if old is None:
                    conv[site] = r
                else:
                    old["argMutated"] |= r["argMutated"]
                    if r["returns"] != "fresh":
                        old["returns"] = r["returns"]
                    old["shallow"] |= r["shallow"]
            if impl.get("ok"):
                conv.setdefault("root", probe_row("convert", "root", "none", impl, []))
    for site, r in conv.items():
        rows.append(("convert", site, "none" if site == "root" else "any", r))
    rows.append(("convert", "any", "none", {"argMutated": False, "returns": "fresh", "retainsArg": False, "shallow": False, "deep": False}))
    return rows


OP_LEAN = {"construct": ".construct", "setattr": ".setattr", "deserialize": ".deserialize", "serialize": ".serialize",
           "fieldSerialize": ".fieldSerialize", "fastSerialize": ".fastSerialize", "convert": ".convert",
           "derive": ".derive", "toSchema": ".toSchema", "schemaToCode": ".schemaToCode"}


def render(rows, readings, namespace="Typedpy.Generated"):
    lines = ["/- GENERATED by extract/aliasing.py from the typedpy working tree — do not edit. -/",
             "import TypedpyModel.Sem.Alias", f"namespace {namespace}", "open Typedpy.Alias", "",
             "def aliasing : List AliasRow := ["]
    items = []
    for op, kind, cat, r in rows:
        am = readings.get((op, kind, cat), "")
        items.append(
            f"  {{ op := {OP_LEAN[op]}, kind := .{kind}, cat := .{cat}, argMutated := {lean_bool(r['argMutated'])}, "
            f"returns := .{r['returns']}, retainsArg := {lean_bool(r['retainsArg'])}, shallow := {lean_bool(r['shallow'])}, deep := {lean_bool(r.get('deep', False))}, "
            f"astMode := {lean_str(am)}, agree := {lean_bool(agree(am, op, kind, r))} }}")
    lines.append(",\n".join(items))
    lines += ["]", "", f"end {namespace}", ""]
    return "\n".join(lines)


def probe_all_isolated():
    """run the witness probe in a forked child: the probe pokes returned objects on purpose, and when the code
    under test shares process-wide state (a class-level schema dict, say) those pokes would otherwise saturate
    that state in the checking process and hide the very defect from the cases that follow"""
    import json
    r, w = os.pipe()
    pid = os.fork()
    if pid == 0:
        code = 1
        try:
            os.close(r)
            rows = [[op, kind, cat, {k: v for k, v in row.items() if not k.startswith("_")}]
                    for op, kind, cat, row in probe_all()]
            with os.fdopen(w, "w") as f:
                json.dump(rows, f)
            code = 0
        finally:
            os._exit(code)
    os.close(w)
    with os.fdopen(r) as f:
        data = f.read()
    _, status = os.waitpid(pid, 0)
    if status != 0 or not data:
        raise RuntimeError("alias witness probe failed in the child process")
    return [(op, kind, cat, row) for op, kind, cat, row in json.loads(data)]


def render_api(namespace="Typedpy.Generated"):
    """the public callables of the imported typedpy package (introspection) and the names the alias suite has an
    executable probe for -> Generated/AliasApi.lean (obligations `api_covered`, `api_rows_probed`)"""
    from harness.suites import alias_api as A
    api = A.public_api()
    probed = A.probed_names()
    lines = ["/- GENERATED by extract/aliasing.py from the typedpy working tree — do not edit. -/",
             f"namespace {namespace}", "",
             "/-- (name, kind) of every public, non-module attribute of the `typedpy` package and every public method of",
             "    its entry-point classes; kind = function | method | class | structure | field | exception | value -/",
             "def publicApi : List (String × String) := ["]
    lines.append(",\n".join(f"  ({lean_str(n)}, {lean_str(k)})" for n, k in api))
    lines += ["]", "", "/-- names for which harness/suites/alias_api.py has an executable probe or an operation stream -/",
              "def apiProbed : List String := ["]
    lines.append(",\n".join(f"  {lean_str(n)}" for n in probed))
    lines += ["]", "", f"end {namespace}", ""]
    return "\n".join(lines)


def generate():
    rows = probe_all_isolated()
    readings = ast_readings()
    text = render(rows, readings)
    changed = write_if_changed("Aliasing.lean", text)
    changed = write_if_changed("AliasApi.lean", render_api()) or changed
    return rows, readings, changed


def update_pinned():
    rows = probe_all_isolated()
    readings = ast_readings()
    path = os.path.join(os.path.dirname(os.path.dirname(os.path.abspath(__file__))), "lean", "TypedpyModel", "Pinned",
                        "Aliasing.lean")
    with open(path, "w", encoding="utf-8") as f:
        f.write(render(rows, readings, namespace="Typedpy.Pinned"))


if __name__ == "__main__":
    import sys
    rows, readings, changed = generate()
    for op, kind, cat, r in rows:
        print(op, kind, cat, r, "ast=" + readings.get((op, kind, cat), ""))
    print("ast readings without a probed row:", sorted(set(readings) - {(o, k, c) for o, k, c, _ in rows}))
    print("changed:", changed)
    if "--pin" in sys.argv:
        update_pinned()
