"""
(T) translator for C10: regenerates lean/TypedpyModel/Generated/Trusted.lean from the working tree of
typedpy (VERIF_REPO, default /repo).

For one sample field object of every field kind of the model vocabulary it records what the
`isinstance` tests of the trusted-deserialization classifier, of `_remap_input` and of
`create_serializer` answer TODAY:

  * `valid`        isinstance(f, serialization._valid_classes_for_trusted_deserialization)
  * `serializable` isinstance(f, SerializableField)
  * `array` / `set` / `classRef` / `anyOf`   the classifier's structural tests
  * `nsb`          isinstance(f, (Number, String, Boolean))     (fast serialization: served by `_get_value`)
  * `numOrStr`     isinstance(f, Number) or f.__class__ is String   (Array.serialize returns the list itself)

  * `verdict` / `verdictArr` / `verdictSet` / `verdictOpt` / `verdictOptRev`   what the REAL classifier
                   `_structure_simplicity_level` returns for a one-field class whose field is the sample, an
                   Array / Set of it, an Optional of it in both option orders ("no" / "flat" / "nested" /
                   "raises" / "undef" = the class cannot be declared)
  * `created`      does `create_serializer` succeed for the one-field FastSerializable class ("yes" / "no" / "undef")

and, per function of the shortcut paths, the sorted set of class names its `isinstance` tests mention
(`isinstanceClasses`, from the AST): a branch on a new class, or the removal of the last branch on a class,
changes the set and breaks `classifier_branches_pinned`; a changed branch on an existing class changes a
verdict row and breaks `classifier_rows_ok`.

Props/C10Tie.lean proves by `decide` that every row agrees with the predicates the model is written with
(`isValidCls`, `isSetScalar`, `isEnumDecl`, `isNSB`, `isNumOrStr` and the constructors `effOf` / `tVal`
dispatch on), so adding a class to a whitelist, or changing the class hierarchy of the field types,
breaks a proof obligation.

    python -m extract.trusted            # regenerate Generated/Trusted.lean
    python -m extract.trusted --pin      # also rewrite Pinned/Trusted.lean (only together with Sem/Trusted.lean)
"""
import ast
import enum
import inspect
import os
import sys

from .common import write_if_changed, lean_str, lean_bool, ROOT

PIN = os.path.join(ROOT, "lean", "TypedpyModel", "Pinned", "Trusted.lean")


class _Color(enum.Enum):
    RED = 1
    BLUE = 2


def samples():
    import typedpy as T
    from typedpy.structures import NoneField, ClassReference

    class Foo(T.Structure):
        a = T.Integer

    return [
        ("integer", T.Integer()), ("number", T.Number()), ("float", T.Float()), ("string", T.String()),
        ("boolean", T.Boolean()), ("noneF", NoneField()), ("enumLit", T.Enum(values=["a", 1])),
        ("enumCls", T.Enum(values=_Color)),
        ("seqAny", T.Array()), ("seqOf", T.Array(items=T.Integer())), ("seqPos", T.Array(items=[T.Integer(), T.String()])),
        ("dequeAny", T.Deque()), ("dequeOf", T.Deque(items=T.Integer())),
        ("setAny", T.Set()), ("setOf", T.Set(items=T.Integer())), ("immSetOf", T.ImmutableSet(items=T.Integer())),
        ("tupleOf", T.Tuple(items=[T.Integer()])), ("tuplePos", T.Tuple(items=[T.Integer(), T.String()])),
        ("mapAny", T.Map()), ("mapOf", T.Map(items=[T.String(), T.Integer()])),
        ("classRef", ClassReference(Foo)), ("inline", T.StructureReference(a=T.Integer())),
        ("anyOf", T.AnyOf([T.Integer(), T.String()])), ("oneOf", T.OneOf([T.Integer(), T.String()])),
        ("allOf", T.AllOf([T.Integer(), T.Number()])), ("notF", T.NotField([T.String()])),
        ("anything", T.Anything()),
        ("immArrayOf", T.ImmutableArray(items=T.Integer())), ("posInt", T.PositiveInt()), ("posFloat", T.PositiveFloat()),
        ("positive", T.Positive()),
    ]


def set_branch_tuple():   # (kept for older trees; since d9ee4f9 the Set branch tests no tuple of classes)
    """the classes of `isinstance(field_def.items, (...))` in the Set branch of `_remap_input`, from the AST"""
    from typedpy.serialization import serialization as SER
    tree = ast.parse(inspect.getsource(SER._remap_input))
    found = []
    for node in ast.walk(tree):
        if isinstance(node, ast.If) and isinstance(node.test, ast.Call) and getattr(node.test.func, "id", "") == "isinstance":
            a0, a1 = node.test.args
            if ast.unparse(a0) == "field_def" and ast.unparse(a1) == "Set":
                for sub in ast.walk(node):
                    if (isinstance(sub, ast.Call) and getattr(sub.func, "id", "") == "isinstance"
                            and ast.unparse(sub.args[0]) == "field_def.items" and isinstance(sub.args[1], ast.Tuple)):
                        found.append(sub.args[1])
                break
    if not found:
        return None
    names = [ast.unparse(e) for e in found[0].elts]
    return tuple(getattr(SER, n) for n in names), names


def _fresh(tag):
    return dict(samples())[tag]


def _verdict(make_field):
    """_structure_simplicity_level of a fresh one-field class"""
    import typedpy as T
    from typedpy.serialization import serialization as SER
    try:
        cls = type("S", (T.Structure,), {"f": make_field(), "_required": []})
    except Exception:
        return "undef"
    try:
        v = SER._structure_simplicity_level(cls)
    except ValueError:
        return "raises"
    except Exception as e:
        return "exc:" + type(e).__name__
    if v is False:
        return "no"
    return {SER._ClsSimplicity.not_nested: "flat", SER._ClsSimplicity.nested: "nested"}.get(v, repr(v))


def _created(make_field):
    import typedpy as T
    try:
        cls = type("S", (T.Structure, T.FastSerializable), {"f": make_field(), "_required": []})
    except Exception:
        return "undef"
    try:
        T.create_serializer(cls)
        return "yes"
    except Exception:
        return "no"


FUNCS = [("serialization", "_structure_simplicity_level"), ("serialization", "_is_mapper_simple"),
         ("serialization", "_get_enum_mapping"), ("serialization", "_remap_input"),
         ("fast_serialization", "_verify_is_fast_serializable"), ("fast_serialization", "_get_serialize"),
         ("fast_serialization", "create_serializer")]


def isinstance_classes():
    """per function: the sorted class names its isinstance / issubclass tests mention"""
    import importlib
    out = []
    for mod, fn in FUNCS:
        m = importlib.import_module("typedpy.serialization." + mod)
        f = getattr(m, fn)
        f = getattr(f, "__wrapped__", f)
        tree = ast.parse(inspect.getsource(f))
        names = set()
        for node in ast.walk(tree):
            if isinstance(node, ast.Call) and getattr(node.func, "id", "") in ("isinstance", "issubclass") and len(node.args) == 2:
                a1 = node.args[1]
                for e in (a1.elts if isinstance(a1, ast.Tuple) else [a1]):
                    names.add(ast.unparse(e))
        out.append((fn, sorted(names)))
    return out


def rows():
    import typedpy as T
    from typedpy.structures import ClassReference, NoneField
    from typedpy.serialization import serialization as SER
    from typedpy.fields import SerializableField
    valid = SER._valid_classes_for_trusted_deserialization
    sb = set_branch_tuple()
    set_tuple = sb[0] if sb else ()
    out = []
    for tag, f in samples():
        out.append({
            "kind": tag,
            "valid": isinstance(f, valid),
            "serializable": isinstance(f, SerializableField),
            "array": isinstance(f, T.Array),
            "set": isinstance(f, T.Set),
            "classRef": isinstance(f, ClassReference),
            "anyOf": isinstance(f, T.AnyOf),
            "nsb": isinstance(f, (T.Number, T.String, T.Boolean)),
            "numOrStr": isinstance(f, T.Number) or f.__class__ is T.String,
            "verdict": _verdict(lambda: _fresh(tag)),
            "verdictArr": _verdict(lambda: T.Array(items=_fresh(tag))),
            "verdictSet": _verdict(lambda: T.Set(items=_fresh(tag))),
            "verdictOpt": _verdict(lambda: T.AnyOf([_fresh(tag), NoneField()])),
            "verdictOptRev": _verdict(lambda: T.AnyOf([NoneField(), _fresh(tag)])),
            "created": _created(lambda: _fresh(tag)),
        })
    names = [c.__name__ for c in valid]
    return out, names, (sb[1] if sb else [])


COLS = ["valid", "serializable", "array", "set", "classRef", "anyOf", "nsb", "numOrStr"]
SCOLS = ["verdict", "verdictArr", "verdictSet", "verdictOpt", "verdictOptRev", "created"]


def render(ns):
    rs, names, set_names = rows()
    lines = [
        "/-",
        f"  {ns}/Trusted.lean — isinstance answers of the trusted-deserialization classifier, of `_remap_input` and of",
        "  `create_serializer` for one sample field of every kind (regenerated by extract/trusted.py; do not edit).",
        f"  _valid_classes_for_trusted_deserialization = ({', '.join(names)})",
        f"  Set branch of _remap_input tests items against ({', '.join(set_names)})",
        "-/",
        f"namespace Typedpy.{ns}.Trusted",
        "",
        "structure Row where",
        "  kind : String",
    ] + [f"  {c} : Bool" for c in COLS] + [f"  {c} : String" for c in SCOLS] + [
        "deriving DecidableEq, Repr",
        "",
        "def rows : List Row := [",
    ]
    body = []
    for r in rs:
        body.append("  { kind := " + lean_str(r["kind"]) + ", " + ", ".join(f"{c} := {lean_bool(r[c])}" for c in COLS) + ", "
                    + ", ".join(f"{c} := {lean_str(r[c])}" for c in SCOLS) + " }")
    lines.append(",\n".join(body))
    lines += ["]", "",
              "def whitelist : List String := [" + ", ".join(lean_str(n) for n in names) + "]",
              "def setWhitelist : List String := [" + ", ".join(lean_str(n) for n in set_names) + "]",
              "",
              "/-- per function of the shortcut paths: the class names its isinstance tests mention -/",
              "def isinstanceClasses : List (String × List String) := [",
              ",\n".join("  (" + lean_str(fn) + ", [" + ", ".join(lean_str(n) for n in ns_) + "])"
                          for fn, ns_ in isinstance_classes()),
              "]",
              "", f"end Typedpy.{ns}.Trusted", ""]
    return "\n".join(lines)


def generate(pin=False):
    changed = write_if_changed("Trusted.lean", render("Generated"))
    if pin:
        with open(PIN, "w", encoding="utf-8") as f:
            f.write(render("Pinned"))
    return changed


if __name__ == "__main__":
    repo = os.environ.get("VERIF_REPO", "/repo")
    if repo not in sys.path:
        sys.path.insert(0, repo)
    print("changed" if generate(pin="--pin" in sys.argv) else "unchanged")
