"""Translators from /repo's working tree to lean/TypedpyModel/Generated/*.lean (regenerated on every check)."""
