"""
(T) translator for C17 (heap level): regenerate lean/TypedpyModel/Generated/AliasingC17.lean from
$VERIF_REPO/typedpy/serialization/versioned_mapping.py on every run.

The heap-level model of `_convert` / `convert_dict` (lean/TypedpyModel/Sem/AliasC17.lean) is parametrised by what
the code does at its three copy sites; the theorems of Lemmas/AliasC17.lean need all three to copy.  This
extractor reads the three sites off the source (pure AST, nothing is executed):

  sites.doc    S1  `convert_dict`: the working dict (the name that is returned) is first bound by
                   `copy.deepcopy(<first parameter>)` and afterwards only re-bound by `_convert(<itself>, …)`
  sites.step   S2  `_convert`: the returned name is bound (only) by `copy.deepcopy(<first parameter>)` → .deep;
                   by `copy.copy(x)` / `dict(x)` / `{**x}` / `x.copy()` → .shallow; anything else → .alias
                   (informative: for `convert_dict` the theorems `*_weak` hold for every mode at S2)
  sites.const  S3  `_convert`, branch `isinstance(v, Constant)`: every value stored there is `copy.deepcopy(<call>)`

plus two side conditions of the model:

  paramWrites       parameters of `_convert` / `convert_dict` (and names aliased to (parts of) them without a
                    copy — a tiny taint pass in source order) that are the base object of a subscript store, a
                    `del x[...]`, an augmented assignment or an in-place mutator call.  Must be [].
  docWrites         the subset of paramWrites that hits an object of `convert_dict`'s caller: all writes in
                    `convert_dict`, and in `_convert` those that do not go (solely) through its first parameter
                    `mapped_dict` (with S1 copying, that is convert_dict's private copy).  Must be [].
  nestedReadsInput  the `._mapper` branch reads the content from the FIRST PARAMETER (`mapped_dict.get(...)`) and
                    only ever stores `_convert(content, …)` / `[_convert(x, …) for x in content]` (which copy),
                    never the content itself.

Each site is read three-valued: a RECOGNISED deep copy → `.deep`; a RECOGNISED non-copy (the parameter itself, a
part of it, `v()`) → `.alias`, a recognised one-level copy → `.shallow`; an UNRECOGNISED expression (a helper call,
`copy.deepcopy(x, memo)`, a JSON round trip …) is decided by a WITNESS PROBE of the real code under test, run in a
child process (`witness_probe`): several nested witness documents / Constant values; fresh at every depth and source
unchanged → `.deep`, sharing below the top level → `.shallow`, otherwise (also on any error) → `.alias`.  The
generated comments say which sites were decided by the probe.  `nestedReadsInput` stays purely syntactic (`false`
when not recognised).
"""
import ast
import os

from .common import GEN_DIR, repo_root, write_if_changed, lean_bool, lean_str

REL = "serialization/versioned_mapping.py"
OUT_NAME = "AliasingC17.lean"
MUTATORS = {"update", "pop", "append", "clear", "setdefault", "remove", "extend", "insert", "popitem",
            "sort", "reverse", "add", "discard", "__setitem__", "__delitem__"}
READERS = {"get", "items", "values", "keys"}


def _parse():
    path = os.path.join(repo_root(), "typedpy", REL)
    return ast.parse(open(path, encoding="utf-8").read())


def _find_fn(tree, name):
    for n in tree.body:
        if isinstance(n, ast.FunctionDef) and n.name == name:
            return n
    return None


def _deepcopy_names(tree):
    """the dotted names that denote `copy.deepcopy` in this module (`import copy` / `from copy import deepcopy`),
    dropped again when the module re-binds them"""
    names = set()
    for n in tree.body:
        if isinstance(n, ast.Import):
            for a in n.names:
                if a.name == "copy":
                    names.add((a.asname or "copy") + ".deepcopy")
        if isinstance(n, ast.ImportFrom) and n.module == "copy":
            for a in n.names:
                if a.name == "deepcopy":
                    names.add(a.asname or "deepcopy")
    rebound = set()
    for n in ast.walk(tree):
        if isinstance(n, (ast.FunctionDef, ast.ClassDef)):
            rebound.add(n.name)
        if isinstance(n, ast.Name) and isinstance(n.ctx, ast.Store):
            rebound.add(n.id)
        if isinstance(n, ast.arg):
            rebound.add(n.arg)
    return {d for d in names if d.split(".")[0] not in rebound}


def _shallowcopy_names(tree):
    """the dotted names that denote `copy.copy` in this module"""
    names = set()
    for n in tree.body:
        if isinstance(n, ast.Import):
            for a in n.names:
                if a.name == "copy":
                    names.add((a.asname or "copy") + ".copy")
        if isinstance(n, ast.ImportFrom) and n.module == "copy":
            for a in n.names:
                if a.name == "copy":
                    names.add(a.asname or "copy")
    rebound = set()
    for n in ast.walk(tree):
        if isinstance(n, (ast.FunctionDef, ast.ClassDef)):
            rebound.add(n.name)
        if isinstance(n, ast.Name) and isinstance(n.ctx, ast.Store):
            rebound.add(n.id)
        if isinstance(n, ast.arg):
            rebound.add(n.arg)
    return {d for d in names if d.split(".")[0] not in rebound}


def _is_shallow_of_name(e, tree, name):
    """`copy.copy(x)`, `dict(x)`, `{**x, …}`, `x.copy()` — a new top-level dict with the same children"""
    def is_x(a):
        return isinstance(a, ast.Name) and a.id == name
    if isinstance(e, ast.Call) and not e.keywords:
        if ast.unparse(e.func) in _shallowcopy_names(tree) and len(e.args) == 1 and is_x(e.args[0]):
            return True
        if isinstance(e.func, ast.Name) and e.func.id == "dict" and len(e.args) == 1 and is_x(e.args[0]):
            return True
        if isinstance(e.func, ast.Attribute) and e.func.attr == "copy" and not e.args and is_x(e.func.value):
            return True
    if isinstance(e, ast.Dict):
        return any(k is None and is_x(v) for k, v in zip(e.keys, e.values))
    return False


def _is_part_of_name(e, name):
    """`x`, `x[...]`, `x.attr`, `x.get(...)` … — (a part of) the object itself: a recognised NON-copy"""
    while True:
        if isinstance(e, ast.Name):
            return e.id == name
        if isinstance(e, (ast.Subscript, ast.Attribute, ast.Starred)):
            e = e.value
        elif isinstance(e, ast.Call) and isinstance(e.func, ast.Attribute) and e.func.attr in READERS:
            e = e.func.value
        elif isinstance(e, ast.NamedExpr):
            e = e.value
        else:
            return False


def _copy_mode(e, tree, dc, name):
    """three-valued reading of an expression that binds a working dict from `name`:
    "deep" (recognised deep copy) / "shallow" (recognised one-level copy) / "alias" (recognised NON-copy: the
    object itself or a part of it) / None (unrecognised — e.g. a helper call: to be decided by the witness probe)"""
    if e is None:
        return None
    if _is_deepcopy_of_name(e, dc, name):
        return "deep"
    if _is_shallow_of_name(e, tree, name):
        return "shallow"
    if _is_part_of_name(e, name):
        return "alias"
    if isinstance(e, (ast.IfExp, ast.BoolOp)):
        parts = [e.body, e.orelse] if isinstance(e, ast.IfExp) else list(e.values)
        ms = [_copy_mode(x, tree, dc, name) for x in parts]
        if "alias" in ms:
            return "alias"
        if None in ms:
            return None
        return min(ms, key=lambda m: _RANK[m])
    return None


def _src(e):
    try:
        t = ast.unparse(e)
    except Exception:  # pylint: disable=broad-except
        return "?"
    t = " ".join(t.split())
    return t if len(t) <= 80 else t[:77] + "..."


_RANK = {"alias": 0, "shallow": 1, "deep": 2}


def _is_deepcopy(e, dc):
    return isinstance(e, ast.Call) and ast.unparse(e.func) in dc and len(e.args) == 1 and not e.keywords


def _is_deepcopy_of_name(e, dc, name):
    return _is_deepcopy(e, dc) and isinstance(e.args[0], ast.Name) and e.args[0].id == name


def _is_call_to(e, fname):
    return isinstance(e, ast.Call) and isinstance(e.func, ast.Name) and e.func.id == fname


def _linear(fn):
    """statements of a function in source order, flattened through compound statements"""
    out = []

    def rec(stmts):
        for st in stmts:
            out.append(st)
            for attr in ("body", "orelse", "finalbody"):
                sub = getattr(st, attr, None)
                if isinstance(sub, list) and sub and isinstance(sub[0], ast.stmt):
                    rec(sub)
            for hd in getattr(st, "handlers", []) or []:
                rec(hd.body)
    rec(fn.body)
    return out


def _returned_names(fn):
    """names returned by the function; None when some `return` does not return a plain name"""
    names = []
    for n in ast.walk(fn):
        if isinstance(n, ast.Return):
            if isinstance(n.value, ast.Name):
                names.append(n.value.id)
            else:
                return None
    return names


def _bindings(fn, name):
    """(lineno, value) of every assignment statement binding `name`, in source order; a binding the matcher cannot
    read (tuple target, loop target, `with … as`, walrus, augmented) is reported with value None"""
    out = []
    for st in _linear(fn):
        if isinstance(st, ast.Assign):
            for t in st.targets:
                if isinstance(t, ast.Name) and t.id == name:
                    out.append((st.lineno, st.value if len(st.targets) == 1 else None))
                elif any(isinstance(x, ast.Name) and x.id == name and isinstance(x.ctx, ast.Store)
                         for x in ast.walk(t)) and not isinstance(t, ast.Subscript):
                    out.append((st.lineno, None))
        elif isinstance(st, ast.AnnAssign) and isinstance(st.target, ast.Name) and st.target.id == name:
            out.append((st.lineno, st.value))
        elif isinstance(st, ast.AugAssign) and isinstance(st.target, ast.Name) and st.target.id == name:
            out.append((st.lineno, None))
        elif isinstance(st, (ast.For, ast.AsyncFor)):
            if any(isinstance(x, ast.Name) and x.id == name for x in ast.walk(st.target)):
                out.append((st.lineno, None))
        elif isinstance(st, (ast.With, ast.AsyncWith)):
            for it in st.items:
                if it.optional_vars is not None and any(
                        isinstance(x, ast.Name) and x.id == name for x in ast.walk(it.optional_vars)):
                    out.append((st.lineno, None))
    for n in ast.walk(fn):
        if isinstance(n, ast.NamedExpr) and n.target.id == name:
            out.append((n.lineno, None))
    return sorted(out, key=lambda p: p[0])


def _site_binding(tree, dc, fname, allow_self_convert):
    """AST reading of S1 / S2: (mode or None, line, note).  None = the matcher does not recognise what it sees
    (to be decided by the witness probe); "alias" only for a RECOGNISED non-copy."""
    fn = _find_fn(tree, fname)
    if fn is None or not fn.args.args:
        return "alias", 0, f"{fname} not found"
    p0 = fn.args.args[0].arg
    rets = _returned_names(fn)
    if not rets:
        return None, fn.lineno, "unrecognised: no plain `return <name>`"
    worst, line, unknown = None, 0, None
    for r in sorted(set(rets)):
        if r == p0:
            return "alias", fn.lineno, "returns its parameter"
        bs = _bindings(fn, r)
        if not bs:
            unknown = unknown or (fn.lineno, f"unrecognised: `{r}` is never bound by a plain assignment")
            continue
        for idx, (ln, v) in enumerate(bs):
            if (allow_self_convert and idx > 0 and _is_call_to(v, "_convert") and v.args
                    and isinstance(v.args[0], ast.Name) and v.args[0].id == r):
                continue                                   # `x = _convert(x, …)`: the loop of convert_dict
            m = _copy_mode(v, tree, dc, p0)
            if m == "alias":
                return "alias", ln, f"`{r} = {_src(v)}` is not a copy of {p0}"
            if m is None:
                unknown = unknown or (ln, "unrecognised expression `" + (_src(v) if v is not None else "?") + "`")
                continue
            if worst is None or _RANK[m] < _RANK[worst]:
                worst, line = m, ln
    if unknown is not None:
        return None, unknown[0], unknown[1]
    return worst, line, f"{sorted(set(rets))[0]} = {'deepcopy' if worst == 'deep' else 'shallow copy'}({p0})"


def site_doc(tree, dc):
    """S1: (mode or None, line, note)"""
    return _site_binding(tree, dc, "convert_dict", True)


def site_step(tree, dc):
    """S2: (mode or None, line, note)"""
    return _site_binding(tree, dc, "_convert", False)


def _branches(fn):
    """(test, body) of every if / elif branch of the function"""
    for n in ast.walk(fn):
        if isinstance(n, ast.If):
            yield n.test, n.body


def _is_isinstance_constant(test):
    return (isinstance(test, ast.Call) and isinstance(test.func, ast.Name) and test.func.id == "isinstance"
            and len(test.args) == 2 and ast.unparse(test.args[1]).split(".")[-1] == "Constant")


def _stores(body):
    """(lineno, value) of every assignment whose target is a subscript, in the statements of `body` (nested)"""
    out = []
    for st in body:
        for n in ast.walk(st):
            if isinstance(n, ast.Assign) and any(isinstance(t, ast.Subscript) for t in n.targets):
                out.append((n.lineno, n.value))
    return out


def site_const(tree, dc):
    """S3: (mode or None, line, note)"""
    fn = _find_fn(tree, "_convert")
    if fn is None:
        return "alias", 0, "_convert not found"
    found = [(t, b) for t, b in _branches(fn) if _is_isinstance_constant(t)]
    if not found:
        return None, fn.lineno, "unrecognised: no `isinstance(v, Constant)` branch"
    worst, line, unknown = None, 0, None
    for test, body in found:
        var = test.args[0].id if isinstance(test.args[0], ast.Name) else None
        st = _stores(body)
        if not st:
            unknown = unknown or (body[0].lineno, "unrecognised: the Constant branch stores nothing recognisable")
            continue
        for ln, v in st:
            if _is_deepcopy(v, dc) and isinstance(v.args[0], ast.Call):
                m = "deep"
            elif (isinstance(v, ast.Call) and not v.keywords and len(v.args) == 1 and isinstance(v.args[0], ast.Call)
                  and (ast.unparse(v.func) in _shallowcopy_names(tree)
                       or (isinstance(v.func, ast.Name) and v.func.id in ("dict", "list")))):
                m = "shallow"
            elif (isinstance(v, ast.Call) and isinstance(v.func, ast.Attribute) and v.func.attr == "copy"
                  and not v.args and isinstance(v.func.value, ast.Call)):
                m = "shallow"
            elif var is not None and (_is_part_of_name(v, var) or (
                    isinstance(v, ast.Call) and _is_part_of_name(v.func, var))):
                m = "alias"                                # `v()`, `v._val`, `v` — the Constant's own value
            else:
                m = None
            if m == "alias":
                return "alias", ln, f"the Constant branch stores `{_src(v)}`: not a copy"
            if m is None:
                unknown = unknown or (ln, f"unrecognised expression `{_src(v)}`")
                continue
            if worst is None or _RANK[m] < _RANK[worst]:
                worst, line = m, ln
    if unknown is not None:
        return None, unknown[0], unknown[1]
    return worst, line, "out[k] = " + ("deepcopy(v())" if worst == "deep" else "shallow copy of v()")


def _is_mapper_test(test):
    for n in ast.walk(test):
        if (isinstance(n, ast.Call) and isinstance(n.func, ast.Attribute) and n.func.attr == "endswith"
                and n.args and isinstance(n.args[0], ast.Constant) and n.args[0].value == "._mapper"):
            return True
    return False


def nested_reads_input(tree):
    """(bool, line, note)"""
    fn = _find_fn(tree, "_convert")
    if fn is None or not fn.args.args:
        return False, 0, "_convert not found"
    p0 = fn.args.args[0].arg
    found = [(t, b) for t, b in _branches(fn) if _is_mapper_test(t)]
    if len(found) != 1:
        return False, fn.lineno, "no unique `._mapper` branch"
    body = found[0][1]
    content = None
    line = body[0].lineno
    for st in body:
        for n in ast.walk(st):
            if (isinstance(n, ast.Assign) and len(n.targets) == 1 and isinstance(n.targets[0], ast.Name)
                    and isinstance(n.value, ast.Call) and isinstance(n.value.func, ast.Attribute)
                    and n.value.func.attr == "get" and isinstance(n.value.func.value, ast.Name)):
                if n.value.func.value.id != p0:
                    return False, n.lineno, f"content is read from `{n.value.func.value.id}`, not from `{p0}`"
                if content is not None and content != n.targets[0].id:
                    return False, n.lineno, "more than one content read"
                content = n.targets[0].id
                line = n.lineno
    if content is None:
        return False, line, f"no `<name> = {p0}.get(...)` in the `._mapper` branch"

    def conv_of(e, arg):
        return _is_call_to(e, "_convert") and e.args and isinstance(e.args[0], ast.Name) and e.args[0].id == arg

    stores = _stores(body)
    if not stores:
        return False, line, "the `._mapper` branch stores nothing recognisable"
    for ln, v in stores:
        ok = conv_of(v, content)
        if isinstance(v, ast.ListComp) and len(v.generators) == 1:
            g = v.generators[0]
            ok = ok or (isinstance(g.iter, ast.Name) and g.iter.id == content and isinstance(g.target, ast.Name)
                        and conv_of(v.elt, g.target.id))
        if not ok:
            return False, ln, "a value stored in the `._mapper` branch is not a recursive `_convert` of the content"
    return True, line, f"{content} = {p0}.get(...), stored through _convert"


def _root_name(e):
    while True:
        if isinstance(e, ast.Name):
            return e.id
        if isinstance(e, (ast.Subscript, ast.Attribute, ast.Starred)):
            e = e.value
        elif isinstance(e, ast.Call) and isinstance(e.func, ast.Attribute) and e.func.attr in READERS:
            e = e.func.value
        else:
            return None


def _derived(e, tainted, dc):
    """the parameters (a frozenset of names; empty = none) such that the expression evaluates to (a part of) an
    object one of them refers to, without a copy.  `tainted` maps a name to the parameters it derives from."""
    none = frozenset()
    if isinstance(e, ast.Name):
        return tainted.get(e.id, none)
    if isinstance(e, (ast.Subscript, ast.Attribute, ast.Starred)):
        return _derived(e.value, tainted, dc)
    if isinstance(e, ast.Call):
        if _is_deepcopy(e, dc):
            return none
        f = e.func
        if isinstance(f, ast.Attribute) and f.attr in READERS:
            return _derived(f.value, tainted, dc)
        if isinstance(f, ast.Name) and f.id in ("enumerate", "reversed", "iter", "zip"):
            return frozenset().union(*[_derived(a, tainted, dc) for a in e.args]) if e.args else none
        return none
    if isinstance(e, ast.IfExp):
        return _derived(e.body, tainted, dc) | _derived(e.orelse, tainted, dc)
    if isinstance(e, ast.BoolOp):
        return frozenset().union(*[_derived(v, tainted, dc) for v in e.values])
    if isinstance(e, ast.NamedExpr):
        return _derived(e.value, tainted, dc)
    return none


def _target_names(t):
    return [x.id for x in ast.walk(t) if isinstance(x, ast.Name) and isinstance(x.ctx, ast.Store)]


def param_writes(tree, dc):
    """[(function, name, line, what, origins)] — writes through a parameter object or an un-copied alias of one;
    `origins` = the parameters of that function the written object derives from (sorted tuple)"""
    out = []
    for fname in ("_convert", "convert_dict"):
        fn = _find_fn(tree, fname)
        if fn is None:
            continue
        a = fn.args
        params = [x.arg for x in a.posonlyargs + a.args + a.kwonlyargs]
        if a.vararg:
            params.append(a.vararg.arg)
        if a.kwarg:
            params.append(a.kwarg.arg)
        tainted = {x: frozenset([x]) for x in params}

        def bind(names, origins):
            for nm in names:
                if origins:
                    tainted[nm] = origins
                else:
                    tainted.pop(nm, None)

        def check(node):
            for n in ast.walk(node):
                if isinstance(n, ast.Subscript) and isinstance(n.ctx, (ast.Store, ast.Del)):
                    o = _derived(n.value, tainted, dc)
                    if o:
                        out.append((fname, _root_name(n.value) or "?", n.lineno,
                                    "del" if isinstance(n.ctx, ast.Del) else "store", tuple(sorted(o))))
                if isinstance(n, ast.Call) and isinstance(n.func, ast.Attribute) and n.func.attr in MUTATORS:
                    o = _derived(n.func.value, tainted, dc)
                    if o:
                        out.append((fname, _root_name(n.func.value) or "?", n.lineno, "." + n.func.attr,
                                    tuple(sorted(o))))
                if isinstance(n, (ast.ListComp, ast.SetComp, ast.DictComp, ast.GeneratorExp)):
                    for g in n.generators:
                        o = _derived(g.iter, tainted, dc)
                        if o:
                            bind(_target_names(g.target), o)

        for st in _linear(fn):
            compound = isinstance(st, (ast.For, ast.AsyncFor, ast.If, ast.While, ast.With, ast.AsyncWith, ast.Try))
            if isinstance(st, (ast.For, ast.AsyncFor)):
                check(st.iter)
                bind(_target_names(st.target), _derived(st.iter, tainted, dc))
            elif isinstance(st, (ast.If, ast.While)):
                check(st.test)
            elif isinstance(st, (ast.With, ast.AsyncWith)):
                for it in st.items:
                    check(it.context_expr)
            if compound:
                continue
            # uses are evaluated with the taint state BEFORE the statement's own binding takes effect
            check(st)
            if isinstance(st, ast.AugAssign):
                tgt = st.target
                o = tainted.get(tgt.id, frozenset()) if isinstance(tgt, ast.Name) else (
                    _derived(tgt.value, tainted, dc) if isinstance(tgt, (ast.Subscript, ast.Attribute)) else frozenset())
                if o and not isinstance(tgt, ast.Subscript):     # subscript targets were already counted as stores
                    out.append((fname, _root_name(tgt) or "?", st.lineno, "augassign", tuple(sorted(o))))
            if isinstance(st, ast.Assign):
                d = _derived(st.value, tainted, dc)
                for t in st.targets:
                    if isinstance(t, ast.Name):
                        bind([t.id], d)
                    elif isinstance(t, (ast.Tuple, ast.List)):
                        bind(_target_names(t), d)
            if isinstance(st, ast.AnnAssign) and isinstance(st.target, ast.Name) and st.value is not None:
                bind([st.target.id], _derived(st.value, tainted, dc))
    seen = []
    for w in out:
        if w not in seen:
            seen.append(w)
    return seen


def doc_writes(tree, writes):
    """the writes that hit an object of `convert_dict`'s CALLER: everything in `convert_dict`, and in `_convert`
    everything that does not derive solely from its first parameter (`mapped_dict`: when S1 copies, that is
    convert_dict's private copy — or, in a nested call, a part of it)"""
    fn = _find_fn(tree, "_convert")
    first = fn.args.args[0].arg if fn is not None and fn.args.args else None
    return [w for w in writes if not (w[0] == "_convert" and first is not None and set(w[4]) <= {first})]


_PROBE = r"""
import sys, os, json, copy
repo = sys.argv[1]
sys.path.insert(0, repo)
RANK = {"alias": 0, "shallow": 1, "deep": 2}


def ids(x, acc):
    if isinstance(x, dict):
        if id(x) not in acc:
            acc[id(x)] = True
            for v in x.values():
                ids(v, acc)
    elif isinstance(x, (list, tuple, set, frozenset)):
        if isinstance(x, (list, set)):
            if id(x) in acc:
                return acc
            acc[id(x)] = True
        for v in x:
            ids(v, acc)
    return acc


def relation(result, source):
    # alias: the very object (or it is embedded in the result); shallow: some container below is shared
    if result is source:
        return "alias", "is the very same object"
    a, b = ids(result, {}), ids(source, {})
    if id(source) in a:
        return "alias", "contains the very same object"
    if set(a) & set(b):
        return "shallow", "shares containers below the top level"
    return "deep", "fresh"


def worst(cases):
    # cases: [(witness, mode, what)]
    w = min(cases, key=lambda c: RANK[c[1]])
    if w[1] == "deep":
        return "deep", "fresh and source unchanged on %d witnesses" % len(cases)
    return w[1], "%s (witness %s)" % (w[2], w[0])


def run(f):
    try:
        return list(f())
    except BaseException as ex:   # noqa
        return ["alias", "probe raised " + type(ex).__name__]


def setup():
    import typedpy
    here = os.path.realpath(os.path.dirname(typedpy.__file__))
    if not here.startswith(os.path.realpath(repo).rstrip(os.sep) + os.sep):
        raise RuntimeError("typedpy imported from " + here)
    from typedpy.serialization import versioned_mapping as vm
    from typedpy.commons import Constant
    from typedpy.serialization.mappers import Deleted
    return vm, Constant, Deleted


def s1():
    vm, Constant, Deleted = setup()
    two = lambda: [{"n": "a", "old": Deleted}, {"k": Constant([7, {"z": []}])}]
    nested = lambda: [{"subs._mapper": {"y": "x", "x": Deleted}, "one._mapper": {"c": Constant({"q": []})}}]
    wit = [
        ("latest-version", {"version": 3, "a": [1, {"b": [2, [3]]}], "d": {"x": [4], "y": {}}}, two()),
        ("two-steps", {"version": 1, "a": [1, {"b": [2]}], "d": {"x": [4]}, "old": [5]}, two()),
        ("one-step", {"version": 2, "a": [1, {"b": [2]}], "d": {"x": [4]}, "old": [5]}, two()),
        ("no-version-key", {"a": [[1]], "d": {"x": {"y": []}}}, [{}]),
        ("no-mappings", {"version": 1, "a": [[1]], "d": {"x": {"y": []}}}, []),
        ("nested-mapper", {"version": 1, "subs": [{"x": [1]}, {"x": [2]}], "one": {"x": [3]}}, nested()),
    ]
    cases = []
    for name, doc, ms in wit:
        snap = copy.deepcopy(doc)
        res = vm.convert_dict(doc, ms)
        mode, what = relation(res, doc)
        if doc != snap:
            mode, what = "alias", "the input document was modified"
        cases.append((name, mode, "result " + what if mode != "alias" or "input" not in what else what))
    return worst(cases)


def s2():
    vm, Constant, Deleted = setup()
    wit = [
        ("empty-mapping", {"a": [1, {"b": [2]}], "d": {"x": [3]}}, {}),
        ("const-delete-move", {"a": [1, {"b": [2]}], "d": {"x": [3]}, "old": [4]},
         {"k": Constant([1]), "old": Deleted, "n": "d"}),
        ("nested-mapper", {"subs": [{"x": [1]}, {"x": [2]}], "one": {"x": [3]}},
         {"subs._mapper": {"y": "x", "x": Deleted}, "one._mapper": {"c": Constant({"q": []})}}),
    ]
    cases = []
    for name, doc, m in wit:
        snap = copy.deepcopy(doc)
        res = vm._convert(doc, m)
        mode, what = relation(res, doc)
        if doc != snap:
            mode, what = "alias", "the input document was modified"
        cases.append((name, mode, "result " + what if "input" not in what else what))
    return worst(cases)


def s3():
    vm, Constant, Deleted = setup()
    cases = []
    for vname, mk in (("list", lambda: [1, {"a": []}]), ("dict", lambda: {"p": [1], "q": {"r": []}})):
        val = mk()
        snap = copy.deepcopy(val)
        c = Constant(val)
        got = [
            ("last-mapping/" + vname,
             lambda: vm.convert_dict({"version": 1, "x": 1}, [{"k": c}])["k"]),
            ("last-of-two/" + vname,
             lambda: vm.convert_dict({"version": 1, "x": 1}, [{"x": Deleted}, {"k": c}])["k"]),
            ("_convert/" + vname, lambda: vm._convert({"x": 1}, {"k": c})["k"]),
            ("nested-dict/" + vname,
             lambda: vm.convert_dict({"version": 1, "s": {"x": 1}}, [{"s._mapper": {"k": c}}])["s"]["k"]),
            ("nested-list/" + vname,
             lambda: vm.convert_dict({"version": 1, "l": [{"x": 1}]}, [{"l._mapper": {"k": c}}])["l"][0]["k"]),
        ]
        for name, f in got:
            r = f()
            mode, what = relation(r, val)
            if val != snap or c() is not val:
                mode, what = "alias", "the Constant's value was modified"
            elif r != snap:
                mode, what = "alias", "the stored value differs from the Constant's value"
            cases.append((name, mode, "stored value " + what if "Constant" not in what else what))
    return worst(cases)


print("C17PROBE " + json.dumps({"doc": run(s1), "step": run(s2), "const": run(s3)}))
"""


def witness_probe():
    """run the witness probe on the real code under test ($VERIF_REPO) in a child process (fresh interpreter,
    PYTHONHASHSEED pinned, the repo first on the path).  Never raises: on any failure every site is `.alias`."""
    import json
    import subprocess
    import sys
    repo = repo_root()
    fail = lambda why: {k: ["alias", "witness probe failed: " + why] for k in ("doc", "step", "const")}
    try:
        env = dict(os.environ)
        env["PYTHONHASHSEED"] = "0"
        env["PYTHONDONTWRITEBYTECODE"] = "1"
        env["PYTHONPATH"] = repo + (os.pathsep + env["PYTHONPATH"] if env.get("PYTHONPATH") else "")
        r = subprocess.run([sys.executable, "-c", _PROBE, repo], env=env, capture_output=True, text=True,
                           timeout=120, check=False)
        for ln in reversed(r.stdout.splitlines()):
            if ln.startswith("C17PROBE "):
                data = json.loads(ln[len("C17PROBE "):])
                out = {}
                for k in ("doc", "step", "const"):
                    v = data.get(k)
                    ok = isinstance(v, list) and len(v) == 2 and v[0] in _RANK and isinstance(v[1], str)
                    out[k] = v if ok else ["alias", "witness probe failed: malformed answer"]
                return out
        return fail("no answer (exit status %s)" % r.returncode)
    except Exception as ex:  # pylint: disable=broad-except
        return fail(type(ex).__name__)


def read_all():
    tree = _parse()
    dc = _deepcopy_names(tree)
    ast_sites = {"doc": site_doc(tree, dc), "step": site_step(tree, dc), "const": site_const(tree, dc)}
    info = {"deepcopy_names": sorted(dc), "by_probe": []}
    probe = None
    for k, (mode, line, note) in ast_sites.items():
        if mode is None:
            # the AST matcher does not recognise the site: ask the code itself
            if probe is None:
                probe = witness_probe()
            pmode, pnote = probe[k]
            info[k] = (pmode, line, f"{note}; witness probe: {pnote}")
            info["by_probe"].append(k)
        else:
            info[k] = (mode, line, note)
    w = param_writes(tree, dc)
    info["writes"] = w
    info["doc_writes"] = doc_writes(tree, w)
    info["nested"] = nested_reads_input(tree)
    return info


def render(info):
    def site(key, label):
        mode, line, note = info[key]
        by = " (by probe)" if key in info.get("by_probe", []) else ""
        return f"-- {label}: line {line}: {note}  ==> .{mode}{by}"
    writes = info["writes"]
    names = []
    for fname, name, *_ in writes:
        q = f"{fname}.{name}"
        if q not in names:
            names.append(q)
    dnames = []
    for fname, name, *_ in info["doc_writes"]:
        q = f"{fname}.{name}"
        if q not in dnames:
            dnames.append(q)
    nb, nline, nnote = info["nested"]
    lines = [
        "/- generated by extract/aliasing_c17.py from typedpy/" + REL + " — do not edit -/",
        "import TypedpyModel.Sem.AliasC17",
        "namespace Typedpy.AliasC17.Gen",
        "open Typedpy.Alias Typedpy.AliasC17",
        "",
        "-- names denoting copy.deepcopy in the module: " + (", ".join(info["deepcopy_names"]) or "(none)"),
        site("doc", "S1 convert_dict"),
        site("step", "S2 _convert"),
        site("const", "S3 _convert, Constant branch"),
        "/-- what the code does at its three copy sites -/",
        "def sites : Sites := { doc := .%s, step := .%s, const := .%s }" % (
            info["doc"][0], info["step"][0], info["const"][0]),
        "",
    ]
    for fname, name, line, what, origins in writes:
        lines.append(f"-- write through a parameter object: {fname}: `{name}` line {line} ({what}; derives from "
                     + ", ".join(origins) + ")")
    if not writes:
        lines.append("-- no write through a parameter object (or an un-copied alias of one) in _convert / convert_dict")
    lines += [
        "/-- parameters (or un-copied aliases of them) that are written through -/",
        "def paramWrites : List String := [" + ", ".join(lean_str(n) for n in names) + "]",
        "/-- the subset that hits an object of `convert_dict`'s caller: writes in `convert_dict`, and in `_convert` writes",
        "    that do not go through its first parameter (which is `convert_dict`'s private copy when S1 copies) -/",
        "def docWrites : List String := [" + ", ".join(lean_str(n) for n in dnames) + "]",
        "",
        f"-- `._mapper` branch: line {nline}: {nnote}",
        "/-- the `._mapper` branch reads the content from the first parameter and stores only recursive conversions of it -/",
        "def nestedReadsInput : Bool := " + lean_bool(nb),
        "",
        "end Typedpy.AliasC17.Gen",
        "",
    ]
    return "\n".join(lines)


LAST_CHANGED = None


def generate():
    """regenerate Generated/AliasingC17.lean (written only when its content changes); returns its path"""
    global LAST_CHANGED
    info = read_all()
    LAST_CHANGED = write_if_changed(OUT_NAME, render(info))
    return os.path.join(GEN_DIR, OUT_NAME)


if __name__ == "__main__":
    info = read_all()
    for k in ("doc", "step", "const", "nested"):
        print(k, info[k])
    print("writes", info["writes"])
    print("doc_writes", info["doc_writes"])
    path = generate()
    print("wrote" if LAST_CHANGED else "unchanged", path)
