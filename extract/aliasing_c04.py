"""
(T) C04 accessor / retention tables -> lean/TypedpyModel/Generated/AliasingC04.lean.

Accessor rows.  For each typed collection wrapper (`_ListStruct`, `_DictStruct`, `_DequeStruct`) and EVERY
non-mutating member of its native base type whose result exposes an element or key of the container by identity
(found by probing list/dict/deque on scratch objects holding sentinel objects, not from a hand list), plus every
other public non-mutating method the wrapper class defines itself, and for the field read of the owning instance:
what does the caller get when the owner is immutable (an ImmutableStructure, or a field declared immutable inside a
mutable Structure)?

  * `mode`     - the witness probe on the real code: the member is called (canned arguments) on the wrapper of a real
                 instance whose elements are mutable objects; the result is walked (iterators, views, tuples, containers)
                 and compared BY IDENTITY with the objects the instance holds: `raw` = an unsealed internal object came
                 out, `guardedCopy` / `deepAll` = only copies and sealed objects (immutable-bound wrappers, immutable
                 structures) came out, `noRef` = no mutable object at all, `raises`;
  * `astMode`  - what the source says (idiom matcher on the method body: `_get_defensive_copy_if_needed`, `deepcopy`,
                 `self.copy()`, `self[...]`, the iterator proxy, `self.keys()` ...); `raw` = overridden without a
                 recognisable idiom, or not overridden although the native member exposes references.

Constructor rows.  For each owner and argument kind: does the instance keep, anywhere in its object graph, a mutable
object of the caller's argument (identity walk of both graphs)?
"""
import ast
import collections
import copy
import os

from .common import repo_root, write_if_changed, lean_str, lean_bool
from . import wrappers

SKIP = {"__init__", "__new__", "__class__", "__init_subclass__", "__subclasshook__", "__setattr__", "__delattr__",
        "__sizeof__", "__dir__", "__getattribute__", "__class_getitem__", "__format__", "__repr__", "__str__", "__hash__",
        "__doc__", "__getstate__", "__setstate__", "__deepcopy__", "fromkeys"}


class _Sentinel:
    """a hashable, mutable object (can be a dict key)"""
    def __init__(self, name):
        self.name = name
        self.payload = [name]


def _walk(result, budget=200):
    """objects reachable from a call result through iteration / containers / attributes of sentinels (bounded)"""
    out, queue, seen = [], [result], set()
    while queue and budget > 0:
        o = queue.pop(0)
        budget -= 1
        if id(o) in seen or o is None or isinstance(o, (bool, int, float, str, bytes, type)):
            continue
        seen.add(id(o))
        out.append(o)
        try:
            if isinstance(o, dict):
                queue.extend(list(o.keys()) + list(o.values()))
            elif isinstance(o, (list, tuple, set, frozenset, collections.deque)):
                queue.extend(list(o))
            elif isinstance(o, _Sentinel):
                queue.append(o.payload)
            elif hasattr(o, "__dict__") and type(o).__module__.startswith("typedpy") is False and not callable(o):
                pass
            elif hasattr(o, "__next__") or type(o).__name__ in ("dict_keys", "dict_values", "dict_items", "generator",
                                                                 "list_iterator", "list_reverseiterator",
                                                                 "dict_keyiterator", "dict_reversekeyiterator",
                                                                 "dict_valueiterator", "dict_itemiterator",
                                                                 "ListIteratorProxy", "_deque_iterator",
                                                                 "_deque_reverse_iterator", "_collections._deque_iterator"):
                items = []
                it = iter(o)
                for _ in range(20):
                    try:
                        items.append(next(it))
                    except StopIteration:
                        break
                queue.extend(items)
            else:
                from typedpy import Structure
                if isinstance(o, Structure):
                    queue.extend(v for k, v in o.__dict__.items() if not k.startswith("_"))
        except Exception:
            pass
    return out


def _scratch(kind):
    k, a, b = _Sentinel("k"), _Sentinel("a"), _Sentinel("b")
    if kind == "dict":
        return {k: a, "j": b}, [k, a, b]
    if kind == "deque":
        return collections.deque([a, b]), [a, b]
    return [a, b], [a, b]


def _canned(kind, obj):
    first_key = next(iter(obj)) if kind == "dict" else 0
    return [(), (first_key,), (first_key, None), (slice(0, 2),), (2,), ([],), ({},), (collections.deque(),)]


def native_ref_accessors(kind):
    """non-mutating members of the native type whose result exposes an element / key of the container by identity"""
    t = wrappers.NATIVE[kind]
    muts = set(wrappers.native_mutators(kind))
    out = []
    for name in sorted(dir(t)):
        if name in SKIP or name in muts or not callable(getattr(t, name, None)):
            continue
        exposes = False
        for args in _canned(kind, _scratch(kind)[0]):
            obj, sentinels = _scratch(kind)
            if kind != "dict" and args and args[0] is not None and isinstance(args[0], _Sentinel):
                continue
            try:
                res = getattr(obj, name)(*args)
            except Exception:
                continue
            reach = {id(o) for o in _walk(res)}
            if any(id(s) in reach for s in sentinels):
                exposes = True
                break
        if exposes:
            out.append(name)
    return out


# ---------------------------------------------------------------- AST idioms

def _method_bodies():
    path = os.path.join(repo_root(), "typedpy", "fields", "collections_impl.py")
    tree = ast.parse(open(path, encoding="utf-8").read())
    classes = {n.name: n for n in tree.body if isinstance(n, ast.ClassDef)}
    out = {}
    for kind, cname in wrappers.WRAPPER_CLASS.items():
        cls = classes.get(cname)
        out[kind] = {n.name: n for n in (cls.body if cls else []) if isinstance(n, ast.FunctionDef)}
    return out


def _ast_mode(fn, methods):
    """idiom of an overriding accessor body"""
    src = ast.dump(fn)
    calls = [n for n in ast.walk(fn) if isinstance(n, ast.Call)]
    names = set()
    for c in calls:
        if isinstance(c.func, ast.Attribute):
            names.add(c.func.attr)
        elif isinstance(c.func, ast.Name):
            names.add(c.func.id)
    subscripts_self = any(isinstance(n, ast.Subscript) and isinstance(n.value, ast.Name) and n.value.id == "self"
                          and isinstance(n.ctx, ast.Load) for n in ast.walk(fn))
    returns_super_only = all(isinstance(r.value, ast.Call) and wrappers._is_super_call(r.value, {fn.name})
                             for r in ast.walk(fn) if isinstance(r, ast.Return) and r.value is not None)
    if "_get_defensive_copy_if_needed" in names or subscripts_self:
        return "guardedCopy"
    if "ListIteratorProxy" in names and "_is_immutable" in names:
        return "guardedCopy"      # the proxy reads through self.the_list[i] (checked by the witness probe)
    if "copy" in names and any(isinstance(c.func, ast.Attribute) and c.func.attr == "copy" and isinstance(c.func.value, ast.Name)
                               and c.func.value.id == "self" for c in calls):
        return "deepAll"
    if "deepcopy" in names and "_is_immutable" in names:
        return "deepAll"
    if "keys" in names and any(isinstance(c.func, ast.Attribute) and c.func.attr == "keys" and isinstance(c.func.value, ast.Name)
                               and c.func.value.id == "self" for c in calls):
        return "guardedCopy"
    if returns_super_only:
        return "raw"
    return "raw"


# ---------------------------------------------------------------- witness probe

def _owners():
    import typedpy as T
    Key = type("C04Key", (T.Structure,), {"name": T.String, "tags": T.Array[T.String], "_required": ["name"]})
    # elements of every kind the defensive copy has to look into: plain containers, and "immutable containers" (frozenset,
    # tuple) holding mutable hashable objects (Structure instances)
    fz = lambda: frozenset({Key(name="fz", tags=["t"])})
    tp = lambda: (Key(name="tp", tags=["t"]), [1])
    inner = lambda: {"list": [{"k": [1]}, [2, 3], fz(), tp()], "deque": collections.deque([{"k": [1]}, [2, 3], fz(), tp()]),
                     "dict": {Key(name="a", tags=["t"]): [1, 2], "j": {"z": [3]}, "f": fz(), "t": tp()}}
    nested = lambda: {"list": [[1, 2], [3]], "deque": collections.deque([[1, 2], [3]]), "dict": {"a": [1, 2], "b": [3]}}
    fields_untyped = lambda imm: {"list": T.Array(immutable=imm), "deque": T.Deque(immutable=imm), "dict": T.Map(immutable=imm)}
    fields_nested = lambda imm: {"list": T.Array(items=T.Array[T.Integer], immutable=imm),
                                 "deque": T.Deque(items=T.Array[T.Integer], immutable=imm),
                                 "dict": T.Map(items=[T.String, T.Array[T.Integer]], immutable=imm)}
    out = {}
    for owner, base, imm in (("immutable-structure", T.ImmutableStructure, False), ("immutable-field", T.Structure, True)):
        for shape, fields, vals in (("untyped", fields_untyped, inner), ("nested", fields_nested, nested)):
            body = {("f_" + k): f for k, f in fields(imm).items()}
            body["_required"] = []
            cls = type("C04Owner", (base,), body)
            out[(owner, shape)] = (cls, vals)
    return out


def _raw_payload(w):
    if isinstance(w, dict):
        return list(dict.keys(w)) + [dict.__getitem__(w, k) for k in dict.keys(w)]
    if isinstance(w, collections.deque):
        return list(collections.deque.__iter__(w))
    return list(list.__iter__(w))


def _internal_nodes(w):
    """id -> sealed? for every mutable object below the wrapper's raw payload (the wrapper itself included)"""
    from typedpy import Structure, ImmutableStructure
    from typedpy.structures import ImmutableMixin
    nodes, queue = {}, [w]
    while queue:
        o = queue.pop(0)
        if id(o) in nodes or o is None or isinstance(o, (bool, int, float, str, bytes)):
            continue
        if isinstance(o, ImmutableMixin):
            nodes[id(o)] = bool(o._is_immutable())
            queue.extend(_raw_payload(o))
        elif isinstance(o, ImmutableStructure):
            nodes[id(o)] = True
        elif isinstance(o, Structure):
            nodes[id(o)] = False
            queue.extend(v for k, v in o.__dict__.items() if not k.startswith("_"))
        elif isinstance(o, dict):
            nodes[id(o)] = False
            queue.extend(list(o.keys()) + list(o.values()))
        elif isinstance(o, (list, set, collections.deque)):
            nodes[id(o)] = False
            queue.extend(list(o))
        elif isinstance(o, (tuple, frozenset)):
            queue.extend(list(o))
    return nodes


def _probe_member(make_wrapper, kind, name):
    """dynamic mode of member `name` on the wrapper: one fresh instance per argument tuple"""
    verdicts = []
    for args_of in range(8):
        w, keep = make_wrapper()
        args_list = _canned(kind, w)
        if args_of >= len(args_list):
            break
        args = args_list[args_of]
        member = getattr(w, name, None)
        if member is None:
            return "raises"
        try:
            res = member(*args)
        except Exception:
            continue
        internal = _internal_nodes(w)
        got = _walk(res)
        hits = [internal[id(o)] for o in got if id(o) in internal and o is not w]
        holds_mutable = any(isinstance(o, (list, dict, set, collections.deque)) or hasattr(o, "__dict__") for o in got)
        if any(h is False for h in hits):
            verdicts.append("raw")
        elif hits:
            verdicts.append("sealed")
        elif holds_mutable:
            verdicts.append("fresh")
        else:
            verdicts.append("noRef")
    if not verdicts:
        return "raises"
    for v in ("raw", "sealed", "fresh", "noRef"):
        if v in verdicts:
            return v
    return "raises"


def accessor_names():
    """kind -> the accessors listed in the table: native members exposing references + the wrapper's own non-mutators"""
    bodies = _method_bodies()
    out = {}
    for kind in ("list", "dict", "deque"):
        native = native_ref_accessors(kind)
        muts = set(wrappers.native_mutators(kind))
        own = [n for n in bodies[kind] if n not in muts and n not in SKIP and not n.startswith("_raise") and
               not (n.startswith("_") and not n.startswith("__")) and n not in ("__reduce__",)]
        out[kind] = sorted(set(native) | set(own))
    return out


def accessor_rows():
    bodies = _method_bodies()
    owners = _owners()
    rows = []
    names = accessor_names()
    for kind in ("list", "dict", "deque"):
        native = native_ref_accessors(kind)
        for name in names[kind]:
            overridden = name in bodies[kind]
            ast_mode = _ast_mode(bodies[kind][name], bodies[kind]) if overridden else ("raw" if name in native else "noRef")
            for owner in ("immutable-structure", "immutable-field"):
                dyn = []
                for shape in ("untyped", "nested"):
                    cls, vals = owners[(owner, shape)]

                    def make(cls=cls, vals=vals, kind=kind):
                        x = cls(**{"f_" + kind: vals()[kind]})
                        return getattr(x, "f_" + kind), x
                    dyn.append(_probe_member(make, kind, name))
                if "raw" in dyn:
                    mode = "raw"
                elif all(d == "raises" for d in dyn):
                    mode = "raises"
                elif all(d in ("noRef", "raises") for d in dyn):
                    mode = "noRef"
                else:
                    mode = "deepAll" if ast_mode == "deepAll" else "guardedCopy"
                rows.append((owner, kind, name, mode, ast_mode, overridden))
    # the field read of the owning instance (Field.__get__)
    rows += instance_rows()
    return rows


def instance_rows():
    import typedpy as T
    path = os.path.join(repo_root(), "typedpy", "structures", "structures.py")
    tree = ast.parse(open(path, encoding="utf-8").read())
    field_cls = next((n for n in tree.body if isinstance(n, ast.ClassDef) and n.name == "Field"), None)
    getter = next((n for n in (field_cls.body if field_cls else []) if isinstance(n, ast.FunctionDef) and n.name == "__get__"), None)
    ast_mode = "raw"
    if getter is not None:
        names = {c.func.id for c in ast.walk(getter) if isinstance(c, ast.Call) and isinstance(c.func, ast.Name)}
        if "deepcopy" in names and "isinstance" in names:
            ast_mode = "guardedCopy"
    rows = []
    for owner, base, imm in (("immutable-structure", T.ImmutableStructure, False), ("immutable-field", T.Structure, True)):
        verdicts = []
        for label, mk, val in (("anything", lambda: T.Anything(immutable=imm), lambda: [{"k": [1]}]),
                               ("tuple", lambda: T.Tuple(items=[T.Anything, T.Integer], immutable=imm), lambda: ([1], 2)),
                               ("set", lambda: T.Set(immutable=imm), lambda: {1, 2}),
                               ("array", lambda: T.Array(immutable=imm), lambda: [[1], {"k": 2}]),
                               ("map", lambda: T.Map(immutable=imm), lambda: {"a": [1]})):
            try:
                cls = type("C04Inst", (base,), {"f": mk(), "_required": []})
                x = cls(f=val())
                stored = x.__dict__["f"]
                got = x.f
                internal = _internal_nodes(stored) if hasattr(stored, "_is_immutable") else {id(o): False for o in _walk(stored)}
                hits = [internal[id(o)] for o in _walk(got) if id(o) in internal]
                verdicts.append("raw" if any(h is False for h in hits) else "sealed" if hits else "fresh")
            except Exception:
                verdicts.append("raises")
        mode = "raw" if "raw" in verdicts else "guardedCopy"
        rows.append((owner, "instance", "getattr", mode, ast_mode, True))
    return rows


def ctor_rows():
    import typedpy as T
    from harness import aliasprobe
    Key = type("C04Tag", (T.Structure,), {"name": T.String, "labels": T.Array[T.String], "_required": ["name"]})
    kinds = {
        "array-untyped": (lambda imm: T.Array(immutable=imm), lambda: [[1], {"k": [2]}]),
        "array-nested": (lambda imm: T.Array(items=T.Array[T.Integer], immutable=imm), lambda: [[1], [2]]),
        "deque-untyped": (lambda imm: T.Deque(immutable=imm), lambda: collections.deque([[1], {"k": 2}])),
        "map-untyped": (lambda imm: T.Map(immutable=imm), lambda: {"a": [1], "b": {"z": [2]}}),
        "map-nested": (lambda imm: T.Map(items=[T.String, T.Array[T.Integer]], immutable=imm), lambda: {"a": [1]}),
        "set-untyped-structs": (lambda imm: T.Set(immutable=imm), lambda: {Key(name="a", labels=["x"])}),
        "tuple": (lambda imm: T.Tuple(items=[T.Anything, T.Integer], immutable=imm), lambda: ([1], 2)),
        "anything": (lambda imm: T.Anything(immutable=imm), lambda: {"k": [1, [2]]}),
        "array-structs": (lambda imm: T.Array(items=Key, immutable=imm), lambda: [Key(name="a", labels=["x"])]),
    }
    rows = []
    for owner, base, imm in (("immutable-structure", T.ImmutableStructure, False), ("immutable-field", T.Structure, True)):
        for kind, (mk, val) in sorted(kinds.items()):
            try:
                cls = type("C04Ctor", (base,), {"f": mk(imm), "_required": []})
                arg = val()
                x = cls(f=arg)
                retains = bool(aliasprobe.shared_nodes(arg, x))
            except Exception:
                continue
            rows.append((owner, kind, retains))
    # an UNDECLARED keyword (additional property) of an ImmutableStructure
    for label, val in (("additional-property-list", lambda: [1, [2]]), ("additional-property-dict", lambda: {"k": [1]})):
        try:
            cls = type("C04Extra", (T.ImmutableStructure,), {"a": T.Integer, "_required": []})
            arg = val()
            x = cls(a=1, extra=arg)
            rows.append(("immutable-structure", label, bool(aliasprobe.shared_nodes(arg, x))))
        except Exception:
            continue
    return rows


def render(acc, ctor):
    lines = ["/- GENERATED by extract/aliasing_c04.py from typedpy/fields/collections_impl.py, structures.py and a witness probe "
             "of the working tree — do not edit. -/",
             "import TypedpyModel.Sem.AliasC04", "namespace Typedpy.Generated", "open Typedpy.AliasC04", "",
             "def accessorRowsC04 : List AccRow := ["]
    lines.append(",\n".join(
        f"  {{ owner := {lean_str(o)}, wrapper := {lean_str(k)}, accessor := {lean_str(n)}, mode := .{m}, astMode := .{a}, "
        f"overridden := {lean_bool(ov)} }}" for o, k, n, m, a, ov in acc))
    lines += ["]", "", "def ctorRowsC04 : List CtorRow := ["]
    lines.append(",\n".join(f"  {{ owner := {lean_str(o)}, kind := {lean_str(k)}, retains := {lean_bool(r)} }}" for o, k, r in ctor))
    lines += ["]", "", "end Typedpy.Generated", ""]
    return "\n".join(lines)


def generate():
    acc, ctor = accessor_rows(), ctor_rows()
    changed = write_if_changed("AliasingC04.lean", render(acc, ctor))
    return acc, ctor, changed


if __name__ == "__main__":
    acc, ctor, changed = generate()
    for r in acc:
        print(r)
    for r in ctor:
        print(r)
    print("changed:", changed)
