#!/usr/bin/env python3
"""Rebuild known_findings.json from the lead's own entries (known_findings_lead.json) and the
per-property fragments known_findings_Cxx.json.  Run by hand after a fragment changes; checks
only ever read known_findings.json."""
import json, glob, os
here = os.path.dirname(os.path.abspath(__file__))
lead = json.load(open(os.path.join(here, "known_findings_lead.json")))
out = {"findings": list(lead.get("findings", [])), "fixed": list(lead.get("fixed", []))}
for p in sorted(glob.glob(os.path.join(here, "known_findings_C*.json"))):
    d = json.load(open(p))
    out["findings"] += d.get("findings", [])
    out["fixed"] += d.get("fixed", [])
seen = set(); fs = []
for f in out["findings"]:
    k = (f["property"], f["key"])
    if k not in seen:
        seen.add(k); fs.append(f)
out["findings"] = fs
seen = set(); fx = []
for f in out["fixed"]:
    k = json.dumps(f, sort_keys=True)
    if k not in seen:
        seen.add(k); fx.append(f)
out["fixed"] = fx
json.dump(out, open(os.path.join(here, "known_findings.json"), "w"), indent=1)
print(sum(1 for f in out["findings"] if f.get("status", "open") == "open"), "open,", len(out["fixed"]), "fixed")
