#!/usr/bin/env python3
"""Regenerates MANIFEST.json from the per-property modules under harness/props/ (run by hand)."""
import importlib
import json
import os
import sys

ROOT = os.path.dirname(os.path.abspath(__file__))
sys.path.insert(0, ROOT)
ALL = [f"C{i:02d}" for i in range(1, 21)]
PENDING_REASON = "check not built yet in this round (planned, see DESIGN.md section 6); not claimed"


def main():
    checks, na = [], []
    for pid in ALL:
        path = os.path.join(ROOT, "harness", "props", pid.lower() + ".py")
        if not os.path.exists(path):
            na.append({"property_id": pid, "reason": PENDING_REASON})
            continue
        meta = json.loads(open(os.path.join(ROOT, "harness", "props", "meta", pid + ".json")).read())
        checks.append({
            "property_id": pid,
            "quick_cmd": f"./check {pid} --tier quick",
            "thorough_cmd": f"./check {pid} --tier thorough",
            "evidence_file": f"evidence/{pid}.json",
            "replay_cmd_template": f"./check {pid} --replay {{path}}",
            "engine": "lean-model+harness",
            "level_claimed": {"category": "proof", "text": meta["level_text"], "design_ref": meta.get("design_ref", "DESIGN.md §6")},
            "level_note": meta["level_note"],
            "technique": meta["technique"],
        })
    manifest = {
        "version": 1,
        "setup_cmd": "./setup.sh",
        "hooks": {
            "guard": "TYPEDPY_VERIF",
            "enable": "none needed: no hooks are compiled into typedpy; checks import /repo's working tree directly (editable install) and set TYPEDPY_VERIF=1 only as a marker",
            "baseline_off_cmd": "cd /repo && /venv/bin/python -m pytest -ra -q -p no:cacheprovider --timeout=900 --continue-on-collection-errors",
            "source_commits": [],
            "add_only": True,
        },
        "engines": [
            {"name": "lean-model", "path": "lean/", "serves_properties": [c["property_id"] for c in checks],
             "kind_free_text": "Lean 4 model of typedpy semantics (Sem/), documentation-level specs (Spec/), property theorems (Props/), axiom audit (Audit/), compiled line-protocol driver (Driver.lean)"},
            {"name": "harness", "path": "harness/", "serves_properties": [c["property_id"] for c in checks],
             "kind_free_text": "Python correspondence harness: type-directed generators, real-code runners, canonicalisers, differ, property oracles on real results, failing-input search, evidence writer"},
        ],
        "checks": checks,
        "notes": "Machine-checked proof in Lean 4 about a hand-written model tied to /repo by a per-run correspondence check; see DESIGN.md.",
        "not_applicable": na,
    }
    with open(os.path.join(ROOT, "MANIFEST.json"), "w") as f:
        json.dump(manifest, f, indent=1)
    print("checks:", [c["property_id"] for c in checks], "pending:", len(na))


if __name__ == "__main__":
    main()
