#!/bin/bash
# Offline setup: build the Lean model, its property proofs and the compiled driver.
set -e
cd "$(dirname "$0")"
mkdir -p work evidence replays
if [ ! -d .deps/jsonschema ]; then
  /venv/bin/pip install --no-index --find-links /opt/veriftools/wheels --target .deps jsonschema >/dev/null 2>&1 || true
fi
# C20: regenerate the shared-write table (Generated/ is git-ignored) before the first build
[ -f extract/shared_writes.py ] && /venv/bin/python extract/shared_writes.py >/dev/null
cd lean
lake build driver TypedpyModel 2>&1 | tail -5
