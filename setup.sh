#!/bin/bash
# Offline setup: build the Lean model, its property proofs and the compiled driver.
set -e
cd "$(dirname "$0")"
mkdir -p work evidence replays
if [ ! -d .deps/jsonschema ]; then
  /venv/bin/pip install --no-index --find-links /opt/veriftools/wheels --target .deps jsonschema >/dev/null 2>&1 || true
fi
# (T) regenerate the Generated/*.lean tables from the typedpy working tree before the first build
export PYTHONHASHSEED=0
PYTHONPATH="${VERIF_REPO:-/repo}:$(pwd):$(pwd)/.deps" /venv/bin/python -m harness.pregen
cd lean
lake build driver TypedpyModel 2>&1 | tail -5
