#!/bin/bash
# run every built check (quick by default) with limited parallelism; summary to work/runall.txt
cd "$(dirname "$0")"
TIER=${1:-quick}; PAR=${PAR:-4}
mkdir -p work/runall
ls harness/props/c*.py | sed 's/.*\/c\([0-9]*\)\.py/C\1/' | xargs -P $PAR -I{} bash -c "./check {} --tier $TIER > work/runall/{}.out 2>&1; echo {} exit=\$? >> work/runall/summary.\$\$PPID"
cat work/runall/summary.* 2>/dev/null | sort; rm -f work/runall/summary.*
