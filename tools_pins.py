#!/usr/bin/env python3
"""Regenerate pins/source_pins.json from /repo's HEAD working tree (development tool; run after every `fix:` commit)."""
import subprocess, sys, os
sys.path.insert(0, os.path.dirname(os.path.abspath(__file__)))
from extract import srcpins
st = subprocess.run(["git", "-C", "/repo", "status", "--porcelain", "--", "typedpy"], capture_output=True, text=True).stdout.strip()
if st:
    sys.exit("refusing: /repo has uncommitted changes under typedpy/:\n" + st)
head = subprocess.run(["git", "-C", "/repo", "rev-parse", "--short", "HEAD"], capture_output=True, text=True).stdout.strip()
print("pinned", srcpins.write_pins("/repo", head), "units at", head)
