/-
  Driver.lean — line protocol: one JSON case per input line, one JSON result per output line.
  `{"suite": s, "id": n, …}` ↦ `{"id": n, "out": …}` or `{"id": n, "fail": msg}`.
-/
import TypedpyModel.Drive.Construct
open Lean (Json)

def dispatch (suite : String) (j : Json) : Except String Json :=
  match suite with
  | "construct" => Typedpy.Drive.Construct.run j
  | s => .error s!"unknown suite {s}"

def handle (line : String) : String :=
  match Json.parse line with
  | .error e => (Json.mkObj [("fail", .str s!"parse: {e}")]).compress
  | .ok j =>
    let id := (j.getObjVal? "id").toOption.getD .null
    match (j.getObjVal? "suite").bind (·.getStr?) with
    | .error e => (Json.mkObj [("id", id), ("fail", .str e)]).compress
    | .ok suite =>
      match dispatch suite j with
      | .ok out => (Json.mkObj [("id", id), ("out", out)]).compress
      | .error e => (Json.mkObj [("id", id), ("fail", .str e)]).compress

partial def loop (hin hout : IO.FS.Stream) : IO Unit := do
  let line ← hin.getLine
  if line.isEmpty then return ()
  let t := line.trimAscii.toString
  if !t.isEmpty then
    hout.putStrLn (handle t)
  loop hin hout

def main : IO Unit := do
  let hin ← IO.getStdin
  let hout ← IO.getStdout
  loop hin hout
  hout.flush
