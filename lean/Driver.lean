/-
  Driver.lean — line protocol: one JSON case per input line, one JSON result per output line.
  `{"suite": s, "id": n, …}` ↦ `{"id": n, "out": …}` or `{"id": n, "fail": msg}`.
-/
import TypedpyModel.Drive.Construct
import TypedpyModel.Drive.Mutate
import TypedpyModel.Drive.Serde
import TypedpyModel.Drive.Mapper
import TypedpyModel.Drive.Schema
import TypedpyModel.Drive.SchemaCode
import TypedpyModel.Drive.Derive
import TypedpyModel.Drive.Elab
import TypedpyModel.Drive.Define
import TypedpyModel.Drive.World
import TypedpyModel.Drive.Stub
import TypedpyModel.Drive.Convert
import TypedpyModel.Drive.Errors
import TypedpyModel.Drive.Sched
import TypedpyModel.Drive.Pairs
import TypedpyModel.Drive.Shortcut
import TypedpyModel.Drive.Alias
import TypedpyModel.Drive.SerdeX
open Lean (Json)

def dispatch (suite : String) (j : Json) : Except String Json :=
  match suite with
  | "construct" => Typedpy.Drive.Construct.run j
  | "mutate" => Typedpy.Drive.Mutate.run j
  | "serde" => Typedpy.Drive.Serde.run j
  | "mapper" => Typedpy.Drive.Mapper.run j
  | "schema" => Typedpy.Drive.Schema.run j
  | "schemacode" => Typedpy.Drive.SchemaCode.run j
  | "derive" => Typedpy.Drive.Derive.run j
  | "elab" => Typedpy.Drive.Elab.run j
  | "define" => Typedpy.Drive.Define.run j
  | "world" => Typedpy.Drive.World.run j
  | "stub" => Typedpy.Drive.Stub.run j
  | "convert" => Typedpy.Drive.Convert.run j
  | "errors" => Typedpy.Drive.Errors.run j
  | "sched" => Typedpy.Drive.Sched.run j
  | "pairs" => Typedpy.Drive.Pairs.run j
  | "shortcut" => Typedpy.Drive.Shortcut.run j
  | "alias" => Typedpy.Drive.Alias.run j
  | "serdex" => Typedpy.Drive.SerdeX.run j
  | s => .error s!"unknown suite {s}"

def handle (line : String) : String :=
  match Json.parse line with
  | .error e => (Json.mkObj [("fail", .str s!"parse: {e}")]).compress
  | .ok j =>
    let id := (j.getObjVal? "id").toOption.getD .null
    match (j.getObjVal? "suite").bind (·.getStr?) with
    | .error e => (Json.mkObj [("id", id), ("fail", .str e)]).compress
    | .ok suite =>
      match dispatch suite j with
      | .ok out => (Json.mkObj [("id", id), ("out", out)]).compress
      | .error e => (Json.mkObj [("id", id), ("fail", .str e)]).compress

partial def loop (hin hout : IO.FS.Stream) : IO Unit := do
  let line ← hin.getLine
  if line.isEmpty then return ()
  let t := line.trimAscii.toString
  if !t.isEmpty then
    hout.putStrLn (handle t)
  loop hin hout

def main : IO Unit := do
  let hin ← IO.getStdin
  let hout ← IO.getStdout
  loop hin hout
  hout.flush
