import TypedpyModel.Props.C11
#print axioms Typedpy.C11.copy_id
