import TypedpyModel.Props.C05
