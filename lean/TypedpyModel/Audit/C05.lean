import TypedpyModel.Props.C05
#print axioms Typedpy.C05.field_round_trip_partial
#print axioms Typedpy.C05.serialize_pure_json_partial
#print axioms Typedpy.C05.class_serialize_pure_json
#print axioms Typedpy.C05.falsy_survive
#print axioms Typedpy.C05.round_trip_example
#print axioms Typedpy.C05.class_round_trip_partial
#print axioms Typedpy.C05.optional_survives
#print axioms Typedpy.C05.class_round_trip_example
#print axioms Typedpy.C05.set_map_round_trip_example
#print axioms Typedpy.C05.xfield_round_trip_partial
#print axioms Typedpy.C05.xclass_round_trip_partial
#print axioms Typedpy.C05.decimal_round_trip_lossy
#print axioms Typedpy.C05.xclass_round_trip_example
#print axioms Typedpy.C05.anyof_round_trip_partial
#print axioms Typedpy.C05.anyof_round_trip_example
#print axioms Typedpy.C05.class_round_trip_extras_partial
#print axioms Typedpy.C05.class_round_trip_extras_example
