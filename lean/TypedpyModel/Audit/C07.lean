import TypedpyModel.Props.C07
#print axioms Typedpy.C07.agg_field_pointwise
#print axioms Typedpy.C07.ser_deser_same_field_keys
#print axioms Typedpy.C07.ser_keys_eq_image
#print axioms Typedpy.C07.ser_keys_every_level
#print axioms Typedpy.C07.dropped_absent
#print axioms Typedpy.C07.no_collision_if_injective
#print axioms Typedpy.C07.mapper_round_trip
#print axioms Typedpy.C07.mapper_round_trip_serialize
#print axioms Typedpy.C07.flat_round_trip
#print axioms Typedpy.C07.bad_mapper_key_rejected
#print axioms Typedpy.C07.good_mapper_keys_accepted
#print axioms Typedpy.C07.fallback_capture_counterexample
#print axioms Typedpy.C07.strict_mapping_no_capture_example
#print axioms Typedpy.C07.dns_blocks_deserialize_counterexample
#print axioms Typedpy.C07.nested_resync_counterexample
#print axioms Typedpy.C07.C07_statement_false
#print axioms Typedpy.C07.round_trip_example
