import TypedpyModel.Props.C02
#print axioms Typedpy.C02.validate_complete
#print axioms Typedpy.C02.validate_reject
#print axioms Typedpy.C02.construct_complete
#print axioms Typedpy.C02.construct_reject
#print axioms Typedpy.C02.missing_required_is_TypeError
#print axioms Typedpy.C02.float_reads_float
#print axioms Typedpy.C02.boolean_reads_bool
#print axioms Typedpy.C02.enum_name_reads_member
#print axioms Typedpy.C02.immutableSet_reads_frozenset
#print axioms Typedpy.C02.decision_example
#print axioms Typedpy.C02.fmtMatch_formatOracles
#print axioms Typedpy.C02.string_field_exact
#print axioms Typedpy.C02.ipv4_field_exact
#print axioms Typedpy.C02.hostname_field_exact
#print axioms Typedpy.C02.sized_string_bound
#print axioms Typedpy.C02.format_example
