import TypedpyModel.Props.C02
#print axioms Typedpy.C02.validate_complete
#print axioms Typedpy.C02.validate_reject
#print axioms Typedpy.C02.construct_complete
#print axioms Typedpy.C02.construct_reject
#print axioms Typedpy.C02.missing_required_is_TypeError
#print axioms Typedpy.C02.float_reads_float
#print axioms Typedpy.C02.boolean_reads_bool
#print axioms Typedpy.C02.enum_name_reads_member
#print axioms Typedpy.C02.immutableSet_reads_frozenset
#print axioms Typedpy.C02.decision_example
