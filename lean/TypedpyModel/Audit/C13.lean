import TypedpyModel.Props.C13
import TypedpyModel.Props.C13Tie
#print axioms Typedpy.C13.typeMap_pinned
#print axioms Typedpy.C13.formRows_pinned
#print axioms Typedpy.C13.typeMap_columns_consistent
#print axioms Typedpy.C13.sameMeaning_denote
#print axioms Typedpy.C13.elaborate_meaning
#print axioms Typedpy.C13.elaborate_equiv
#print axioms Typedpy.C13.elabField_meaning
#print axioms Typedpy.C13.elabField_equiv
#print axioms Typedpy.C13.elabClass_equiv
#print axioms Typedpy.C13.same_fields_and_required
#print axioms Typedpy.C13.same_behaviour
#print axioms Typedpy.C13.statement_partial
#print axioms Typedpy.C13.fixed_pep604_plain
#print axioms Typedpy.C13.fixed_pep604_nested
#print axioms Typedpy.C13.fixed_field_pipe_none
#print axioms Typedpy.C13.fixed_field_pipe_generic
#print axioms Typedpy.C13.elabField_future_irrelevant
#print axioms Typedpy.C13.fixed_future_long
#print axioms Typedpy.C13.counterexample_falsy_default_kw
#print axioms Typedpy.C13.counterexample_union_duplicate
#print axioms Typedpy.C13.statement_false
#print axioms Typedpy.C13.none_first_equiv
#print axioms Typedpy.C13.none_inner_optional
#print axioms Typedpy.C13.hasNoneOpt_position
#print axioms Typedpy.C13.tuple_single_equiv
#print axioms Typedpy.C13.equiv_example
