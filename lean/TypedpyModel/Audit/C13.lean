import TypedpyModel.Props.C13
import TypedpyModel.Props.C13Tie
#print axioms Typedpy.C13.typeMap_pinned
#print axioms Typedpy.C13.formRows_pinned
#print axioms Typedpy.C13.typeMap_columns_consistent
#print axioms Typedpy.C13.sameMeaning_denote
#print axioms Typedpy.C13.elaborate_meaning
#print axioms Typedpy.C13.elaborate_equiv
#print axioms Typedpy.C13.elabField_meaning
#print axioms Typedpy.C13.elabField_equiv
#print axioms Typedpy.C13.elabClass_equiv
#print axioms Typedpy.C13.same_fields_and_required
#print axioms Typedpy.C13.same_behaviour
#print axioms Typedpy.C13.statement_partial
#print axioms Typedpy.C13.counterexample_pep604_dropped
#print axioms Typedpy.C13.counterexample_pep604_nested
#print axioms Typedpy.C13.counterexample_field_pipe_none
#print axioms Typedpy.C13.counterexample_field_pipe_generic
#print axioms Typedpy.C13.counterexample_future_50
#print axioms Typedpy.C13.counterexample_falsy_default_kw
#print axioms Typedpy.C13.counterexample_union_duplicate
#print axioms Typedpy.C13.statement_false
#print axioms Typedpy.C13.equiv_example
