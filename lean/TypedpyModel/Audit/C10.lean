import TypedpyModel.Props.C10
import TypedpyModel.Props.C10Tie
#print axioms Typedpy.C10.whitelist_rows_ok
#print axioms Typedpy.C10.whitelist_rows_complete
#print axioms Typedpy.C10.whitelist_pinned
