import TypedpyModel.Props.C08
