import TypedpyModel.Props.C12
