import TypedpyModel.Props.C04
#print axioms Typedpy.C04.immutable_step_frozen
#print axioms Typedpy.C04.immutable_step_state
#print axioms Typedpy.C04.immutable_run_frozen
#print axioms Typedpy.C04.immutable_run_all_raise
#print axioms Typedpy.C04.immField_step_frozen
#print axioms Typedpy.C04.immField_run_frozen
#print axioms Typedpy.C04.tables_guarded
#print axioms Typedpy.C04.accessors_ok
#print axioms Typedpy.C04.immutable_example
#print axioms Typedpy.C04.nested_immutable_example
#print axioms Typedpy.C04.immutable_stepB_state
#print axioms Typedpy.C04.immutable_stepR_state
#print axioms Typedpy.C04.immutable_runR_frozen
#print axioms Typedpy.C04.immField_stepR_frozen
#print axioms Typedpy.C04.immField_runR_frozen
#print axioms Typedpy.C04.tables_all_guarded
