import TypedpyModel.Props.C04
import TypedpyModel.Props.C04Subclass
import TypedpyModel.Props.C04Alias
#print axioms Typedpy.C04.immutable_step_frozen
#print axioms Typedpy.C04.immutable_step_state
#print axioms Typedpy.C04.immutable_run_frozen
#print axioms Typedpy.C04.immutable_run_all_raise
#print axioms Typedpy.C04.immField_step_frozen
#print axioms Typedpy.C04.immField_run_frozen
#print axioms Typedpy.C04.tables_guarded
#print axioms Typedpy.C04.accessors_ok
#print axioms Typedpy.C04.immutable_example
#print axioms Typedpy.C04.nested_immutable_example
#print axioms Typedpy.C04.immutable_stepB_state
#print axioms Typedpy.C04.immutable_stepR_state
#print axioms Typedpy.C04.immutable_runR_frozen
#print axioms Typedpy.C04.immField_stepR_frozen
#print axioms Typedpy.C04.immField_runR_frozen
#print axioms Typedpy.C04.tables_all_guarded
#print axioms Typedpy.C04.sealed_structure_not_subclassable
#print axioms Typedpy.C04.sealed_ancestor_not_subclassable
#print axioms Typedpy.C04.immutable_field_not_subclassable
#print axioms Typedpy.C04.subclass_example
#print axioms Typedpy.C04.reads_frozen
#print axioms Typedpy.C04.reads_keep_separation
#print axioms Typedpy.C04.immutable_structure_reads_frozen
#print axioms Typedpy.C04.immutable_field_reads_frozen
#print axioms Typedpy.C04.ctor_separates
#print axioms Typedpy.C04.ctor_then_reads_frozen
#print axioms Typedpy.C04.tables_accessors_safe
#print axioms Typedpy.C04.tables_ctor_no_retention
#print axioms Typedpy.C04.usesTable_safe
#print axioms Typedpy.C04.immutable_structure_reads_frozen_current
#print axioms Typedpy.C04.accessor_example
#print axioms Typedpy.C04.raw_accessor_leaks
#print axioms Typedpy.C04.fixed_dict_reversed_today
#print axioms Typedpy.C04.immutable_stepR_raises
