import TypedpyModel.Props.C03
#print axioms Typedpy.C03.setattr_err_unchanged
#print axioms Typedpy.C03.setattr_err_class
#print axioms Typedpy.C03.setattr_ok_wf
#print axioms Typedpy.C03.delitem_ok_wf
#print axioms Typedpy.C03.call_refines_setattr
#print axioms Typedpy.C03.step_err_unchanged
#print axioms Typedpy.C03.step_err_class
#print axioms Typedpy.C03.step_wf
#print axioms Typedpy.C03.run_wellformed
#print axioms Typedpy.C03.run_failures_atomic
#print axioms Typedpy.C03.tables_ok
#print axioms Typedpy.C03.run_wellformed_current
#print axioms Typedpy.C03.machine_example
#print axioms Typedpy.C03.nested_counterexample
