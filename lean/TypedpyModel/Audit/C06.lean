import TypedpyModel.Props.C06
#print axioms Typedpy.C06.deserialize_goes_through_constructor
#print axioms Typedpy.C06.deserialize_sound
#print axioms Typedpy.C06.deserialize_err_class
#print axioms Typedpy.C06.non_object_rejected
#print axioms Typedpy.C06.extra_keys_policy
#print axioms Typedpy.C06.extra_keys_need_additional_properties
#print axioms Typedpy.C06.deserialize_example
#print axioms Typedpy.C06.deserialize_exact_partial
#print axioms Typedpy.C06.deserialize_accepts_iff_partial
#print axioms Typedpy.C06.exact_fragment_example
#print axioms Typedpy.C06.exact_set_map_example
#print axioms Typedpy.C06.exact_optional_example
