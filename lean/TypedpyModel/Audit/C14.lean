import TypedpyModel.Props.C14
