import TypedpyModel.Props.C01
#print axioms Typedpy.C01.validate_sound
#print axioms Typedpy.C01.construct_sound
#print axioms Typedpy.C01.entry_sound
#print axioms Typedpy.C01.entry_chain_sound
#print axioms Typedpy.C01.construct_then_chain_sound
#print axioms Typedpy.C01.soundness_example
#print axioms Typedpy.C01.constructH_sound
#print axioms Typedpy.C01.entryH_sound
#print axioms Typedpy.C01.entryH_chain_sound
#print axioms Typedpy.C01.constructH_then_chain_sound
#print axioms Typedpy.C01.constructH_no_hook
#print axioms Typedpy.C01.hook_example
#print axioms Typedpy.C01.wellFormed_field
#print axioms Typedpy.C01.chain_ipv4_field_sound
#print axioms Typedpy.C01.chain_hostname_field_sound
#print axioms Typedpy.C01.chain_sized_field_sound
#print axioms Typedpy.C01.formatted_example
