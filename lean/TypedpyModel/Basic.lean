def hello := "world"
