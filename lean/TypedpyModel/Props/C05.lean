/-
  Props/C05.lean — property theorems for C05 (stub; to be filled in).
-/
namespace Typedpy.C05
end Typedpy.C05
