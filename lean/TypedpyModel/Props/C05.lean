/-
  Props/C05.lean — C05: serialize then deserialize returns an equal value; output is pure JSON.

  `ser` / `deser` (Sem/Serde.lean, Sem/Deser.lean) mirror serialize_val / deserialize_single_field;
  `validate` is what the constructor then does with the deserialized value.  On the fragment
  `inFrag` (scalars with every constraint, Enum by name, JSON-literal enums, Array / Deque / Tuple —
  homogeneous or positional — at ANY nesting depth) every conforming stored value serializes to a
  document composed only of JSON types, which deserializes back to exactly that value, which the
  field accepts unchanged (`field_round_trip_partial`); falsy values survive
  (`falsy_survive`); a class whose populated attributes lie in the fragment serializes to a pure
  JSON object with exactly its populated attribute names as keys (`class_serialize_pure_json`).

  `_partial`: nested structures, Optional, Set, Map, untyped collections, Anything and the
  multi-field wrappers are mirrored by the executable model and decided by the correspondence
  harness + round-trip oracle on the real code, but are not covered by these theorems.
-/
import TypedpyModel.Lemmas.RoundTrip
import TypedpyModel.Lemmas.RoundTripX
import TypedpyModel.Lemmas.TextStable
namespace Typedpy.C05
open Typedpy

/-- **C05 (field level)**: serialize → pure JSON → deserialize → the constructor's validation
    returns exactly the stored value -/
theorem field_round_trip_partial (O : Oracles) (opts : DeserOpts) (f : FieldDecl) (v : PyVal)
    (hc : conforms O f v = true) (hf : inFrag O f v = true) :
    ∃ j, ser O f v = .ok j ∧ isJson j = true
      ∧ deser O opts false f j = .ok v ∧ validate O f v = .ok v := by
  rcases round_trip O opts f v hc hf with ⟨j, h1, h2, _, h4, h5⟩
  exact ⟨j, h1, h2, h4, h5⟩

theorem serialize_pure_json_partial (O : Oracles) (f : FieldDecl) (v : PyVal)
    (hc : conforms O f v = true) (hf : inFrag O f v = true) :
    ∃ j, ser O f v = .ok j ∧ isJson j = true := by
  rcases round_trip O {} f v hc hf with ⟨j, h1, h2, _⟩
  exact ⟨j, h1, h2⟩

theorem serField_lookup (O : Oracles) (k : String) (v : PyVal) (f : FieldDecl) :
    ∀ fields : List (String × FieldDecl), lookup k fields = some f → serField O fields k v = ser O f v
  | [], h => by simp [lookup] at h
  | (n, g) :: rest, h => by
    simp only [lookup] at h
    simp only [serField]
    by_cases hk : (k == n) = true
    · simp only [hk, if_true, Option.some.injEq] at h
      simp only [hk, if_true, h]
    · simp only [hk, Bool.false_eq_true, if_false] at h ⊢
      exact serField_lookup O k v f rest h

theorem attrs_pure (O : Oracles) (fields : List (String × FieldDecl)) :
    ∀ attrs : List (String × PyVal),
      (∀ a ∈ attrs, ∃ f, lookup a.1 fields = some f ∧ conforms O f a.2 = true ∧ inFrag O f a.2 = true) →
      ∃ r, mapE (fun (a : String × PyVal) =>
            bindE (serField O fields a.1 a.2) fun j => .ok (PyVal.str a.1, j)) attrs = .ok r
        ∧ isJsonPairs r = true ∧ r.map (·.1) = attrs.map (fun a => PyVal.str a.1)
  | [], _ => ⟨[], rfl, rfl, rfl⟩
  | a :: rest, h => by
    rcases h a (by simp) with ⟨f, hl, hc, hf⟩
    rcases round_trip O {} f a.2 hc hf with ⟨j, h1, h2, _⟩
    rcases attrs_pure O fields rest (fun b hb => h b (by simp [hb])) with ⟨r, g1, g2, g3⟩
    refine ⟨(.str a.1, j) :: r, ?_, ?_, ?_⟩
    · simp [mapE, serField_lookup O a.1 a.2 f fields hl, h1, g1]
    · simp [isJsonPairs, isJsonKey, h2, g2]
    · simp [g3]

/-- **C05 (class level, purity)**: an instance whose populated attributes are declared fields of
    the fragment serializes to a JSON object whose keys are exactly the populated attribute names -/
theorem class_serialize_pure_json (O : Oracles) (c : ClassOpts) (fields : List (String × FieldDecl))
    (defaults : List (String × PyVal)) (attrs : List (String × PyVal))
    (hnn : attrs.all (fun a => !a.2.isNone) = true)
    (h : ∀ a ∈ attrs, ∃ f, lookup a.1 fields = some f ∧ conforms O f a.2 = true ∧ inFrag O f a.2 = true) :
    ∃ r, serialize O (.struct c fields defaults) (.inst c.name attrs) = .ok (.dict r)
      ∧ isJson (.dict r) = true ∧ r.map (·.1) = attrs.map (fun a => PyVal.str a.1) := by
  rcases attrs_pure O fields attrs h with ⟨r, g1, g2, g3⟩
  refine ⟨r, ?_, by simp [isJson, g2], g3⟩
  have hfil : attrs.filter (fun a => !a.2.isNone) = attrs := List.filter_eq_self.mpr (by
    intro a ha; exact (List.all_eq_true.mp hnn) a ha)
  simp [serialize, ser, sInst, hfil, g1]

/-- **C05 (class level)**: for every class declaration and every instance of the fragment —
    nested Structure classes and `Optional` / distinguishable `AnyOf` fields at any depth, unset optional fields
    included, and — as attributes of a class at any level — ImmutableSet and StructureReference fields, whose stored
    form (frozenset, instance of the inline class) differs from what the deserializer hands to the constructor
    (`attrSpecial`, `attr_special_rt2`) —
    `Serializer(x).serialize()` is a pure-JSON object and `Deserializer(cls).deserialize` of it
    returns exactly `x`, for every setting of the deserialization flags -/
theorem class_round_trip_partial (O : Oracles) (opts : DeserOpts) (c : ClassOpts)
    (fields : List (String × FieldDecl)) (defaults : List (String × PyVal)) (x : PyVal)
    (hf : inFrag O (.struct c fields defaults) x = true) :
    ∃ j, serialize O (.struct c fields defaults) x = .ok j ∧ isJson j = true
      ∧ deserialize O opts (.struct c fields defaults) j = .ok x := by
  have hf' := hf
  simp only [inFrag, and_true_iff] at hf
  obtain ⟨⟨⟨hinl, hacc⟩, _⟩, hv⟩ := hf
  cases x with
  | inst n attrs =>
    have hc : conforms O (.struct c fields defaults) (.inst n attrs) = true := by
      simp only [and_true_iff] at hv
      have hn' : n = c.name := by simpa using hv.1.1
      have hinl' : c.inline = false := by simpa using hinl
      simp [conforms, hinl', aClassRef, hn']
      simpa using hacc
    rcases round_trip O opts (.struct c fields defaults) (.inst n attrs) hc hf' with ⟨j, h1, h2, _, h4, _⟩
    -- the document is an object: `serialize_internal` returns a dict
    have hj : ∃ r, j = .dict r := by
      simp only [ser, sInst] at h1
      split at h1
      · cases h1
      · rcases bindE_eq_ok h1 with ⟨r, _, hr⟩
        exact ⟨r, by cases hr; rfl⟩
    rcases hj with ⟨r, rfl⟩
    refine ⟨.dict r, h1, h2, ?_⟩
    -- `deserialize` is the class-reference branch of `deser` applied to an object document
    have hinl' : c.inline = false := by simpa using hinl
    simp only [deser, hinl', PyVal.isNone, Bool.false_and, Bool.false_eq_true, if_false, dClassRef] at h4
    simp only [deserialize]
    exact h4
  | _ => simp at hv

/-- an unset optional field stays unset and a set `Optional` field keeps its value -/
theorem optional_survives (O : Oracles) (opts : DeserOpts) (g : FieldDecl) (v : PyVal)
    (hn : v.isNone = false) (hc : conforms O g v = true) (hf : inFrag O g v = true) :
    ∃ j, ser O (.anyOf [.noneF, g]) v = .ok j ∧ isJson j = true
      ∧ deser O opts false (.anyOf [.noneF, g]) j = .ok v := by
  rcases round_trip O opts g v hc hf with ⟨j, h1, h2, h3, h4, h5⟩
  rcases rt_optional O opts g v j hn (shallowOk_of_frag O g v hc hf) h1 h2 h3 h4 h5 with ⟨j', a, b, _, d, _⟩
  exact ⟨j', a, b, d⟩

/-- **AnyOf over distinguishable options** (`Optional[X]` in either order, `AnyOf[A, B, None]`, unions of
    scalars with collections or classes, at any depth since `inFrag` carries the same clause): the value is
    serialized by the option it belongs to, the document is read back by that option and the constructor
    stores it unchanged — provided every option listed before it fails its shallow check and its
    validation on the value and cannot accept a document of the JSON type produced (`inFragAny`) -/
theorem anyof_round_trip_partial (O : Oracles) (opts : DeserOpts) (fs : List FieldDecl) (v : PyVal)
    (hf : inFragAny O fs v = true) :
    ∃ j, ser O (.anyOf fs) v = .ok j ∧ isJson j = true
      ∧ deser O opts false (.anyOf fs) j = .ok v ∧ validate O (.anyOf fs) v = .ok v := by
  rcases round_trip_any O opts fs v hf with ⟨j, h1, h2, _, h4, h5⟩
  exact ⟨j, by simpa [ser] using h1, h2, by simp [deser, h4], by simpa [validate] using h5⟩

/-! ### falsy values survive; non-vacuity -/

def exO : Oracles := { reMatch := fun _ _ => true }

/-- 0, '', False, [] and a nested empty tuple survive the field-level round trip -/
theorem falsy_survive :
    (∃ j, ser exO (.integer {}) (.int 0) = .ok j ∧ deser exO {} false (.integer {}) j = .ok (.int 0))
    ∧ (∃ j, ser exO (.string none none none) (.str "") = .ok j
          ∧ deser exO {} false (.string none none none) j = .ok (.str ""))
    ∧ (∃ j, ser exO .boolean (.bool false) = .ok j ∧ deser exO {} false .boolean j = .ok (.bool false))
    ∧ (∃ j, ser exO (.seqOf .list (.integer {}) {}) (.list []) = .ok j
          ∧ deser exO {} false (.seqOf .list (.integer {}) {}) j = .ok (.list [])) := by
  refine ⟨?_, ?_, ?_, ?_⟩
  · rcases field_round_trip_partial exO {} (.integer {}) (.int 0) (by decide) (by decide) with ⟨j, a, _, b, _⟩
    exact ⟨j, a, b⟩
  · rcases field_round_trip_partial exO {} (.string none none none) (.str "") (by decide) (by decide)
      with ⟨j, a, _, b, _⟩
    exact ⟨j, a, b⟩
  · rcases field_round_trip_partial exO {} .boolean (.bool false) (by decide) (by decide) with ⟨j, a, _, b, _⟩
    exact ⟨j, a, b⟩
  · rcases field_round_trip_partial exO {} (.seqOf .list (.integer {}) {}) (.list []) (by decide) (by decide)
      with ⟨j, a, _, b, _⟩
    exact ⟨j, a, b⟩

def exDecl : FieldDecl :=
  .seqOf .deque (.tuplePos [.enumCls "Color" ["RED", "BLUE"], .float { min := some ⟨0, 1⟩ },
                            .seqOf .list (.string (some 1) none none) { uniq := true }] true) { max := some 3 }
def exVal : PyVal :=
  .deque [.tuple [.enumv "Color" "BLUE", .float ⟨3, 2⟩, .list [.str "a", .str "b"]], .tuple [.enumv "Color" "RED", .float ⟨0, 1⟩, .list []]]

theorem round_trip_example :
    conforms exO exDecl exVal = true ∧ inFrag exO exDecl exVal = true
    ∧ (match ser exO exDecl exVal with
        | .ok j => isJson j && (match deser exO {} false exDecl j with
            | .ok (.deque [.tuple [.enumv "Color" "BLUE", _, _], .tuple [.enumv "Color" "RED", _, .list []]]) => true
            | _ => false)
        | .error _ => false) = true := by
  decide

/-- a two-level class: `Outer(n: Inner, tag: Optional[String], xs: Array[Integer])` with the
    optional field unset in the nested instance -/
def exInner : FieldDecl :=
  .struct { name := "Inner", required := ["a"], accepts := ["Inner"] }
    [("a", .integer {}), ("b", .anyOf [.noneF, .string none none none])] []
def exOuter : FieldDecl :=
  .struct { name := "Outer", required := ["n"], accepts := ["Outer"], addl := false }
    [("n", exInner), ("tag", .anyOf [.noneF, .string none none none]), ("xs", .seqOf .list (.integer {}) {})] []
def exInst : PyVal :=
  .inst "Outer" [("n", .inst "Inner" [("a", .int 0)]), ("tag", .str ""), ("xs", .list [])]

/-- a class with a Set, a Map with String keys holding nested lists, and an Optional Map -/
def exColl : FieldDecl :=
  .struct { name := "Coll", required := ["s"], accepts := ["Coll"] }
    [("s", .setOf false (.integer {}) { max := some 3 }),
     ("m", .mapOf (.string none none none) (.seqOf .list (.boolean) {}) {}),
     ("o", .anyOf [.noneF, .mapOf (.string (some 1) none none) (.integer {}) {}])] []
def exCollInst : PyVal :=
  .inst "Coll" [("s", .set false [.int 0, .int 2]), ("m", .dict [(.str "", .list []), (.str "k", .list [.bool false])])]

theorem set_map_round_trip_example :
    inFrag exO exColl exCollInst = true
    ∧ (match serialize exO exColl exCollInst with
        | .ok j => isJson j && (match deserialize exO {} exColl j with
            | .ok (.inst "Coll" [("s", .set false [.int 0, .int 2]), ("m", .dict [(.str "", .list []), (.str "k", .list [.bool false])])]) => true
            | _ => false)
        | .error _ => false) = true := by
  decide

/-- `U(f: AnyOf[Enum[Color], Integer, None], xs: Array[Optional[String]], m: AnyOf[Array[Integer], String])`:
    the enum member is serialized by the FIRST option although two non-None options and None are listed, a
    None element of the array survives, and a string is told from an array -/
def exUnion : FieldDecl :=
  .struct { name := "U", required := [], accepts := ["U"], addl := false }
    [("f", .anyOf [.enumCls "Color" ["RED", "BLUE"], .integer {}, .noneF]),
     ("xs", .seqOf .list (.anyOf [.string none none none, .noneF]) {}),
     ("m", .anyOf [.seqOf .list (.integer {}) {}, .string none none none])] []
def exUnionInst : PyVal :=
  .inst "U" [("f", .enumv "Color" "RED"), ("xs", .list [.str "a", .none]), ("m", .str "")]

theorem anyof_round_trip_example :
    inFrag exO exUnion exUnionInst = true
    ∧ (match serialize exO exUnion exUnionInst with
        | .ok (.dict [(.str "f", .str "RED"), (.str "xs", .list [.str "a", .none]), (.str "m", .str "")]) => true
        | _ => false) = true
    ∧ (match serialize exO exUnion exUnionInst with
        | .ok j => (match deserialize exO {} exUnion j with
            | .ok (.inst "U" [("f", .enumv "Color" "RED"), ("xs", .list [.str "a", .none]), ("m", .str "")]) => true
            | _ => false)
        | .error _ => false) = true
    -- an AnyOf of indistinguishable options is outside the fragment: a set under AnyOf[Array, Set]
    ∧ inFragAny exO [.seqOf .list (.integer {}) {}, .setOf false (.integer {}) {}] (.set false [.int 1]) = false := by
  decide

/-- a class with an ImmutableSet attribute and a StructureReference attribute (its inline class holding an
    ImmutableSet itself), nested in another class: the stored forms (frozenset, instance of the inline
    class) are not what the deserializer hands to the constructor (set, dict), and still the round trip
    returns exactly the instance -/
def exSpecial : FieldDecl :=
  .struct { name := "Sp", required := ["tags"], accepts := ["Sp"], addl := false }
    [("tags", .setOf true (.string none none none) { max := some 3 }),
     ("pos", .struct { name := "StructureReference_1", required := ["x"], addl := false, inline := true }
        [("x", .integer {}), ("marks", .setOf true (.integer {}) {})] [])] []
def exSpecialOuter : FieldDecl :=
  .struct { name := "SpO", required := ["sp"], accepts := ["SpO"] } [("sp", exSpecial), ("n", .integer {})] []
def exSpecialInst : PyVal :=
  .inst "SpO" [("sp", .inst "Sp" [("tags", .set true [.str "a", .str ""]),
      ("pos", .inst "StructureReference_1" [("x", .int 0), ("marks", .set true [.int 2])])]), ("n", .int 1)]

theorem immutable_set_and_reference_example :
    inFrag exO exSpecialOuter exSpecialInst = true
    ∧ (match serialize exO exSpecialOuter exSpecialInst with
        | .ok (.dict [(.str "sp", .dict [(.str "tags", .list [.str "a", .str ""]),
              (.str "pos", .dict [(.str "x", .int 0), (.str "marks", .list [.int 2])])]), (.str "n", .int 1)]) => true
        | _ => false) = true
    ∧ (match serialize exO exSpecialOuter exSpecialInst with
        | .ok j => (match deserialize exO {} exSpecialOuter j with
            | .ok (.inst "SpO" [("sp", .inst "Sp" [("tags", .set true [.str "a", .str ""]),
                ("pos", .inst "StructureReference_1" [("x", .int 0), ("marks", .set true [.int 2])])]), ("n", .int 1)]) => true
            | _ => false)
        | .error _ => false) = true := by
  decide

theorem class_round_trip_example :
    inFrag exO exOuter exInst = true
    ∧ (match serialize exO exOuter exInst with
        | .ok j => isJson j && (match deserialize exO {} exOuter j with
            | .ok (.inst "Outer" [("n", .inst "Inner" [("a", .int 0)]), ("tag", .str ""), ("xs", .list [])]) => true
            | _ => false)
        | .error _ => false) = true := by
  decide

/-! ### additional properties: undeclared attributes survive with keep_undefined -/

/-- undeclared attributes that survive: names that are not fields, values that are non-None JSON scalars -/
def plainExtras (names : List String) (ex : List (String × PyVal)) : Bool :=
  ex.all fun a => !names.contains a.1 && !a.2.isNone && jsonScalar a.2

theorem c05_mapE_append {α β} (g : α → R β) : ∀ (xs ys : List α) (as bs : List β),
    mapE g xs = .ok as → mapE g ys = .ok bs → mapE g (xs ++ ys) = .ok (as ++ bs)
  | [], ys, as, bs, h1, h2 => by simp [mapE] at h1; subst h1; simpa using h2
  | x :: xs, ys, as, bs, h1, h2 => by
    simp only [mapE] at h1
    rcases bindE_eq_ok h1 with ⟨y, hy, h1'⟩
    rcases bindE_eq_ok h1' with ⟨zs, hzs, h1''⟩
    simp at h1''; subst h1''
    have := c05_mapE_append g xs ys zs bs hzs h2
    simp [mapE, hy, this]

theorem c05_serField_extra (O : Oracles) (k : String) (v : PyVal) :
    ∀ fields : List (String × FieldDecl), (fields.map (·.1)).contains k = false →
      serField O fields k v = serAny v
  | [], _ => rfl
  | (n, f) :: rest, h => by
    simp only [List.map_cons, List.contains_cons, Bool.or_eq_false_iff] at h
    simp only [serField, h.1, Bool.false_eq_true, if_false]
    exact c05_serField_extra O k v rest h.2

theorem c05_serAny_scalar (v : PyVal) (h : jsonScalar v = true) : serAny v = .ok v ∧ isJson v = true := by
  cases v <;> simp [jsonScalar] at h <;> simp [serAny, isJson]

theorem c05_ser_extras (O : Oracles) (fields : List (String × FieldDecl)) :
    ∀ ex : List (String × PyVal), plainExtras (fields.map (·.1)) ex = true →
      mapE (fun (a : String × PyVal) =>
        bindE (serField O fields a.1 a.2) fun j => .ok (PyVal.str a.1, j)) ex = .ok (ex.map rt_toPair)
      ∧ isJsonPairs (ex.map rt_toPair) = true
  | [], _ => ⟨rfl, rfl⟩
  | a :: ex, h => by
    simp only [plainExtras, List.all_cons, and_true_iff, Bool.not_eq_true'] at h
    obtain ⟨⟨⟨hn, _⟩, hs⟩, hrest⟩ := h
    rcases c05_ser_extras O fields ex (by simpa [plainExtras] using hrest) with ⟨g1, g2⟩
    rcases c05_serAny_scalar a.2 hs with ⟨s1, s2⟩
    constructor
    · simp only [mapE, g1, c05_serField_extra O a.1 a.2 fields hn, s1]
      simp [rt_toPair]
    · simp [isJsonPairs, isJsonKey, rt_toPair, s2]; simpa [rt_toPair] using g2

theorem c05_isJsonPairs_append : ∀ (xs ys : List (PyVal × PyVal)),
    isJsonPairs xs = true → isJsonPairs ys = true → isJsonPairs (xs ++ ys) = true
  | [], _, _, h => by simpa using h
  | (k, v) :: xs, ys, h1, h2 => by
    simp only [isJsonPairs, and_true_iff] at h1
    simp only [List.cons_append, isJsonPairs, and_true_iff]
    exact ⟨h1.1, c05_isJsonPairs_append xs ys h1.2 h2⟩

theorem c05_lookup_skip {α} (m : String) : ∀ (ex rest : List (String × α)),
    (∀ a ∈ ex, a.1 ≠ m) → lookup m (ex ++ rest) = lookup m rest
  | [], _, _ => rfl
  | (k, v) :: ex, rest, h => by
    have hk : (m == k) = false := by
      have := h (k, v) (by simp)
      simpa using fun e => this e.symm
    simp only [List.cons_append, lookup, hk, Bool.false_eq_true, if_false]
    exact c05_lookup_skip m ex rest (fun a ha => h a (by simp [ha]))

/-- **C05 with additional properties**: a class that allows additional properties, an instance of the
    fragment that also carries undeclared attributes holding non-None JSON scalars (they come first in the
    instance, as the constructor stores them): with `keep_undefined` on, `Deserializer(cls).deserialize(
    Serializer(x).serialize())` gives back exactly `x`, the undeclared attributes included -/
theorem class_round_trip_extras_partial (O : Oracles) (opts : DeserOpts) (c : ClassOpts)
    (fields : List (String × FieldDecl)) (defaults ex attrs : List (String × PyVal))
    (hadd : c.addl = true) (hku : opts.keepUndefined = true)
    (hex : plainExtras (fields.map (·.1)) ex = true)
    (hf : inFrag O (.struct c fields defaults) (.inst c.name attrs) = true) :
    ∃ j, serialize O (.struct c fields defaults) (.inst c.name (ex ++ attrs)) = .ok j ∧ isJson j = true
      ∧ deserialize O opts (.struct c fields defaults) j = .ok (.inst c.name (ex ++ attrs)) := by
  simp only [inFrag, and_true_iff] at hf
  obtain ⟨⟨⟨hinl, hacc⟩, hnd⟩, ⟨_, hreq⟩, hcan⟩ := hf
  have hinl' : c.inline = false := by simpa using hinl
  have hnd' : (fields.map (·.1)).Nodup := by simpa using hnd
  rcases rt_fields O opts c defaults fields attrs hnd' hcan with ⟨kw, args, g1, g2, g3, ga, g4, g5⟩
  have hnames := canonAttrs_names O c defaults fields attrs hcan
  have hnn := canonAttrs_nonNone O c defaults fields attrs hcan
  rcases c05_ser_extras O fields ex hex with ⟨e1, e2⟩
  have hexall := List.all_eq_true.mp hex
  have hexn : ∀ a ∈ ex, (fields.map (·.1)).contains a.1 = false ∧ a.2.isNone = false := by
    intro a ha
    have := hexall a ha
    simp only [and_true_iff, Bool.not_eq_true'] at this
    exact ⟨this.1.1, this.1.2⟩
  -- names of extras differ from every field name
  have hdisj : ∀ m ∈ fields.map (·.1), ∀ a ∈ ex, a.1 ≠ m := by
    intro m hm a ha hEq
    have := (hexn a ha).1
    rw [hEq] at this
    have hc : (fields.map (·.1)).contains m = true := by simpa using hm
    rw [hc] at this; cases this
  have hkwnames : ∀ a ∈ kw, a.1 ∈ fields.map (·.1) := by
    intro a ha
    have : a.1 ∈ kw.map (·.1) := List.mem_map_of_mem ha
    rw [g3] at this
    rcases List.mem_map.mp this with ⟨b, hb, hab⟩
    rw [← hab]; exact hnames b hb
  have hfil : (ex ++ attrs).filter (fun a => !a.2.isNone) = ex ++ attrs :=
    List.filter_eq_self.mpr (fun a ha => by
      rcases List.mem_append.mp ha with h | h
      · simp [(hexn a h).2]
      · simp [hnn a h])
  have hser := c05_mapE_append (fun (a : String × PyVal) =>
      bindE (serField O fields a.1 a.2) fun j => .ok (PyVal.str a.1, j)) ex attrs _ _ e1 g1
  have hpairs : ex.map rt_toPair ++ kw.map rt_toPair = (ex ++ kw).map rt_toPair := by simp
  have hjs : isJsonPairs ((ex ++ kw).map rt_toPair) = true := by
    rw [← hpairs]; exact c05_isJsonPairs_append _ _ e2 g2
  refine ⟨.dict ((ex ++ kw).map rt_toPair), ?_, by simp only [isJson]; exact hjs, ?_⟩
  · simp only [serialize, ser, sInst, beq_self_eq_true, Bool.true_or, Bool.not_true, Bool.false_eq_true,
      if_false, hfil, hser, bindE_ok, hpairs]
  · -- deserialization
    have hargnames : ∀ a ∈ args, a.1 ∈ fields.map (·.1) := by
      intro a ha
      have : a.1 ∈ args.map (·.1) := List.mem_map_of_mem ha
      rw [ga] at this
      rcases List.mem_map.mp this with ⟨b, hb, hab⟩
      rw [← hab]; exact hnames b hb
    have hdf : deserFields O opts c (ex ++ kw) fields false = .ok args := by
      rw [deserFields_congr O opts c (ex ++ kw) kw fields false
        (fun m hm => c05_lookup_skip m ex kw (hdisj m hm))]
      exact g4
    have hde : deserExtras opts c (fields.map (·.1)) (ex ++ kw) = ex := by
      unfold deserExtras
      rw [List.filter_append]
      have h1 : ex.filter (fun a => !(fields.map (·.1)).contains a.1 && opts.keepUndefined
          && (c.addl || !opts.ignoreInvalidAddl)) = ex :=
        List.filter_eq_self.mpr (fun a ha => by rw [(hexn a ha).1, hku, hadd]; simp)
      have h2 : kw.filter (fun a => !(fields.map (·.1)).contains a.1 && opts.keepUndefined
          && (c.addl || !opts.ignoreInvalidAddl)) = [] :=
        List.filter_eq_nil_iff.mpr (fun a ha => by simp [hkwnames a ha])
      rw [h1, h2]; simp
    have hvf : validateFields O c defaults (ex ++ args) fields = .ok attrs := by
      rw [validateFields_congr O c defaults (ex ++ args) args fields
        (fun m hm => c05_lookup_skip m ex args (hdisj m hm))]
      exact g5
    have hxo : extrasOf c (fields.map (·.1)) (ex ++ args) = ex := by
      unfold extrasOf
      rw [List.filter_append]
      have h1 : ex.filter (fun a => !(fields.map (·.1)).contains a.1 && !(a.2.isNone && c.ignoreNone)) = ex :=
        List.filter_eq_self.mpr (fun a ha => by rw [(hexn a ha).1, (hexn a ha).2]; simp)
      have h2 : args.filter (fun a => !(fields.map (·.1)).contains a.1 && !(a.2.isNone && c.ignoreNone)) = [] :=
        List.filter_eq_nil_iff.mpr (fun a ha => by simp [hargnames a ha])
      rw [h1, h2]; simp
    have hbind : bindOk c (fields.map (·.1)) (ex ++ args) = true := by
      unfold bindOk
      simp only [hadd, Bool.not_true, Bool.false_and, Bool.not_false, Bool.and_true, Bool.not_eq_true',
        List.any_eq_false]
      intro r hr
      have := (List.all_eq_true.mp hreq) r hr
      rw [← rt_lookup_isSome_names r args attrs ga] at this
      rw [lookup_append]
      cases h1 : lookup r ex <;> cases h2 : lookup r args <;> simp [h2] at this ⊢
    have hk : kwOfDict ((ex ++ kw).map rt_toPair) = some (ex ++ kw) := rt_kwOfDict_map _
    simp only [deserialize, dClassRef, hk]
    simp [hdf, hde, vConstruct, hbind, hvf, hxo]

/-- non-vacuity: an open class with an undeclared attribute whose value is falsy -/
theorem class_round_trip_extras_example :
    plainExtras ["a", "b"] [("zz", .int 0), ("note", .str "")] = true
    ∧ inFrag exO exInner (.inst "Inner" [("a", .int 5)]) = true
    ∧ (match serialize exO exInner (.inst "Inner" [("zz", .int 0), ("note", .str ""), ("a", .int 5)]) with
        | .ok j => isJson j && (match deserialize exO { keepUndefined := true } exInner j with
            | .ok (.inst "Inner" [("zz", .int 0), ("note", .str ""), ("a", .int 5)]) => true
            | _ => false)
        | .error _ => false) = true
    -- with keep_undefined off the undeclared attributes are dropped: the hypothesis is needed
    ∧ (match serialize exO exInner (.inst "Inner" [("zz", .int 0), ("a", .int 5)]) with
        | .ok j => (match deserialize exO { keepUndefined := false } exInner j with
            | .ok (.inst "Inner" [("a", .int 5)]) => true
            | _ => false)
        | .error _ => false) = true := by
  decide


/-! ### attributes holding None -/

/-- **attributes holding None** (an Optional field given None explicitly, with or without `_ignore_none`):
    they are not serialized, and the round trip gives back the instance with those attributes unset — which
    reads the same (`x.f is None` either way).  `attrsN` = the instance's attributes, `attrs` = the ones that
    are not None. -/
theorem class_round_trip_none_attrs_partial (O : Oracles) (opts : DeserOpts) (c : ClassOpts)
    (fields : List (String × FieldDecl)) (defaults attrsN attrs : List (String × PyVal))
    (hN : attrsN.filter (fun a => !a.2.isNone) = attrs)
    (hf : inFrag O (.struct c fields defaults) (.inst c.name attrs) = true) :
    ∃ j, serialize O (.struct c fields defaults) (.inst c.name attrsN) = .ok j ∧ isJson j = true
      ∧ deserialize O opts (.struct c fields defaults) j = .ok (.inst c.name attrs) := by
  rcases class_round_trip_partial O opts c fields defaults (.inst c.name attrs) hf with ⟨j, h1, h2, h3⟩
  refine ⟨j, ?_, h2, h3⟩
  have hff : attrs.filter (fun a => !a.2.isNone) = attrs := by
    rw [← hN, List.filter_filter]; simp
  simp only [serialize, ser, sInst, beq_self_eq_true, Bool.true_or, Bool.not_true, Bool.false_eq_true,
    if_false, hN] at h1 ⊢
  rw [hff] at h1
  exact h1

theorem class_round_trip_none_attrs_example :
    (match serialize exO exInner (.inst "Inner" [("a", .int 5), ("b", .none)]) with
      | .ok (.dict [(.str "a", .int 5)]) => true | _ => false) = true
    ∧ (match deserialize exO {} exInner (.dict [(.str "a", .int 5)]) with
      | .ok (.inst "Inner" [("a", .int 5)]) => true | _ => false) = true := by
  decide


/-! ### through JSON text -/

/-- **C05 through JSON TEXT (partial: documents whose object keys are strings)**: for every class and instance of the
    proved fragment, if the serialized document is a JSON document in the strict sense (`docStable`: every object key
    is a string - the case unless a Map with Integer keys is involved, see `map_int_keys_text_counterexample`), then
    `json.loads(json.dumps(·))` returns it unchanged and `Deserializer(cls).deserialize(json.loads(json.dumps(
    Serializer(x).serialize())))` gives back exactly `x` -/
theorem class_text_round_trip_partial (O : Oracles) (opts : DeserOpts) (c : ClassOpts)
    (fields : List (String × FieldDecl)) (defaults : List (String × PyVal)) (x : PyVal)
    (hf : inFrag O (.struct c fields defaults) x = true) :
    ∃ j, serialize O (.struct c fields defaults) x = .ok j ∧ isJson j = true
      ∧ (docStable j = true →
          jsonRound j = some j
          ∧ (jsonRound j).map (deserialize O opts (.struct c fields defaults)) = some (.ok x)) := by
  rcases class_round_trip_partial O opts c fields defaults x hf with ⟨j, h1, h2, h3⟩
  refine ⟨j, h1, h2, fun hs => ?_⟩
  have := c05_jsonRound_stable j hs
  exact ⟨this, by rw [this]; simp [h3]⟩

theorem class_text_round_trip_example :
    (match serialize exO exOuter exInst with
      | .ok j => docStable j && (match (jsonRound j).map (deserialize exO {} exOuter) with
          | some (.ok (.inst "Outer" [("n", .inst "Inner" [("a", .int 0)]), ("tag", .str ""), ("xs", .list [])])) => true
          | _ => false)
      | .error _ => false) = true := by
  decide

/-! ### known finding: Map with non-string keys through JSON text -/

/-- **Known finding (`text-roundtrip-fails:map-key:integer`), kernel-checked on the model.**  The round-trip
    theorems above are about the Python document `Serializer(x).serialize()` returns.  A Map with Integer keys
    serializes to an object whose keys are ints; it lies inside `inFrag` (String or Integer keys), so the round
    trip of the PYTHON document is proved; but `json.loads(json.dumps(doc))` (`jsonRound`) turns the keys into
    strings, which the Integer key field then refuses — the round trip through JSON TEXT fails. -/
theorem map_int_keys_text_counterexample :
    let cls : FieldDecl := .struct { name := "A", required := ["m"], accepts := ["A"] }
      [("m", .mapOf (.integer {}) (.string none none none) {})] []
    let x : PyVal := .inst "A" [("m", .dict [(.int 1, .str "a")])]
    inFrag exO cls x = true
    ∧ (match serialize exO cls x with
        | .ok j => (match deserialize exO {} cls j with
            | .ok (.inst "A" [("m", .dict [(.int 1, .str "a")])]) => true       -- the Python document round-trips
            | _ => false)
          && (match jsonRound j with
            | some (.dict [(.str "m", .dict [(.str "1", .str "a")])]) => true    -- json text: the key is now "1"
            | _ => false)
          && (match (jsonRound j).map (deserialize exO {} cls) with
            | some (.error .typeErr) => true                                      -- … and is refused
            | _ => false)
        | .error _ => false) = true := by
  decide

/-! ### the extension kinds (Sem/SerdeX.lean): DecimalNumber, Enum by value, DateField / DateTime -/

/-- **C05 on the extension kinds (field level)** -/
theorem xfield_round_trip_partial (XO : XOracles) (opts : DeserOpts) (x : XDecl) (v : PyVal)
    (hf : xFrag XO x v = true) :
    ∃ j, serX XO x v = .ok j ∧ isJson j = true
      ∧ deserX XO opts false x j = .ok v ∧ validateX XO x v = .ok v := by
  rcases xround_trip XO opts x v hf with ⟨j, h1, h2, _, h4, h5⟩
  exact ⟨j, h1, h2, h4, h5⟩

theorem xclass_round_trip_partial (XO : XOracles) (opts : DeserOpts) (c : ClassOpts)
    (fields : List (String × XDecl)) (x : PyVal)
    (hf : xFrag XO (.struct c fields) x = true) :
    ∃ j, serializeX XO (.struct c fields) x = .ok j ∧ isJson j = true
      ∧ deserializeX XO opts (.struct c fields) j = .ok x := by
  rcases xround_trip XO opts (.struct c fields) x hf with ⟨j, h1, h2, _, h4, _⟩
  have hj : ∃ r, j = .dict r := by
    simp only [xFrag, and_true_iff] at hf
    cases x with
    | inst n attrs =>
      simp only [serX, sInst] at h1
      split at h1
      · cases h1
      · rcases bindE_eq_ok h1 with ⟨r, _, hr⟩
        exact ⟨r, by cases hr; rfl⟩
    | _ => simp at hf
  rcases hj with ⟨r, rfl⟩
  exact ⟨.dict r, h1, h2, by simpa [deserializeX] using h4⟩

/-- the serialized form of a Decimal is `float(d)` and comes back as the Decimal of that float: the
    round trip returns an equal value exactly when the Decimal is a double (the lossy clause) -/
theorem decimal_round_trip_lossy (XO : XOracles) (opts : DeserOpts) (o : NumOpts) (q : Q) :
    serX XO (.decimal o) (.dec q) = .ok (.float (XO.toFloat q))
    ∧ deserX XO opts false (.decimal o) (.float (XO.toFloat q)) = .ok (.dec (XO.toFloat q)) := by
  constructor
  · simp [serX, sDecimal]
  · simp [deserX, PyVal.isNone, dDecimal, xConvDecimal, PyVal.asNum]

def exXO : XOracles :=
  { base := exO, toFloat := fun q => q,
    parse := fun _ _ s => if s == "2020-01-31" then some "date:2020-01-31" else none,
    format := fun _ _ _ => "2020-01-31",
    typeOf := fun t => if t == "date:2020-01-31" then "date" else "?" }

def exLevel : XDecl := .enumVal "Level" [("OFF", .int 0), ("LOW", .int 1), ("HIGH", .int 2)] true

/-- `Task(priority: Enum[Level] by value, due: Optional[DateField], amounts: Array[DecimalNumber(min 0)],
    tags: Map[String, Optional[Enum by value]])` -/
def exTask : XDecl :=
  .struct { name := "Task", required := ["priority"], accepts := ["Task"] }
    [("priority", exLevel), ("due", .opt (.temporal "date" "%Y-%m-%d" false)),
     ("amounts", .seqOf .list (.decimal { min := some ⟨0, 1⟩ })),
     ("tags", .mapStr (.opt exLevel))]
def exTaskInst : PyVal :=
  .inst "Task" [("priority", .enumv "Level" "OFF"), ("due", .opaque "date:2020-01-31"),
                ("amounts", .list [.dec ⟨0, 1⟩, .dec ⟨3, 2⟩]),
                ("tags", .dict [(.str "a", .enumv "Level" "OFF"), (.str "", .none)])]

/-- non-vacuity: a falsy member (IntEnum 0), a date, Decimals and an Optional enum inside a Map -/
theorem xclass_round_trip_example :
    xFrag exXO exTask exTaskInst = true
    ∧ (match serializeX exXO exTask exTaskInst with
        | .ok (.dict [(.str "priority", .int 0), (.str "due", .str "2020-01-31"),
                      (.str "amounts", .list [.float ⟨0, 1⟩, .float ⟨3, 2⟩]),
                      (.str "tags", .dict [(.str "a", .int 0), (.str "", .none)])]) => true
        | _ => false) = true
    ∧ (match serializeX exXO exTask exTaskInst with
        | .ok j => (match deserializeX exXO {} exTask j with
            | .ok (.inst "Task" [("priority", .enumv "Level" "OFF"), ("due", .opaque "date:2020-01-31"),
                ("amounts", .list [.dec _, .dec _]), ("tags", .dict [(.str "a", .enumv "Level" "OFF"), (.str "", .none)])]) => true
            | _ => false)
        | .error _ => false) = true := by
  decide

/-! ### AnyOf over extension kinds -/

/-- **AnyOf over extension kinds** (`AnyOf[DateField, Integer, None]`, `AnyOf[Enum by value, Integer]`, …): the value
    is written by the option that owns it - not by the last non-None option -, read back by that option and stored
    unchanged, provided the options listed before it are skipped by the serializer, the constructor and the
    deserializer alike (`xFragAny`) -/
theorem xanyof_round_trip_partial (XO : XOracles) (opts : DeserOpts) (xs : List XDecl) (v : PyVal)
    (hf : xFragAny XO xs v = true) :
    ∃ j, serX XO (.anyOf xs) v = .ok j ∧ isJson j = true
      ∧ deserX XO opts false (.anyOf xs) j = .ok v ∧ validateX XO (.anyOf xs) v = .ok v := by
  rcases xround_trip_any XO opts xs v hf with ⟨j, h1, h2, _, h4, h5⟩
  exact ⟨j, by simpa [serX] using h1, h2, by simp [deserX, h4], by simpa [validateX] using h5⟩

/-- non-vacuity, on the shape of a seeded change (an Optional union serialized through its LAST non-None option):
    `when: AnyOf[DateField, Integer, None]` holding a date is written as the date's text, holding 3 as 3; both come back -/
theorem xanyof_round_trip_example :
    let u : XDecl := .anyOf [.temporal "date" "%Y-%m-%d" false, .base (.integer {}), .base .noneF]
    let cls : XDecl := .struct { name := "Ev", required := [], accepts := ["Ev"], addl := false } [("when", u)]
    xFrag exXO cls (.inst "Ev" [("when", .opaque "date:2020-01-31")]) = true
    ∧ xFrag exXO cls (.inst "Ev" [("when", .int 3)]) = true
    ∧ (match serializeX exXO cls (.inst "Ev" [("when", .opaque "date:2020-01-31")]) with
        | .ok (.dict [(.str "when", .str "2020-01-31")]) => true | _ => false) = true
    ∧ (match deserializeX exXO {} cls (.dict [(.str "when", .str "2020-01-31")]) with
        | .ok (.inst "Ev" [("when", .opaque "date:2020-01-31")]) => true | _ => false) = true
    ∧ (match serializeX exXO cls (.inst "Ev" [("when", .int 3)]) with
        | .ok (.dict [(.str "when", .int 3)]) => true | _ => false) = true
    ∧ (match deserializeX exXO {} cls (.dict [(.str "when", .int 3)]) with
        | .ok (.inst "Ev" [("when", .int 3)]) => true | _ => false) = true := by
  decide

/-! ### compact single-field wrappers -/

/-- **C05, compact single-field wrappers**: a class with exactly one field, required, additional properties off,
    serialized with `compact=True`, is written as the serialized form of that field alone; with compact
    deserialization on, a document that is not an object (an object would be read as the regular form: a compact
    wrapper around a Map or a class is ambiguous by design) is read back by the field and handed to the constructor,
    which gives back exactly the instance -/
theorem xcompact_round_trip_partial (XO : XOracles) (opts : DeserOpts) (c : ClassOpts) (n : String) (x : XDecl)
    (v : PyVal) (hreq : c.required = [n]) (hadd : c.addl = false)
    (hf : xFrag XO (.struct c [(n, x)]) (.inst c.name [(n, v)]) = true) :
    ∃ j, serializeCompactX XO (.struct c [(n, x)]) (.inst c.name [(n, v)]) = .ok j ∧ isJson j = true
      ∧ ((∀ kvs, j ≠ .dict kvs) →
          deserializeCompactX XO opts (.struct c [(n, x)]) j = .ok (.inst c.name [(n, v)])) := by
  simp only [xFrag, xCanonAttrs, and_true_iff, beq_self_eq_true, if_true, List.isEmpty_nil] at hf
  obtain ⟨_, _, ⟨hvn, hfx⟩, _⟩ := hf
  have hvn' : v.isNone = false := by simpa using hvn
  rcases xround_trip XO opts x v hfx with ⟨j, h1, h2, h3, h4, h5⟩
  have hjn : j.isNone = false := by rw [h3]; exact hvn'
  have hcf : xCompactField (.struct c [(n, x)]) = some (n, x) := by simp [xCompactField, hreq, hadd]
  refine ⟨j, ?_, h2, fun hnd => ?_⟩
  · simp [serializeCompactX, hcf, lookup, h1]
  · have hcon : constructX XO (.struct c [(n, x)]) [(n, v)] = .ok (.inst c.name [(n, v)]) := by
      simp [constructX, vConstruct, bindOk, hreq, hadd, lookup, validateFieldsX, argFor, hvn', h5, extrasOf]
    have hd : deserX XO opts c.ignoreNone x j = .ok v := by rw [deserX_nonNone XO opts c.ignoreNone x j hjn]; exact h4
    cases j with
    | dict kvs => exact absurd rfl (hnd kvs)
    | _ => simp [deserializeCompactX, hcf, hd, hcon]

/-- non-vacuity, on the shape of a seeded change: a compact wrapper around an Enum serialized by value whose values
    are strings that READ like JSON ("0", "true"): the compact form is the bare string "0", and it comes back as
    the member, not as the number 0 -/
theorem xcompact_round_trip_example :
    let cls : XDecl := .struct { name := "Status", required := ["value"], addl := false, accepts := ["Status"] }
      [("value", .enumVal "Code" [("OK", .str "0"), ("WARN", .str "1"), ("YES", .str "true")] false)]
    xFrag exXO cls (.inst "Status" [("value", .enumv "Code" "OK")]) = true
    ∧ (match serializeCompactX exXO cls (.inst "Status" [("value", .enumv "Code" "OK")]) with
        | .ok (.str "0") => true | _ => false) = true
    ∧ (match deserializeCompactX exXO {} cls (.str "0") with
        | .ok (.inst "Status" [("value", .enumv "Code" "OK")]) => true | _ => false) = true
    ∧ (match deserializeCompactX exXO {} cls (.int 0) with
        | .error .valueErr => true | _ => false) = true := by
  decide

end Typedpy.C05
