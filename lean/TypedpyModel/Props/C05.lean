/-
  Props/C05.lean — C05: serialize then deserialize returns an equal value; output is pure JSON.

  `ser` / `deser` (Sem/Serde.lean, Sem/Deser.lean) mirror serialize_val / deserialize_single_field;
  `validate` is what the constructor then does with the deserialized value.  On the fragment
  `inFrag` (scalars with every constraint, Enum by name, JSON-literal enums, Array / Deque / Tuple —
  homogeneous or positional — at ANY nesting depth) every conforming stored value serializes to a
  document composed only of JSON types, which deserializes back to exactly that value, which the
  field accepts unchanged (`field_round_trip_partial`); falsy values survive
  (`falsy_survive`); a class whose populated attributes lie in the fragment serializes to a pure
  JSON object with exactly its populated attribute names as keys (`class_serialize_pure_json`).

  `_partial`: nested structures, Optional, Set, Map, untyped collections, Anything and the
  multi-field wrappers are mirrored by the executable model and decided by the correspondence
  harness + round-trip oracle on the real code, but are not covered by these theorems.
-/
import TypedpyModel.Lemmas.RoundTrip
namespace Typedpy.C05
open Typedpy

/-- **C05 (field level)**: serialize → pure JSON → deserialize → the constructor's validation
    returns exactly the stored value -/
theorem field_round_trip_partial (O : Oracles) (opts : DeserOpts) (f : FieldDecl) (v : PyVal)
    (hc : conforms O f v = true) (hf : inFrag O f v = true) :
    ∃ j, ser O f v = .ok j ∧ isJson j = true
      ∧ deser O opts false f j = .ok v ∧ validate O f v = .ok v := by
  rcases round_trip O opts f v hc hf with ⟨j, h1, h2, _, h4, h5⟩
  exact ⟨j, h1, h2, h4, h5⟩

theorem serialize_pure_json_partial (O : Oracles) (f : FieldDecl) (v : PyVal)
    (hc : conforms O f v = true) (hf : inFrag O f v = true) :
    ∃ j, ser O f v = .ok j ∧ isJson j = true := by
  rcases round_trip O {} f v hc hf with ⟨j, h1, h2, _⟩
  exact ⟨j, h1, h2⟩

theorem serField_lookup (O : Oracles) (k : String) (v : PyVal) (f : FieldDecl) :
    ∀ fields : List (String × FieldDecl), lookup k fields = some f → serField O fields k v = ser O f v
  | [], h => by simp [lookup] at h
  | (n, g) :: rest, h => by
    simp only [lookup] at h
    simp only [serField]
    by_cases hk : (k == n) = true
    · simp only [hk, if_true, Option.some.injEq] at h
      simp only [hk, if_true, h]
    · simp only [hk, Bool.false_eq_true, if_false] at h ⊢
      exact serField_lookup O k v f rest h

theorem attrs_pure (O : Oracles) (fields : List (String × FieldDecl)) :
    ∀ attrs : List (String × PyVal),
      (∀ a ∈ attrs, ∃ f, lookup a.1 fields = some f ∧ conforms O f a.2 = true ∧ inFrag O f a.2 = true) →
      ∃ r, mapE (fun (a : String × PyVal) =>
            bindE (serField O fields a.1 a.2) fun j => .ok (PyVal.str a.1, j)) attrs = .ok r
        ∧ isJsonPairs r = true ∧ r.map (·.1) = attrs.map (fun a => PyVal.str a.1)
  | [], _ => ⟨[], rfl, rfl, rfl⟩
  | a :: rest, h => by
    rcases h a (by simp) with ⟨f, hl, hc, hf⟩
    rcases round_trip O {} f a.2 hc hf with ⟨j, h1, h2, _⟩
    rcases attrs_pure O fields rest (fun b hb => h b (by simp [hb])) with ⟨r, g1, g2, g3⟩
    refine ⟨(.str a.1, j) :: r, ?_, ?_, ?_⟩
    · simp [mapE, serField_lookup O a.1 a.2 f fields hl, h1, g1]
    · simp [isJsonPairs, isJsonKey, h2, g2]
    · simp [g3]

/-- **C05 (class level, purity)**: an instance whose populated attributes are declared fields of
    the fragment serializes to a JSON object whose keys are exactly the populated attribute names -/
theorem class_serialize_pure_json (O : Oracles) (c : ClassOpts) (fields : List (String × FieldDecl))
    (defaults : List (String × PyVal)) (attrs : List (String × PyVal))
    (hnn : attrs.all (fun a => !a.2.isNone) = true)
    (h : ∀ a ∈ attrs, ∃ f, lookup a.1 fields = some f ∧ conforms O f a.2 = true ∧ inFrag O f a.2 = true) :
    ∃ r, serialize O (.struct c fields defaults) (.inst c.name attrs) = .ok (.dict r)
      ∧ isJson (.dict r) = true ∧ r.map (·.1) = attrs.map (fun a => PyVal.str a.1) := by
  rcases attrs_pure O fields attrs h with ⟨r, g1, g2, g3⟩
  refine ⟨r, ?_, by simp [isJson, g2], g3⟩
  have hfil : attrs.filter (fun a => !a.2.isNone) = attrs := List.filter_eq_self.mpr (by
    intro a ha; exact (List.all_eq_true.mp hnn) a ha)
  simp [serialize, ser, sInst, hfil, g1]

/-! ### falsy values survive; non-vacuity -/

def exO : Oracles := { reMatch := fun _ _ => true }

/-- 0, '', False, [] and a nested empty tuple survive the field-level round trip -/
theorem falsy_survive :
    (∃ j, ser exO (.integer {}) (.int 0) = .ok j ∧ deser exO {} false (.integer {}) j = .ok (.int 0))
    ∧ (∃ j, ser exO (.string none none none) (.str "") = .ok j
          ∧ deser exO {} false (.string none none none) j = .ok (.str ""))
    ∧ (∃ j, ser exO .boolean (.bool false) = .ok j ∧ deser exO {} false .boolean j = .ok (.bool false))
    ∧ (∃ j, ser exO (.seqOf .list (.integer {}) {}) (.list []) = .ok j
          ∧ deser exO {} false (.seqOf .list (.integer {}) {}) j = .ok (.list [])) := by
  refine ⟨?_, ?_, ?_, ?_⟩
  · rcases field_round_trip_partial exO {} (.integer {}) (.int 0) (by decide) (by decide) with ⟨j, a, _, b, _⟩
    exact ⟨j, a, b⟩
  · rcases field_round_trip_partial exO {} (.string none none none) (.str "") (by decide) (by decide)
      with ⟨j, a, _, b, _⟩
    exact ⟨j, a, b⟩
  · rcases field_round_trip_partial exO {} .boolean (.bool false) (by decide) (by decide) with ⟨j, a, _, b, _⟩
    exact ⟨j, a, b⟩
  · rcases field_round_trip_partial exO {} (.seqOf .list (.integer {}) {}) (.list []) (by decide) (by decide)
      with ⟨j, a, _, b, _⟩
    exact ⟨j, a, b⟩

def exDecl : FieldDecl :=
  .seqOf .deque (.tuplePos [.enumCls "Color" ["RED", "BLUE"], .float { min := some ⟨0, 1⟩ },
                            .seqOf .list (.string (some 1) none none) { uniq := true }] true) { max := some 3 }
def exVal : PyVal :=
  .deque [.tuple [.enumv "Color" "BLUE", .float ⟨3, 2⟩, .list [.str "a", .str "b"]], .tuple [.enumv "Color" "RED", .float ⟨0, 1⟩, .list []]]

theorem round_trip_example :
    conforms exO exDecl exVal = true ∧ inFrag exO exDecl exVal = true
    ∧ (match ser exO exDecl exVal with
        | .ok j => isJson j && (match deser exO {} false exDecl j with
            | .ok (.deque [.tuple [.enumv "Color" "BLUE", _, _], .tuple [.enumv "Color" "RED", _, .list []]]) => true
            | _ => false)
        | .error _ => false) = true := by
  decide

end Typedpy.C05
