/-
  Props/C14.lean — C14: inheritance only adds strictness; invalid class definitions fail when
  defined.

  `defineClass` (Sem/Define.lean) mirrors `StructMeta.__new__` and its helpers.  The theorems
  quantify over every world reachable by class statements (`WorldOk`, established for all histories
  by `reachable_ok`), every class source, every hierarchy shape (any depth, multiple bases,
  mixins: the MRO is Python's C3 linearisation) and every value.

  Where the code today violates the statement, the full statement is a `def … : Prop`, the
  theorem proved is the `_partial` one with the explicit exclusion, and a kernel-checked
  counterexample shows the full statement false of the model (= known findings).
-/
import TypedpyModel.Lemmas.DefineWorld
import TypedpyModel.Lemmas.DefineBridge
import TypedpyModel.Lemmas.DeriveTotal
import TypedpyModel.Lemmas.DefineSig
namespace Typedpy.C14
open Typedpy

/-! ### inheritance only adds fields; inherited fields are the base's objects -/

/-- Any ancestor at any depth, any shape of hierarchy (multiple bases, mixins): a class has every
    field of every class in its MRO. -/
theorem ancestor_fields_subset {w : World} (hw : WorldOk w) {c a : ClassDef} {cn : String}
    (hc : w.find cn = some c) (ha : w.find a.name = some a) (hmem : a.name ∈ c.mro) :
    ∀ n ∈ a.fieldNames, n ∈ c.fieldNames := by
  intro n hn
  have hcok := hw cn c hc
  have haok := hw a.name a ha
  rw [fieldName_iff_owner haok] at hn
  rw [fieldName_iff_owner hcok]
  cases hk : firstOwner (ownRev w) n a.mro with
  | none => simp [hk] at hn
  | some k =>
    rcases firstOwner_some hk with ⟨hka, hko⟩
    rcases hcok.closed a.name hmem with ⟨ad, had, hsub⟩
    rw [ha] at had; cases had
    exact firstOwner_isSome_of_mem (hsub.subset hka) hko

/-- Any ancestor at any depth: if the class that provides field `n` to `c` (the first owner along
    `c`'s MRO) is the ancestor `a` or one of `a`'s ancestors, then `c` holds for `n` the identical
    Field object — declaration and default — that `a` holds. -/
theorem ancestor_field_same {w : World} (hw : WorldOk w) {c a : ClassDef} {cn k n : String}
    (hc : w.find cn = some c) (ha : w.find a.name = some a) (hmem : a.name ∈ c.mro)
    (hk : firstOwner (ownRev w) n c.mro = some k) (hka : k ∈ a.mro) :
    lookup n c.allFields = lookup n a.allFields := by
  have hcok := hw cn c hc
  have haok := hw a.name a ha
  rcases hcok.closed a.name hmem with ⟨ad, had, hsub⟩
  rw [ha] at had; cases had
  rw [lookup_allFields hcok, lookup_allFields haok, hk, firstOwner_sublist hsub hcok.nodup hk hka]

/-- the new class is an element of the extended world and satisfies the invariants -/
theorem defined_class_ok {O : Oracles} {w : World} {src : ClassSrc} {cd : ClassDef}
    (hw : WorldOk w) (h : defineClass O w src = .ok cd) (hfresh : w.find src.name = none) :
    WorldOk (w.add cd) ∧ (w.add cd).find cd.name = some cd ∧ cd.mro = src.name :: mroTail w src := by
  have hw' := worldOk_add_define hw h hfresh
  rcases defineClass_ok h with ⟨_, rfl⟩
  exact ⟨hw', find_add_fresh (d := build w src) hfresh, rfl⟩

theorem base_in_mro {O : Oracles} {w : World} {src : ClassSrc} {cd : ClassDef}
    (h : defineClass O w src = .ok cd) {b : String} (hb : b ∈ src.bases) : b ∈ cd.mro := by
  rcases defineClass_ok h with ⟨hc, rfl⟩
  have hf := defFacts hc
  have : src.bases.Sublist (mroTail w src) := c3merge_sublist _ _ _ hf.c3ok _ (by simp [mroSeqs])
  exact List.mem_cons_of_mem _ (this.subset hb)

/-- C14 (fields): a subclass has every field of each of its bases. -/
theorem sub_fields_superset {O : Oracles} {w : World} {src : ClassSrc} {cd bd : ClassDef}
    (hw : WorldOk w) (h : defineClass O w src = .ok cd) (hfresh : w.find src.name = none)
    {b : String} (hb : b ∈ src.bases) (hbd : w.find b = some bd) :
    ∀ n ∈ bd.fieldNames, n ∈ cd.fieldNames := by
  rcases defined_class_ok hw h hfresh with ⟨hw', hself, _⟩
  have hbn : bd.name = b := findCls_name hbd
  have hbd' : (w.add cd).find bd.name = some bd := by rw [hbn]; exact find_add_of_some hbd
  exact ancestor_fields_subset hw' hself hbd' (by rw [hbn]; exact base_in_mro h hb)

/-- a name the class body does not declare is not owned by the new class -/
theorem not_owned_of_not_declared {w : World} {cd : ClassDef} {n : String}
    (hself : w.find cd.name = some cd) (hn : n ∉ cd.own.map (·.1)) :
    (lookup n (ownRev w cd.name)).isSome = false := by
  cases h : (lookup n (ownRev w cd.name)).isSome with
  | false => rfl
  | true =>
    rw [lookup_isSome_iff] at h
    simp only [ownRev, ownOf, hself, List.map_reverse, List.mem_reverse] at h
    exact absurd h hn

/-- C14 (inherited fields, single structure base — with any mixins — at every level, hence chains
    of any depth by `ancestor_field_same`): a field the class body does not redeclare is the
    base's Field object: same declaration, same default. -/
theorem inherited_field_same {O : Oracles} {w : World} {src : ClassSrc} {cd bd : ClassDef}
    (hw : WorldOk w) (h : defineClass O w src = .ok cd) (hfresh : w.find src.name = none)
    {b n : String} (hb : b ∈ src.bases) (hbd : w.find b = some bd)
    (honly : ∀ b' ∈ src.bases, b' ≠ b → ∀ bd', w.find b' = some bd' → bd'.mro = [b'] ∧ bd'.own = [])
    (hn : n ∉ (ownMembers src.entries).map (·.1)) :
    lookup n cd.allFields = lookup n bd.allFields := by
  rcases defined_class_ok hw h hfresh with ⟨hw', hself, hmro⟩
  have hbn : bd.name = b := findCls_name hbd
  have hbd' : (w.add cd).find bd.name = some bd := by rw [hbn]; exact find_add_of_some hbd
  have hbm : bd.name ∈ cd.mro := by rw [hbn]; exact base_in_mro h hb
  have hcok := hw' _ _ hself
  have hown : cd.own = ownMembers src.entries := by rcases defineClass_ok h with ⟨_, rfl⟩; rfl
  cases hk : firstOwner (ownRev (w.add cd)) n cd.mro with
  | none =>
    -- nobody owns n: absent on both sides
    have h1 : lookup n cd.allFields = none := by rw [lookup_allFields hcok, hk]
    have h2 : lookup n bd.allFields = none := by
      cases hl : lookup n bd.allFields with
      | none => rfl
      | some m =>
        have : n ∈ bd.fieldNames := by
          rw [ClassDef.fieldNames, ← lookup_isSome_iff, hl]; rfl
        have := ancestor_fields_subset hw' hself hbd' hbm n this
        rw [fieldName_iff_owner hcok, hk] at this
        cases this
    rw [h1, h2]
  | some k =>
    refine ancestor_field_same hw' hself hbd' hbm hk ?_
    rcases firstOwner_some hk with ⟨hkm, hko⟩
    -- k is in the MRO: the class itself (excluded: it does not declare n), or from a base's MRO
    rcases defineClass_ok h with ⟨hc, hcd⟩
    have hf := defFacts hc
    rw [hmro] at hkm
    rcases List.mem_cons.mp hkm with hks | hkt
    · have hnm : cd.name = k := by rw [hcd, hks]; rfl
      have := not_owned_of_not_declared (n := n) hself (by rw [hown]; exact hn)
      rw [hnm] at this
      rw [this] at hko; cases hko
    · rcases c3merge_origin _ _ _ hf.c3ok k hkt with ⟨s, hs, hks⟩
      simp only [mroSeqs, List.mem_append, List.mem_map, List.mem_singleton] at hs
      have hbdm : b ∈ bd.mro := by
        rcases (hw b bd hbd).head with ⟨t, ht⟩
        rw [ht, hbn]; exact List.mem_cons_self
      -- a base other than b is a field-less mixin, so it owns nothing
      have other : ∀ b' ∈ src.bases, b' ≠ b → k = b' → False := by
        intro b' hb' hne hkb
        subst hkb
        have := hf.basesFound k hb'
        cases hfk : w.find k with
        | none => simp [hfk] at this
        | some kd =>
          have ho := (honly k hb' hne kd hfk).2
          have : ownRev (w.add cd) k = [] := by
            simp [ownRev, ownOf, find_add_of_some (d := cd) hfk, ho]
          rw [this] at hko
          simp [lookup] at hko
      rcases hs with ⟨bd', hbd'm, rfl⟩ | rfl
      · rcases mem_baseDefs.mp hbd'm with ⟨b', hb', hfb'⟩
        by_cases hbb : b' = b
        · subst hbb
          rw [hbd] at hfb'; cases hfb'
          exact hks
        · have hm := (honly b' hb' hbb bd' hfb').1
          rw [hm] at hks
          have : k = b' := by simpa using hks
          exact absurd this (fun hk' => other b' hb' hbb hk')
      · by_cases hkb : k = b
        · rw [hkb]; exact hbdm
        · exact absurd rfl (fun _ : k = k => other k hks hkb rfl)

theorem c14_mem_allSigParams {bd : ClassDef} {p : String × Bool} : ∀ {l : List ClassDef}, bd ∈ l →
    p ∈ sigParams bd.sig → p ∈ allSigParams l
  | [], h, _ => by cases h
  | x :: xs, h, hp => by
    simp only [allSigParams, List.mem_append]
    rcases List.mem_cons.mp h with rfl | h1
    · exact Or.inl hp
    · exact Or.inr (c14_mem_allSigParams h1 hp)

theorem c14_lookup_map_key {α β} (f : String → β) (n : String) : ∀ l : List (String × α),
    lookup n (l.map fun p => (p.1, f p.1)) = (lookup n l).map fun _ => f n
  | [] => rfl
  | (k, v) :: rest => by
    simp only [List.map_cons, lookup]
    by_cases h : n = k
    · subst h; simp
    · have hb : (n == k) = false := by simpa using h
      simp only [hb, Bool.false_eq_true, if_false]
      exact c14_lookup_map_key f n rest

/-- C14 (required; since the repair of `required-not-superset:optional-in-earlier-base` for EVERY
    base, whatever the bases listed before it declare): a parameter the constructor of a base
    demands is in the subclass's `_required`, and unless the subclass turns it into a Constant its
    constructor demands it too. -/
theorem sub_required_superset {O : Oracles} {w : World} {src : ClassSrc} {cd bd : ClassDef}
    (h : defineClass O w src = .ok cd) (hb : bd ∈ structBases w src) {n : String} (hn : n ∈ bd.sig.req) :
    n ∈ cd.required ∧ (n ∉ cd.constants.map (·.1) → n ∈ cd.sig.req) := by
  rcases defineClass_ok h with ⟨_, rfl⟩
  have hin : (n, true) ∈ allSigParams (structBases w src) :=
    c14_mem_allSigParams hb (by simp [sigParams, hn])
  have hany : (allSigParams (structBases w src)).any (fun q => q.1 == n && q.2) = true :=
    List.any_eq_true.mpr ⟨(n, true), hin, by simp⟩
  have hl : lookup n (basesParams w src) = some true := by
    simp only [basesParams]
    rw [c14_lookup_map_key (fun k => (allSigParams (structBases w src)).any fun q => q.1 == k && q.2) n,
      lookup_dedupKeys, hany]
    have : (lookup n (allSigParams (structBases w src))).isSome = true := by
      rw [lookup_isSome_iff]; exact List.mem_map_of_mem (f := (·.1)) hin
    cases hq : lookup n (allSigParams (structBases w src)) with
    | none => simp [hq] at this
    | some v => rfl
  have hmem : (n, true) ∈ basesParams w src := lookup_mem hl
  have hbr : n ∈ basesRequired w src := by
    simp only [basesRequired, List.mem_map, List.mem_filter]
    exact ⟨(n, true), ⟨hmem, rfl⟩, rfl⟩
  refine ⟨?_, ?_⟩
  · show n ∈ requiredOf w src
    rw [requiredOf, mem_dedupStr]
    exact List.mem_append_left _ (List.mem_append_left _ hbr)
  · intro hc
    show n ∈ (sigOf w src).req
    simp only [sigOf, mem_dedupStr]
    apply List.mem_append_left
    simp only [List.mem_filter, List.mem_map]
    refine ⟨⟨(n, true), hmem, rfl⟩, ?_⟩
    have hc0 : n ∉ (constantsOf (resolvedFields w src)).map (·.1) := hc
    have hc' : ((constantsOf (resolvedFields w src)).map (·.1)).contains n = false := by
      simpa using hc0
    have : (basesRequired w src).contains n = true := by simpa using hbr
    rw [this, hc']; simp

/-- the form the theorem had while the finding was open (kept for the users of the old name) -/
theorem sub_required_superset_partial {O : Oracles} {w : World} {src : ClassSrc} {cd bd : ClassDef}
    (h : defineClass O w src = .ok cd) {pre post : List ClassDef}
    (hb : structBases w src = pre ++ bd :: post) {n : String} (hn : n ∈ bd.sig.req) :
    n ∈ cd.required ∧ (n ∉ cd.constants.map (·.1) → n ∈ cd.sig.req) :=
  sub_required_superset h (by rw [hb]; simp) hn


/-- instance-level consequence: an identical Field object validates every value identically -/
def fieldValidate (O : Oracles) (c : ClassDef) (n : String) (v : PyVal) : Option (R PyVal) :=
  match lookup n c.allFields with
  | some (.field d _) => some (validate O d v)
  | _ => none

def fieldDefault (c : ClassDef) (n : String) : Option Dflt :=
  match lookup n c.allFields with
  | some (.field _ d) => d
  | _ => none

/-- same object, hence the same accept / reject / normal form for every value and the same
    default -/
theorem same_field_same_behaviour (O : Oracles) {c a : ClassDef} {n : String}
    (h : lookup n c.allFields = lookup n a.allFields) :
    (∀ v, fieldValidate O c n v = fieldValidate O a n v) ∧ fieldDefault c n = fieldDefault a n := by
  simp only [fieldValidate, fieldDefault, h]
  exact ⟨fun _ => trivial, trivial⟩

/-- the full "required" statement of C14: false of the code (see the counterexamples) -/
def sub_required_superset_statement : Prop :=
  ∀ (O : Oracles) (w : World) (src : ClassSrc) (cd bd : ClassDef), WorldOk w →
    defineClass O w src = .ok cd → bd ∈ structBases w src →
    ∀ n ∈ bd.required, n ∈ bd.fieldNames → n ∈ cd.required

/-! ### invalid definitions fail when defined -/

/-- the full statement: every fault of the vocabulary makes the class statement raise — false of
    the code (see the counterexamples) -/
def fault_rejected_statement : Prop :=
  ∀ (O : Oracles) (w : World) (src : ClassSrc) (f : Fault), f.applies O w src = true →
    ∃ e, defineClass O w (inject f src) = .error e

/-- C14 (faults): for every class source whatsoever, every world and both guard settings, a
    single fault of any kind — outside the two known holes — makes the class statement raise. -/
theorem fault_rejected_partial (O : Oracles) (w : World) (src : ClassSrc) (f : Fault)
    (ha : f.applies O w src = true) (hk : f.knownHole O = false) :
    ∃ e, defineClass O w (inject f src) = .error e :=
  fault_rejected_core O w src f ha hk

/-- … and yields no class: the world is unchanged -/
theorem fault_yields_no_class (O : Oracles) (w : World) (src : ClassSrc) (f : Fault)
    (ha : f.applies O w src = true) (hk : f.knownHole O = false) :
    stepWorld O w (.define (inject f src)) = w := by
  rcases fault_rejected_core O w src f ha hk with ⟨e, he⟩
  simp [stepWorld, stepClass, he]

/-- subclassing an ImmutableField class is refused -/
theorem immutableField_subclass_rejected (fw : List FieldCls) (name b : String) (bases : List String)
    (hb : b ∈ bases) (hs : sealedFieldCls fw b = true) :
    ∃ e, defineFieldClass fw name bases = .error e := by
  unfold defineFieldClass
  cases hc : c3 ((bases.filterMap fun b => (findFieldCls b fw).map (·.mro)) ++ [bases]) with
  | none => exact ⟨_, rfl⟩
  | some tail =>
    have hsub : bases.Sublist tail := c3merge_sublist _ _ _ hc _ (by simp)
    have : tail.any (sealedFieldCls fw) = true := List.any_eq_true.mpr ⟨b, hsub.subset hb, hs⟩
    exact ⟨.typeErr, by simp [this]⟩

/-- C14 (abstract): AbstractStructure itself and every class whose direct bases include it cannot
    be instantiated, whatever the arguments -/
theorem abstract_not_instantiable (O : Oracles) (c : ClassDef) (kw : List (String × PyVal))
    (h : c.name = "AbstractStructure" ∨ "AbstractStructure" ∈ c.bases) :
    instantiate O c kw = .error .typeErr := by
  have : c.isAbstract = true := by
    unfold ClassDef.isAbstract
    rcases h with h | h
    · simp [h]
    · simp [h]
  unfold instantiate instantiateOrd
  rw [if_pos this]

theorem abstract_subclass_not_instantiable {O : Oracles} {w : World} {src : ClassSrc} {cd : ClassDef}
    (h : defineClass O w src = .ok cd) (hb : "AbstractStructure" ∈ src.bases)
    (kw : List (String × PyVal)) : instantiate O cd kw = .error .typeErr := by
  rcases defineClass_ok h with ⟨_, rfl⟩
  exact abstract_not_instantiable O _ kw (Or.inr hb)

/-- C14 (abstract, every entry point): whichever class-level way of obtaining an instance is used
    — constructor, `from_other_class`, `cast_to`, the class-level trust flag, `from_trusted_data` with
    keywords or a mapping, trusted deserialization — an abstract class is refused with TypeError,
    whatever the arguments and whatever the order oracle. -/
theorem abstract_not_instantiable_via (O : Oracles) (c : ClassDef) (ord : List String) (e : Entry)
    (kw : List (String × PyVal)) (h : c.name = "AbstractStructure" ∨ "AbstractStructure" ∈ c.bases) :
    instantiateVia O c ord e kw = .error .typeErr := by
  have : c.isAbstract = true := by
    unfold ClassDef.isAbstract
    rcases h with h | h
    · simp [h]
    · simp [h]
  unfold instantiateVia
  rw [if_pos this]

/-- … and a class that is not abstract is never refused *as abstract* by a trusting entry point:
    those return an instance of the class itself -/
theorem concrete_trusted_entry_instantiates (O : Oracles) (c : ClassDef) (ord : List String) (e : Entry)
    (kw : List (String × PyVal)) (h : c.isAbstract = false) (he : e.validates = false) :
    instantiateVia O c ord e kw = .ok (.inst c.name kw) := by
  unfold instantiateVia
  rw [if_neg (by simp [h])]
  cases e <;> simp_all [Entry.validates]

/-! ### inheritance only adds strictness: constructors (through the bridge, Sem/DefineBridge.lean) -/

/-- C14 (constructors, any two classes of any world): if every declared field of `B` is the same
    Field object in `S`, `B`'s constructor demands no parameter `S`'s does not (and only declared
    fields), and `S` does not switch class-level None-dropping on, then every keyword list `S`'s
    constructor accepts is accepted by `B`'s constructor once restricted to `B`'s fields — for every
    order of the required parameters on either side. -/
theorem ctor_accepts_restricted (O : Oracles) {S B : ClassDef}
    (hkS : KeysNodup S.allFields) (hkB : KeysNodup B.allFields)
    (hsame : ∀ n ∈ Bridge.defOrder B, lookup n S.allFields = lookup n B.allFields)
    (hreq : ∀ n ∈ B.sig.req, n ∈ S.sig.req)
    (hwf : Bridge.wf B = true) (hign : S.ignoreNone = true → B.ignoreNone = true)
    (hB : B.isAbstract = false)
    (ordS ordB : List String) (kw : List (String × PyVal)) {x : PyVal}
    (h : instantiateOrd O S ordS kw = .ok x) :
    ∃ y, instantiateOrd O B ordB (restrictKw B kw) = .ok y := by
  have hwf' := hwf
  simp only [Bridge.wf, Bool.and_eq_true, List.all_eq_true, List.contains_eq_mem, decide_eq_true_eq] at hwf'
  -- the subclass got through to `construct`
  unfold instantiateOrd at h
  split at h
  · cases h
  split at h
  · cases h
  split at h
  · cases h
  split at h
  · cases h
  rcases bindE_eq_ok h with ⟨x0, hx0, _⟩
  rcases c14_construct_restrict O hkS hkB hsame hreq hwf'.1 hign ordS [S.name] ordB [B.name] kw hx0 with ⟨y0, hy0⟩
  -- the base's own guards pass on the restricted arguments
  have hnames : ∀ a ∈ restrictKw B kw, a.1 ∈ Bridge.defOrder B := by
    intro a ha
    have := (List.mem_filter.mp ha).2
    simpa using this
  have hbind : bindOk B.opts (Bridge.defOrder B) (restrictKw B kw) = true := by
    have := (c14_construct_ok_iff O _ _ _ _).mp ⟨y0, by simpa only [ClassDef.toStruct] using hy0⟩
    have hb := this.1
    rw [c14_bindOk_names_congr _ _ (c14_mem_toStruct_names B ordB)] at hb
    simpa [bindOk, ClassDef.opts] using hb
  have hund : undeclaredKw B (restrictKw B kw) = false := by
    apply List.any_eq_false.mpr
    intro a ha
    have := c14_defOrder_sub_fieldNames hkB (hnames a ha)
    simp [this]
  have hconst : (restrictKw B kw).any (fun a => (lookup a.1 B.constants).isSome) = false := by
    apply List.any_eq_false.mpr
    intro a ha
    have := hwf'.2 a.1 (hnames a ha)
    cases hl : lookup a.1 B.constants <;> simp_all
  unfold instantiateOrd
  rw [if_neg (by simp [hB]), if_neg (by simp [hbind]), if_neg (by simp [hund]), if_neg (by simp [hconst]), hy0]
  exact ⟨_, rfl⟩

/-- a class inherits every declared field of ancestor `a` unchanged: along the class's MRO the first
    class that owns the name is `a` or one of `a`'s ancestors (nobody in between redeclares it) -/
def inheritsUnchanged (w : World) (c a : ClassDef) : Bool :=
  (Bridge.defOrder a).all fun n =>
    match firstOwner (ownRev w) n c.mro with
    | some k => a.mro.contains k
    | none => false

/-- C14 (constructors, every hierarchy a history can define): in a world reachable by class
    statements, for a class `c` and any ancestor `a` at any depth (multiple bases, mixins, diamonds)
    whose declared fields `c` inherits unchanged: what `c`'s constructor accepts, `a`'s constructor
    accepts on the arguments restricted to `a`'s fields.  Exclusions (all decidable, all necessary):
    a parameter `a` demands and `c` does not (the two `required-not-superset` findings), `c` switching
    `_ignore_none` on, `a` abstract, `a`'s two field views disagreeing (`Bridge.wf`). -/
theorem sub_accepts_base_accepts (O : Oracles) {w : World} (hw : WorldOk w) {c a : ClassDef} {cn : String}
    (hc : w.find cn = some c) (ha : w.find a.name = some a) (hmem : a.name ∈ c.mro)
    (hinh : inheritsUnchanged w c a = true)
    (hreq : ∀ n ∈ a.sig.req, n ∈ c.sig.req)
    (hwf : Bridge.wf a = true) (hign : c.ignoreNone = true → a.ignoreNone = true)
    (hA : a.isAbstract = false)
    (ordC ordA : List String) (kw : List (String × PyVal)) {x : PyVal}
    (h : instantiateOrd O c ordC kw = .ok x) :
    ∃ y, instantiateOrd O a ordA (restrictKw a kw) = .ok y := by
  have hcok := hw cn c hc
  have haok := hw a.name a ha
  refine ctor_accepts_restricted O (classOk_keysNodup hcok) (classOk_keysNodup haok) ?_ hreq hwf hign hA
    ordC ordA kw h
  intro n hn
  have := (List.all_eq_true.mp hinh) n hn
  cases hk : firstOwner (ownRev w) n c.mro with
  | none => simp [hk] at this
  | some k =>
    simp only [hk, List.contains_eq_mem, decide_eq_true_eq] at this
    exact ancestor_field_same hw hc ha hmem hk this

/-- C14 (constructors, every history): the same for every world reachable by class statements with
    no hypothesis about the class records at all — that the signature of every class names only
    declared non-Constant fields and that `_constants` are the Constant members of `_field_by_name`
    (`Bridge.wf`) is an invariant of every history (`reachable_sigOk`, since the repair of
    `names-mismatch:constant-shadowed-in-diamond`). -/
theorem sub_accepts_base_accepts_reachable (O : Oracles) {w : World} (hr : Reachable O w) {c a : ClassDef}
    {cn : String} (hc : w.find cn = some c) (ha : w.find a.name = some a) (hmem : a.name ∈ c.mro)
    (hinh : inheritsUnchanged w c a = true) (hreq : ∀ n ∈ a.sig.req, n ∈ c.sig.req)
    (hign : c.ignoreNone = true → a.ignoreNone = true) (hA : a.isAbstract = false)
    (ordC ordA : List String) (kw : List (String × PyVal)) {x : PyVal}
    (h : instantiateOrd O c ordC kw = .ok x) :
    ∃ y, instantiateOrd O a ordA (restrictKw a kw) = .ok y :=
  sub_accepts_base_accepts O (reachable_ok hr) hc ha hmem hinh hreq (reachable_bridge_wf hr ha) hign hA
    ordC ordA kw h

/-- C14 (constructors, one class statement): `class S(…mixins…, B, …mixins…)` that redeclares none of
    `B`'s fields and does not switch `_ignore_none` on: whatever `S(**kw)` accepts, `B` accepts on
    the arguments that are its fields — every hypothesis is about the class statement itself. -/
theorem direct_sub_accepts_base_accepts (O : Oracles) {w : World} (hr : Reachable O w) {src : ClassSrc}
    {cd bd : ClassDef} (h : defineClass O w src = .ok cd) (hfresh : w.find src.name = none)
    {b : String} (hb : b ∈ src.bases) (hbd : w.find b = some bd) (hstruct : bd ∈ structBases w src)
    (honly : ∀ b' ∈ src.bases, b' ≠ b → ∀ bd', w.find b' = some bd' → bd'.mro = [b'] ∧ bd'.own = [])
    (hnew : ∀ n ∈ Bridge.defOrder bd, n ∉ (ownMembers src.entries).map (·.1))
    (hign : cd.ignoreNone = true → bd.ignoreNone = true) (hA : bd.isAbstract = false)
    (ordC ordB : List String) (kw : List (String × PyVal)) {x : PyVal}
    (hx : instantiateOrd O cd ordC kw = .ok x) :
    ∃ y, instantiateOrd O bd ordB (restrictKw bd kw) = .ok y := by
  have hw := reachable_ok hr
  rcases defined_class_ok hw h hfresh with ⟨hw', hself, _⟩
  have hstep : stepClass O w (.define src) = .ok cd := h
  have hfresh' : w.find cd.name = none := by rw [defineClass_name h]; exact hfresh
  have hr' : Reachable O (w.add cd) := Reachable.step hr hstep hfresh'
  have hbd' : (w.add cd).find b = some bd := find_add_of_some hbd
  have hkS := classOk_keysNodup (hw' _ _ hself)
  have hkB := classOk_keysNodup (hw' _ _ hbd')
  have hwfB := reachable_bridge_wf hr hbd
  have hsigS := reachable_sigOk hr' _ _ hself
  have hsame : ∀ n ∈ Bridge.defOrder bd, lookup n cd.allFields = lookup n bd.allFields :=
    fun n hn => inherited_field_same hw h hfresh hb hbd honly (hnew n hn)
  refine ctor_accepts_restricted O hkS hkB hsame ?_ hwfB hign hA ordC ordB kw hx
  intro n hn
  have hreq := sub_required_superset h hstruct hn
  apply hreq.2
  -- `n` is a declared field of the base, the same object in the subclass: not one of its Constants
  have hwf' := hwfB
  simp only [Bridge.wf, Bool.and_eq_true, List.all_eq_true, List.contains_eq_mem, decide_eq_true_eq] at hwf'
  have hnd : n ∈ Bridge.defOrder bd := hwf'.1 n hn
  rcases (c14_mem_defOrder hkB n).mp hnd with ⟨d, dflt, hl⟩
  have hlS : lookup n cd.allFields = some (.field d dflt) := by rw [hsame n hnd, hl]
  intro hmem
  have : (lookup n cd.constants).isSome = true := by rw [lookup_isSome_iff]; exact hmem
  rw [hsigS.consts, c14_lookup_constantsOf hkS, hlS] at this
  cases this
/-! ### no class is ever a strict subclass of a strict subclass of FinalStructure / ImmutableStructure -/

/-- no class of the MRO tail is sealed -/
def NoSealedAncestor (w : World) (c : ClassDef) : Prop :=
  ∀ a ∈ c.mro.tail, sealedCls w a = false

theorem sealedCls_add {w : World} {d : ClassDef} {a : String} (h : (w.find a).isSome = true) :
    sealedCls (w.add d) a = sealedCls w a := by
  cases hf : w.find a with
  | none => simp [hf] at h
  | some ad => simp [sealedCls, hf, find_add_of_some hf]

/-- a successful class statement never has a sealed class behind it: `_check_for_final_violations` -/
theorem defined_no_sealed_ancestor {O : Oracles} {w : World} {src : ClassSrc} {cd : ClassDef}
    (h : defineClass O w src = .ok cd) : NoSealedAncestor w cd := by
  rcases defineClass_ok h with ⟨hc, rfl⟩
  have hf := runChecks_ok_mem hc _ (mem_checks_final (O := O) (w := w) (src := src))
  simp only [finalCheck] at hf
  split at hf
  · cases hf
  · rename_i hany
    intro a ha
    have : (mroTail w src).any (sealedCls w) = false := by simpa using hany
    exact (List.any_eq_false.mp this) a ha |> fun h => by simpa using h

/-- C14 (sealed classes): extending a strict subclass of FinalStructure / ImmutableStructure — directly
    or through any chain of bases — is refused: the class statement raises and yields no class. -/
theorem sealed_base_rejected (O : Oracles) {w : World} (src : ClassSrc) {b s : String}
    {bd : ClassDef} (hb : b ∈ src.bases) (hbd : w.find b = some bd) (hs : s ∈ bd.mro)
    (hsealed : sealedCls w s = true) :
    ∃ e, defineClass O w src = .error e := by
  cases hd : defineClass O w src with
  | error e => exact ⟨e, rfl⟩
  | ok cd =>
    exfalso
    have hns := defined_no_sealed_ancestor hd
    rcases defineClass_ok hd with ⟨hc, rfl⟩
    have hf := defFacts hc
    have hsub : bd.mro.Sublist (mroTail w src) :=
      c3merge_sublist _ _ _ hf.c3ok _ (by
        simp only [mroSeqs, List.mem_append, List.mem_map, List.mem_singleton]
        exact Or.inl ⟨bd, mem_baseDefs.mpr ⟨b, hb, hbd⟩, rfl⟩)
    have := hns s (hsub.subset hs)
    rw [hsealed] at this
    cases this

theorem c14_noSealed_add {w : World} {c d : ClassDef} (hc : ClassOk w c) (h : NoSealedAncestor w c) :
    NoSealedAncestor (w.add d) c := by
  intro a ha
  rcases hc.closed a (List.mem_of_mem_tail ha) with ⟨ad, had, _⟩
  rw [sealedCls_add (by rw [had]; rfl)]
  exact h a ha

theorem c14_noSealed_init (bc bn : Bool) :
    ∀ n c, (initWorld bc bn).find n = some c → NoSealedAncestor (initWorld bc bn) c := by
  intro n c hc
  have hm : c ∈ (initWorld bc bn).classes := c12_findCls_mem hc
  simp only [initWorld, World.init, List.mem_cons, List.not_mem_nil, or_false] at hm
  intro a ha
  rcases hm with rfl | rfl | rfl | rfl
  · simp [World.builtin] at ha
  all_goals
    have : a = "Structure" := by simpa [World.builtin] using ha
    subst this
    rfl

/-- C14 (sealed classes, every history): in every world reachable by class statements no class has
    a strict subclass of FinalStructure / ImmutableStructure among its proper ancestors — such a
    class is never extended, at any depth, through any mix of bases -/
theorem reachable_no_sealed_ancestor {O : Oracles} {w : World} (h : Reachable O w) :
    ∀ n c, w.find n = some c → NoSealedAncestor w c := by
  induction h with
  | init bc bn => exact c14_noSealed_init bc bn
  | @step w s c hr hs hf ih =>
    have hw := reachable_ok hr
    have hw' := worldOk_step hw hs hf
    intro n d hd
    rcases find_add_inv hd with h1 | ⟨_, rfl, _⟩
    · exact c14_noSealed_add (hw n d h1) (ih n d h1)
    · -- the new class
      have hnew : NoSealedAncestor w d := by
        cases s with
        | define src => simp only [stepClass] at hs; exact defined_no_sealed_ancestor hs
        | mixin m =>
          simp only [stepClass] at hs
          cases hs
          intro a ha
          simp [mixinDef] at ha
        | derive op source newName =>
          simp only [stepClass] at hs
          split at hs
          · simp only [deriveClass] at hs
            rcases bindE_eq_ok hs with ⟨src, _, hdd⟩
            exact defined_no_sealed_ancestor hdd
          · cases hs
      intro a ha
      have hdok := hw' d.name d (find_add_fresh hf)
      rcases hdok.closed a (List.mem_of_mem_tail ha) with ⟨ad, had, _⟩
      -- `a` is a proper ancestor, so it already existed
      have hne : a ≠ d.name := by
        rcases hdok.head with ⟨t, ht⟩
        intro he
        rw [ht] at ha
        have hnd := hdok.nodup
        rw [ht] at hnd
        simp only [List.tail_cons] at ha
        exact (List.nodup_cons.mp hnd).1 (he ▸ ha)
      rcases find_add_inv had with h1 | ⟨_, _, h2⟩
      · rw [sealedCls_add (by rw [h1]; rfl)]
        exact hnew a ha
      · exact absurd h2.symm hne
/-! ### kernel-checked counterexamples (the known findings) and non-vacuity -/

def exO : Oracles := { reMatch := fun _ _ => true }
def W0 : World := initWorld true true

def plainSrc (name : String) (bases : List String) (entries : List (String × SrcEntry)) : ClassSrc :=
  { name, bases, entries }

def intF : SrcEntry := .field (.integer {}) none none

/-- finding `fault-accepted:default-violates:kw-falsy`: `a = String(default=0)` defines -/
theorem falsy_default_not_validated :
    (Fault.defaultKw "a" (.string none none none) (.lit (.int 0))).applies exO W0 (plainSrc "X" ["Structure"] []) = true
    ∧ isError (defineClass exO W0
        (inject (.defaultKw "a" (.string none none none) (.lit (.int 0))) (plainSrc "X" ["Structure"] []))) = false := by
  decide

/-- finding `fault-accepted:mutable-default:class-form-nonempty`: `a: Array = [1]` defines -/
theorem mutable_class_form_default_accepted :
    (Fault.mutableClassForm "a" (.seqAny .list {}) (.list [.int 1])).applies exO W0 (plainSrc "X" ["Structure"] []) = true
    ∧ isError (defineClass exO W0
        (inject (.mutableClassForm "a" (.seqAny .list {}) (.list [.int 1])) (plainSrc "X" ["Structure"] []))) = false := by
  decide

/-- fixed finding `fault-accepted:bare-type:pep604-union` (173578d): `x = int | str` is refused by
    the guard like `x = list[int]` -/
theorem fixed_pep604_union_refused :
    (Fault.bareType "x" .union).applies exO W0 (plainSrc "X" ["Structure"] []) = true
    ∧ isError (defineClass exO W0 (inject (.bareType "x" .union) (plainSrc "X" ["Structure"] []))) = true
    ∧ isError (defineClass exO W0 (inject (.bareType "x" .generic) (plainSrc "X" ["Structure"] []))) = true := by
  decide

theorem fault_rejected_statement_false : ¬ fault_rejected_statement := by
  intro h
  rcases h exO W0 (plainSrc "X" ["Structure"] []) _ falsy_default_not_validated.1 with ⟨e, he⟩
  have := falsy_default_not_validated.2
  rw [he] at this
  cases this

/-- fixed finding `abstract-instantiable:AbstractStructure` (df54aff): `AbstractStructure()`
    raises TypeError -/
theorem abstractStructure_itself_not_instantiable :
    isError (instantiate exO (World.builtin "AbstractStructure" ["Structure"] false) []) = true := by
  decide

def reqOf (w : World) (n : String) : List String :=
  match w.find n with
  | some c => c.required
  | none => []

/-- fixed finding `required-not-superset:constant`: a Constant of the base is in the base's
    `_required` (it has no `_default`) and — being still a Constant in the subclass — in the
    subclass's too, although no constructor signature carries it -/
def constWorld : World :=
  runSteps exO W0 [.define (plainSrc "B" ["Structure"] [("c", .obj (.const (.int 1))), ("a", intF)]),
                   .define (plainSrc "S" ["B"] [("b", intF)]),
                   .define (plainSrc "T" ["B"] [("c", .field (.integer {}) (some (.lit (.int 2))) none)])]

theorem fixed_constant_required_kept :
    (reqOf constWorld "B").contains "c" = true ∧ (reqOf constWorld "S").contains "c" = true
    ∧ (reqOf constWorld "S").contains "a" = true
    -- a subclass that REPLACES the Constant by a Field with a default is free to
    ∧ (reqOf constWorld "T").contains "c" = false := by
  decide

/-- fixed finding `required-not-superset:optional-in-earlier-base`: with two bases a later base
    that requires a parameter upgrades what an earlier base declares optional -/
def twoBaseWorld : World :=
  runSteps exO W0 [.define { plainSrc "A1" ["Structure"] [("a", intF)] with required := some [] },
                   .define (plainSrc "A2" ["Structure"] [("a", intF)]),
                   .define (plainSrc "S" ["A1", "A2"] [("b", intF)])]

theorem fixed_second_base_required_kept :
    (reqOf twoBaseWorld "A2").contains "a" = true ∧ (reqOf twoBaseWorld "S").contains "a" = true
    ∧ (reqOf twoBaseWorld "S").contains "b" = true := by
  decide

/-- non-vacuity: a diamond with a mixin defines, merges fields through the C3 MRO, keeps the
    required names of the bases, rejects an inconsistent MRO and a sealed base -/
def diamond : World :=
  runSteps exO W0 [
    .define (plainSrc "A" ["Structure"] [("a", intF)]),
    .mixin "Mx",
    .define (plainSrc "B" ["Mx", "A"] [("b", .field (.integer {}) (some (.lit (.int 3))) none)]),
    .define { plainSrc "C" ["A"] [("c", .field (.string none none none) none none)] with required := some [] },
    .define (plainSrc "D" ["B", "C"] [("d", intF)]),
    .define (plainSrc "Bad" ["A", "C"] []),
    .define (plainSrc "Imm" ["ImmutableStructure"] [("i", intF)]),
    .define (plainSrc "SubImm" ["Imm"] [])]

def mroOfCls (w : World) (n : String) : List String :=
  match w.find n with
  | some c => c.mro
  | none => []

def fieldsOfCls (w : World) (n : String) : List String :=
  match w.find n with
  | some c => c.fieldNames
  | none => []

theorem inheritance_example :
    mroOfCls diamond "D" = ["D", "B", "Mx", "C", "A", "Structure"]
    ∧ fieldsOfCls diamond "D" = ["a", "c", "b", "d"]
    ∧ reqOf diamond "D" = ["a", "d"]
    ∧ (diamond.find "Bad").isNone = true ∧ (diamond.find "Imm").isSome = true
    ∧ (diamond.find "SubImm").isNone = true := by
  decide

/-- non-vacuity for `@keys_of` with several enum classes: inherited fields count; a member that is
    not a field is refused whichever enum (first, middle, last) it belongs to -/
def keysWorld : World :=
  runSteps exO W0 [
    .define (plainSrc "A" ["Structure"] [("north", intF), ("south", intF)]),
    .define { plainSrc "Ok" ["A"] [("admin", intF), ("day", intF)] with
                keysOf := [["admin"], ["north", "south"], ["day"]] },
    .define { plainSrc "MissFirst" ["A"] [("admin", intF), ("day", intF)] with
                keysOf := [["admin", "driver"], ["north", "south"], ["day"]] },
    .define { plainSrc "MissMiddle" ["Structure"] [("admin", intF), ("north", intF), ("day", intF)] with
                keysOf := [["admin"], ["north", "south"], ["day"]] },
    .define { plainSrc "MissLast" ["A"] [("admin", intF)] with
                keysOf := [["admin"], ["north", "south"], ["day"]] }]

theorem keys_of_example :
    (keysWorld.find "Ok").isSome = true ∧ (keysWorld.find "MissFirst").isNone = true
    ∧ (keysWorld.find "MissMiddle").isNone = true ∧ (keysWorld.find "MissLast").isNone = true := by
  decide

/-! ### constructors through the bridge: non-vacuity and necessity of the exclusions -/

def minF : SrcEntry := .field (.integer { min := some (Q.ofInt 1) }) none none
def strDflt : SrcEntry := .field (.string none none none) (some (.lit (.str "x"))) none

def ctorWorld : World :=
  runSteps exO W0 [.define (plainSrc "B" ["Structure"] [("a", minF), ("s", strDflt)]),
                   .mixin "Mx",
                   .define (plainSrc "S" ["Mx", "B"] [("b", intF)]),
                   .define (plainSrc "T" ["S"] [("t", intF)])]

def clsOf (w : World) (n : String) : ClassDef := (w.find n).getD (mixinDef "?")

/-- non-vacuity of `sub_accepts_base_accepts`: a grandchild `T` (through a mixin and a middle
    class) inherits `B`'s fields unchanged; `T(a=3, b=2, t=1)` is accepted and so is `B(a=3)`, in both
    orders of `T`'s required parameters; `T(a=0, …)` is refused like `B(a=0)` -/
theorem ctor_example :
    inheritsUnchanged ctorWorld (clsOf ctorWorld "T") (clsOf ctorWorld "B") = true
    ∧ Bridge.wf (clsOf ctorWorld "B") = true
    ∧ (clsOf ctorWorld "T").sig.req = ["a", "b", "t"]
    ∧ isOkR (instantiateOrd exO (clsOf ctorWorld "T") ["t", "b", "a"] [("a", .int 3), ("b", .int 2), ("t", .int 1)]) = true
    ∧ (restrictKw (clsOf ctorWorld "B") [("a", PyVal.int 3), ("b", .int 2), ("t", .int 1)]).map (·.1) = ["a"]
    ∧ isOkR (instantiate exO (clsOf ctorWorld "B") [("a", .int 3)]) = true
    ∧ isOkR (instantiate exO (clsOf ctorWorld "T") [("a", .int 0), ("b", .int 2), ("t", .int 1)]) = false
    ∧ isOkR (instantiate exO (clsOf ctorWorld "B") [("a", .int 0)]) = false := by
  decide

/-- the `_ignore_none` exclusion is necessary: a subclass that switches it on accepts `a=None` for an
    optional inherited field, the base refuses it -/
def ignWorld : World :=
  runSteps exO W0 [.define { plainSrc "B" ["Structure"] [("a", intF)] with required := some [] },
                   .define { plainSrc "S" ["B"] [] with ignoreNone := some true }]

theorem ignore_none_exclusion_necessary :
    inheritsUnchanged ignWorld (clsOf ignWorld "S") (clsOf ignWorld "B") = true
    ∧ isOkR (instantiate exO (clsOf ignWorld "S") [("a", .none)]) = true
    ∧ isOkR (instantiate exO (clsOf ignWorld "B") (restrictKw (clsOf ignWorld "B") [("a", .none)])) = false := by
  decide

/-- fixed finding `required-not-superset:optional-in-earlier-base` at constructor level:
    `S(A1, A2)` refuses `b=1` alone like `A2` does; with `a` supplied both accept -/
theorem fixed_second_base_ctor :
    isOkR (instantiate exO (clsOf twoBaseWorld "S") [("b", .int 1)]) = false
    ∧ isOkR (instantiate exO (clsOf twoBaseWorld "S") [("a", .int 2), ("b", .int 1)]) = true
    ∧ isOkR (instantiate exO (clsOf twoBaseWorld "A2")
        (restrictKw (clsOf twoBaseWorld "A2") [("a", .int 2), ("b", .int 1)])) = true := by
  decide

/-- an abstract class through every entry point, and its concrete subclass -/
def absWorld : World :=
  runSteps exO W0 [.define (plainSrc "Base" ["AbstractStructure"] [("i", intF)]),
                   .define (plainSrc "Concrete" ["Base"] [("a", intF)])]

theorem abstract_entries_example :
    (Entry.all.all fun e => isError (instantiateVia exO (clsOf absWorld "Base") ["i"] e [("i", .int 1)])) = true
    ∧ (Entry.all.all fun e => isError (instantiateVia exO (clsOf absWorld "AbstractStructure") [] e [])) = true
    ∧ (Entry.all.all fun e => isOkR (instantiateVia exO (clsOf absWorld "Concrete") ["i", "a"] e
          [("i", .int 1), ("a", .int 2)])) = true := by
  decide

end Typedpy.C14
