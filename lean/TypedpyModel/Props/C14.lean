/-
  Props/C14.lean — property theorems for C14 (in progress).
-/
import TypedpyModel.Sem.Derive
namespace Typedpy.C14
end Typedpy.C14
