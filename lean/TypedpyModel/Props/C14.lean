/-
  Props/C14.lean — property theorems for C14 (stub; to be filled in).
-/
namespace Typedpy.C14
end Typedpy.C14
