/-
  Props/C02.lean — C02: accept/reject decision, stored normal form and error class match the docs.

  `admits` / `norm` (Spec/Accepts.lean) are the documented rules; `validate` / `construct`
  (Sem/Validate.lean) mirror the code.  For every declaration (any nesting depth), every value:
  the code accepts exactly the documented inputs, stores exactly the documented normal form, and
  every rejection is a TypeError or ValueError; a missing required field is a TypeError.
-/
import TypedpyModel.Lemmas.Complete
namespace Typedpy.C02
open Typedpy

/-- accepted exactly as documented, with the documented normal form -/
theorem validate_complete (O : Oracles) (f : FieldDecl) (v : PyVal)
    (h : admits O f v = true) : validate O f v = .ok (norm O f v) :=
  (validate_spec O f v).1 h

/-- everything else is rejected, with TypeError or ValueError (or their common subclass) -/
theorem validate_reject (O : Oracles) (f : FieldDecl) (v : PyVal)
    (h : admits O f v = false) :
    ∃ e, validate O f v = .error e ∧ (e = .typeErr ∨ e = .valueErr ∨ e = .both) :=
  (validate_spec O f v).2 h

theorem construct_spec (O : Oracles) (c : ClassOpts) (fields : List (String × FieldDecl))
    (defaults kw : List (String × PyVal)) :
    Sp (admitsKw O (.struct c fields defaults) kw) (normKw O (.struct c fields defaults) kw)
      (construct O (.struct c fields defaults) kw) :=
  C02_construct_spec O c fields defaults kw

/-- keyword construction succeeds exactly on the documented argument sets, yielding the
    documented instance (required present, undeclared names only with additional properties,
    `None` dropped only where `_ignore_none` applies, defaults filled in) -/
theorem construct_complete (O : Oracles) (c : ClassOpts) (fields : List (String × FieldDecl))
    (defaults kw : List (String × PyVal))
    (h : admitsKw O (.struct c fields defaults) kw = true) :
    construct O (.struct c fields defaults) kw = .ok (normKw O (.struct c fields defaults) kw) :=
  (construct_spec O c fields defaults kw).1 h

theorem construct_reject (O : Oracles) (c : ClassOpts) (fields : List (String × FieldDecl))
    (defaults kw : List (String × PyVal))
    (h : admitsKw O (.struct c fields defaults) kw = false) :
    ∃ e, construct O (.struct c fields defaults) kw = .error e
      ∧ (e = .typeErr ∨ e = .valueErr ∨ e = .both) :=
  (construct_spec O c fields defaults kw).2 h

/-- a missing required field is a TypeError -/
theorem missing_required_is_TypeError (O : Oracles) (c : ClassOpts)
    (fields : List (String × FieldDecl)) (defaults kw : List (String × PyVal)) (r : String)
    (hr : r ∈ c.required) (hm : lookup r kw = none) :
    construct O (.struct c fields defaults) kw = .error .typeErr := by
  have hb : bindOk c (fields.map (·.1)) kw = false := by
    unfold bindOk
    have : c.required.any (fun r => (lookup r kw).isNone) = true :=
      List.any_eq_true.mpr ⟨r, hr, by simp [hm]⟩
    simp [this]
  simp [construct, vConstruct, hb]

/-! ### documented normal forms -/

theorem float_reads_float (O : Oracles) (o : NumOpts) (v w : PyVal)
    (h : validate O (.float o) v = .ok w) : ∃ q, w = .float q := by
  simp only [validate, vFloat] at h
  cases v <;> simp at h
  · split at h <;> simp at h; exact ⟨_, h.symm⟩
  · split at h <;> simp at h; exact ⟨_, h.symm⟩

theorem boolean_reads_bool (O : Oracles) (v w : PyVal)
    (h : validate O .boolean v = .ok w) : ∃ b, w = .bool b := by
  simp only [validate, vBoolean] at h
  cases v <;> simp at h
  · exact ⟨_, h.symm⟩
  · split at h
    · simp at h; exact ⟨_, h.symm⟩
    · split at h <;> simp at h; exact ⟨_, h.symm⟩

theorem enum_name_reads_member (O : Oracles) (cls : String) (names : List String) (n : String)
    (w : PyVal) (h : validate O (.enumCls cls names) (.str n) = .ok w) : w = .enumv cls n := by
  simp only [validate, vEnumCls] at h
  split at h <;> simp at h; exact h.symm

theorem immutableSet_reads_frozenset (O : Oracles) (f : FieldDecl) (sz : SizeOpts) (v w : PyVal)
    (h : validate O (.setOf true f sz) v = .ok w) : ∃ xs, w = .set true xs := by
  simp only [validate, vSet] at h
  cases v <;> simp at h
  split at h
  · simp at h
  · rcases bindE_eq_ok h with ⟨ys, _, h2⟩
    split at h2 <;> simp at h2
    exact ⟨_, h2.symm⟩

/-! ### non-vacuity: a nested, constrained declaration on which the decision goes both ways -/

def exO : Oracles := { reMatch := fun _ _ => true }
def exDecl : FieldDecl :=
  .seqOf .list (.anyOf [.integer { min := some ⟨0, 1⟩, max := some ⟨10, 1⟩, exclMax := true },
                         .float { mult := some 2 }]) { max := some 3, uniq := true }

theorem decision_example :
    admits exO exDecl (.list [.int 1, .int 12]) = true
    ∧ (match norm exO exDecl (.list [.int 1, .int 12]) with
        | .list [.int 1, .float q] => q.num == 12 && q.den == 1
        | _ => false) = true
    ∧ admits exO exDecl (.list [.int 1, .int 11]) = false
    ∧ admits exO exDecl (.list [.int 1, .float ⟨1, 1⟩]) = false
    ∧ admits exO exDecl (.tuple [.int 1]) = false := by
  decide

end Typedpy.C02
