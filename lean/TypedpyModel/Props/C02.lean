/-
  Props/C02.lean — C02: accept/reject decision, stored normal form and error class match the docs.

  `admits` / `norm` (Spec/Accepts.lean) are the documented rules; `validate` / `construct`
  (Sem/Validate.lean) mirror the code.  For every declaration (any nesting depth), every value:
  the code accepts exactly the documented inputs, stores exactly the documented normal form, and
  every rejection is a TypeError or ValueError; a missing required field is a TypeError.
-/
import TypedpyModel.Lemmas.Complete
import TypedpyModel.Lemmas.Formats
import TypedpyModel.Lemmas.Decimal
import TypedpyModel.Sem.DefineBridge
import TypedpyModel.Spec.WfDecl
namespace Typedpy.C02
open Typedpy

/-- accepted exactly as documented, with the documented normal form -/
theorem validate_complete (O : Oracles) (f : FieldDecl) (v : PyVal)
    (h : admits O f v = true) : validate O f v = .ok (norm O f v) :=
  (validate_spec O f v).1 h

/-- everything else is rejected, with TypeError or ValueError (or their common subclass) -/
theorem validate_reject (O : Oracles) (f : FieldDecl) (v : PyVal)
    (h : admits O f v = false) :
    ∃ e, validate O f v = .error e ∧ (e = .typeErr ∨ e = .valueErr ∨ e = .both) :=
  (validate_spec O f v).2 h

theorem construct_spec (O : Oracles) (c : ClassOpts) (fields : List (String × FieldDecl))
    (defaults kw : List (String × PyVal)) :
    Sp (admitsKw O (.struct c fields defaults) kw) (normKw O (.struct c fields defaults) kw)
      (construct O (.struct c fields defaults) kw) :=
  C02_construct_spec O c fields defaults kw

/-- keyword construction succeeds exactly on the documented argument sets, yielding the
    documented instance (required present, undeclared names only with additional properties,
    `None` dropped only where `_ignore_none` applies, defaults filled in) -/
theorem construct_complete (O : Oracles) (c : ClassOpts) (fields : List (String × FieldDecl))
    (defaults kw : List (String × PyVal))
    (h : admitsKw O (.struct c fields defaults) kw = true) :
    construct O (.struct c fields defaults) kw = .ok (normKw O (.struct c fields defaults) kw) :=
  (construct_spec O c fields defaults kw).1 h

theorem construct_reject (O : Oracles) (c : ClassOpts) (fields : List (String × FieldDecl))
    (defaults kw : List (String × PyVal))
    (h : admitsKw O (.struct c fields defaults) kw = false) :
    ∃ e, construct O (.struct c fields defaults) kw = .error e
      ∧ (e = .typeErr ∨ e = .valueErr ∨ e = .both) :=
  (construct_spec O c fields defaults kw).2 h

/-- a missing required field is a TypeError -/
theorem missing_required_is_TypeError (O : Oracles) (c : ClassOpts)
    (fields : List (String × FieldDecl)) (defaults kw : List (String × PyVal)) (r : String)
    (hr : r ∈ c.required) (hm : lookup r kw = none) :
    construct O (.struct c fields defaults) kw = .error .typeErr := by
  have hb : bindOk c (fields.map (·.1)) kw = false := by
    unfold bindOk
    have : c.required.any (fun r => (lookup r kw).isNone) = true :=
      List.any_eq_true.mpr ⟨r, hr, by simp [hm]⟩
    simp [this]
  simp [construct, vConstruct, hb]

/-! ### documented normal forms -/

theorem float_reads_float (O : Oracles) (o : NumOpts) (v w : PyVal)
    (h : validate O (.float o) v = .ok w) : ∃ q, w = .float q := by
  simp only [validate, vFloat] at h
  cases v <;> simp at h
  · split at h <;> simp at h; exact ⟨_, h.symm⟩
  · split at h <;> simp at h; exact ⟨_, h.symm⟩

theorem boolean_reads_bool (O : Oracles) (v w : PyVal)
    (h : validate O .boolean v = .ok w) : ∃ b, w = .bool b := by
  simp only [validate, vBoolean] at h
  cases v <;> simp at h
  · exact ⟨_, h.symm⟩
  · split at h
    · simp at h; exact ⟨_, h.symm⟩
    · split at h <;> simp at h; exact ⟨_, h.symm⟩

theorem enum_name_reads_member (O : Oracles) (cls : String) (names : List String) (n : String)
    (w : PyVal) (h : validate O (.enumCls cls names) (.str n) = .ok w) : w = .enumv cls n := by
  simp only [validate, vEnumCls] at h
  split at h <;> simp at h; exact h.symm

theorem immutableSet_reads_frozenset (O : Oracles) (f : FieldDecl) (sz : SizeOpts) (v w : PyVal)
    (h : validate O (.setOf true f sz) v = .ok w) : ∃ xs, w = .set true xs := by
  simp only [validate, vSet] at h
  cases v <;> simp at h
  split at h
  · simp at h
  · rcases bindE_eq_ok h with ⟨ys, _, h2⟩
    split at h2 <;> simp at h2
    exact ⟨_, h2.symm⟩

/-! ### the extension string fields

`SizedString`, `IPV4`, `HostName`, `DateString`, `TimeString`, `JSONString` are `string` declarations of the model:
`maxlen` is one more upper bound on the length, a format takes the pattern slot as a synthetic token.  For IPV4 and
HostName the token is decided by the model itself (`ipv4Ok` / `hostNameOk`, Core/Formats.lean), and these functions
accept exactly the documented languages (`ipv4Ok_iff`, `hostNameOk_iff`, Lemmas/Formats.lean). -/

/-- the oracles decide the IPV4 / HostName tokens as the model's own format functions do -/
def FormatOracles (O : Oracles) : Prop :=
  ∀ s, O.reMatch ipv4Token s = ipv4Ok s ∧ O.reMatch hostNameToken s = hostNameOk s

/-- the oracles the driver runs with (`fmtMatch` around the per-case table) are such oracles -/
theorem fmtMatch_formatOracles (other : String → String → Bool) (hook : List (String × PyVal) → Bool) :
    FormatOracles { reMatch := fmtMatch other, hookOk := hook } := by
  intro s
  constructor
  · simp [fmtMatch]
  · have : (hostNameToken == ipv4Token) = false := by decide
    simp [fmtMatch, this]

/-- a `string` declaration decides exactly: a `str` within the length bounds that the pattern / format admits; what is
    stored is the string itself; a non-`str` is a TypeError and every other rejection a ValueError -/
theorem string_field_exact (O : Oracles) (lo hi : Option Nat) (pat : Option String) (v : PyVal) :
    (∀ w, validate O (.string lo hi pat) v = .ok w ↔
      ∃ s, v = .str s ∧ w = .str s ∧ geLen lo s.length = true ∧ leLen hi s.length = true ∧ patOk O pat s = true)
    ∧ (validate O (.string lo hi pat) v = .error .typeErr ↔ ∀ s, v ≠ .str s)
    ∧ (∀ e, validate O (.string lo hi pat) v = .error e → e = .typeErr ∨ e = .valueErr) := by
  cases v <;> simp [validate, vString]
  rename_i s
  cases h1 : leLen hi s.length <;> cases h2 : geLen lo s.length <;> cases pat <;>
    simp [vPattern, patOk] <;> (try (intro w; constructor <;> intro h <;> simp_all))
  all_goals
    rename_i p
    cases h3 : O.reMatch p s <;> simp
    all_goals (try (intro w; constructor <;> intro h <;> simp_all))

/-- **IPV4**: under format oracles the field accepts exactly the strings of the documented language - four
    components of 1..3 ASCII decimal digits, each 0..255, joined by single dots (no trailing newline, no other digits) -
    within the String length bounds, and stores them unchanged -/
theorem ipv4_field_exact (O : Oracles) (hO : FormatOracles O) (lo hi : Option Nat) (v w : PyVal) :
    validate O (.string lo hi (some ipv4Token)) v = .ok w ↔
      ∃ s, v = .str s ∧ w = .str s ∧ geLen lo s.length = true ∧ leLen hi s.length = true ∧ IsIPv4 s := by
  rw [(string_field_exact O lo hi (some ipv4Token) v).1 w]
  simp only [patOk, (hO _).1, ipv4Ok_iff]

/-- **HostName**: exactly the RFC 952/1123 host names - labels of 1..63 ASCII letters / digits / hyphens without a
    hyphen at either end, joined by single dots, 2..253 characters in all -/
theorem hostname_field_exact (O : Oracles) (hO : FormatOracles O) (lo hi : Option Nat) (v w : PyVal) :
    validate O (.string lo hi (some hostNameToken)) v = .ok w ↔
      ∃ s, v = .str s ∧ w = .str s ∧ geLen lo s.length = true ∧ leLen hi s.length = true ∧ IsHostName s := by
  rw [(string_field_exact O lo hi (some hostNameToken) v).1 w]
  simp only [patOk, (hO _).2, hostNameOk_iff]

/-- what an IPV4 field stores consists of ASCII digits and dots only and has 7..15 characters: no trailing newline, no
    digit outside ASCII (the two ways in which the library's own expression is laxer: findings `…:ipv4:trailing-newline`,
    `…:ipv4:non-ascii-digit`) -/
theorem ipv4_field_chars (O : Oracles) (hO : FormatOracles O) (lo hi : Option Nat) (v w : PyVal)
    (h : validate O (.string lo hi (some ipv4Token)) v = .ok w) :
    ∃ s, w = .str s ∧ (∀ c ∈ s.toList, isAsciiDigit c = true ∨ c = '.') ∧ 7 ≤ s.toList.length ∧ s.toList.length ≤ 15 := by
  rcases (ipv4_field_exact O hO lo hi v w).1 h with ⟨s, _, hw, _, _, hs⟩
  exact ⟨s, hw, IsIPv4.chars s hs, IsIPv4.length s hs⟩

/-- what a HostName field stores consists of ASCII letters, ASCII digits, hyphens and dots only -/
theorem hostname_field_chars (O : Oracles) (hO : FormatOracles O) (lo hi : Option Nat) (v w : PyVal)
    (h : validate O (.string lo hi (some hostNameToken)) v = .ok w) :
    ∃ s, w = .str s ∧ ∀ c ∈ s.toList, isAsciiAlnum c = true ∨ c = '-' ∨ c = '.' := by
  rcases (hostname_field_exact O hO lo hi v w).1 h with ⟨s, _, hw, _, _, hs⟩
  exact ⟨s, hw, IsHostName.chars s hs⟩

/-- **SizedString**(maxlen = m, maxLength = hi) is the `string` declaration with the tighter bound: whatever it stores
    is a `str` no longer than `m` and no longer than `hi` -/
theorem sized_string_bound (O : Oracles) (lo : Option Nat) (hi m : Nat) (pat : Option String) (v w : PyVal)
    (h : validate O (.string lo (some (min hi m)) pat) v = .ok w) :
    ∃ s, w = .str s ∧ s.length ≤ m ∧ s.length ≤ hi := by
  rcases ((string_field_exact O lo (some (min hi m)) pat v).1 w).1 h with ⟨s, _, hw, _, hle, _⟩
  refine ⟨s, hw, ?_, ?_⟩ <;> (simp [leLen] at hle; omega)

/-- non-vacuity of the format theorems: the Lean functions on concrete strings (valid, leading zeros, 256, a missing
    component, a trailing newline, an empty label, a hyphen at a label edge, a single character) -/
theorem format_example :
    ipv4Ok "1.2.3.4" = true ∧ ipv4Ok "001.02.3.255" = true ∧ ipv4Ok "256.1.1.1" = false ∧ ipv4Ok "1.2.3" = false
    ∧ ipv4Ok "1.2.3.4\n" = false ∧ ipv4Ok "1..3.4" = false ∧ ipv4Ok "1.2.3.4.5" = false ∧ ipv4Ok "" = false
    ∧ hostNameOk "example.com" = true ∧ hostNameOk "a-b.c9" = true ∧ hostNameOk "a..b" = false
    ∧ hostNameOk "a-.b" = false ∧ hostNameOk "-a" = false ∧ hostNameOk "a.b\n" = false ∧ hostNameOk "a" = false
    ∧ hostNameOk "a_b" = false
    ∧ (match validate { reMatch := fmtMatch fun _ _ => false } (.string none (some 8) (some ipv4Token)) (.str "1.2.3.4") with
        | .ok (.str s) => s == "1.2.3.4" | _ => false) = true
    ∧ (match validate { reMatch := fmtMatch fun _ _ => false } (.string none (some 8) (some ipv4Token)) (.str "10.20.30.40") with
        | .error .valueErr => true | _ => false) = true
    ∧ (match validate { reMatch := fmtMatch fun _ _ => false } (.seqOf .list (.string none none (some hostNameToken)) {})
          (.list [.str "a.b", .str "a..b"]) with
        | .error .valueErr => true | _ => false) = true
    ∧ (match validate { reMatch := fmtMatch fun _ _ => false } (.string none none (some ipv4Token)) (.int 5) with
        | .error .typeErr => true | _ => false) = true := by
  decide

/-! ### DecimalNumber

`vDecimal` (Sem/Decimal.lean) mirrors `DecimalNumber.__set__`: `Decimal(value)`, then the Number checks, the Decimal is
stored.  `Decimal(str)` is an oracle (`parse`), universally quantified. -/

/-- `Decimal(v)` succeeds exactly on bool / int / float / Decimal and on the strings the `decimal` module parses, and
    yields the Decimal of the same numeric value -/
theorem toDecimal_exact (parse : String → Option Q) (v w : PyVal) :
    toDecimal parse v = .ok w ↔ ∃ q, decValue parse v = some q ∧ w = .dec q := by
  unfold toDecimal
  cases h : decValue parse v <;> simp
  constructor <;> intro h' <;> simp [h']

/-- a failing conversion is a TypeError or a ValueError; a TypeError exactly for the types Decimal cannot be built from -/
theorem toDecimal_reject (parse : String → Option Q) (v : PyVal) (e : ErrCls)
    (h : toDecimal parse v = .error e) : decValue parse v = none ∧ e = decErr v ∧ (e = .typeErr ∨ e = .valueErr) := by
  unfold toDecimal at h
  cases hd : decValue parse v <;> rw [hd] at h <;> simp at h
  subst h
  refine ⟨rfl, rfl, ?_⟩
  cases v <;> simp [decErr]

/-- **DecimalNumber**: accepted exactly when the value converts to a Decimal whose number satisfies multiplesOf /
    minimum / maximum / exclusiveMaximum; what is stored is that Decimal -/
theorem decimal_field_exact (parse : String → Option Q) (o : NumOpts) (v w : PyVal) :
    vDecimal parse o v = .ok w ↔ ∃ q, decValue parse v = some q ∧ numOk o q = true ∧ w = .dec q := by
  unfold vDecimal toDecimal
  cases h : decValue parse v with
  | none => simp
  | some q =>
    simp only [bindE_ok, vNumber, PyVal.asNum]
    by_cases hn : numOk o q = true
    · simp [hn]; constructor <;> intro h' <;> simp [h']
    · simp [hn]

/-- every rejection of a DecimalNumber is a TypeError or a ValueError: a TypeError exactly when the value has a type
    Decimal cannot be built from; an ill-formed string and a value outside the bounds are ValueErrors -/
theorem decimal_field_reject (parse : String → Option Q) (o : NumOpts) (v : PyVal) (e : ErrCls)
    (h : vDecimal parse o v = .error e) :
    (e = .typeErr ∨ e = .valueErr)
    ∧ (e = .typeErr ↔ (decValue parse v = none ∧ decErr v = .typeErr)) := by
  unfold vDecimal toDecimal at h
  cases hd : decValue parse v with
  | none =>
    rw [hd] at h; simp at h; subst h
    cases v <;> simp [decErr]
  | some q =>
    rw [hd] at h
    simp only [bindE_ok, vNumber, PyVal.asNum] at h
    by_cases hn : numOk o q = true
    · simp [hn] at h
    · simp [hn] at h; subst h; simp

/-- the stored value of a DecimalNumber is a Decimal, `==` to a numeric input -/
theorem decimal_reads_decimal (parse : String → Option Q) (o : NumOpts) (v w : PyVal)
    (h : vDecimal parse o v = .ok w) : ∃ q, w = .dec q ∧ (v.asNum.isSome = true → PyVal.pyEq w v = true) := by
  rcases (decimal_field_exact parse o v w).1 h with ⟨q, hq, _, hw⟩
  refine ⟨q, hw, ?_⟩
  intro hn
  subst hw
  cases v <;> simp [decValue, PyVal.asNum] at hq hn ⊢
  all_goals (subst hq; simp [PyVal.pyEq, PyVal.asNum, Q.eq])

/-- a class with DecimalNumber fields accepts exactly the keyword arguments that convert and whose converted form the
    documented rules of the class (the `number` declarations in place of the DecimalNumber fields) admit; the instance
    holds the converted values -/
theorem constructD_complete (parse : String → Option Q) (O : Oracles) (c : ClassOpts)
    (fields : List (String × FieldDecl)) (defaults : List (String × PyVal)) (decs : List (String × DecPos))
    (kw kw' : List (String × PyVal)) (hk : convertKw parse decs kw = .ok kw')
    (ha : admitsKw O (.struct c fields defaults) kw' = true)
    (hh : O.hookOk (instAttrs (normKw O (.struct c fields defaults) kw')) = true) :
    constructD parse O (.struct c fields defaults) decs kw = .ok (normKw O (.struct c fields defaults) kw') := by
  unfold constructD constructH
  rw [hk, bindE_ok, construct_complete O c fields defaults kw' ha, bindE_ok]
  simp [hh]

/-- every rejection by such a class is a TypeError or a ValueError (or their common subclass) -/
theorem constructD_reject (parse : String → Option Q) (O : Oracles) (c : ClassOpts)
    (fields : List (String × FieldDecl)) (defaults : List (String × PyVal)) (decs : List (String × DecPos))
    (kw : List (String × PyVal)) (e : ErrCls)
    (h : constructD parse O (.struct c fields defaults) decs kw = .error e) :
    e = .typeErr ∨ e = .valueErr ∨ e = .both := by
  unfold constructD at h
  cases hk : convertKw parse decs kw with
  | error e' =>
    rw [hk] at h; simp at h; subst h
    rcases c02_convertKw_err parse decs kw e' hk with h1 | h1
    · exact Or.inl h1
    · exact Or.inr (Or.inl h1)
  | ok kw' =>
    rw [hk, bindE_ok] at h
    unfold constructH at h
    cases ha : admitsKw O (.struct c fields defaults) kw'
    · rcases construct_reject O c fields defaults kw' ha with ⟨e', he, hcls⟩
      rw [he] at h; simp at h; subst h; exact hcls
    · rw [construct_complete O c fields defaults kw' ha, bindE_ok] at h
      split at h
      · cases h
      · simp at h; subst h; exact Or.inr (Or.inl rfl)

/-- non-vacuity: a bounded DecimalNumber on int / float / str / Decimal inputs, an ill-formed string, a wrong type; a
    class with a DecimalNumber array -/
theorem decimal_example :
    let parse : String → Option Q := fun s => if s == "1.5" then some ⟨3, 2⟩ else if s == "12" then some ⟨12, 1⟩ else none
    let o : NumOpts := { min := some ⟨0, 1⟩, max := some ⟨10, 1⟩, mult := none }
    (match vDecimal parse o (.str "1.5") with | .ok (.dec q) => q.num == 3 && q.den == 2 | _ => false) = true
    ∧ (match vDecimal parse o (.int 7) with | .ok (.dec q) => q.num == 7 && q.den == 1 | _ => false) = true
    ∧ (match vDecimal parse o (.float ⟨1, 4⟩) with | .ok (.dec q) => q.num == 1 && q.den == 4 | _ => false) = true
    ∧ (match vDecimal parse o (.bool true) with | .ok (.dec q) => q.num == 1 | _ => false) = true
    ∧ (match vDecimal parse o (.str "12") with | .error .valueErr => true | _ => false) = true
    ∧ (match vDecimal parse o (.str "abc") with | .error .valueErr => true | _ => false) = true
    ∧ (match vDecimal parse o (.list []) with | .error .valueErr => true | _ => false) = true
    ∧ (match vDecimal parse o .none with | .error .typeErr => true | _ => false) = true
    ∧ (match vDecimal parse o (.dict []) with | .error .typeErr => true | _ => false) = true
    ∧ (match constructD parse { reMatch := fun _ _ => false }
          (.struct { name := "A", required := ["a"], addl := false, accepts := ["A"] }
            [("a", .seqOf .list (.number o) { uniq := true }), ("d", .number {})] [])
          [("a", .items), ("d", .bare)] [("a", .list [.int 1, .str "1.5"]), ("d", .str "12")] with
        | .ok (.inst "A" [("a", .list [.dec _, .dec _]), ("d", .dec _)]) => true | _ => false) = true
    ∧ (match constructD parse { reMatch := fun _ _ => false }
          (.struct { name := "A", required := ["a"], addl := false, accepts := ["A"] }
            [("a", .seqOf .list (.number o) { uniq := true })] [])
          [("a", .items)] [("a", .list [.int 1, .float ⟨1, 1⟩])] with
        | .error .valueErr => true | _ => false) = true := by
  decide

/-! ### classes as the class-definition model records them (Sem/DefineBridge.lean) -/

/-- the documented decision of `cls(**kw)` for a class record: not abstract, the signature binds, no undeclared keyword
    against the inherited `_additional_properties`, no keyword names a Constant, and the field rules admit the arguments -/
def instAdmits (O : Oracles) (c : ClassDef) (ord : List String) (kw : List (String × PyVal)) : Bool :=
  !c.isAbstract && bindOk c.opts (Bridge.defOrder c) kw && !(!c.addl && undeclaredKw c kw)
    && !kw.any (fun a => (lookup a.1 c.constants).isSome) && admitsKw O (c.toStruct ord [c.name]) kw

/-- **C02 for class records**: accepted exactly on the documented arguments, with the documented instance -/
theorem bridge_instantiate_complete (O : Oracles) (c : ClassDef) (ord : List String) (kw : List (String × PyVal))
    (h : instAdmits O c ord kw = true) :
    instantiateOrd O c ord kw = .ok (addConstants c.constants (normKw O (c.toStruct ord [c.name]) kw)) := by
  simp only [instAdmits, Bool.and_eq_true, Bool.not_eq_true'] at h
  obtain ⟨⟨⟨⟨h1, h2⟩, h3⟩, h4⟩, h5⟩ := h
  unfold instantiateOrd
  have := construct_complete O _ _ _ kw h5
  simp only [ClassDef.toStruct] at this ⊢
  simp [h1, h2, h3, h4, this]

/-- … and every rejection is a TypeError or a ValueError (or their common subclass) -/
theorem bridge_instantiate_reject (O : Oracles) (c : ClassDef) (ord : List String) (kw : List (String × PyVal))
    (h : instAdmits O c ord kw = false) :
    ∃ e, instantiateOrd O c ord kw = .error e ∧ (e = .typeErr ∨ e = .valueErr ∨ e = .both) := by
  unfold instantiateOrd
  split; · exact ⟨_, rfl, Or.inl rfl⟩
  split; · exact ⟨_, rfl, Or.inl rfl⟩
  split; · exact ⟨_, rfl, Or.inr (Or.inl rfl)⟩
  split; · exact ⟨_, rfl, Or.inr (Or.inl rfl)⟩
  rename_i h1 h2 h3 h4
  have h5 : admitsKw O (c.toStruct ord [c.name]) kw = false := by
    simp only [instAdmits] at h
    simp_all
  rcases construct_reject O _ _ _ kw (by simpa [ClassDef.toStruct] using h5) with ⟨e, he, hc⟩
  refine ⟨e, ?_, hc⟩
  simp only [ClassDef.toStruct] at he ⊢
  rw [he]; rfl

/-- non-vacuity: a subclass record with an inherited bounded field, a Constant and `_additional_properties` off -/
theorem bridge_example :
    let O : Oracles := { reMatch := fun _ _ => true }
    let c : ClassDef := { name := "Sub", bases := ["Base"], mro := ["Sub", "Base"],
                          allFields := [("a", .field (.integer { min := some ⟨0, 1⟩ }) none), ("k", .const (.int 7)),
                                        ("t", .field (.seqOf .list (.string none (some 3) none) {}) none)],
                          constants := [("k", .int 7)], sig := { req := ["a"], opt := ["t"], kwargs := false }, addl := false }
    wfDecl (c.toStruct ["a"] ["Sub"]) = true
    ∧ instAdmits O c ["a"] [("a", .int 1), ("t", .list [.str "abc"])] = true
    ∧ (match instantiateOrd O c ["a"] [("a", .int 1), ("t", .list [.str "abc"])] with
        | .ok (.inst "Sub" attrs) => (lookup "k" attrs).isSome && (lookup "a" attrs).isSome | _ => false) = true
    ∧ instAdmits O c ["a"] [("a", .int (-1))] = false
    ∧ (match instantiateOrd O c ["a"] [("a", .int (-1))] with | .error .valueErr => true | _ => false) = true
    ∧ (match instantiateOrd O c ["a"] [("t", .list [])] with | .error .typeErr => true | _ => false) = true
    ∧ (match instantiateOrd O c ["a"] [("a", .int 1), ("k", .int 8)] with | .error _ => true | _ => false) = true
    ∧ (match instantiateOrd O c ["a"] [("a", .int 1), ("t", .list [.str "abcd"])] with
        | .error .valueErr => true | _ => false) = true := by
  decide

/-! ### non-vacuity: a nested, constrained declaration on which the decision goes both ways -/

def exO : Oracles := { reMatch := fun _ _ => true }
def exDecl : FieldDecl :=
  .seqOf .list (.anyOf [.integer { min := some ⟨0, 1⟩, max := some ⟨10, 1⟩, exclMax := true },
                         .float { mult := some 2 }]) { max := some 3, uniq := true }

theorem decision_example :
    admits exO exDecl (.list [.int 1, .int 12]) = true
    ∧ (match norm exO exDecl (.list [.int 1, .int 12]) with
        | .list [.int 1, .float q] => q.num == 12 && q.den == 1
        | _ => false) = true
    ∧ admits exO exDecl (.list [.int 1, .int 11]) = false
    ∧ admits exO exDecl (.list [.int 1, .float ⟨1, 1⟩]) = false
    ∧ admits exO exDecl (.tuple [.int 1]) = false := by
  decide

end Typedpy.C02
