/-
  Props/C09.lean — C09: schema→code output executes and is equivalent to the schema (partial).

  What is proved here is about the Lean model of `json_schema_mapping.py` (schema → code direction,
  `Sem/SchemaToCode.lean`) and of CPython's string-literal lexing (`Sem/PyLex.lean`); the
  `schemacode` correspondence suite ties both to the working tree on every run.  Whether the whole
  emitted text *compiles* is decided by CPython's parser at run time (the partial residue).

  After the repo fixes 27ab79d / c6f49db / d1407f7 / 198db4a / 3966255 the text part holds in full
  (every pattern, default, enum value, required name and — up to NUL — every description is emitted
  as a literal that denotes exactly that string) and the caller's schema is never written to.
  The round trip still has excluded regions: full statement as `def … : Prop`, `_inverse` theorems
  on the explicit fragment, a kernel-checked counterexample per remaining region.
-/
import TypedpyModel.Lemmas.PyLex
import TypedpyModel.Lemmas.SchemaToCode
import TypedpyModel.Lemmas.SchemaEmit
import TypedpyModel.Lemmas.DefOrder
import TypedpyModel.Lemmas.TextClean
import TypedpyModel.Lemmas.Nesting
import TypedpyModel.Lemmas.CodeExact
namespace Typedpy.C09
open Typedpy Typedpy.PyLex

/-! ## text: the string literals the generator emits -/

/-- `repr(str)` — `_str_literal` for patterns and `str` defaults, and what list formatting applies
    to enum values, `_required` names and list/dict defaults — is faithful for EVERY string (all
    characters, whatever `str.isprintable` answers) -/
theorem repr_safe (pr : Char → Bool) (s : String) : pyLexStr (pyRepr pr s) = some s := by
  simp only [pyLexStr, pyRepr, String.toList_ofList, lexSrc_pyReprL, Option.map_some,
    String.ofList_toList]

mutual
theorem reprSites_faithful (pr : Char → Bool) (site : String) :
    ∀ (v : PyVal) (x : StringSite), x ∈ reprSites pr site v → x.faithful = true
  | .str s, x, hx => by
    simp only [reprSites, List.mem_singleton] at hx
    subst hx
    simp [StringSite.faithful, repr_safe]
  | .list xs, x, hx => reprSitesL_faithful pr site xs x (by simpa [reprSites] using hx)
  | .dict kvs, x, hx => reprSitesKV_faithful pr site kvs x (by simpa [reprSites] using hx)
  | .none, _, hx => by simp [reprSites] at hx
  | .bool _, _, hx => by simp [reprSites] at hx
  | .int _, _, hx => by simp [reprSites] at hx
  | .float _, _, hx => by simp [reprSites] at hx
  | .dec _, _, hx => by simp [reprSites] at hx
  | .tuple _, _, hx => by simp [reprSites] at hx
  | .set _ _, _, hx => by simp [reprSites] at hx
  | .deque _, _, hx => by simp [reprSites] at hx
  | .enumv _ _, _, hx => by simp [reprSites] at hx
  | .inst _ _, _, hx => by simp [reprSites] at hx
  | .opaque _, _, hx => by simp [reprSites] at hx
theorem reprSitesL_faithful (pr : Char → Bool) (site : String) :
    ∀ (xs : List PyVal) (x : StringSite), x ∈ reprSitesL pr site xs → x.faithful = true
  | [], _, hx => by simp [reprSitesL] at hx
  | v :: vs, x, hx => by
    simp only [reprSitesL, List.mem_append] at hx
    rcases hx with hx | hx
    · exact reprSites_faithful pr site v x hx
    · exact reprSitesL_faithful pr site vs x hx
theorem reprSitesKV_faithful (pr : Char → Bool) (site : String) :
    ∀ (kvs : List (PyVal × PyVal)) (x : StringSite), x ∈ reprSitesKV pr site kvs → x.faithful = true
  | [], _, hx => by simp [reprSitesKV] at hx
  | (k, v) :: rest, x, hx => by
    simp only [reprSitesKV, List.mem_append] at hx
    rcases hx with (hx | hx) | hx
    · exact reprSites_faithful pr site k x hx
    · exact reprSites_faithful pr site v x hx
    · exact reprSitesKV_faithful pr site rest x hx
end

/-- enum members of any type and nesting never produce a broken literal (so there is no
    `unescaped:enum` finding: the expected defect does not exist for this site) -/
theorem enum_site_faithful (pr : Char → Bool) (vs : List PyVal) :
    ∀ x ∈ stringSites pr (.enum vs), x.faithful = true := by
  intro x hx
  exact reprSitesL_faithful pr "enum" vs x (by simpa [stringSites] using hx)

/-- the `_required = [...]` list never produces a broken literal -/
theorem required_site_faithful (pr : Char → Bool) (names : List String) :
    ∀ x ∈ namesSites pr names, x.faithful = true := by
  induction names with
  | nil => intro x hx; simp [namesSites] at hx
  | cons n r ih =>
    intro x hx
    simp only [namesSites, List.mem_cons] at hx
    rcases hx with rfl | hx
    · simp [StringSite.faithful, repr_safe]
    · exact ih x hx

/-- the literal emitted for a `pattern` denotes the pattern — all strings -/
theorem pattern_site_faithful (pr : Char → Bool) (lo hi : Option Nat) (p : String) :
    ∀ site ∈ stringSites pr (.str lo hi (some p)), site.faithful = true := by
  intro site hs
  simp only [stringSites, List.mem_singleton] at hs
  subst hs
  simp [StringSite.faithful, repr_safe]

/-- the literal emitted for any default (`str` through `repr`, list/dict through `repr` inside a
    lambda) denotes the default — all values -/
theorem default_site_faithful (pr : Char → Bool) (v : PyVal) :
    ∀ site ∈ defaultSites pr v, site.faithful = true := by
  intro site hs
  cases v with
  | str d =>
    simp only [defaultSites, List.mem_singleton] at hs
    subst hs
    simp [StringSite.faithful, repr_safe]
  | _ => exact reprSites_faithful pr "default-repr" _ site (by simpa [defaultSites] using hs)

/-- full statement (true since the repair of `unescaped:description-nul`): every description becomes
    the docstring it was meant to be -/
def description_statement : Prop := ∀ d : String, pyLexStr (docWrap d) = some (docValue d)

/-- the docstring template with `_docstring_text` escaping is faithful for EVERY description (quotes,
    `"""`, backslashes, CR, NUL, newlines, non-ASCII all included) -/
theorem description_safe (d : String) :
    pyLexStr (docWrap d) = some (docValue d) := by
  simp only [pyLexStr, docWrap, docValue, String.toList_ofList, lexSrc_docWrapL d.toList,
    Option.map_some]

theorem description_site_faithful (d : String) :
    (descriptionSite d).faithful = true := by
  simp [StringSite.faithful, descriptionSite, description_safe d]

/-- repaired finding `unescaped:description-nul`: a NUL in the description is written `\x00` and comes
    back as NUL -/
theorem fixed_description_nul :
    (descriptionSite (String.ofList ['a', cNUL, 'b'])).faithful = true := by decide
theorem description_statement_holds : description_statement := description_safe

/-- every string-bearing site of every schema (patterns, enum members, `_required`, defaults, at
    any nesting depth) is emitted as a literal that denotes exactly the schema's string -/
theorem defaultsSites_faithful (pr : Char → Bool) :
    ∀ (ds : List (String × PyVal)) (x : StringSite), x ∈ defaultsSites pr ds → x.faithful = true
  | [], _, hx => by simp [defaultsSites] at hx
  | (_, v) :: rest, x, hx => by
    simp only [defaultsSites, List.mem_append] at hx
    rcases hx with hx | hx
    · exact default_site_faithful pr v x hx
    · exact defaultsSites_faithful pr rest x hx

mutual
theorem all_sites_faithful (pr : Char → Bool) :
    ∀ (s : Schema) (x : StringSite), x ∈ stringSites pr s → x.faithful = true
  | .str lo hi (some p), x, hx => pattern_site_faithful pr lo hi p x hx
  | .str _ _ none, _, hx => by simp [stringSites] at hx
  | .enum vs, x, hx => enum_site_faithful pr vs x hx
  | .arrOf s _, x, hx => all_sites_faithful pr s x (by simpa [stringSites] using hx)
  | .arrPos ss _ _, x, hx => all_sites_faithfulL pr ss x (by simpa [stringSites] using hx)
  | .mapOf v _ _, x, hx => all_sites_faithful pr v x (by simpa [stringSites] using hx)
  | .obj props defaults required _, x, hx => by
    simp only [stringSites, List.mem_append] at hx
    rcases hx with (hx | hx) | hx
    · exact required_site_faithful pr _ x hx
    · exact defaultsSites_faithful pr defaults x hx
    · exact all_sites_faithfulP pr props x hx
  | .allOf ss, x, hx => all_sites_faithfulL pr ss x (by simpa [stringSites] using hx)
  | .anyOf ss, x, hx => all_sites_faithfulL pr ss x (by simpa [stringSites] using hx)
  | .oneOf ss, x, hx => all_sites_faithfulL pr ss x (by simpa [stringSites] using hx)
  | .notS ss, x, hx => all_sites_faithfulL pr ss x (by simpa [stringSites] using hx)
  | .num _ _ _ _ _, _, hx => by simp [stringSites] at hx
  | .bool, _, hx => by simp [stringSites] at hx
  | .arrAny _, _, hx => by simp [stringSites] at hx
  | .mapAny _ _ _, _, hx => by simp [stringSites] at hx
  | .ref _, _, hx => by simp [stringSites] at hx
  | .unsupported _, _, hx => by simp [stringSites] at hx
theorem all_sites_faithfulL (pr : Char → Bool) :
    ∀ (ss : List Schema) (x : StringSite), x ∈ stringSitesL pr ss → x.faithful = true
  | [], _, hx => by simp [stringSitesL] at hx
  | s :: ss, x, hx => by
    simp only [stringSitesL, List.mem_append] at hx
    rcases hx with hx | hx
    · exact all_sites_faithful pr s x hx
    · exact all_sites_faithfulL pr ss x hx
theorem all_sites_faithfulP (pr : Char → Bool) :
    ∀ (ps : List (String × Schema)) (x : StringSite), x ∈ stringSitesP pr ps → x.faithful = true
  | [], _, hx => by simp [stringSitesP] at hx
  | (_, s) :: ps, x, hx => by
    simp only [stringSitesP, List.mem_append] at hx
    rcases hx with hx | hx
    · exact all_sites_faithful pr s x hx
    · exact all_sites_faithfulP pr ps x hx
end

/-- hostile strings, kernel-evaluated end to end -/
theorem hostile_examples :
    (stringSites (fun c => c.toNat < 256)
      (.obj [("p", .str none none (some "^it's\\b\n\"\"\"")), ("e", .enum [.str "a\\b", .str "x\ny", .str "q\"'z​"])]
        [("p", .str "it's\\n")] (some ["p"]) true)).all (·.faithful) = true
    ∧ (descriptionSite "say \"\"\"hi\"\"\"\" \\ \r end\\").faithful = true := by decide

/-! ## semantics: schema → generated declaration → schema -/

/-- full statement (false today): mapping the generated declaration back gives the schema -/
def roundtrip_statement : Prop :=
  ∀ (ρ : String → FieldDecl), RefsAreClasses ρ → ∀ s : Schema,
    normReq (toSchemaF (schemaToDecl ρ s)) = normReq s

/-- on the code fragment (`issues s = []`, i.e. outside the listed finding regions) the round trip
    schema → `convert_to_field_code`+eval → `convert_to_schema` is the identity up to the order
    of every `required` list; all schemas, any nesting depth -/
theorem schemaToDecl_inverse (ρ : String → FieldDecl) (hρ : RefsAreClasses ρ) (s : Schema)
    (h : inCodeFragment s = true) : normReq (toSchemaF (schemaToDecl ρ s)) = normReq s :=
  inverse_core ρ hρ s (by simpa [inCodeFragment] using h)

/-- top-level fragment: additionally the class must not be in the field-wrapper form
    (one property, required, no additional properties), which exists at top level only -/
def inCodeFragmentTop (s : Schema) : Bool := (topIssues s).isEmpty

/-- the generated top-level class: `structure_to_schema (exec (schema_to_struct_code name s))` -/
theorem schemaToClass_inverse (ρ : String → FieldDecl) (hρ : RefsAreClasses ρ) (name : String)
    (props : List (String × Schema)) (defaults : List (String × PyVal))
    (required : Option (List String)) (addl : Bool)
    (h : inCodeFragmentTop (.obj props defaults required addl) = true) :
    normReq (toSchemaClass (schemaToClass ρ name (.obj props defaults required addl)))
      = normReq (.obj props defaults required addl) :=
  class_roundtrip ρ hρ name props defaults required addl (by simpa [inCodeFragmentTop] using h)

/-- a generated definition class, as `_map_class_reference` maps it back into `definitions`
    (never the field-wrapper form): the plain fragment suffices -/
theorem schemaToDef_inverse (ρ : String → FieldDecl) (hρ : RefsAreClasses ρ) (name : String)
    (props : List (String × Schema)) (defaults : List (String × PyVal))
    (required : Option (List String)) (addl : Bool)
    (h : inCodeFragment (.obj props defaults required addl) = true) :
    normReq (toSchemaDef (schemaToClass ρ name (.obj props defaults required addl)))
      = normReq (.obj props defaults required addl) :=
  def_roundtrip ρ hρ name props defaults required addl (by simpa [inCodeFragment] using h)

/-- `normReq` only reorders: the canonical `required` has the same members -/
theorem canonReq_mem (names req : List String) (n : String) (h : n ∈ names) :
    n ∈ canonReq names req ↔ n ∈ req := by
  simp [canonReq, List.mem_filter, h]

def rho0 : String → FieldDecl := envResolver []
theorem rho0_classes : RefsAreClasses rho0 := fun _ => ⟨_, _, _, rfl, rfl, rfl⟩

/-- a defaulted property comes back as required (finding `roundtrip:default-forces-required`) -/
theorem roundtrip_counterexample_default_required :
    normReq (toSchemaF (schemaToDecl rho0
      (.obj [("a", .bool), ("b", .bool)] [("a", .bool true)] (some ["b"]) true)))
    ≠ normReq (.obj [("a", .bool), ("b", .bool)] [("a", .bool true)] (some ["b"]) true) := by
  simp [schemaToDecl, schemaToDeclP, toSchemaF, toSchemaP, structShape, collapses, sameSet, declRequired,
    inlineOpts, schemaRequired, normReq, normReqP, canonReq]
/-- absent `required` comes back as "all required" (finding `roundtrip:required-absent`) -/
theorem roundtrip_counterexample_required_absent :
    normReq (toSchemaF (schemaToDecl rho0 (.obj [("a", .bool), ("b", .bool)] [] none true)))
    ≠ normReq (.obj [("a", .bool), ("b", .bool)] [] none true) := by
  simp [schemaToDecl, schemaToDeclP, toSchemaF, toSchemaP, structShape, collapses, sameSet, declRequired,
    inlineOpts, schemaRequired, normReq, normReqP]
/-- at top level an object with one required property and no additional properties comes back as
    the schema of that property (finding `roundtrip:single-field-collapse`); nested, and as a
    definition, the same object comes back as itself -/
theorem roundtrip_counterexample_single_field :
    toSchemaClass (schemaToClass rho0 "Foo" (.obj [("a", .bool)] [] (some ["a"]) false)) = .bool
    ∧ inCodeFragment (.obj [("a", .bool)] [] (some ["a"]) false) = true
    ∧ inCodeFragmentTop (.obj [("a", .bool)] [] (some ["a"]) false) = false := by
  refine ⟨?_, by decide, by decide⟩
  simp [schemaToClass, schemaToDeclP, schemaToDecl, numDecl, toSchemaClass, toSchemaP, toSchemaF, structShape,
    collapses, sameSet, declRequired]

theorem roundtrip_statement_false : ¬ roundtrip_statement := fun h =>
  roundtrip_counterexample_required_absent (h rho0 rho0_classes _)

/-! ## `$ref` names -/

/-- the class name emitted for the `$ref` of a definition is that definition's name — every name,
    whatever its first characters (in particular the letters of "#/definitions/" itself) -/
theorem refName_refOf (n : String) : refName (refOf n) = n := by
  simp only [refName, refOf, String.toList_append, List.drop_left, String.ofList_toList]

/-- hence schema → declaration → schema maps every `$ref` string to itself -/
theorem ref_roundtrip (ρ : String → FieldDecl) (hρ : RefsAreClasses ρ) (n : String) :
    toSchemaF (schemaToDecl ρ (.ref (refName (refOf n)))) = .ref n := by
  rw [refName_refOf]
  obtain ⟨c, fs, ds, h, hin, hn⟩ := hρ n
  simp [schemaToDecl, h, toSchemaF, hin, hn]

theorem refName_examples :
    refName "#/definitions/item" = "item" ∧ refName "#/definitions/definitions" = "definitions"
      ∧ refName "#/definitions/s_1" = "s_1" ∧ refName "#/definitions/Node" = "Node" := by decide

/-! ## the caller's schema is not modified -/

/-- `schema_to_struct_code` never writes to the caller's `required` list: every schema -/
theorem required_not_mutated (s : Schema) : requiredAfter s = requiredBefore s := by
  unfold requiredAfter runRequired
  cases s <;> simp only []
  rename_i props defaults req addl
  cases req <;> rfl

/-- … while the emitted `_required` does drop the defaulted names (non-vacuity of the model) -/
theorem emitted_required_example :
    emittedRequired (.obj [("a", .bool), ("b", .bool)] [("a", .bool true)] (some ["a", "b"]) true)
      = some ["b"] ∧
    requiredAfter (.obj [("a", .bool), ("b", .bool)] [("a", .bool true)] (some ["a", "b"]) true)
      = some ["a", "b"] := by decide

/-! ## "always executes", syntactic part: the emitted module is Python

  `Emit.moduleText` is the text of the module (`schema_definitions_to_code` + `schema_to_struct_code`
  as assembled by the harness / by `write_code_from_schema`; the suite compares it character by
  character with the real generator's output on every case), `PyGram.recognise` the recogniser of
  the emitted Python subset (tokeniser with NEWLINE / INDENT / DEDENT, string literals judged by
  `PyLex.lexSrc`, pushdown automaton for calls, keyword arguments, lists, dicts, `lambda:`, class
  statements, annotated fields), corresponded with CPython's `compile` on the generated and on
  mutated sources. -/

open Typedpy.Emit Typedpy.PyGram

/-- every well-formed expression tree prints to text that lexes to exactly its token sequence
    (any nesting depth, any string literals) … -/
theorem expr_tokens (X : Ora) (pr : Char → Bool) (e : PyExpr) (h : wf X e = true) (rest : List Char)
    (hr : DelimHead rest) (d : Nat) (ind : List Nat) :
    lex X ⟨d, ind⟩ .mid (render pr e ++ rest) = prepend (toks e) (lex X ⟨d, ind⟩ .mid rest) :=
  lex_expr X pr e h d ind rest hr

/-- … and that token sequence is an expression of the grammar, in every context -/
theorem expr_parses (X : Ora) (e : PyExpr) (h : wf X e = true) (σ : List Frame) (c : Bool) (φ : Phase) (rest : List Tok)
    (hφ : φ ≠ .expr) :
    parse ⟨σ, .operand c false, φ, false⟩ (toks e ++ rest) = parse ⟨σ, .afterOp (endsStr e), φ, false⟩ rest :=
  parse_expr X e h σ c φ rest hφ

/-- the expression `convert_to_field_code` emits for ANY schema whose `$ref` / property names are
    identifiers (property names distinct as keyword arguments and not `__debug__`) and whose enum
    members / defaults are JSON values is well-formed — every keyword combination, any depth -/
theorem field_code_wf (X : Ora) (O : EOra) (hO : OraOk O) (s : Schema) (d : Option PyVal) (h : emitOk X s d = true) :
    wf X (schemaExpr O s d) = true :=
  schemaExpr_wf X O hO s d h

/-- integers are printed as decimal literals of the subset (no leading zeros), every `Nat` -/
theorem nat_literal (n : Nat) : isNumText (natText n) = true := natText_num n

/-- the tokens of the emitted module -/
theorem emitted_module_tokens (X : Ora) (O : EOra) (hO : OraOk O) (write : Bool) (defs : List ClassSrc)
    (main : ClassSrc) (hd : ∀ c ∈ defs, classSrcOk X c = true) (hm : classSrcOk X main = true) :
    lex X lctx0 (.bol 0) (moduleText O write defs main) = .ok (modToks O defs main) :=
  lex_module X O write defs main (fun c hc => classOk_of_src X O hO c (hd c hc)) (classOk_of_src X O hO main hm)

/-- the full statement: the module emitted for ANY definitions and main schema compiles -/
def always_compiles_statement : Prop :=
  ∀ (X : Ora) (O : EOra) (write : Bool) (defs : List ClassSrc) (main : ClassSrc),
    OraOk O → recognise X (moduleText O write defs main) = .accept

/-- the emitted text never contains a NUL or a carriage return (the only way in would be a NUL in a
    description: `repr` escapes both, `_docstring_text` escapes CR) -/
theorem emitted_module_clean (X : Ora) (O : EOra) (hO : OraOk O) (write : Bool) (defs : List ClassSrc) (main : ClassSrc)
    (hd : ∀ c ∈ defs, classSrcOk X c = true) (hm : classSrcOk X main = true) :
    textClean (moduleText O write defs main) = true :=
  moduleText_clean X O write defs main (fun c hc => classOk_of_src X O hO c (hd c hc)) (classOk_of_src X O hO main hm)

/-- the bracket nesting of the emitted module's tokens is the nesting of its expression trees -/
theorem emitted_module_nesting (O : EOra) (defs : List ClassSrc) (main : ClassSrc) :
    maxNest 0 0 (modToks O defs main) = modDepth O (defs ++ [main]) :=
  maxNest_module O defs main

/-- the nesting of every printed field expression is bounded by the nesting of its schema and default -/
theorem field_code_nesting (O : EOra) (s : Schema) (d : Option PyVal) : edepth (schemaExpr O s d) ≤ sdepth s d :=
  edepth_schemaExpr O s d

/-- PARTIAL: the emitted module is accepted by the recogniser for ALL definition lists and main
    schemas (any strings in patterns / enums / defaults / required / descriptions) with the decidable,
    schema-level exclusions `classSrcOk` (class, `$ref` and property names are identifiers (ASCII letters /
    digits / `_`, and non-ASCII characters for which the oracle `X` = `str.isidentifier` says so) that are not
    keywords — property names also not `__debug__` and distinct as keyword arguments; enum members and
    defaults are JSON values) and `schemaDepthOk` (the schemas and their JSON values nest shallowly enough for
    CPython's limit of 200 open brackets); `OraOk`: `repr(float)` answers with decimal literals -/
theorem emitted_module_accepted_partial (X : Ora) (O : EOra) (hO : OraOk O) (write : Bool)
    (defs : List ClassSrc) (main : ClassSrc)
    (hd : ∀ c ∈ defs, classSrcOk X c = true) (hm : classSrcOk X main = true)
    (hdep : schemaDepthOk defs main = true) :
    recognise X (moduleText O write defs main) = .accept :=
  recognise_module X O write defs main (fun c hc => classOk_of_src X O hO c (hd c hc))
    (classOk_of_src X O hO main hm) (emitted_module_clean X O hO write defs main hd hm)
    (nestOk_of_depth X O write defs main (fun c hc => classOk_of_src X O hO c (hd c hc))
      (classOk_of_src X O hO main hm) (depthOk_of_schema O defs main hdep))

/-- a concrete oracle for the examples: every non-ASCII character printable, every float `1.5` -/
def exOra : EOra := ⟨fun _ => true, fun _ => ['1', '.', '5']⟩
theorem exOra_ok : OraOk exOra := fun X _ => by
  show wf X (.num ['1', '.', '5']) = true
  simp only [wf]
  decide

def objOf (name : String) : Schema := .obj [(name, .num true none none none false)] [] (some []) true

set_option maxRecDepth 100000 in
/-- finding `compile:name-not-identifier`, kernel-checked: a property called `my-prop`, `class`, `1a`
    or `__debug__` is pasted into the source and the module is not Python -/
theorem counterexample_name_not_identifier :
    recognise Ora.ascii (moduleText exOra false [] ⟨"Foo", none, objOf "my-prop"⟩) = .reject ∧
    recognise Ora.ascii (moduleText exOra false [] ⟨"Foo", none, objOf "class"⟩) = .reject ∧
    recognise Ora.ascii (moduleText exOra false [] ⟨"Foo", none, objOf "__debug__"⟩) = .reject ∧
    recognise Ora.ascii (moduleText exOra false [] ⟨"Foo", none,
      .obj [("p", objOf "class")] [] (some []) true⟩) = .reject ∧
    recognise Ora.ascii (moduleText exOra false [⟨"my-def", none, objOf "x"⟩] ⟨"Foo", none, objOf "y"⟩)
      = .reject := by decide

set_option maxRecDepth 100000 in
/-- repaired finding `unescaped:description-nul`, at module level: a NUL in the description is escaped
    and the module is accepted -/
theorem fixed_description_nul_module :
    recognise Ora.ascii (moduleText exOra false [] ⟨"Foo", some (String.singleton cNUL), objOf "p"⟩)
      = .accept := by decide

theorem always_compiles_statement_false : ¬ always_compiles_statement := fun h =>
  absurd (h Ora.ascii exOra false [] ⟨"Foo", none, objOf "my-prop"⟩ exOra_ok)
    (by rw [counterexample_name_not_identifier.1]; decide)

def exDef : ClassSrc :=
  ⟨"D_1", some "a \"\"\"doc\"\"\" \\ with\rhostile text",
   .obj [("u", .num true none (some ⟨0, 1⟩) (some ⟨15, 2⟩) true), ("v", .str none (some 3) (some "^it's\\d\n"))]
     [("v", .str "a'b")] (some ["u"]) false⟩

def exMain : ClassSrc :=
  ⟨"Foo", none,
   .obj [("p", .ref "D_1"),
         ("q", .arrPos [.enum [.str "x\"y", .int (-3), .none, .bool true, .list [.int 1]], .bool] false
                  { min := some 1, max := none, uniq := true }),
         ("r", .obj [("type", .mapOf (.anyOf [.ref "D_1", .notS [.bool]]) (some 1) (some 2))]
                  [] (some ["type"]) false),
         ("d", .arrAny {})]
     [("d", .list [.int 1, .dict [(.str "k", .float ⟨3, 2⟩)]])] (some ["p", "d"]) true⟩

set_option maxRecDepth 100000 in
/-- non-vacuity: a module with a definition (hostile docstring, pattern, default), nested object,
    positional array, enum with string / negative int / None / bool / nested list, map, combinators,
    list/dict default behind `lambda:` satisfies the side conditions and is accepted -/
theorem accepted_example :
    classSrcOk Ora.ascii exDef = true ∧ classSrcOk Ora.ascii exMain = true ∧
    textClean (moduleText exOra true [exDef] exMain) = true ∧
    schemaDepthOk [exDef] exMain = true ∧
    recognise Ora.ascii (moduleText exOra true [exDef] exMain) = .accept := by decide

/-! ## order of the definitions (`exec:forward-ref`) -/

/-- emission in depth-first dependency order (`topoOrder`, the order of the proposed repair): for
    EVERY definitions table whose references have no cycle, every definition is emitted, and each
    one after all the definitions it refers to (the class body is evaluated when the class
    statement runs, so no `$ref` is a NameError) -/
theorem definitions_defined_before_use (defs : Defs) (hac : Acyclic defs) :
    definedBeforeUse defs (topoOrder defs).reverse ∧ ∀ n ∈ defs.map (·.1), n ∈ topoOrder defs :=
  topoOrder_ok defs hac

/-- the dict-order emission has the counterexample (`A` refers to the later `B`); the depth-first
    order emits `B` first -/
theorem counterexample_dict_order_forward_ref :
    refsOrdered [] [("A", .obj [("x", .ref "B")] [] (some ["x"]) true),
                    ("B", .obj [("y", .num true none none none false)] [] (some ["y"]) true)] = false ∧
    topoOrder [("A", .obj [("x", .ref "B")] [] (some ["x"]) true),
               ("B", .obj [("y", .num true none none none false)] [] (some ["y"]) true)] = ["B", "A"] :=
  dict_order_counterexample

/-! ## exactness: the generated field accepts what the schema admits

  `CodeExact.scalarDoc` is the JSON document of a scalar schema, `jsV` the draft-4 validator model of
  C08 (`Spec/JsValid.lean`), `deser` / `validate` the Deserializer and constructor models of C06 / C01
  applied to the generated declaration `schemaToDecl`. -/

open Typedpy.CodeExact Typedpy.Sch in
/-- on the exact scalar sub-fragment the schema that `structure_to_schema` exports for the generated
    field is the source schema itself (document level, both spellings of `multipleOf`) -/
theorem exported_schema_is_source (fx : Bool) (ρ : String → FieldDecl) (s : Schema)
    (h : exactSchema s = true) : emit fx (schemaToDecl ρ s) = scalarDoc fx s :=
  emit_scalar fx ρ s h

open Typedpy.CodeExact Typedpy.Sch in
/-- PARTIAL (one direction, scalars): for EVERY schema of the exact scalar sub-fragment (integer with
    bounds / positive multiplesOf, number with bounds, `exclusiveMaximum` next to `maximum`, string with
    lengths and a start-anchored pattern, boolean, non-empty enum of literals) and EVERY document value:
    if the draft-4 validator admits the value against the source schema, the generated field accepts it
    (deserialization succeeds and the constructor's validation accepts the result).  `hS`: the
    validator's regex oracle agrees with `re.match` on start-anchored patterns. -/
theorem admitted_is_accepted_partial (O : Oracles) (R : String → PyVal → Bool) (S : String → String → Bool)
    (hS : ∀ p t, startAnchored p = true → S p t = true → O.reMatch p t = true)
    (opts : DeserOpts) (ign : Bool) (ρ : String → FieldDecl) (s : Schema) (v : PyVal)
    (hs : exactSchema s = true) (h : jsV R S (scalarDoc true s) v = true) :
    ∃ y y', deser O opts ign (schemaToDecl ρ s) v = .ok y ∧ validate O (schemaToDecl ρ s) y = .ok y' := by
  rw [← emit_scalar true ρ s hs] at h
  exact exact_scalar O R S hS opts ign _ v (exactScalar_of ρ s hs) h

open Typedpy.CodeExact Typedpy.Sch in
/-- the full statement: the generated field accepts a document iff the schema admits it -/
def exactness_statement : Prop :=
  ∀ (s : Schema) (v : PyVal), exactSchema s = true →
    (acceptsB (schemaToDecl CodeExact.rho0 s) v = true ↔ jsV R0 S0 (scalarDoc true s) v = true)

open Typedpy.CodeExact Typedpy.Sch in
/-- finding `exact:bool-as-number`, kernel-checked: an integer field accepts JSON `true` -/
theorem counterexample_bool_as_number :
    jsV R0 S0 (scalarDoc true (.num true none none none false)) (.bool true) = false ∧
    acceptsB (schemaToDecl CodeExact.rho0 (.num true none none none false)) (.bool true) = true := by decide

open Typedpy.CodeExact Typedpy.Sch in
/-- finding `exact:bool-string`: a boolean field accepts the string `'True'` -/
theorem counterexample_bool_string :
    jsV R0 S0 (scalarDoc true .bool) (.str "True") = false ∧
    acceptsB (schemaToDecl CodeExact.rho0 .bool) (.str "True") = true := by decide

open Typedpy.CodeExact Typedpy.Sch in
/-- finding `exact:short-positional-array`: draft-4 admits an array shorter than the positional
    `items`, the generated `Array(items=[...])` rejects it -/
theorem counterexample_short_positional_array :
    jsV R0 S0 (emit true (schemaToDecl CodeExact.rho0
        (.arrPos [.num true none none none false, .str none none none] true {}))) (.list [.int 1]) = true ∧
    acceptsB (schemaToDecl CodeExact.rho0
        (.arrPos [.num true none none none false, .str none none none] true {})) (.list [.int 1]) = false := by
  decide

open Typedpy.CodeExact Typedpy.Sch in
/-- finding `exact:null`: `null` for a non-required property of a nested object is accepted (dropped),
    the validator rejects it -/
theorem counterexample_null_optional :
    jsV R0 S0 (emit true (schemaToDecl CodeExact.rho0
        (.obj [("b", .num true none none none false), ("t", .num false none none none false)] [] (some ["b"]) true)))
      (.dict [(.str "b", .int 5), (.str "t", .none)]) = false ∧
    acceptsB (schemaToDecl CodeExact.rho0
        (.obj [("b", .num true none none none false), ("t", .num false none none none false)] [] (some ["b"]) true))
      (.dict [(.str "b", .int 5), (.str "t", .none)]) = true := by
  decide

open Typedpy.CodeExact Typedpy.Sch in
/-- finding `exact:accepts-invalid:extra`: with `additionalProperties: false` the Deserializer drops an
    undeclared top-level key, the validator rejects the document -/
theorem counterexample_extra_key_dropped :
    (match deserialize O0 {} (schemaToClass CodeExact.rho0 "Foo"
        (.obj [("p", .num true none none none false)] [] (some []) false))
        (.dict [(.str "p", .int 1), (.str "zz", .int 1)]) with | .ok _ => true | .error _ => false) = true ∧
    jsV R0 S0 (classSchema true (schemaToClass CodeExact.rho0 "Foo"
        (.obj [("p", .num true none none none false)] [] (some []) false)))
      (.dict [(.str "p", .int 1), (.str "zz", .int 1)]) = false := by decide

open Typedpy.CodeExact Typedpy.Sch in
/-- finding `exact:rejects-valid:unique:bool-vs-int`: `[[true], [1]]` is unique for draft 4, not for
    Python's `==` -/
theorem counterexample_unique_bool_vs_int :
    jsV R0 S0 (emit true (schemaToDecl CodeExact.rho0 (.arrAny { uniq := true })))
      (.list [.list [.bool true], .list [.int 1]]) = true ∧
    acceptsB (schemaToDecl CodeExact.rho0 (.arrAny { uniq := true }))
      (.list [.list [.bool true], .list [.int 1]]) = false := by decide

/-- finding `exec:cyclic-ref`: for two definitions that refer to each other no emission order defines
    every name before its use (the depth-first order emits `B` first, whose body names `A`) -/
theorem counterexample_cyclic_refs :
    topoOrder [("A", .obj [("x", .ref "B")] [] (some []) true), ("B", .obj [("y", .ref "A")] [] (some []) true)]
      = ["B", "A"] ∧
    refsOrdered [] [("A", .obj [("x", .ref "B")] [] (some []) true), ("B", .obj [("y", .ref "A")] [] (some []) true)]
      = false ∧
    refsOrdered [] [("B", .obj [("y", .ref "A")] [] (some []) true), ("A", .obj [("x", .ref "B")] [] (some []) true)]
      = false := by decide

theorem exactness_statement_false : ¬ exactness_statement := fun h =>
  absurd ((h (.num true none none none false) (.bool true) (by decide)).1 counterexample_bool_as_number.2)
    (by rw [counterexample_bool_as_number.1]; decide)

open Typedpy.CodeExact Typedpy.Sch in
/-- non-vacuity: an integer schema with bounds and multiplesOf admits 6, and the generated field
    accepts it -/
theorem admitted_is_accepted_example :
    exactSchema (.num true (some 3) (some ⟨0, 1⟩) (some ⟨10, 1⟩) true) = true ∧
    jsV R0 S0 (scalarDoc true (.num true (some 3) (some ⟨0, 1⟩) (some ⟨10, 1⟩) true)) (.int 6) = true ∧
    acceptsB (schemaToDecl CodeExact.rho0 (.num true (some 3) (some ⟨0, 1⟩) (some ⟨10, 1⟩) true)) (.int 6) = true ∧
    jsV R0 S0 (scalarDoc true (.num true (some 3) (some ⟨0, 1⟩) (some ⟨10, 1⟩) true)) (.int 10) = false := by
  decide

/-! ## non-vacuity -/

def exampleSchema : Schema :=
  .obj [("name", .str (some 1) (some 8) (some "^[A-Za-z]+$")),
        ("tags", .arrOf (.enum [.str "a", .int 2]) { min := some 1, max := some 4, uniq := true }),
        ("pos", .arrPos [.num true (some 5) none (some ⟨10, 1⟩) true, .num false none none none false] false {}),
        ("inner", .obj [("x", .num true none none none false), ("y", .bool)] [("y", .bool false)]
                     (some ["y", "x"]) false),
        ("choice", .anyOf [.ref "D", .notS [.str none none none]]),
        ("m", .mapOf (.num true none none none false) (some 1) none)]
       [("name", .str "bob")] (some ["tags", "name"]) true

theorem roundtrip_example :
    inCodeFragment exampleSchema = true ∧
    normReq (toSchemaClass (schemaToClass rho0 "Foo" exampleSchema)) = normReq exampleSchema :=
  ⟨by decide, schemaToClass_inverse rho0 rho0_classes "Foo" _ _ _ _ (by decide)⟩

end Typedpy.C09
