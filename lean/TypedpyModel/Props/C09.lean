/-
  Props/C09.lean — C09: schema→code output executes and is equivalent to the schema (partial).

  What is proved here is about the Lean model of `json_schema_mapping.py` (schema → code direction,
  `Sem/SchemaToCode.lean`) and of CPython's string-literal lexing (`Sem/PyLex.lean`); the
  `schemacode` correspondence suite ties both to the working tree on every run.  Whether the whole
  emitted text *compiles* is decided by CPython's parser at run time (the partial residue).

  The code violates the full statement today; per DESIGN §5.1 the full statements are `def … : Prop`,
  the `_partial` theorems carry an explicit decidable exclusion of exactly the known-finding region,
  and each finding has a kernel-checked counterexample.
-/
import TypedpyModel.Lemmas.PyLex
import TypedpyModel.Lemmas.SchemaToCode
namespace Typedpy.C09
open Typedpy Typedpy.PyLex

/-! ## text: the string literals the generator emits -/

/-- the string has no `'`, backslash, newline, carriage return or NUL -/
def NoQuoteBackslashNewline (s : String) : Prop := ∀ c ∈ s.toList, plainChar c = true

/-- the description has no backslash, carriage return or NUL and no `"""` -/
def DocSafe (d : String) : Prop := (∀ c ∈ d.toList, docChar c = true) ∧ noTriple d.toList = true

/-- full statement (false today): every string a schema can carry survives plain quoting -/
def wrap_val_statement : Prop := ∀ s : String, pyLexStr (wrapVal s) = some s
/-- full statement (false today): every description becomes the docstring it was meant to be -/
def description_statement : Prop := ∀ d : String, pyLexStr (docWrap d) = some (docValue d)

/-- `wrap_val` (used for `pattern` and for `str` defaults) is faithful on every string without
    quote / backslash / newline — all lengths, all other characters incl. non-ASCII -/
theorem wrap_val_safe (s : String) (h : NoQuoteBackslashNewline s) :
    pyLexStr (wrapVal s) = some s := by
  simp only [pyLexStr, wrapVal, String.toList_ofList, lexSrc_wrapL s.toList h, Option.map_some,
    String.ofList_toList]

/-- the docstring template is faithful on every description without backslash / CR / `"""` -/
theorem description_safe (d : String) (h : DocSafe d) :
    pyLexStr (docWrap d) = some (docValue d) := by
  simp only [pyLexStr, docWrap, docValue, String.toList_ofList, lexSrc_docWrapL d.toList h.1 h.2,
    Option.map_some]

/-- the literal emitted for a `pattern` is faithful when the pattern is plain -/
theorem pattern_site_partial (pr : Char → Bool) (lo hi : Option Nat) (p : String)
    (h : NoQuoteBackslashNewline p) :
    ∀ site ∈ stringSites pr (.str lo hi (some p)), site.faithful = true := by
  intro site hs
  simp only [stringSites, List.mem_singleton] at hs
  subst hs
  simp [StringSite.faithful, wrap_val_safe p h]

/-- the literal emitted for a `str` default is faithful when the default is plain -/
theorem default_site_partial (pr : Char → Bool) (d : String) (h : NoQuoteBackslashNewline d) :
    ∀ site ∈ defaultSites pr (.str d), site.faithful = true := by
  intro site hs
  simp only [defaultSites, List.mem_singleton] at hs
  subst hs
  simp [StringSite.faithful, wrap_val_safe d h]

theorem description_site_partial (d : String) (h : DocSafe d) :
    (descriptionSite d).faithful = true := by
  simp [StringSite.faithful, descriptionSite, description_safe d h]

/-- `repr(str)` — which is what list formatting applies to enum values, `_required` names and
    list/dict defaults — is faithful for EVERY string (all characters, whatever `str.isprintable`
    answers): these sites cannot break the generated source -/
theorem repr_safe (pr : Char → Bool) (s : String) : pyLexStr (pyRepr pr s) = some s := by
  simp only [pyLexStr, pyRepr, String.toList_ofList, lexSrc_pyReprL, Option.map_some,
    String.ofList_toList]

mutual
theorem reprSites_faithful (pr : Char → Bool) (site : String) :
    ∀ (v : PyVal) (x : StringSite), x ∈ reprSites pr site v → x.faithful = true
  | .str s, x, hx => by
    simp only [reprSites, List.mem_singleton] at hx
    subst hx
    simp [StringSite.faithful, repr_safe]
  | .list xs, x, hx => reprSitesL_faithful pr site xs x (by simpa [reprSites] using hx)
  | .dict kvs, x, hx => reprSitesKV_faithful pr site kvs x (by simpa [reprSites] using hx)
  | .none, _, hx => by simp [reprSites] at hx
  | .bool _, _, hx => by simp [reprSites] at hx
  | .int _, _, hx => by simp [reprSites] at hx
  | .float _, _, hx => by simp [reprSites] at hx
  | .dec _, _, hx => by simp [reprSites] at hx
  | .tuple _, _, hx => by simp [reprSites] at hx
  | .set _ _, _, hx => by simp [reprSites] at hx
  | .deque _, _, hx => by simp [reprSites] at hx
  | .enumv _ _, _, hx => by simp [reprSites] at hx
  | .inst _ _, _, hx => by simp [reprSites] at hx
  | .opaque _, _, hx => by simp [reprSites] at hx
theorem reprSitesL_faithful (pr : Char → Bool) (site : String) :
    ∀ (xs : List PyVal) (x : StringSite), x ∈ reprSitesL pr site xs → x.faithful = true
  | [], _, hx => by simp [reprSitesL] at hx
  | v :: vs, x, hx => by
    simp only [reprSitesL, List.mem_append] at hx
    rcases hx with hx | hx
    · exact reprSites_faithful pr site v x hx
    · exact reprSitesL_faithful pr site vs x hx
theorem reprSitesKV_faithful (pr : Char → Bool) (site : String) :
    ∀ (kvs : List (PyVal × PyVal)) (x : StringSite), x ∈ reprSitesKV pr site kvs → x.faithful = true
  | [], _, hx => by simp [reprSitesKV] at hx
  | (k, v) :: rest, x, hx => by
    simp only [reprSitesKV, List.mem_append] at hx
    rcases hx with (hx | hx) | hx
    · exact reprSites_faithful pr site k x hx
    · exact reprSites_faithful pr site v x hx
    · exact reprSitesKV_faithful pr site rest x hx
end

/-- enum members of any type and nesting never produce a broken literal (so there is no
    `unescaped:enum` finding: the expected defect does not exist for this site) -/
theorem enum_site_faithful (pr : Char → Bool) (vs : List PyVal) :
    ∀ x ∈ stringSites pr (.enum vs), x.faithful = true := by
  intro x hx
  exact reprSitesL_faithful pr "enum" vs x (by simpa [stringSites] using hx)

/-- the `_required = [...]` list never produces a broken literal -/
theorem required_site_faithful (pr : Char → Bool) (names : List String) :
    ∀ x ∈ namesSites pr names, x.faithful = true := by
  induction names with
  | nil => intro x hx; simp [namesSites] at hx
  | cons n r ih =>
    intro x hx
    simp only [namesSites, List.mem_cons] at hx
    rcases hx with rfl | hx
    · simp [StringSite.faithful, repr_safe]
    · exact ih x hx

/-- a list / dict default (emitted as `lambda: <repr>`) never produces a broken literal -/
theorem default_repr_site_faithful (pr : Char → Bool) (v : PyVal) (h : ∀ s, v ≠ .str s) :
    ∀ x ∈ defaultSites pr v, x.faithful = true := by
  intro x hx
  cases v with
  | str s => exact absurd rfl (h s)
  | _ => exact reprSites_faithful pr "default-repr" _ x (by simpa [defaultSites] using hx)

/-! ### kernel-checked counterexamples (known findings `unescaped:<site>`) -/

/-- `'` in a pattern: the emitted literal closes early (the source does not compile) -/
theorem unescaped_pattern_quote :
    (stringSites (fun _ => true) (.str none none (some "it's"))).all (·.faithful) = false := by decide
/-- backslash in a pattern: `\b` silently becomes a backspace (a different regex) -/
theorem unescaped_pattern_backslash : pyLexStr (wrapVal "\\bword\\b") = some "\x08word\x08" := by
  decide
/-- trailing backslash: escapes the closing quote, unterminated literal -/
theorem unescaped_pattern_trailing_backslash : pyLexStr (wrapVal "a\\") = none := by decide
/-- raw newline inside a short literal -/
theorem unescaped_pattern_newline : pyLexStr (wrapVal "a\nb") = none := by decide
theorem unescaped_default_quote :
    (defaultSites (fun _ => true) (.str "it's")).all (·.faithful) = false := by decide
theorem unescaped_default_backslash_n : pyLexStr (wrapVal "a\\nb") = some "a\nb" := by decide
theorem unescaped_default_newline : pyLexStr (wrapVal "a\nb") = none := by decide
/-- `"""` in a description ends the docstring early -/
theorem unescaped_description_triple : (descriptionSite "say \"\"\"hi\"\"\"").faithful = false := by
  decide
/-- a description ending in a backslash swallows the newline of the template -/
theorem unescaped_description_trailing_backslash :
    pyLexStr (docWrap "path\\") = some "\n    path    " := by decide
/-- backslash escapes in a description are interpreted -/
theorem unescaped_description_escape : (descriptionSite "a\\tb").faithful = false := by decide

theorem wrap_val_statement_false : ¬ wrap_val_statement := by
  intro h
  have := h "it's"
  revert this
  decide
theorem description_statement_false : ¬ description_statement := by
  intro h
  have := h "say \"\"\"hi\"\"\""
  revert this
  decide

/-- enum values, `_required` and list/dict defaults go through `repr` (list formatting), which
    escapes: hostile strings are faithful there (no `unescaped:enum` finding) -/
theorem enum_repr_examples :
    (stringSites (fun _ => true)
      (.enum [.str "it's", .str "a\\b", .str "x\ny", .str "q\"'z", .str "é\t"])).all (·.faithful)
      = true := by decide

/-! ## semantics: schema → generated declaration → schema -/

/-- full statement (false today): mapping the generated declaration back gives the schema -/
def roundtrip_statement : Prop :=
  ∀ (ρ : String → FieldDecl), RefsAreClasses ρ → ∀ s : Schema,
    normReq (toSchemaF (schemaToDecl ρ s)) = normReq s

/-- on the code fragment (`issues s = []`, i.e. outside the listed finding regions) the round trip
    schema → `convert_to_field_code`+eval → `convert_to_schema` is the identity up to the order
    of every `required` list; all schemas, any nesting depth -/
theorem schemaToDecl_inverse (ρ : String → FieldDecl) (hρ : RefsAreClasses ρ) (s : Schema)
    (h : inCodeFragment s = true) : normReq (toSchemaF (schemaToDecl ρ s)) = normReq s :=
  inverse_core ρ hρ s (by simpa [inCodeFragment] using h)

/-- the same for the generated class: `structure_to_schema (exec (schema_to_struct_code name s))` -/
theorem schemaToClass_inverse (ρ : String → FieldDecl) (hρ : RefsAreClasses ρ) (name : String)
    (props : List (String × Schema)) (defaults : List (String × PyVal))
    (required : Option (List String)) (addl : Bool)
    (h : inCodeFragment (.obj props defaults required addl) = true) :
    normReq (toSchemaClass (schemaToClass ρ name (.obj props defaults required addl)))
      = normReq (.obj props defaults required addl) :=
  class_roundtrip ρ hρ name props defaults required addl (by simpa [inCodeFragment] using h)

/-- `normReq` only reorders: the canonical `required` has the same members -/
theorem canonReq_mem (names req : List String) (n : String) (h : n ∈ names) :
    n ∈ canonReq names req ↔ n ∈ req := by
  simp [canonReq, List.mem_filter, h]

def rho0 : String → FieldDecl := envResolver []
theorem rho0_classes : RefsAreClasses rho0 := fun _ => ⟨_, _, _, rfl, rfl, rfl⟩

/-- `minItems` / `maxItems` of arrays are dropped (finding `roundtrip:array-size-dropped`) -/
theorem roundtrip_counterexample_array_size :
    normReq (toSchemaF (schemaToDecl rho0 (.arrAny { min := some 1 }))) ≠ normReq (.arrAny { min := some 1 }) := by
  simp [schemaToDecl, toSchemaF, arraySize, normReq]
/-- a property with a default comes back as required (finding `roundtrip:default-forces-required`) -/
theorem roundtrip_counterexample_default_required :
    normReq (toSchemaF (schemaToDecl rho0
      (.obj [("a", .bool), ("b", .bool)] [("a", .bool true)] (some ["b"]) true)))
    ≠ normReq (.obj [("a", .bool), ("b", .bool)] [("a", .bool true)] (some ["b"]) true) := by
  simp [schemaToDecl, schemaToDeclP, toSchemaF, toSchemaP, structShape, collapses, sameSet, declRequired,
    inlineOpts, schemaRequired, normReq, normReqP, canonReq]
/-- absent `required` comes back as "all required" (finding `roundtrip:required-absent`) -/
theorem roundtrip_counterexample_required_absent :
    normReq (toSchemaF (schemaToDecl rho0 (.obj [("a", .bool), ("b", .bool)] [] none true)))
    ≠ normReq (.obj [("a", .bool), ("b", .bool)] [] none true) := by
  simp [schemaToDecl, schemaToDeclP, toSchemaF, toSchemaP, structShape, collapses, sameSet, declRequired,
    inlineOpts, schemaRequired, normReq, normReqP]
/-- an object with one required property and no additional properties collapses to the schema of
    that property, retyped "object" when nested (finding `roundtrip:single-field-collapse`) -/
theorem roundtrip_counterexample_single_field :
    toSchemaF (schemaToDecl rho0 (.obj [("a", .bool)] [] (some ["a"]) false)) = .retyped .bool := by
  simp [schemaToDecl, schemaToDeclP, toSchemaF, toSchemaP, structShape, collapses, sameSet, declRequired,
    inlineOpts]

theorem roundtrip_statement_false : ¬ roundtrip_statement := fun h =>
  roundtrip_counterexample_array_size (h rho0 rho0_classes _)

/-! ## the caller's schema is not modified -/

/-- full statement (false today) -/
def required_not_mutated_statement : Prop := ∀ s : Schema, requiredAfter s = requiredBefore s

/-- `schema_to_struct_code` leaves the caller's `required` list alone when no property that has a
    default is listed in it -/
theorem required_not_mutated (props : List (String × Schema)) (defaults : List (String × PyVal))
    (req : List String) (addl : Bool)
    (h : ∀ n ∈ defaults.map (·.1), n ∉ req) :
    requiredAfter (.obj props defaults (some req) addl)
      = requiredBefore (.obj props defaults (some req) addl) := by
  simp only [requiredAfter, requiredBefore]
  congr 1
  apply requiredPost_id
  intro n hn
  simp only [List.mem_filter, List.contains_iff_mem] at hn
  exact h n hn.2

/-- finding `mutates-input:required`: a required property with a default is `remove`d from the
    caller's list -/
theorem required_mutated_counterexample :
    requiredAfter (.obj [("a", .bool), ("b", .bool)] [("a", .bool true)] (some ["a", "b"]) true)
      = some ["b"] := by decide
theorem required_not_mutated_statement_false : ¬ required_not_mutated_statement := by
  intro h
  have := h (.obj [("a", .bool), ("b", .bool)] [("a", .bool true)] (some ["a", "b"]) true)
  revert this
  decide

/-! ## non-vacuity -/

def exampleSchema : Schema :=
  .obj [("name", .str (some 1) (some 8) (some "^[A-Za-z]+$")),
        ("tags", .arrOf (.enum [.str "a", .int 2]) { uniq := true }),
        ("pos", .arrPos [.num true (some 5) none (some ⟨10, 1⟩) true, .num false none none none false] false {}),
        ("inner", .obj [("x", .num true none none none false), ("y", .bool)] [("y", .bool false)]
                     (some ["y", "x"]) false),
        ("choice", .anyOf [.ref "D", .notS [.str none none none]]),
        ("m", .mapOf (.num true none none none false) (some 1) none)]
       [("name", .str "bob")] (some ["tags", "name"]) true

theorem roundtrip_example :
    inCodeFragment exampleSchema = true ∧
    normReq (toSchemaClass (schemaToClass rho0 "Foo" exampleSchema)) = normReq exampleSchema :=
  ⟨by decide, schemaToClass_inverse rho0 rho0_classes "Foo" _ _ _ _ (by decide)⟩

theorem wrap_val_example : pyLexStr (wrapVal "^[A-Za-zé]+\"$") = some "^[A-Za-zé]+\"$" :=
  wrap_val_safe _ (by unfold NoQuoteBackslashNewline; decide)

end Typedpy.C09
