/-
  Props/C09.lean — property theorems for C09 (stub; to be filled in).
-/
namespace Typedpy.C09
end Typedpy.C09
