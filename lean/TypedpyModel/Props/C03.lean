/-
  Props/C03.lean — C03: every mutation is validated and failure-atomic.

  `Sem/Mutate.step` interprets attribute assignment, item deletion and every mutating method of
  the typed collection wrappers from the table that extract/wrappers.py regenerates from the
  working tree (`Generated.wrappers`).  If every mutator row is `validated` (overridden and routed
  through a validated assignment) then, for every class typedpy lets you define, every well-formed
  start instance and every finite history of top-level operations (failed ones included):
  the instance stays well-formed (`run_wellformed`) and every failed operation leaves it unchanged
  (`step_err_unchanged`, `run_failures_atomic`), raising only TypeError / ValueError / IndexError /
  KeyError (`step_err_class`).  `tables_ok` discharges the table hypothesis for the current tree.

  Known finding (kernel-checked below): a typed wrapper nested inside another collection is bound
  to a scratch structure, so `x.f[k].append(bad)` is not validated (`nested_counterexample`); the
  full statement including nested wrappers is therefore false of the current code and only the
  top-level part is proved (`…_partial` in the sense of DESIGN §5.1).
-/
import TypedpyModel.Lemmas.MutateLemmas
import TypedpyModel.Props.C01
import TypedpyModel.Generated.Wrappers
namespace Typedpy.C03
open Typedpy

/-- the instance state is well-formed for its class -/
def WfState (O : Oracles) (c : ClassOpts) (fields : List (String × FieldDecl)) (s : Attrs) : Bool :=
  wfAttrs c (fields.map (·.1)) s (fieldsConform O s fields)

/-- every mutator of every wrapper reaches the instance only through a validated assignment -/
def SafeTbl (tbl : List MethodRec) : Bool := tbl.all (·.validated)

/-- operations applied to the instance itself or to the value of one of its fields -/
def TopOp : Op → Bool
  | .callNested _ _ _ => false
  | _ => true

def AllowedErr (e : MErr) : Prop :=
  e = .typeErr ∨ e = .valueErr ∨ e = .both ∨ e = .indexErr ∨ e = .keyErr ∨ e = .other "AttributeError"

theorem wfFields_mem : ∀ (fields : List (String × FieldDecl)), wfFields fields = true →
    ∀ name fd, (name, fd) ∈ fields → wfDecl fd = true
  | [], _, _, _, hm => by simp at hm
  | (n0, f0) :: rest, hw, name, fd, hm => by
    simp only [wfFields, and_true_iff] at hw
    simp only [List.mem_cons] at hm
    rcases hm with hm | hm
    · rw [(Prod.mk.inj hm).2]; exact hw.1
    · exact wfFields_mem rest hw.2 name fd hm

theorem lookup_mem {α} (f : String) (fd : α) : ∀ fields : List (String × α),
    lookup f fields = some fd → (f, fd) ∈ fields
  | [], h => by simp [lookup] at h
  | (k, w) :: rest, h => by
    simp only [lookup] at h
    by_cases hk : (f == k) = true
    · simp only [hk, if_true, Option.some.injEq] at h
      have : f = k := by simpa using hk
      subst this; subst h; simp
    · simp only [hk, Bool.false_eq_true, if_false] at h
      exact List.mem_cons_of_mem _ (lookup_mem f fd rest h)

/-! ### attribute assignment -/

theorem setattr_err_unchanged (O : Oracles) (c : ClassOpts) (fields : List (String × FieldDecl))
    (s s' : Attrs) (f : String) (v : PyVal) (e : MErr)
    (h : setattrStep O c fields s f v = (s', .err e)) : s' = s := by
  unfold setattrStep at h
  repeat' split at h
  all_goals first | (cases h; rfl) | (injection h with h1 h2; cases h2)

theorem validate_err_allowed (O : Oracles) (fd : FieldDecl) (v : PyVal) (e : ErrCls)
    (hv : validate O fd v = .error e) : AllowedErr (MErr.ofErrCls e) := by
  have hs := validate_spec O fd v
  cases ha : admits O fd v
  · rcases hs.2 ha with ⟨e', he, hc⟩
    rw [hv] at he
    cases he
    rcases hc with hc | hc | hc <;> subst hc
    · exact Or.inl rfl
    · exact Or.inr (Or.inl rfl)
    · exact Or.inr (Or.inr (Or.inl rfl))
  · rw [hs.1 ha] at hv; cases hv

theorem setattr_err_class (O : Oracles) (c : ClassOpts) (fields : List (String × FieldDecl))
    (s s' : Attrs) (f : String) (v : PyVal) (e : MErr)
    (h : setattrStep O c fields s f v = (s', .err e)) : AllowedErr e := by
  have hval : AllowedErr .valueErr := Or.inr (Or.inl rfl)
  unfold setattrStep at h
  split at h
  · cases h; exact hval
  · split at h
    · split at h
      · cases h; exact hval
      · split at h <;> (injection h with _ h2; cases h2)
    · rename_i fd hl
      split at h
      · injection h with _ h2; cases h2
      · split at h
        · rename_i e' hv
          cases h
          exact validate_err_allowed O fd v e' hv
        · split at h
          · cases h; exact hval
          · split at h
            · injection h with _ h2; cases h2
            · cases h; exact hval

theorem wfState_assocSet_field (O : Oracles) (c : ClassOpts) (fields : List (String × FieldDecl))
    (s : Attrs) (f : String) (fd : FieldDecl) (v' : PyVal)
    (hnd : strNodup (fields.map (·.1)) = true) (hl : lookup f fields = some fd)
    (hconf : conforms O fd v' = true) (hs : WfState O c fields s = true) :
    WfState O c fields (assocSet f v' s) = true := by
  unfold WfState wfAttrs at hs ⊢
  simp only [and_true_iff] at hs ⊢
  refine ⟨⟨?_, ?_⟩, ?_⟩
  · rw [List.all_eq_true] at *
    intro r hr
    exact lookup_assocSet_isSome f r v' s (hs.1.1 r hr)
  · apply fieldsConform_update O s _ fields _ hs.1.2
    intro name g hm w hw
    cases hnf : (name == f)
    · rw [lookup_assocSet_ne f name v' hnf] at hw; exact Or.inl hw
    · have : name = f := by simpa using hnf
      subst this
      rw [lookup_assocSet_same] at hw
      cases hw
      rw [lookup_mem_unique name fd fields hnd hl g hm]
      exact Or.inr hconf
  · cases hadd : c.addl
    · simp only [hadd, Bool.false_or] at hs ⊢
      exact assocSet_keys (fun k => (fields.map (·.1)).contains k) f v'
        (lookup_some_contains f fd fields hl) s hs.2
    · rfl

theorem wfState_assocSet_extra (O : Oracles) (c : ClassOpts) (fields : List (String × FieldDecl))
    (s : Attrs) (f : String) (v : PyVal) (hadd : c.addl = true) (hl : lookup f fields = none)
    (hs : WfState O c fields s = true) : WfState O c fields (assocSet f v s) = true := by
  unfold WfState wfAttrs at hs ⊢
  simp only [and_true_iff] at hs ⊢
  refine ⟨⟨?_, ?_⟩, by simp [hadd]⟩
  · rw [List.all_eq_true] at *
    intro r hr
    exact lookup_assocSet_isSome f r v s (hs.1.1 r hr)
  · apply fieldsConform_update O s _ fields _ hs.1.2
    intro name g hm w hw
    have hnf : (name == f) = false := by
      cases h : (name == f)
      · rfl
      · have : name = f := by simpa using h
        subst this
        have := lookup_none_of_not_contains name fields
        have hc := mem_names_of_mem name g fields hm
        rw [← lookup_isSome_map, hl] at hc
        cases hc
    rw [lookup_assocSet_ne f name v hnf] at hw; exact Or.inl hw

theorem setattr_ok_wf (O : Oracles) (c : ClassOpts) (fields : List (String × FieldDecl))
    (s s' : Attrs) (f : String) (v : PyVal)
    (hnd : strNodup (fields.map (·.1)) = true) (hwf : wfFields fields = true)
    (hs : WfState O c fields s = true)
    (h : setattrStep O c fields s f v = (s', .ok)) : WfState O c fields s' = true := by
  unfold setattrStep at h
  split at h
  · injection h with _ h2; cases h2
  · split at h
    · rename_i hl
      split at h
      · injection h with _ h2; cases h2
      · rename_i hadd
        split at h
        · cases h; exact hs
        · cases h
          exact wfState_assocSet_extra O c fields s f v (by simpa using hadd) hl hs
    · rename_i fd hl
      split at h
      · cases h; exact hs
      · split at h
        · injection h with _ h2; cases h2
        · rename_i v' hv
          split at h
          · injection h with _ h2; cases h2
          · split at h
            · cases h
              exact wfState_assocSet_field O c fields s f fd v' hnd hl
                (C01.validate_sound O fd v v' (wfFields_mem fields hwf f fd (lookup_mem f fd fields hl)) hv) hs
            · injection h with _ h2; cases h2

/-! ### item deletion -/

theorem delitem_err_unchanged (c : ClassOpts) (s s' : Attrs) (f : String) (e : MErr)
    (h : delitemStep c s f = (s', .err e)) : s' = s := by
  unfold delitemStep at h
  repeat' split at h
  all_goals first | (cases h; rfl) | (injection h with h1 h2; cases h2)

theorem delitem_err_class (c : ClassOpts) (s s' : Attrs) (f : String) (e : MErr)
    (h : delitemStep c s f = (s', .err e)) : AllowedErr e := by
  unfold delitemStep at h
  repeat' split at h
  all_goals first
    | (injection h with h1 h2; cases h2; first
        | exact Or.inr (Or.inl rfl)
        | exact Or.inr (Or.inr (Or.inr (Or.inr (Or.inl rfl)))))
    | (injection h with h1 h2; cases h2)

theorem delitem_ok_wf (O : Oracles) (c : ClassOpts) (fields : List (String × FieldDecl))
    (s s' : Attrs) (f : String) (hs : WfState O c fields s = true)
    (h : delitemStep c s f = (s', .ok)) : WfState O c fields s' = true := by
  unfold delitemStep at h
  split at h
  · injection h with _ h2; cases h2
  · split at h
    · injection h with _ h2; cases h2
    · split at h
      · injection h with _ h2; cases h2
      · rename_i hreq
        split at h
        · injection h with _ h2; cases h2
        · cases h
          unfold WfState wfAttrs at hs ⊢
          simp only [and_true_iff] at hs ⊢
          refine ⟨⟨?_, ?_⟩, ?_⟩
          · rw [List.all_eq_true] at *
            intro r hr
            have hne : (r == f) = false := by
              cases hrf : (r == f)
              · rfl
              · have : r = f := by simpa using hrf
                subst this
                exact absurd (List.contains_iff_mem.mpr hr) hreq
            rw [lookup_assocDel_ne f r hne]; exact hs.1.1 r hr
          · apply fieldsConform_update O s _ fields _ hs.1.2
            intro name g _ w hw
            cases hnf : (name == f)
            · rw [lookup_assocDel_ne f name hnf] at hw; exact Or.inl hw
            · have : name = f := by simpa using hnf
              subst this
              rw [lookup_assocDel_same] at hw; cases hw
          · cases hadd : c.addl
            · simp only [hadd, Bool.false_or] at hs ⊢
              exact assocDel_keys (fun k => (fields.map (·.1)).contains k) f s hs.2
            · rfl

/-! ### wrapper mutators -/

/-- **refinement**: a validated mutator behaves exactly like a validated assignment of the natively
    mutated copy (after the immutability guard and the container's own Index/KeyError) -/
theorem call_refines_setattr (O : Oracles) (c : ClassOpts) (fields : List (String × FieldDecl))
    (s : Attrs) (f kind : String) (r : MethodRec) (m : NOp) (cur : PyVal)
    (hr : r.validated = true) :
    callStep O c fields s f kind r m cur =
      (if r.guarded && (c.immutable || c.immFields.contains f) then (s, .err .valueErr)
       else match applyNative kind m cur with
        | .error e => (s, .err (MErr.ofNErr e))
        | .ok new => if c.immFields.contains f then (s, .err .valueErr)
                     else setattrStep O c fields s f new) := by
  unfold callStep
  simp only [hr, if_true]
  split
  · rfl
  · cases applyNative kind m cur <;> rfl

theorem ofNErr_allowed (e : NErr) : AllowedErr (MErr.ofNErr e) := by
  cases e
  · exact Or.inr (Or.inr (Or.inr (Or.inl rfl)))
  · exact Or.inr (Or.inr (Or.inr (Or.inr (Or.inl rfl))))
  · exact Or.inr (Or.inl rfl)
  · exact Or.inl rfl

theorem call_facts (O : Oracles) (c : ClassOpts) (fields : List (String × FieldDecl))
    (s s' : Attrs) (f kind : String) (r : MethodRec) (m : NOp) (cur : PyVal) (out : Outcome)
    (hr : r.validated = true)
    (h : callStep O c fields s f kind r m cur = (s', out)) :
    (∃ e, out = .err e ∧ s' = s ∧ AllowedErr e) ∨
    (∃ new, setattrStep O c fields s f new = (s', out)) := by
  rw [call_refines_setattr O c fields s f kind r m cur hr] at h
  split at h
  · cases h; exact Or.inl ⟨_, rfl, rfl, Or.inr (Or.inl rfl)⟩
  · split at h
    · cases h; exact Or.inl ⟨_, rfl, rfl, ofNErr_allowed _⟩
    · split at h
      · cases h; exact Or.inl ⟨_, rfl, rfl, Or.inr (Or.inl rfl)⟩
      · exact Or.inr ⟨_, h⟩

/-! ### single step -/

theorem findRec_mem (tbl : List MethodRec) (w m : String) (r : MethodRec)
    (h : findRec tbl w m = some r) : r ∈ tbl := by
  unfold findRec at h
  exact List.mem_of_find?_eq_some h

/-- what one top-level operation can do: fail atomically with an allowed error, or perform a
    validated assignment / a deletion -/
theorem step_cases (tbl : List MethodRec) (O : Oracles) (c : ClassOpts)
    (fields : List (String × FieldDecl)) (s s' : Attrs) (op : Op) (out : Outcome)
    (htbl : SafeTbl tbl = true) (htop : TopOp op = true)
    (h : step tbl O c fields s op = (s', out)) :
    (∃ e, out = .err e ∧ s' = s ∧ AllowedErr e) ∨
    (∃ f v, setattrStep O c fields s f v = (s', out)) ∨
    (∃ f, delitemStep c s f = (s', out)) := by
  cases op with
  | setattr f v => exact Or.inr (Or.inl ⟨f, v, h⟩)
  | delitem f => exact Or.inr (Or.inr ⟨f, h⟩)
  | callNested f k m => simp [TopOp] at htop
  | call f m =>
    simp only [step] at h
    have attrErr : AllowedErr (.other "AttributeError") :=
      Or.inr (Or.inr (Or.inr (Or.inr (Or.inr rfl))))
    split at h
    · rename_i fd cur _ _
      split at h
      · cases h; exact Or.inl ⟨_, rfl, rfl, attrErr⟩
      · rename_i kind _
        split at h
        · cases h; exact Or.inl ⟨_, rfl, rfl, attrErr⟩
        · rename_i r hfind
          have hr : r.validated = true :=
            (List.all_eq_true.mp htbl) r (findRec_mem tbl kind m.name r hfind)
          rcases call_facts O c fields s s' f kind r m cur out hr h with h1 | ⟨new, h2⟩
          · exact Or.inl h1
          · exact Or.inr (Or.inl ⟨f, new, h2⟩)
    · cases h; exact Or.inl ⟨_, rfl, rfl, attrErr⟩

/-- a failed operation leaves the instance unchanged -/
theorem step_err_unchanged (tbl : List MethodRec) (O : Oracles) (c : ClassOpts)
    (fields : List (String × FieldDecl)) (s s' : Attrs) (op : Op) (e : MErr)
    (htbl : SafeTbl tbl = true) (htop : TopOp op = true)
    (h : step tbl O c fields s op = (s', .err e)) : s' = s := by
  rcases step_cases tbl O c fields s s' op _ htbl htop h with ⟨_, _, h2, _⟩ | ⟨f, v, h2⟩ | ⟨f, h2⟩
  · exact h2
  · exact setattr_err_unchanged O c fields s s' f v e h2
  · exact delitem_err_unchanged c s s' f e h2

/-- a failed operation raises TypeError / ValueError, or the container's IndexError / KeyError
    (AttributeError only when the field holds no value to operate on) -/
theorem step_err_class (tbl : List MethodRec) (O : Oracles) (c : ClassOpts)
    (fields : List (String × FieldDecl)) (s s' : Attrs) (op : Op) (e : MErr)
    (htbl : SafeTbl tbl = true) (htop : TopOp op = true)
    (h : step tbl O c fields s op = (s', .err e)) : AllowedErr e := by
  rcases step_cases tbl O c fields s s' op _ htbl htop h with ⟨e', h1, _, h3⟩ | ⟨f, v, h2⟩ | ⟨f, h2⟩
  · cases h1; exact h3
  · exact setattr_err_class O c fields s s' f v e h2
  · exact delitem_err_class c s s' f e h2

/-- every operation (successful or not) leaves a well-formed instance well-formed -/
theorem step_wf (tbl : List MethodRec) (O : Oracles) (c : ClassOpts)
    (fields : List (String × FieldDecl)) (s s' : Attrs) (op : Op) (out : Outcome)
    (hnd : strNodup (fields.map (·.1)) = true) (hwf : wfFields fields = true)
    (htbl : SafeTbl tbl = true) (htop : TopOp op = true) (hs : WfState O c fields s = true)
    (h : step tbl O c fields s op = (s', out)) : WfState O c fields s' = true := by
  rcases step_cases tbl O c fields s s' op out htbl htop h with ⟨_, _, h2, _⟩ | ⟨f, v, h2⟩ | ⟨f, h2⟩
  · rw [h2]; exact hs
  · cases out with
    | ok => exact setattr_ok_wf O c fields s s' f v hnd hwf hs h2
    | err e => rw [setattr_err_unchanged O c fields s s' f v e h2]; exact hs
  · cases out with
    | ok => exact delitem_ok_wf O c fields s s' f hs h2
    | err e => rw [delitem_err_unchanged c s s' f e h2]; exact hs

/-! ### histories -/

/-- **C03 (validated)**: after any finite history of top-level operations, failed ones included,
    the instance is well-formed -/
theorem run_wellformed (tbl : List MethodRec) (O : Oracles) (c : ClassOpts)
    (fields : List (String × FieldDecl))
    (hnd : strNodup (fields.map (·.1)) = true) (hwf : wfFields fields = true)
    (htbl : SafeTbl tbl = true) :
    ∀ (ops : List Op) (s : Attrs), ops.all TopOp = true → WfState O c fields s = true →
      WfState O c fields (run tbl O c fields s ops).1 = true
  | [], s, _, hs => by simpa [run] using hs
  | op :: rest, s, hops, hs => by
    simp only [List.all_cons, and_true_iff] at hops
    simp only [run]
    exact run_wellformed tbl O c fields hnd hwf htbl rest _ hops.2
      (step_wf tbl O c fields s _ op _ hnd hwf htbl hops.1 hs rfl)

/-- the states before and after the `i`-th operation of a history -/
def stateAt (tbl : List MethodRec) (O : Oracles) (c : ClassOpts) (fields : List (String × FieldDecl))
    (s : Attrs) (ops : List Op) (i : Nat) : Attrs :=
  (run tbl O c fields s (ops.take i)).1

/-- **C03 (failure-atomic)**: in any history, an operation that fails leaves the instance exactly
    as it was before that operation -/
theorem run_failures_atomic (tbl : List MethodRec) (O : Oracles) (c : ClassOpts)
    (fields : List (String × FieldDecl)) (htbl : SafeTbl tbl = true) (s : Attrs) (ops : List Op)
    (hops : ops.all TopOp = true) (i : Nat) (op : Op) (hi : ops[i]? = some op) (e : MErr)
    (h : (step tbl O c fields (stateAt tbl O c fields s ops i) op).2 = .err e) :
    (step tbl O c fields (stateAt tbl O c fields s ops i) op).1 = stateAt tbl O c fields s ops i := by
  have htop : TopOp op = true :=
    (List.all_eq_true.mp hops) op (List.mem_of_getElem? hi)
  exact step_err_unchanged tbl O c fields _ _ op e htbl htop (Prod.ext rfl h)

/-- the table regenerated from the current working tree has no unvalidated mutator -/
theorem tables_ok : SafeTbl Generated.wrappers = true := by decide

/-- for the current tree: every history of top-level operations keeps the instance well-formed -/
theorem run_wellformed_current (O : Oracles) (c : ClassOpts) (fields : List (String × FieldDecl))
    (defaults : List (String × PyVal)) (hw : wfDecl (.struct c fields defaults) = true)
    (ops : List Op) (s : Attrs) (hops : ops.all TopOp = true) (hs : WfState O c fields s = true) :
    WfState O c fields (run Generated.wrappers O c fields s ops).1 = true := by
  simp only [wfDecl, and_true_iff] at hw
  exact run_wellformed Generated.wrappers O c fields hw.1.1 hw.2 tables_ok ops s hops hs

/-! ### non-vacuity and the known finding -/

def exO : Oracles := { reMatch := fun _ _ => true }
def exC : ClassOpts := { name := "A", required := ["a"], addl := false, accepts := ["A"] }
def exFields : List (String × FieldDecl) :=
  [("a", .seqOf .list (.integer { min := some ⟨0, 1⟩ }) { max := some 3 }),
   ("n", .seqOf .list (.seqOf .list (.integer {}) {}) {})]
def exStart : Attrs := [("a", .list [.int 1, .int 2]), ("n", .list [.list [.int 1]])]

theorem machine_example :
    WfState exO exC exFields exStart = true
    ∧ (step Generated.wrappers exO exC exFields exStart (.call "a" (.append (.int 3)))).2 = .ok
    ∧ (step Generated.wrappers exO exC exFields exStart (.call "a" (.append (.int (-1))))).2
        = .err .valueErr
    ∧ (step Generated.wrappers exO exC exFields exStart (.call "a" (.iadd [.int 5, .int 6]))).2
        = .err .valueErr
    ∧ (step Generated.wrappers exO exC exFields exStart (.call "a" (.delitem (.int 7)))).2
        = .err .indexErr
    ∧ (step Generated.wrappers exO exC exFields exStart (.delitem "a")).2 = .err .valueErr := by
  decide

/-- known finding `unvalidated:nested-list.append`: a wrapper nested inside another collection is
    not validated — the full statement (all operations incl. nested wrappers) is false today -/
theorem nested_counterexample :
    (step Generated.wrappers exO exC exFields exStart (.callNested "n" (.int 0) (.append (.str "bad")))).2 = .ok
    ∧ WfState exO exC exFields
        (step Generated.wrappers exO exC exFields exStart (.callNested "n" (.int 0) (.append (.str "bad")))).1
        = false := by
  decide

end Typedpy.C03
