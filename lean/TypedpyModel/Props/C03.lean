/-
  Props/C03.lean — C03: every mutation is validated and failure-atomic.

  `Sem/Mutate.step` interprets attribute assignment, item deletion and every mutating method of
  the typed collection wrappers from the table that extract/wrappers.py regenerates from the
  working tree (`Generated.wrappers`).  If every mutator row is `validated` (overridden and routed
  through a validated assignment) then, for every class typedpy lets you define, every well-formed
  start instance and every finite history of top-level operations (failed ones included):
  the instance stays well-formed (`run_wellformed`) and every failed operation leaves it unchanged
  (`step_err_unchanged`, `run_failures_atomic`), raising only TypeError / ValueError / IndexError /
  KeyError (`step_err_class`).  `tables_ok` discharges the table hypothesis for the current tree.

  Known finding (kernel-checked below): a typed wrapper nested inside another collection is bound
  to a scratch structure, so `x.f[k].append(bad)` is not validated (`nested_counterexample`); the
  full statement including nested wrappers is therefore false of the current code and only the
  top-level part is proved (`…_partial` in the sense of DESIGN §5.1).
-/
import TypedpyModel.Lemmas.MutateLemmas
import TypedpyModel.Props.C01
import TypedpyModel.Generated.Wrappers
namespace Typedpy.C03
open Typedpy

/-- the instance state is well-formed for its class -/
def WfState (O : Oracles) (c : ClassOpts) (fields : List (String × FieldDecl)) (s : Attrs) : Bool :=
  wfAttrs c (fields.map (·.1)) s (fieldsConform O s fields)

/-- every mutator of every wrapper reaches the instance only through a validated assignment -/
def SafeTbl (tbl : List MethodRec) : Bool := tbl.all (·.validated)

/-- operations applied to the instance itself or to the value of one of its fields -/
def TopOp : Op → Bool
  | .callNested _ _ _ => false
  | _ => true

def AllowedErr (e : MErr) : Prop :=
  e = .typeErr ∨ e = .valueErr ∨ e = .both ∨ e = .indexErr ∨ e = .keyErr ∨ e = .other "AttributeError"

theorem wfFields_mem : ∀ (fields : List (String × FieldDecl)), wfFields fields = true →
    ∀ name fd, (name, fd) ∈ fields → wfDecl fd = true
  | [], _, _, _, hm => by simp at hm
  | (n0, f0) :: rest, hw, name, fd, hm => by
    simp only [wfFields, and_true_iff] at hw
    simp only [List.mem_cons] at hm
    rcases hm with hm | hm
    · rw [(Prod.mk.inj hm).2]; exact hw.1
    · exact wfFields_mem rest hw.2 name fd hm

theorem lookup_mem {α} (f : String) (fd : α) : ∀ fields : List (String × α),
    lookup f fields = some fd → (f, fd) ∈ fields
  | [], h => by simp [lookup] at h
  | (k, w) :: rest, h => by
    simp only [lookup] at h
    by_cases hk : (f == k) = true
    · simp only [hk, if_true, Option.some.injEq] at h
      have : f = k := by simpa using hk
      subst this; subst h; simp
    · simp only [hk, Bool.false_eq_true, if_false] at h
      exact List.mem_cons_of_mem _ (lookup_mem f fd rest h)

/-! ### attribute assignment -/

theorem setattr_err_unchanged (O : Oracles) (c : ClassOpts) (fields : List (String × FieldDecl))
    (s s' : Attrs) (f : String) (v : PyVal) (e : MErr)
    (h : setattrStep O c fields s f v = (s', .err e)) : s' = s := by
  unfold setattrStep at h
  repeat' split at h
  all_goals first | (cases h; rfl) | (injection h with h1 h2; cases h2)

theorem validate_err_allowed (O : Oracles) (fd : FieldDecl) (v : PyVal) (e : ErrCls)
    (hv : validate O fd v = .error e) : AllowedErr (MErr.ofErrCls e) := by
  have hs := validate_spec O fd v
  cases ha : admits O fd v
  · rcases hs.2 ha with ⟨e', he, hc⟩
    rw [hv] at he
    cases he
    rcases hc with hc | hc | hc <;> subst hc
    · exact Or.inl rfl
    · exact Or.inr (Or.inl rfl)
    · exact Or.inr (Or.inr (Or.inl rfl))
  · rw [hs.1 ha] at hv; cases hv

theorem setattr_err_class (O : Oracles) (c : ClassOpts) (fields : List (String × FieldDecl))
    (s s' : Attrs) (f : String) (v : PyVal) (e : MErr)
    (h : setattrStep O c fields s f v = (s', .err e)) : AllowedErr e := by
  have hval : AllowedErr .valueErr := Or.inr (Or.inl rfl)
  unfold setattrStep at h
  split at h
  · cases h; exact hval
  · split at h
    · split at h
      · cases h; exact hval
      · split at h <;> (injection h with _ h2; cases h2)
    · rename_i fd hl
      split at h
      · injection h with _ h2; cases h2
      · split at h
        · rename_i e' hv
          cases h
          exact validate_err_allowed O fd v e' hv
        · split at h
          · cases h; exact hval
          · split at h
            · injection h with _ h2; cases h2
            · cases h; exact hval

theorem wfState_assocSet_field (O : Oracles) (c : ClassOpts) (fields : List (String × FieldDecl))
    (s : Attrs) (f : String) (fd : FieldDecl) (v' : PyVal)
    (hnd : strNodup (fields.map (·.1)) = true) (hl : lookup f fields = some fd)
    (hconf : conforms O fd v' = true) (hs : WfState O c fields s = true) :
    WfState O c fields (assocSet f v' s) = true := by
  unfold WfState wfAttrs at hs ⊢
  simp only [and_true_iff] at hs ⊢
  refine ⟨⟨?_, ?_⟩, ?_⟩
  · rw [List.all_eq_true] at *
    intro r hr
    exact lookup_assocSet_isSome f r v' s (hs.1.1 r hr)
  · apply fieldsConform_update O s _ fields _ hs.1.2
    intro name g hm w hw
    cases hnf : (name == f)
    · rw [lookup_assocSet_ne f name v' hnf] at hw; exact Or.inl hw
    · have : name = f := by simpa using hnf
      subst this
      rw [lookup_assocSet_same] at hw
      cases hw
      rw [lookup_mem_unique name fd fields hnd hl g hm]
      exact Or.inr hconf
  · cases hadd : c.addl
    · simp only [hadd, Bool.false_or] at hs ⊢
      exact assocSet_keys (fun k => (fields.map (·.1)).contains k) f v'
        (lookup_some_contains f fd fields hl) s hs.2
    · rfl

theorem wfState_assocSet_extra (O : Oracles) (c : ClassOpts) (fields : List (String × FieldDecl))
    (s : Attrs) (f : String) (v : PyVal) (hadd : c.addl = true) (hl : lookup f fields = none)
    (hs : WfState O c fields s = true) : WfState O c fields (assocSet f v s) = true := by
  unfold WfState wfAttrs at hs ⊢
  simp only [and_true_iff] at hs ⊢
  refine ⟨⟨?_, ?_⟩, by simp [hadd]⟩
  · rw [List.all_eq_true] at *
    intro r hr
    exact lookup_assocSet_isSome f r v s (hs.1.1 r hr)
  · apply fieldsConform_update O s _ fields _ hs.1.2
    intro name g hm w hw
    have hnf : (name == f) = false := by
      cases h : (name == f)
      · rfl
      · have : name = f := by simpa using h
        subst this
        have := lookup_none_of_not_contains name fields
        have hc := mem_names_of_mem name g fields hm
        rw [← lookup_isSome_map, hl] at hc
        cases hc
    rw [lookup_assocSet_ne f name v hnf] at hw; exact Or.inl hw

theorem setattr_ok_wf (O : Oracles) (c : ClassOpts) (fields : List (String × FieldDecl))
    (s s' : Attrs) (f : String) (v : PyVal)
    (hnd : strNodup (fields.map (·.1)) = true) (hwf : wfFields fields = true)
    (hs : WfState O c fields s = true)
    (h : setattrStep O c fields s f v = (s', .ok)) : WfState O c fields s' = true := by
  unfold setattrStep at h
  split at h
  · injection h with _ h2; cases h2
  · split at h
    · rename_i hl
      split at h
      · injection h with _ h2; cases h2
      · rename_i hadd
        split at h
        · cases h; exact hs
        · cases h
          exact wfState_assocSet_extra O c fields s f v (by simpa using hadd) hl hs
    · rename_i fd hl
      split at h
      · cases h; exact hs
      · split at h
        · injection h with _ h2; cases h2
        · rename_i v' hv
          split at h
          · injection h with _ h2; cases h2
          · split at h
            · cases h
              exact wfState_assocSet_field O c fields s f fd v' hnd hl
                (C01.validate_sound O fd v v' (wfFields_mem fields hwf f fd (lookup_mem f fd fields hl)) hv) hs
            · injection h with _ h2; cases h2

/-! ### item deletion -/

theorem delitem_err_unchanged (c : ClassOpts) (s s' : Attrs) (f : String) (e : MErr)
    (h : delitemStep c s f = (s', .err e)) : s' = s := by
  unfold delitemStep at h
  repeat' split at h
  all_goals first | (cases h; rfl) | (injection h with h1 h2; cases h2)

theorem delitem_err_class (c : ClassOpts) (s s' : Attrs) (f : String) (e : MErr)
    (h : delitemStep c s f = (s', .err e)) : AllowedErr e := by
  unfold delitemStep at h
  repeat' split at h
  all_goals first
    | (injection h with h1 h2; cases h2; first
        | exact Or.inr (Or.inl rfl)
        | exact Or.inr (Or.inr (Or.inr (Or.inr (Or.inl rfl)))))
    | (injection h with h1 h2; cases h2)

theorem delitem_ok_wf (O : Oracles) (c : ClassOpts) (fields : List (String × FieldDecl))
    (s s' : Attrs) (f : String) (hs : WfState O c fields s = true)
    (h : delitemStep c s f = (s', .ok)) : WfState O c fields s' = true := by
  unfold delitemStep at h
  split at h
  · injection h with _ h2; cases h2
  · split at h
    · injection h with _ h2; cases h2
    · split at h
      · injection h with _ h2; cases h2
      · rename_i hreq
        split at h
        · injection h with _ h2; cases h2
        · cases h
          unfold WfState wfAttrs at hs ⊢
          simp only [and_true_iff] at hs ⊢
          refine ⟨⟨?_, ?_⟩, ?_⟩
          · rw [List.all_eq_true] at *
            intro r hr
            have hne : (r == f) = false := by
              cases hrf : (r == f)
              · rfl
              · have : r = f := by simpa using hrf
                subst this
                exact absurd (List.contains_iff_mem.mpr hr) hreq
            rw [lookup_assocDel_ne f r hne]; exact hs.1.1 r hr
          · apply fieldsConform_update O s _ fields _ hs.1.2
            intro name g _ w hw
            cases hnf : (name == f)
            · rw [lookup_assocDel_ne f name hnf] at hw; exact Or.inl hw
            · have : name = f := by simpa using hnf
              subst this
              rw [lookup_assocDel_same] at hw; cases hw
          · cases hadd : c.addl
            · simp only [hadd, Bool.false_or] at hs ⊢
              exact assocDel_keys (fun k => (fields.map (·.1)).contains k) f s hs.2
            · rfl

/-! ### wrapper mutators -/

/-- **refinement**: a validated mutator behaves exactly like a validated assignment of the natively
    mutated copy (after the immutability guard and the container's own Index/KeyError) -/
theorem call_refines_setattr (O : Oracles) (c : ClassOpts) (fields : List (String × FieldDecl))
    (s : Attrs) (f kind : String) (r : MethodRec) (m : NOp) (cur : PyVal)
    (hr : r.validated = true) :
    callStep O c fields s f kind r m cur =
      (if r.guarded && (c.immutable || c.immFields.contains f) then (s, .err .valueErr)
       else match applyNative kind m cur with
        | .error e => (s, .err (MErr.ofNErr e))
        | .ok new => if c.immFields.contains f then (s, .err .valueErr)
                     else setattrStep O c fields s f new) := by
  unfold callStep
  simp only [hr, if_true]
  split
  · rfl
  · cases applyNative kind m cur <;> rfl

theorem ofNErr_allowed (e : NErr) : AllowedErr (MErr.ofNErr e) := by
  cases e
  · exact Or.inr (Or.inr (Or.inr (Or.inl rfl)))
  · exact Or.inr (Or.inr (Or.inr (Or.inr (Or.inl rfl))))
  · exact Or.inr (Or.inl rfl)
  · exact Or.inl rfl

theorem call_facts (O : Oracles) (c : ClassOpts) (fields : List (String × FieldDecl))
    (s s' : Attrs) (f kind : String) (r : MethodRec) (m : NOp) (cur : PyVal) (out : Outcome)
    (hr : r.validated = true)
    (h : callStep O c fields s f kind r m cur = (s', out)) :
    (∃ e, out = .err e ∧ s' = s ∧ AllowedErr e) ∨
    (∃ new, setattrStep O c fields s f new = (s', out)) := by
  rw [call_refines_setattr O c fields s f kind r m cur hr] at h
  split at h
  · cases h; exact Or.inl ⟨_, rfl, rfl, Or.inr (Or.inl rfl)⟩
  · split at h
    · cases h; exact Or.inl ⟨_, rfl, rfl, ofNErr_allowed _⟩
    · split at h
      · cases h; exact Or.inl ⟨_, rfl, rfl, Or.inr (Or.inl rfl)⟩
      · exact Or.inr ⟨_, h⟩

/-! ### single step -/

theorem findRec_mem (tbl : List MethodRec) (w m : String) (r : MethodRec)
    (h : findRec tbl w m = some r) : r ∈ tbl := by
  unfold findRec at h
  exact List.mem_of_find?_eq_some h

/-- what one top-level operation can do: fail atomically with an allowed error, or perform a
    validated assignment / a deletion -/
theorem step_cases (tbl : List MethodRec) (O : Oracles) (c : ClassOpts)
    (fields : List (String × FieldDecl)) (s s' : Attrs) (op : Op) (out : Outcome)
    (htbl : SafeTbl tbl = true) (htop : TopOp op = true)
    (h : step tbl O c fields s op = (s', out)) :
    (∃ e, out = .err e ∧ s' = s ∧ AllowedErr e) ∨
    (∃ f v, setattrStep O c fields s f v = (s', out)) ∨
    (∃ f, delitemStep c s f = (s', out)) := by
  cases op with
  | setattr f v => exact Or.inr (Or.inl ⟨f, v, h⟩)
  | delitem f => exact Or.inr (Or.inr ⟨f, h⟩)
  | callNested f k m => simp [TopOp] at htop
  | call f m =>
    simp only [step] at h
    have attrErr : AllowedErr (.other "AttributeError") :=
      Or.inr (Or.inr (Or.inr (Or.inr (Or.inr rfl))))
    split at h
    · rename_i fd cur _ _
      split at h
      · cases h; exact Or.inl ⟨_, rfl, rfl, attrErr⟩
      · rename_i kind _
        split at h
        · cases h; exact Or.inl ⟨_, rfl, rfl, attrErr⟩
        · rename_i r hfind
          have hr : r.validated = true :=
            (List.all_eq_true.mp htbl) r (findRec_mem tbl kind m.name r hfind)
          rcases call_facts O c fields s s' f kind r m cur out hr h with h1 | ⟨new, h2⟩
          · exact Or.inl h1
          · exact Or.inr (Or.inl ⟨f, new, h2⟩)
    · cases h; exact Or.inl ⟨_, rfl, rfl, attrErr⟩

/-- a failed operation leaves the instance unchanged -/
theorem step_err_unchanged (tbl : List MethodRec) (O : Oracles) (c : ClassOpts)
    (fields : List (String × FieldDecl)) (s s' : Attrs) (op : Op) (e : MErr)
    (htbl : SafeTbl tbl = true) (htop : TopOp op = true)
    (h : step tbl O c fields s op = (s', .err e)) : s' = s := by
  rcases step_cases tbl O c fields s s' op _ htbl htop h with ⟨_, _, h2, _⟩ | ⟨f, v, h2⟩ | ⟨f, h2⟩
  · exact h2
  · exact setattr_err_unchanged O c fields s s' f v e h2
  · exact delitem_err_unchanged c s s' f e h2

/-- a failed operation raises TypeError / ValueError, or the container's IndexError / KeyError
    (AttributeError only when the field holds no value to operate on) -/
theorem step_err_class (tbl : List MethodRec) (O : Oracles) (c : ClassOpts)
    (fields : List (String × FieldDecl)) (s s' : Attrs) (op : Op) (e : MErr)
    (htbl : SafeTbl tbl = true) (htop : TopOp op = true)
    (h : step tbl O c fields s op = (s', .err e)) : AllowedErr e := by
  rcases step_cases tbl O c fields s s' op _ htbl htop h with ⟨e', h1, _, h3⟩ | ⟨f, v, h2⟩ | ⟨f, h2⟩
  · cases h1; exact h3
  · exact setattr_err_class O c fields s s' f v e h2
  · exact delitem_err_class c s s' f e h2

/-- every operation (successful or not) leaves a well-formed instance well-formed -/
theorem step_wf (tbl : List MethodRec) (O : Oracles) (c : ClassOpts)
    (fields : List (String × FieldDecl)) (s s' : Attrs) (op : Op) (out : Outcome)
    (hnd : strNodup (fields.map (·.1)) = true) (hwf : wfFields fields = true)
    (htbl : SafeTbl tbl = true) (htop : TopOp op = true) (hs : WfState O c fields s = true)
    (h : step tbl O c fields s op = (s', out)) : WfState O c fields s' = true := by
  rcases step_cases tbl O c fields s s' op out htbl htop h with ⟨_, _, h2, _⟩ | ⟨f, v, h2⟩ | ⟨f, h2⟩
  · rw [h2]; exact hs
  · cases out with
    | ok => exact setattr_ok_wf O c fields s s' f v hnd hwf hs h2
    | err e => rw [setattr_err_unchanged O c fields s s' f v e h2]; exact hs
  · cases out with
    | ok => exact delitem_ok_wf O c fields s s' f hs h2
    | err e => rw [delitem_err_unchanged c s s' f e h2]; exact hs

/-! ### histories -/

/-- **C03 (validated)**: after any finite history of top-level operations, failed ones included,
    the instance is well-formed -/
theorem run_wellformed (tbl : List MethodRec) (O : Oracles) (c : ClassOpts)
    (fields : List (String × FieldDecl))
    (hnd : strNodup (fields.map (·.1)) = true) (hwf : wfFields fields = true)
    (htbl : SafeTbl tbl = true) :
    ∀ (ops : List Op) (s : Attrs), ops.all TopOp = true → WfState O c fields s = true →
      WfState O c fields (run tbl O c fields s ops).1 = true
  | [], s, _, hs => by simpa [run] using hs
  | op :: rest, s, hops, hs => by
    simp only [List.all_cons, and_true_iff] at hops
    simp only [run]
    exact run_wellformed tbl O c fields hnd hwf htbl rest _ hops.2
      (step_wf tbl O c fields s _ op _ hnd hwf htbl hops.1 hs rfl)

/-- the states before and after the `i`-th operation of a history -/
def stateAt (tbl : List MethodRec) (O : Oracles) (c : ClassOpts) (fields : List (String × FieldDecl))
    (s : Attrs) (ops : List Op) (i : Nat) : Attrs :=
  (run tbl O c fields s (ops.take i)).1

/-- **C03 (failure-atomic)**: in any history, an operation that fails leaves the instance exactly
    as it was before that operation -/
theorem run_failures_atomic (tbl : List MethodRec) (O : Oracles) (c : ClassOpts)
    (fields : List (String × FieldDecl)) (htbl : SafeTbl tbl = true) (s : Attrs) (ops : List Op)
    (hops : ops.all TopOp = true) (i : Nat) (op : Op) (hi : ops[i]? = some op) (e : MErr)
    (h : (step tbl O c fields (stateAt tbl O c fields s ops i) op).2 = .err e) :
    (step tbl O c fields (stateAt tbl O c fields s ops i) op).1 = stateAt tbl O c fields s ops i := by
  have htop : TopOp op = true :=
    (List.all_eq_true.mp hops) op (List.mem_of_getElem? hi)
  exact step_err_unchanged tbl O c fields _ _ op e htbl htop (Prod.ext rfl h)

/-- the table regenerated from the current working tree has no unvalidated mutator -/
theorem tables_ok : SafeTbl Generated.wrappers = true := by decide

/-- for the current tree: every history of top-level operations keeps the instance well-formed -/
theorem run_wellformed_current (O : Oracles) (c : ClassOpts) (fields : List (String × FieldDecl))
    (defaults : List (String × PyVal)) (hw : wfDecl (.struct c fields defaults) = true)
    (ops : List Op) (s : Attrs) (hops : ops.all TopOp = true) (hs : WfState O c fields s = true) :
    WfState O c fields (run Generated.wrappers O c fields s ops).1 = true := by
  simp only [wfDecl, and_true_iff] at hw
  exact run_wellformed Generated.wrappers O c fields hw.1.1 hw.2 tables_ok ops s hops hs

/-! ### nested wrappers, both bindings (`stepB`)

  `bound = false`: the code today — a nested wrapper is bound to the scratch structure, so its
  validated assignment goes nowhere and only a `super()` call acts (in place, unvalidated).
  `bound = true`: the proposed repair — the nested wrapper re-assigns its parent.
  Failure-atomicity and the error classes hold for EVERY operation under both bindings; the
  well-formedness invariant holds for every operation when bound, and when unbound for every
  operation except a nested call whose table row makes an in-place native call (`OpOk`). -/

/-- the row lets a scratch-bound nested wrapper do nothing at all: overridden, no in-place native call -/
def InertRow (r : MethodRec) : Bool := r.overridden && !r.superCall

/-- the table row a nested call is dispatched to -/
def nestedRow (tbl : List MethodRec) (fields : List (String × FieldDecl)) : Op → Option MethodRec
  | .callNested f k m =>
    (lookup f fields).bind fun fd => (elemDecl fd k).bind fun ed =>
      (wrapperKind ed).bind fun kind => findRec tbl kind m.name
  | _ => none

/-- the operations for which "stays well-formed" is claimed: everything when nested wrappers are
    bound to their parent; today everything except nested calls dispatched to a non-inert row -/
def OpOk (bound : Bool) (tbl : List MethodRec) (fields : List (String × FieldDecl)) (op : Op) : Bool :=
  bound || TopOp op || (match nestedRow tbl fields op with | some r => InertRow r | none => true)

theorem nested_facts (c : ClassOpts) (s s' : Attrs) (f : String) (k : PyVal) (kind : String)
    (r : MethodRec) (m : NOp) (cur elem : PyVal) (out : Outcome)
    (h : nestedStep c s f k kind r m cur elem = (s', out)) :
    (∃ e, out = .err e ∧ s' = s ∧ AllowedErr e) ∨ (out = .ok ∧ (InertRow r = true → s' = s)) := by
  unfold nestedStep at h
  split at h
  · cases h; exact Or.inl ⟨_, rfl, rfl, Or.inr (Or.inl rfl)⟩
  · split at h
    · cases h; exact Or.inl ⟨_, rfl, rfl, ofNErr_allowed _⟩
    · split at h
      · cases h; exact Or.inr ⟨rfl, fun _ => rfl⟩
      · split at h
        · rename_i hcond
          cases h
          refine Or.inr ⟨rfl, fun hi => ?_⟩
          unfold InertRow at hi
          simp only [and_true_iff] at hi
          rcases hi with ⟨h1, h2⟩
          simp [h1] at hcond
          rw [hcond] at h2
          cases h2
        · cases h; exact Or.inr ⟨rfl, fun _ => rfl⟩

theorem nestedBound_facts (O : Oracles) (c : ClassOpts) (fields : List (String × FieldDecl))
    (s s' : Attrs) (f : String) (k : PyVal) (kind : String) (r : MethodRec) (m : NOp)
    (cur elem : PyVal) (out : Outcome) (hr : r.validated = true)
    (h : nestedBoundStep O c fields s f k kind r m cur elem = (s', out)) :
    (∃ e, out = .err e ∧ s' = s ∧ AllowedErr e) ∨
    (∃ new, setattrStep O c fields s f new = (s', out)) := by
  unfold nestedBoundStep at h
  simp only [hr, if_true] at h
  split at h
  · cases h; exact Or.inl ⟨_, rfl, rfl, Or.inr (Or.inl rfl)⟩
  · split at h
    · cases h; exact Or.inl ⟨_, rfl, rfl, ofNErr_allowed _⟩
    · split at h
      · cases h; exact Or.inl ⟨_, rfl, rfl, Or.inr (Or.inl rfl)⟩
      · exact Or.inr ⟨_, h⟩

/-- a hook-running deletion is the plain deletion, or an atomic ValueError (the hook raised) -/
theorem delitemH_facts (dh : Bool) (O : Oracles) (c : ClassOpts) (s s' : Attrs) (f : String)
    (out : Outcome) (h : delitemStepH dh O c s f = (s', out)) :
    delitemStep c s f = (s', out) ∨ (out = .err .valueErr ∧ s' = s) := by
  unfold delitemStepH at h
  split at h
  · split at h
    · rename_i s2 heq
      split at h
      · cases h; exact Or.inl heq
      · cases h; exact Or.inr ⟨rfl, rfl⟩
    · exact Or.inl h
  · exact Or.inl h

/-- a successful hook-running deletion leaves a state the hook accepts -/
theorem delitemH_hook (O : Oracles) (c : ClassOpts) (s s' : Attrs) (f : String)
    (h : delitemStepH true O c s f = (s', .ok)) : O.hookOk s' = true := by
  unfold delitemStepH at h
  simp only [if_true] at h
  split at h
  · split at h
    · rename_i hk; cases h; exact hk
    · injection h with _ h2; cases h2
  · rename_i r hne
    exact absurd h (hne s')

/-- what ONE operation can do, nested calls and both bindings included: fail atomically with an
    allowed error, perform a validated assignment, delete an item, or succeed as a no-op — unless it
    is a nested call dispatched to a non-inert row of a scratch-bound wrapper -/
theorem stepB_cases (bound dh : Bool) (tbl : List MethodRec) (O : Oracles) (c : ClassOpts)
    (fields : List (String × FieldDecl)) (s s' : Attrs) (op : Op) (out : Outcome)
    (htbl : SafeTbl tbl = true) (h : stepB bound dh tbl O c fields s op = (s', out)) :
    (∃ e, out = .err e ∧ s' = s ∧ AllowedErr e) ∨
    (∃ f v, setattrStep O c fields s f v = (s', out)) ∨
    (∃ f, delitemStep c s f = (s', out)) ∨
    (out = .ok ∧ (OpOk bound tbl fields op = true → s' = s)) := by
  have attrErr : AllowedErr (.other "AttributeError") :=
    Or.inr (Or.inr (Or.inr (Or.inr (Or.inr rfl))))
  have idxErr : ∀ (cur k : PyVal), AllowedErr (lookupErr cur k) := by
    have kE : AllowedErr MErr.keyErr := Or.inr (Or.inr (Or.inr (Or.inr (Or.inl rfl))))
    have iE : AllowedErr MErr.indexErr := Or.inr (Or.inr (Or.inr (Or.inl rfl)))
    have tE : AllowedErr MErr.typeErr := Or.inl rfl
    have one : ∀ (cur k : PyVal), AllowedErr (lookupErr1 cur k) := by
      intro cur k
      unfold lookupErr1
      split
      · exact kE
      · split
        · exact iE
        · exact tE
    have path : ∀ (ks : List PyVal) (cur : PyVal), AllowedErr (lookupErrPath cur ks) := by
      intro ks
      induction ks with
      | nil => intro cur; exact iE
      | cons k ks ih =>
        intro cur
        simp only [lookupErrPath]
        split
        · exact ih _
        · exact one cur k
    intro cur k
    unfold lookupErr
    split
    · exact path _ _
    · exact one cur k
  cases op with
  | setattr f v =>
    have : stepB bound dh tbl O c fields s (.setattr f v) = setattrStep O c fields s f v := by
      cases bound <;> rfl
    rw [this] at h; exact Or.inr (Or.inl ⟨f, v, h⟩)
  | delitem f =>
    have : stepB bound dh tbl O c fields s (.delitem f) = delitemStepH dh O c s f := by
      cases bound <;> rfl
    rw [this] at h
    rcases delitemH_facts dh O c s s' f out h with h1 | h1
    · exact Or.inr (Or.inr (Or.inl ⟨f, h1⟩))
    · exact Or.inl ⟨_, h1.1, h1.2, Or.inr (Or.inl rfl)⟩
  | call f m =>
    have : stepB bound dh tbl O c fields s (.call f m) = step tbl O c fields s (.call f m) := by
      cases bound <;> rfl
    rw [this] at h
    rcases step_cases tbl O c fields s s' (.call f m) out htbl rfl h with h1 | h1 | h1
    · exact Or.inl h1
    · exact Or.inr (Or.inl h1)
    · exact Or.inr (Or.inr (Or.inl h1))
  | callNested f k m =>
    cases bound with
    | true =>
      simp only [stepB] at h
      split at h
      · rename_i fd cur _ _
        split at h
        · rename_i ed elem _ _
          split at h
          · cases h; exact Or.inl ⟨_, rfl, rfl, attrErr⟩
          · rename_i kind _
            split at h
            · cases h; exact Or.inl ⟨_, rfl, rfl, attrErr⟩
            · rename_i r hfind
              have hr : r.validated = true :=
                (List.all_eq_true.mp htbl) r (findRec_mem tbl kind m.name r hfind)
              rcases nestedBound_facts O c fields s s' f k kind r m cur elem out hr h with h1 | ⟨new, h2⟩
              · exact Or.inl h1
              · exact Or.inr (Or.inl ⟨f, new, h2⟩)
        · cases h; exact Or.inl ⟨_, rfl, rfl, idxErr _ _⟩
      · cases h; exact Or.inl ⟨_, rfl, rfl, attrErr⟩
    | false =>
      have : stepB false dh tbl O c fields s (.callNested f k m) = step tbl O c fields s (.callNested f k m) := rfl
      rw [this] at h
      simp only [step] at h
      split at h
      · rename_i fd cur hfd _
        split at h
        · rename_i ed elem hed _
          split at h
          · cases h; exact Or.inl ⟨_, rfl, rfl, attrErr⟩
          · rename_i kind hkind
            split at h
            · cases h; exact Or.inl ⟨_, rfl, rfl, attrErr⟩
            · rename_i r hfind
              rcases nested_facts c s s' f k kind r m cur elem out h with h1 | ⟨h1, h2⟩
              · exact Or.inl h1
              · refine Or.inr (Or.inr (Or.inr ⟨h1, fun hok => h2 ?_⟩))
                simpa [OpOk, TopOp, nestedRow, hfd, hed, hkind, hfind] using hok
        · cases h; exact Or.inl ⟨_, rfl, rfl, idxErr _ _⟩
      · cases h; exact Or.inl ⟨_, rfl, rfl, attrErr⟩

/-- **failure-atomic, every operation**: a failed operation — nested calls included, under either
    binding of nested wrappers — leaves the instance unchanged -/
theorem stepB_err_unchanged (bound dh : Bool) (tbl : List MethodRec) (O : Oracles) (c : ClassOpts)
    (fields : List (String × FieldDecl)) (s s' : Attrs) (op : Op) (e : MErr)
    (htbl : SafeTbl tbl = true) (h : stepB bound dh tbl O c fields s op = (s', .err e)) : s' = s := by
  rcases stepB_cases bound dh tbl O c fields s s' op _ htbl h with ⟨_, _, h2, _⟩ | ⟨f, v, h2⟩ | ⟨f, h2⟩ | ⟨h1, _⟩
  · exact h2
  · exact setattr_err_unchanged O c fields s s' f v e h2
  · exact delitem_err_unchanged c s s' f e h2
  · cases h1

theorem stepB_err_class (bound dh : Bool) (tbl : List MethodRec) (O : Oracles) (c : ClassOpts)
    (fields : List (String × FieldDecl)) (s s' : Attrs) (op : Op) (e : MErr)
    (htbl : SafeTbl tbl = true) (h : stepB bound dh tbl O c fields s op = (s', .err e)) : AllowedErr e := by
  rcases stepB_cases bound dh tbl O c fields s s' op _ htbl h with ⟨e', h1, _, h3⟩ | ⟨f, v, h2⟩ | ⟨f, h2⟩ | ⟨h1, _⟩
  · cases h1; exact h3
  · exact setattr_err_class O c fields s s' f v e h2
  · exact delitem_err_class c s s' f e h2
  · cases h1

theorem stepB_wf (bound dh : Bool) (tbl : List MethodRec) (O : Oracles) (c : ClassOpts)
    (fields : List (String × FieldDecl)) (s s' : Attrs) (op : Op) (out : Outcome)
    (hnd : strNodup (fields.map (·.1)) = true) (hwf : wfFields fields = true)
    (htbl : SafeTbl tbl = true) (hop : OpOk bound tbl fields op = true)
    (hs : WfState O c fields s = true)
    (h : stepB bound dh tbl O c fields s op = (s', out)) : WfState O c fields s' = true := by
  rcases stepB_cases bound dh tbl O c fields s s' op out htbl h with ⟨_, _, h2, _⟩ | ⟨f, v, h2⟩ | ⟨f, h2⟩ | ⟨_, h2⟩
  · rw [h2]; exact hs
  · cases out with
    | ok => exact setattr_ok_wf O c fields s s' f v hnd hwf hs h2
    | err e => rw [setattr_err_unchanged O c fields s s' f v e h2]; exact hs
  · cases out with
    | ok => exact delitem_ok_wf O c fields s s' f hs h2
    | err e => rw [delitem_err_unchanged c s s' f e h2]; exact hs
  · rw [h2 hop]; exact hs

def runB (bound dh : Bool) (tbl : List MethodRec) (O : Oracles) (c : ClassOpts)
    (fields : List (String × FieldDecl)) : Attrs → List Op → Attrs × List Outcome
  | s, [] => (s, [])
  | s, op :: rest =>
    let r := stepB bound dh tbl O c fields s op
    let t := runB bound dh tbl O c fields r.1 rest
    (t.1, r.2 :: t.2)

/-- **C03 (validated), nested calls included**: after any finite history of operations in `OpOk`
    the instance is well-formed -/
theorem runB_wellformed (bound dh : Bool) (tbl : List MethodRec) (O : Oracles) (c : ClassOpts)
    (fields : List (String × FieldDecl))
    (hnd : strNodup (fields.map (·.1)) = true) (hwf : wfFields fields = true)
    (htbl : SafeTbl tbl = true) :
    ∀ (ops : List Op) (s : Attrs), ops.all (OpOk bound tbl fields) = true → WfState O c fields s = true →
      WfState O c fields (runB bound dh tbl O c fields s ops).1 = true
  | [], s, _, hs => by simpa [runB] using hs
  | op :: rest, s, hops, hs => by
    simp only [List.all_cons, and_true_iff] at hops
    simp only [runB]
    exact runB_wellformed bound dh tbl O c fields hnd hwf htbl rest _ hops.2
      (stepB_wf bound dh tbl O c fields s _ op _ hnd hwf htbl hops.1 hs rfl)

/-- **C03 (failure-atomic), every history**: whatever the operations (nested calls included, either
    binding), an operation that fails leaves the instance exactly as it was -/
theorem runB_failures_atomic (bound dh : Bool) (tbl : List MethodRec) (O : Oracles) (c : ClassOpts)
    (fields : List (String × FieldDecl)) (htbl : SafeTbl tbl = true) (s : Attrs) (ops : List Op)
    (i : Nat) (op : Op) (_hi : ops[i]? = some op) (e : MErr)
    (h : (stepB bound dh tbl O c fields (runB bound dh tbl O c fields s (ops.take i)).1 op).2 = .err e) :
    (stepB bound dh tbl O c fields (runB bound dh tbl O c fields s (ops.take i)).1 op).1
      = (runB bound dh tbl O c fields s (ops.take i)).1 :=
  stepB_err_unchanged bound dh tbl O c fields _ _ op e htbl (Prod.ext rfl h)

/-- the statement at full strength: EVERY finite history keeps a well-formed instance well-formed -/
def FullStatement (bound dh : Bool) (tbl : List MethodRec) : Prop :=
  ∀ (O : Oracles) (c : ClassOpts) (fields : List (String × FieldDecl)),
    strNodup (fields.map (·.1)) = true → wfFields fields = true →
    ∀ (ops : List Op) (s : Attrs), WfState O c fields s = true →
      WfState O c fields (runB bound dh tbl O c fields s ops).1 = true

/-- with nested wrappers bound to their parent (the proposed repair) the full statement holds -/
theorem full_statement_bound (dh : Bool) (tbl : List MethodRec) (htbl : SafeTbl tbl = true) :
    FullStatement true dh tbl := by
  intro O c fields hnd hwf ops s hs
  refine runB_wellformed true dh tbl O c fields hnd hwf htbl ops s ?_ hs
  rw [List.all_eq_true]; intro op _; rfl

/-- the rows a scratch-bound nested wrapper is not inert on are among the four listed findings
    (`unvalidated:nested-list.append`, `-deque.append`, `-deque.appendleft`, `-dict.__setitem__`);
    re-proved over the regenerated table on every run -/
def nestedFindings : List (String × String) :=
  [("list", "append"), ("deque", "append"), ("deque", "appendleft"), ("dict", "__setitem__")]

theorem nested_exclusion_exact :
    (Generated.nestedBound ||
      Generated.wrappers.all (fun r => InertRow r || nestedFindings.contains (r.wrapper, r.method))) = true := by
  decide

/-- for the current tree: every history whose nested calls avoid the listed findings (no exclusion at
    all once nested wrappers are bound) keeps the instance well-formed -/
theorem runB_wellformed_current (O : Oracles) (c : ClassOpts) (fields : List (String × FieldDecl))
    (defaults : List (String × PyVal)) (hw : wfDecl (.struct c fields defaults) = true)
    (ops : List Op) (s : Attrs)
    (hops : ops.all (OpOk Generated.nestedBound Generated.wrappers fields) = true)
    (hs : WfState O c fields s = true) :
    WfState O c fields (runB Generated.nestedBound Generated.delitemHook Generated.wrappers O c fields s ops).1 = true := by
  simp only [wfDecl, and_true_iff] at hw
  exact runB_wellformed _ _ Generated.wrappers O c fields hw.1.1 hw.2 tables_ok ops s hops hs

/-! ### the class's `__validate__` hook as an invariant

  `Field.__set__` runs the hook after storing and `Structure.__setattr__` rolls back when it raises,
  so every assignment to a declared field keeps "the hook accepts the instance".  Item deletion and
  the assignment of an undeclared attribute do not run the hook (finding `unvalidated:hook:delitem`,
  kernel-checked below), so they are excluded (`HookOp`). -/

theorem setattr_field_hook (O : Oracles) (c : ClassOpts) (fields : List (String × FieldDecl))
    (s s' : Attrs) (f : String) (v : PyVal) (hl : (lookup f fields).isSome = true)
    (h : setattrStep O c fields s f v = (s', .ok)) : s' = s ∨ O.hookOk s' = true := by
  unfold setattrStep at h
  split at h
  · injection h with _ h2; cases h2
  · split at h
    · rename_i hn; rw [hn] at hl; cases hl
    · split at h
      · cases h; exact Or.inl rfl
      · split at h
        · injection h with _ h2; cases h2
        · split at h
          · injection h with _ h2; cases h2
          · split at h
            · rename_i hk; cases h; exact Or.inr hk
            · injection h with _ h2; cases h2

/-- operations that run the hook when they change the instance -/
def HookOp (dh : Bool) (fields : List (String × FieldDecl)) : Op → Bool
  | .setattr f _ => (lookup f fields).isSome
  | .delitem _ => dh          -- only once `__delitem__` runs the hook (proposed repair)
  | _ => true

theorem stepB_hook (bound dh : Bool) (tbl : List MethodRec) (O : Oracles) (c : ClassOpts)
    (fields : List (String × FieldDecl)) (s s' : Attrs) (op : Op) (out : Outcome)
    (htbl : SafeTbl tbl = true) (hh : HookOp dh fields op = true) (hop : OpOk bound tbl fields op = true)
    (hs : O.hookOk s = true) (h : stepB bound dh tbl O c fields s op = (s', out)) :
    O.hookOk s' = true := by
  have fromSet : ∀ f new, (lookup f fields).isSome = true →
      setattrStep O c fields s f new = (s', out) → O.hookOk s' = true := by
    intro f new hl h2
    cases out with
    | err e => rw [setattr_err_unchanged O c fields s s' f new e h2]; exact hs
    | ok =>
      rcases setattr_field_hook O c fields s s' f new hl h2 with h3 | h3
      · rw [h3]; exact hs
      · exact h3
  cases op with
  | setattr f v =>
    have : stepB bound dh tbl O c fields s (.setattr f v) = setattrStep O c fields s f v := by
      cases bound <;> rfl
    rw [this] at h
    exact fromSet f v hh h
  | delitem f =>
    have hd : dh = true := by simpa [HookOp] using hh
    subst hd
    have : stepB bound true tbl O c fields s (.delitem f) = delitemStepH true O c s f := by
      cases bound <;> rfl
    rw [this] at h
    cases out with
    | ok => exact delitemH_hook O c s s' f h
    | err e =>
      rcases delitemH_facts true O c s s' f _ h with h1 | h1
      · rw [delitem_err_unchanged c s s' f e h1]; exact hs
      · rw [h1.2]; exact hs
  | call f m =>
    have : stepB bound dh tbl O c fields s (.call f m) = step tbl O c fields s (.call f m) := by
      cases bound <;> rfl
    rw [this] at h
    simp only [step] at h
    split at h
    · rename_i fd cur hfd _
      split at h
      · cases h; exact hs
      · rename_i kind _
        split at h
        · cases h; exact hs
        · rename_i r hfind
          have hr : r.validated = true :=
            (List.all_eq_true.mp htbl) r (findRec_mem tbl kind m.name r hfind)
          rcases call_facts O c fields s s' f kind r m cur out hr h with ⟨_, _, h2, _⟩ | ⟨new, h2⟩
          · rw [h2]; exact hs
          · exact fromSet f new (by rw [hfd]; rfl) h2
    · cases h; exact hs
  | callNested f k m =>
    cases bound with
    | true =>
      simp only [stepB] at h
      split at h
      · rename_i fd cur hfd _
        split at h
        · split at h
          · cases h; exact hs
          · rename_i kind _
            split at h
            · cases h; exact hs
            · rename_i r hfind
              have hr : r.validated = true :=
                (List.all_eq_true.mp htbl) r (findRec_mem tbl kind m.name r hfind)
              rcases nestedBound_facts O c fields s s' f k kind r m cur _ out hr h with ⟨_, _, h2, _⟩ | ⟨new, h2⟩
              · rw [h2]; exact hs
              · exact fromSet f new (by rw [hfd]; rfl) h2
        · cases h; exact hs
      · cases h; exact hs
    | false =>
      have h' : step tbl O c fields s (.callNested f k m) = (s', out) := h
      simp only [step] at h'
      split at h'
      · rename_i fd cur hfd _
        split at h'
        · rename_i ed elem hed _
          split at h'
          · cases h'; exact hs
          · rename_i kind hkind
            split at h'
            · cases h'; exact hs
            · rename_i r hfind
              rcases nested_facts c s s' f k kind r m cur elem out h' with ⟨_, _, h3, _⟩ | ⟨_, h3⟩
              · rw [h3]; exact hs
              · have hin : InertRow r = true := by
                  simpa [OpOk, TopOp, nestedRow, hfd, hed, hkind, hfind] using hop
                rw [h3 hin]; exact hs
        · cases h'; exact hs
      · cases h'; exact hs

/-- **C03 (hook)**: over any history of hook-running operations the class's `__validate__` hook keeps
    accepting the instance (whatever the hook is: `O.hookOk` is universally quantified) -/
theorem runB_hook_partial (bound dh : Bool) (tbl : List MethodRec) (O : Oracles) (c : ClassOpts)
    (fields : List (String × FieldDecl)) (htbl : SafeTbl tbl = true) :
    ∀ (ops : List Op) (s : Attrs),
      ops.all (fun op => HookOp dh fields op && OpOk bound tbl fields op) = true → O.hookOk s = true →
      O.hookOk (runB bound dh tbl O c fields s ops).1 = true
  | [], s, _, hs => by simpa [runB] using hs
  | op :: rest, s, hops, hs => by
    simp only [List.all_cons, and_true_iff] at hops
    simp only [runB]
    exact runB_hook_partial bound dh tbl O c fields htbl rest _ hops.2
      (stepB_hook bound dh tbl O c fields s _ op _ htbl hops.1.1 hops.1.2 hs rfl)

/-! ### the repaired tree (fix window 1: cbf3b48 nested wrappers re-assign their parent, 613f11f
    `__delitem__` runs the hook).  A `fixed` entry suppresses nothing: should a later change undo a
    repair, the probes flip, these obligations break and the oracle reports the failing history. -/

theorem fixed_nested_bound_today : Generated.nestedBound = true := by decide

theorem fixed_delitem_hook_today : Generated.delitemHook = true := by decide

/-- for the current tree the statement holds at FULL strength: every finite history of operations —
    nested calls at any depth included, no exclusion — keeps a well-formed instance well-formed -/
theorem fixed_full_statement_current :
    FullStatement Generated.nestedBound Generated.delitemHook Generated.wrappers := by
  rw [fixed_nested_bound_today]
  exact full_statement_bound _ _ tables_ok

/-- … and the class's hook keeps accepting the instance over every history of assignments to
    declared fields, deletions and (nested) wrapper mutators -/
theorem fixed_hook_invariant_current (O : Oracles) (c : ClassOpts) (fields : List (String × FieldDecl))
    (ops : List Op) (s : Attrs)
    (hops : ops.all (fun op => match op with | .setattr f _ => (lookup f fields).isSome | _ => true) = true)
    (hs : O.hookOk s = true) :
    O.hookOk (runB Generated.nestedBound Generated.delitemHook Generated.wrappers O c fields s ops).1 = true := by
  refine runB_hook_partial _ _ Generated.wrappers O c fields tables_ok ops s ?_ hs
  rw [List.all_eq_true] at hops ⊢
  intro op hop
  have h1 := hops op hop
  have hb : OpOk Generated.nestedBound Generated.wrappers fields op = true := by
    simp [OpOk, fixed_nested_bound_today]
  rw [hb, Bool.and_true]
  cases op with
  | setattr f v => simpa [HookOp] using h1
  | delitem f => simp [HookOp, fixed_delitem_hook_today]
  | call f m => rfl
  | callNested f k m => rfl

/-! ### kept wrapper references (stale wrappers) -/

/-- **refinement**: a mutator called on a kept reference behaves exactly like a validated assignment
    (to the field the reference is bound to) of the natively mutated copy of the REFERENCE's payload -/
theorem callRef_attrs (bound dh : Bool) (tbl : List MethodRec) (O : Oracles) (c : ClassOpts)
    (fields : List (String × FieldDecl)) (st : MState) (i : Nat) (m : NOp) (w : WRef) (r : MethodRec)
    (hw : st.refs[i]? = some w) (hr : findRec tbl w.kind m.name = some r) :
    ((stepR bound dh tbl O c fields st (.callRef i m)).1.attrs,
      (stepR bound dh tbl O c fields st (.callRef i m)).2)
      = refCallStep O c fields st.attrs w.field w.kind r m w.payload := by
  simp only [stepR, hw, hr]

/-- a mutator called on a kept reference: a validated assignment of the mutated copy of the
    reference's payload, an atomic failure, or (conditional rows on a falsy instance) nothing -/
theorem refCall_facts (O : Oracles) (c : ClassOpts) (fields : List (String × FieldDecl))
    (s s' : Attrs) (f kind : String) (r : MethodRec) (m : NOp) (payload : PyVal) (out : Outcome)
    (hr : r.validated = true)
    (h : refCallStep O c fields s f kind r m payload = (s', out)) :
    (∃ e, out = .err e ∧ s' = s ∧ AllowedErr e) ∨
    (∃ new, setattrStep O c fields s f new = (s', out)) ∨ (out = .ok ∧ s' = s) := by
  unfold refCallStep at h
  split at h
  · split at h
    · cases h; exact Or.inl ⟨_, rfl, rfl, Or.inr (Or.inl rfl)⟩
    · split at h
      · cases h; exact Or.inl ⟨_, rfl, rfl, ofNErr_allowed _⟩
      · cases h; exact Or.inr (Or.inr ⟨rfl, rfl⟩)
  · rcases call_facts O c fields s s' f kind r m payload out hr h with h1 | h1
    · exact Or.inl h1
    · exact Or.inr (Or.inl h1)

/-- what one operation of a history with kept references does to the instance -/
theorem stepR_cases (bound dh : Bool) (tbl : List MethodRec) (O : Oracles) (c : ClassOpts)
    (fields : List (String × FieldDecl)) (st st' : MState) (op : ROp) (out : Outcome)
    (htbl : SafeTbl tbl = true) (h : stepR bound dh tbl O c fields st op = (st', out)) :
    (∃ e, out = .err e ∧ st'.attrs = st.attrs ∧ AllowedErr e) ∨
    (∃ f v, setattrStep O c fields st.attrs f v = (st'.attrs, out)) ∨
    (∃ f, delitemStep c st.attrs f = (st'.attrs, out)) ∨
    (out = .ok ∧ ((match op with | .plain o => OpOk bound tbl fields o | _ => true) = true →
      st'.attrs = st.attrs)) := by
  have attrErr : AllowedErr (.other "AttributeError") :=
    Or.inr (Or.inr (Or.inr (Or.inr (Or.inr rfl))))
  cases op with
  | plain o =>
    simp only [stepR] at h
    cases hres : stepB bound dh tbl O c fields st.attrs o with
    | mk a o2 =>
      rw [hres] at h
      injection h with h1 h2
      subst h2
      have ha' : st'.attrs = a := by rw [← h1]
      rcases stepB_cases bound dh tbl O c fields st.attrs a o o2 htbl hres with ⟨e, he, hs, ha⟩ | h3 | h3 | ⟨h3, h4⟩
      · subst he; subst hs
        refine Or.inl ⟨e, rfl, ?_, ha⟩
        rw [← h1]
      · rw [ha']; exact Or.inr (Or.inl h3)
      · rw [ha']; exact Or.inr (Or.inr (Or.inl h3))
      · rw [ha']; exact Or.inr (Or.inr (Or.inr ⟨h3, h4⟩))
  | take f =>
    simp only [stepR] at h
    split at h
    · split at h
      · split at h
        · cases h; exact Or.inr (Or.inr (Or.inr ⟨rfl, fun _ => rfl⟩))
        · cases h; exact Or.inr (Or.inr (Or.inr ⟨rfl, fun _ => rfl⟩))
      · cases h; exact Or.inl ⟨_, rfl, rfl, attrErr⟩
    · cases h; exact Or.inl ⟨_, rfl, rfl, attrErr⟩
  | assignRef f i =>
    simp only [stepR] at h
    split at h
    · cases h; exact Or.inl ⟨_, rfl, rfl, attrErr⟩
    · rename_i w hw
      split at h
      · cases h; exact Or.inl ⟨_, rfl, rfl, attrErr⟩
      · injection h with h1 h2
        have hc : setattrStep O c fields st.attrs f w.payload = (st'.attrs, out) := by
          rw [← h1, ← h2]
        exact Or.inr (Or.inl ⟨f, w.payload, hc⟩)
  | callRef i m =>
    simp only [stepR] at h
    split at h
    · cases h; exact Or.inl ⟨_, rfl, rfl, attrErr⟩
    · rename_i w hw
      split at h
      · cases h; exact Or.inl ⟨_, rfl, rfl, attrErr⟩
      · rename_i r hfind
        have hr : r.validated = true :=
          (List.all_eq_true.mp htbl) r (findRec_mem tbl w.kind m.name r hfind)
        injection h with h1 h2
        have hc : refCallStep O c fields st.attrs w.field w.kind r m w.payload = (st'.attrs, out) := by
          rw [← h1, ← h2]
        rcases refCall_facts O c fields st.attrs st'.attrs w.field w.kind r m w.payload out hr hc with ⟨e, he, hs, ha⟩ | ⟨new, h3⟩ | ⟨h3, h4⟩
        · refine Or.inl ⟨e, he, ?_, ha⟩
          subst he
          rw [← h1]
          have e2 : (refCallStep O c fields st.attrs w.field w.kind r m w.payload).2 = .err e := by rw [hc]
          have e1 : (refCallStep O c fields st.attrs w.field w.kind r m w.payload).1 = st.attrs := by rw [hc]; exact hs
          simp only [e2, e1]
        · exact Or.inr (Or.inl ⟨_, new, h3⟩)
        · exact Or.inr (Or.inr (Or.inr ⟨h3, fun _ => h4⟩))

/-- a failed operation leaves the instance AND every kept reference unchanged -/
theorem stepR_err_unchanged (bound dh : Bool) (tbl : List MethodRec) (O : Oracles) (c : ClassOpts)
    (fields : List (String × FieldDecl)) (st st' : MState) (op : ROp) (e : MErr)
    (htbl : SafeTbl tbl = true) (h : stepR bound dh tbl O c fields st op = (st', .err e)) :
    st'.attrs = st.attrs := by
  rcases stepR_cases bound dh tbl O c fields st st' op _ htbl h with ⟨_, _, h2, _⟩ | ⟨f, v, h2⟩ | ⟨f, h2⟩ | ⟨h1, _⟩
  · rw [h2]
  · exact setattr_err_unchanged O c fields st.attrs st'.attrs f v e h2
  · exact delitem_err_unchanged c st.attrs st'.attrs f e h2
  · cases h1

def ROpOk (bound : Bool) (tbl : List MethodRec) (fields : List (String × FieldDecl)) : ROp → Bool
  | .plain o => OpOk bound tbl fields o
  | _ => true

theorem stepR_wf (bound dh : Bool) (tbl : List MethodRec) (O : Oracles) (c : ClassOpts)
    (fields : List (String × FieldDecl)) (st st' : MState) (op : ROp) (out : Outcome)
    (hnd : strNodup (fields.map (·.1)) = true) (hwf : wfFields fields = true)
    (htbl : SafeTbl tbl = true) (hop : ROpOk bound tbl fields op = true)
    (hs : WfState O c fields st.attrs = true)
    (h : stepR bound dh tbl O c fields st op = (st', out)) : WfState O c fields st'.attrs = true := by
  rcases stepR_cases bound dh tbl O c fields st st' op out htbl h with ⟨_, _, h2, _⟩ | ⟨f, v, h2⟩ | ⟨f, h2⟩ | ⟨_, h2⟩
  · rw [h2]; exact hs
  · cases out with
    | ok => exact setattr_ok_wf O c fields st.attrs st'.attrs f v hnd hwf hs h2
    | err e => rw [setattr_err_unchanged O c fields st.attrs st'.attrs f v e h2]; exact hs
  · cases out with
    | ok => exact delitem_ok_wf O c fields st.attrs st'.attrs f hs h2
    | err e => rw [delitem_err_unchanged c st.attrs st'.attrs f e h2]; exact hs
  · have : st'.attrs = st.attrs := by
      apply h2
      cases op <;> first | exact hop | rfl
    rw [this]; exact hs

/-- **C03 with kept (possibly stale) wrapper references**: whatever references the caller keeps and
    whenever it uses them, the instance stays well-formed -/
theorem runR_wellformed (bound dh : Bool) (tbl : List MethodRec) (O : Oracles) (c : ClassOpts)
    (fields : List (String × FieldDecl))
    (hnd : strNodup (fields.map (·.1)) = true) (hwf : wfFields fields = true)
    (htbl : SafeTbl tbl = true) :
    ∀ (ops : List ROp) (st : MState), ops.all (ROpOk bound tbl fields) = true →
      WfState O c fields st.attrs = true →
      WfState O c fields (runR bound dh tbl O c fields st ops).1.attrs = true
  | [], st, _, hs => by simpa [runR] using hs
  | op :: rest, st, hops, hs => by
    simp only [List.all_cons, and_true_iff] at hops
    simp only [runR]
    exact runR_wellformed bound dh tbl O c fields hnd hwf htbl rest _ hops.2
      (stepR_wf bound dh tbl O c fields st _ op _ hnd hwf htbl hops.1 hs rfl)

/-! ### non-vacuity and the known finding -/

def exO : Oracles := { reMatch := fun _ _ => true }
def exC : ClassOpts := { name := "A", required := ["a"], addl := false, accepts := ["A"] }
def exFields : List (String × FieldDecl) :=
  [("a", .seqOf .list (.integer { min := some ⟨0, 1⟩ }) { max := some 3 }),
   ("n", .seqOf .list (.seqOf .list (.integer {}) {}) {})]
def exStart : Attrs := [("a", .list [.int 1, .int 2]), ("n", .list [.list [.int 1]])]

theorem machine_example :
    WfState exO exC exFields exStart = true
    ∧ (step Generated.wrappers exO exC exFields exStart (.call "a" (.append (.int 3)))).2 = .ok
    ∧ (step Generated.wrappers exO exC exFields exStart (.call "a" (.append (.int (-1))))).2
        = .err .valueErr
    ∧ (step Generated.wrappers exO exC exFields exStart (.call "a" (.iadd [.int 5, .int 6]))).2
        = .err .valueErr
    ∧ (step Generated.wrappers exO exC exFields exStart (.call "a" (.delitem (.int 7)))).2
        = .err .indexErr
    ∧ (step Generated.wrappers exO exC exFields exStart (.delitem "a")).2 = .err .valueErr := by
  decide

/-- does the regenerated table still make a scratch-bound nested wrapper act in place for this row?
    (the counterexamples below are stated for the tree as it is: they become vacuous — not false —
    when a row loses its `super()` call or nested wrappers get bound to their parent) -/
def liveFinding (wrapper method : String) : Bool :=
  !Generated.nestedBound && (match findRec Generated.wrappers wrapper method with
    | some r => !InertRow r | none => false)

def exFieldsN : List (String × FieldDecl) :=
  [("n", .seqOf .list (.seqOf .list (.integer {}) {}) {}),
   ("q", .seqOf .list (.seqOf .deque (.integer {}) {}) {}),
   ("m", .seqOf .list (.mapOf (.string none none none) (.integer {}) {}) {})]
def exCN : ClassOpts := { name := "A", required := [], addl := false, accepts := ["A"] }
def exStartN : Attrs :=
  [("n", .list [.list [.int 1]]), ("q", .list [.deque [.int 1]]),
   ("m", .list [.dict [(.str "a", .int 1)]])]

/-- an operation succeeds and leaves an instance that violates its declaration -/
def Breaks (op : Op) : Bool :=
  WfState exO exCN exFieldsN exStartN
  && (stepB Generated.nestedBound Generated.delitemHook Generated.wrappers exO exCN exFieldsN exStartN op).2 == .ok
  && !WfState exO exCN exFieldsN (stepB Generated.nestedBound Generated.delitemHook Generated.wrappers exO exCN exFieldsN exStartN op).1

/-- known finding `unvalidated:nested-list.append`: a wrapper nested inside another collection is
    not validated — the full statement (all operations incl. nested wrappers) is false today -/
theorem nested_counterexample :
    liveFinding "list" "append" = true → Breaks (.callNested "n" (.int 0) (.append (.str "bad"))) = true := by
  decide

/-- known finding `unvalidated:nested-deque.append` -/
theorem nested_counterexample_deque_append :
    liveFinding "deque" "append" = true → Breaks (.callNested "q" (.int 0) (.append (.str "bad"))) = true := by
  decide

/-- known finding `unvalidated:nested-deque.appendleft` -/
theorem nested_counterexample_deque_appendleft :
    liveFinding "deque" "appendleft" = true →
      Breaks (.callNested "q" (.int 0) (.appendleft (.str "bad"))) = true := by
  decide

/-- known finding `unvalidated:nested-dict.__setitem__` -/
theorem nested_counterexample_dict_setitem :
    liveFinding "dict" "__setitem__" = true →
      Breaks (.callNested "m" (.int 0) (.setitem (.str "b") (.str "bad"))) = true := by
  decide

/-- the full statement is false of a table that has a non-inert row when nested wrappers are
    scratch-bound (the table of the pinned tree; the four findings) -/
def pinnedAppend : List MethodRec :=
  [{ wrapper := "list", method := "append", overridden := true, guard := true, reassign := true, superCall := true }]

theorem full_statement_unbound_false : ¬ FullStatement false false pinnedAppend := by
  intro h
  have := h exO exCN exFieldsN (by decide) (by decide)
    [.callNested "n" (.int 0) (.append (.str "bad"))] exStartN (by decide)
  revert this
  decide

/-- with nested wrappers bound to their parent the same call is rejected and nothing changes;
    a well-typed nested call is applied (today it would be silently lost for `insert`) -/
theorem nested_bound_example :
    (stepB true false Generated.wrappers exO exCN exFieldsN exStartN
        (.callNested "n" (.int 0) (.append (.str "bad")))).2 = .err .typeErr
    ∧ (match (stepB true false Generated.wrappers exO exCN exFieldsN exStartN
        (.callNested "n" (.int 0) (.insert 0 (.int 7)))) with
        | (("n", .list [.list [.int 7, .int 1]]) :: _, .ok) => true | _ => false) = true
    ∧ (match (stepB false false Generated.wrappers exO exCN exFieldsN exStartN
        (.callNested "n" (.int 0) (.insert 0 (.int 7)))) with
        | (("n", .list [.list [.int 1]]) :: _, .ok) => true | _ => false) = true := by
  decide

/-- nesting depth 2 (`x.d[0][0].append(v)`, the path is the key `.list [0, 0]`): scratch-bound today —
    in place and unvalidated for `append`, silently lost for `insert`; validated once bound -/
def exFieldsD : List (String × FieldDecl) :=
  [("d", .seqOf .list (.seqOf .list (.seqOf .list (.integer {}) {}) {}) {})]
def exStartD : Attrs := [("d", .list [.list [.list [.int 1]]])]

theorem nested_depth2_example :
    (match (stepB false false Generated.wrappers exO exCN exFieldsD exStartD
        (.callNested "d" (.list [.int 0, .int 0]) (.insert 0 (.int 7)))) with
      | ([("d", .list [.list [.list [.int 1]]])], .ok) => true | _ => false) = true
    ∧ (match (stepB true false Generated.wrappers exO exCN exFieldsD exStartD
        (.callNested "d" (.list [.int 0, .int 0]) (.insert 0 (.int 7)))) with
      | ([("d", .list [.list [.list [.int 7, .int 1]]])], .ok) => true | _ => false) = true
    ∧ (stepB true false Generated.wrappers exO exCN exFieldsD exStartD
        (.callNested "d" (.list [.int 0, .int 0]) (.append (.str "bad")))).2 = .err .typeErr
    ∧ (stepB false false Generated.wrappers exO exCN exFieldsD exStartD
        (.callNested "d" (.list [.int 0, .int 3]) (.append (.int 1)))).2 = .err .indexErr := by
  decide

/-- a kept reference that went stale: `w = x.a; x.a = [0, 0, 0]; w.append(3)` assigns the
    REFERENCE's content plus 3 (validated; the intermediate assignment is overwritten), and an
    ill-typed append through the stale reference is rejected leaving everything as it was -/
theorem stale_reference_example :
    (match (runR false false Generated.wrappers exO exC exFields { attrs := exStart }
        [.take "a", .plain (.setattr "a" (.list [.int 0, .int 0, .int 0])), .callRef 0 (.append (.int 3)),
         .callRef 0 (.append (.int (-1)))]) with
      | (⟨("a", .list [.int 1, .int 2, .int 3]) :: _, [⟨"a", "list", .list [.int 1, .int 2, .int 3], _⟩], _, _⟩,
          [.ok, .ok, .ok, .err .valueErr]) => true
      | _ => false) = true := by
  decide

/-- slices and `sort(key=, reverse=)` go through the same validated assignment -/
theorem slice_sort_example :
    (match (run Generated.wrappers exO exC exFields exStart
        [.call "a" (.setslice (some 0) (some 1) none [.int 5, .int 6]),      -- [5, 6, 2]
         .call "a" (.setslice none none none [.int 1, .int 2, .int 3, .int 4]),  -- maxItems = 3
         .call "a" (.setslice (some 0) (some 1) none [.int (-1)]),            -- minimum = 0
         .call "a" (.sortWith "neg" false),                                     -- [6, 5, 2]
         .call "a" (.delslice none none (some 2)),                              -- [5]
         .call "a" (.setslice none none (some (-1)) [.int 1, .int 2])]) with   -- size mismatch
      | (("a", .list [.int 5]) :: _, [.ok, .err .valueErr, .err .valueErr, .ok, .ok, .err .valueErr]) => true
      | _ => false) = true := by
  decide

/-- the hook of the counterexample: "field `a` must be set" -/
def exOHook : Oracles := { reMatch := fun _ _ => true, hookOk := fun st => (lookup "a" st).isSome }
def exCOpt : ClassOpts := { name := "A", required := [], addl := false, accepts := ["A"] }

/-- finding `unvalidated:hook:delitem`: `del x[f]` does not run `__validate__` — the deletion
    succeeds and leaves an instance its own hook rejects -/
theorem delitem_skips_hook :
    exOHook.hookOk exStart = true
    ∧ (step Generated.wrappers exOHook exCOpt exFields exStart (.delitem "a")).2 = .ok
    ∧ exOHook.hookOk (step Generated.wrappers exOHook exCOpt exFields exStart (.delitem "a")).1 = false
    -- … and with the hook-running deletion the same operation is refused atomically
    ∧ (stepB false true Generated.wrappers exOHook exCOpt exFields exStart (.delitem "a")).2 = .err .valueErr := by
  decide

end Typedpy.C03
