/-
  Props/C03.lean — property theorems for C03 (stub; to be filled in).
-/
namespace Typedpy.C03
end Typedpy.C03
