/-
  Props/C13.lean — property theorems for C13 (stub; to be filled in).
-/
namespace Typedpy.C13
end Typedpy.C13
