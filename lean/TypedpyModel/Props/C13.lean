/-
  Props/C13.lean — C13: equivalent declaration syntaxes produce behaviourally identical classes.

  Statement (full strength, `C13_statement`): for any two class bodies that declare the same fields,
  each field in any of its documented spellings (relation `ClassSame` / `FieldSame` / `SameMeaning`:
  annotation vs assignment, field class vs instance, builtin / typing / PEP-585 / PEP-604 vs typedpy
  fields at every nesting depth, Structure classes as field types, one- and two-element tuples, `X | 529`,
  `= v` vs `default=v`, default factories, `Optional[T]` vs `AnyOf[T, None]` + `_optional`), evaluated, quoted or
  future-import annotations at module / function / nested scope, the class statements have the same outcome
  (same exception class, or classes with the same fields, `_required`, defaults) and the classes
  accept / reject / normalise every keyword-argument list identically.

  The code still violates the full statement where open findings are listed (a falsy invalid `default=` is not
  validated; typing's own de-duplication of `Union[int, int]` changes the error class; string annotations whose names
  live in an enclosing function; mutable defaults - oracle-only), each modelled one with a kernel-checked counterexample
  below (`counterexample_*`).  Findings repaired in typedpy (PEP-604 unions of plain types dropped / rejected,
  `Field | None`, `Field | list[int]`, long annotations under the future import: b6795f9; tuple single class 0808c66;
  factory once d1c0173; Structure-first union 1c6af32 and, as item type, 4d54fb6; `Tuple(items=<Structure class>)`
  cdab473; quoted annotations b6495fe) are positive theorems (`fixed_*`): the model, the pinned table and the supported
  region moved with each repair.  Proved: `statement_partial` — the statement on the decidable region `classSupported`,
  which excludes exactly the open findings and undocumented forms; it follows from `elabField_meaning` (model of the
  code = documented meaning, by structural induction over spellings, `Lemmas/Elab.ev_good`) and `sameMeaning_denote`
  (induction on the derivation).  "Behaviourally identical" is the family `same_observation` / `same_behaviour` /
  `same_serialize` / `same_deserialize` / `same_schema` (congruence through Sem/Validate, Sem/Serde, Sem/Deser,
  Sem/Schema).  typing's rewriting of unions: `elaborate_flatten` / `flatten_equiv` / `elabField_flatten` (trees of
  `Union` / `Optional` / PEP 604 `|`, `Lemmas/ElabFlat`) and `union_duplicate_collapses`.  `_required` written out:
  `explicit_required_equiv`.
  All theorems are about `Sem/Elaborate` instantiated with `Pinned.typeMap`; `Props/C13Tie.lean`
  proves that this is the table extracted from the current working tree.
-/
import TypedpyModel.Lemmas.Elab
import TypedpyModel.Lemmas.ElabFlat
import TypedpyModel.Sem.Deser
import TypedpyModel.Sem.Schema
namespace Typedpy.C13
open Typedpy Typedpy.Elab

/-- the pinned table (equal to the regenerated one by `C13Tie.typeMap_pinned`) -/
abbrev tm : TypeMap := Pinned.typeMap

/-! ### the table agrees with the model's derived functions on every modelled atom -/

def headOfDecl : FieldDecl → Option Head
  | .integer _ => some .integer | .string _ _ _ => some .string | .float _ => some .float
  | .boolean => some .boolean | .anything => some .anything
  | .seqAny .list _ => some .array | .seqAny .deque _ => some .deque
  | .setAny false _ => some .set | .setAny true _ => some .immSet
  | .mapAny _ => some .map | .noneF => some (.other "NoneField")
  | _ => none

def objOfAtom : Atom → Obj
  | .noneType => .noneTy
  | a => .ty a

def modelled : Atom → Bool
  | .date | .datetime | .time | .tuple | .tTuple | .tOptional => false
  | _ => true

def probeAgrees (a : Atom) (r : R (Option FieldDecl)) (p : Probe) : Bool :=
  match p with
  | .cls h => !tm.generic a && tm.cbt a == some h
  | .inst h => (match r with | .ok (some d) => headOfDecl d == some h | _ => false)
  | .none => (match r with | .ok none => true | _ => false)
  | .err _ => (match r with | .error _ => true | _ => false)

/-- `get_typing_lib_info`, `Field[·]` and `_or_fields(Integer, ·)` of the model against the probed columns -/
def rowConsistent (r : TMRow) : Bool :=
  probeAgrees r.atom (gtli tm (objOfAtom r.atom)) r.gtli
  && probeAgrees r.atom (someDecl (getItem tm (objOfAtom r.atom))) r.item
  && probeAgrees r.atom
      (bindE (orFields tm (.fcls .integer) (objOfAtom r.atom)) fun o =>
        match o with
        | .finst (.anyOf [_, d]) => .ok (some d)
        | _ => .error (.other "shape")) r.orRight

/-- On every modelled atom of the vocabulary the model's `gtli` / `getItem` / `orFields` return what the
    real `get_typing_lib_info` / `FieldMeta.__getitem__` / `_or_fields` returned when probed. -/
theorem typeMap_columns_consistent : (tm.filter (fun r => modelled r.atom)).all rowConsistent = true := by
  decide

/-! ### elaboration = documented meaning; equivalent spellings elaborate identically -/

/-- the Field a type expression becomes when it is used as a field type (argument of `Array[…]`,
    annotation of a field expression, …) -/
def elaborate (tm : TypeMap) (s : Sp) : R FieldDecl := bindE (ev tm s) (getItem tm)

/-- the Field an annotation becomes through `get_typing_lib_info` -/
def elaborateAnn (tm : TypeMap) (s : Sp) : R (Option FieldDecl) := bindE (ev tm s) (gtli tm)

/-- Equivalent spellings have the same documented meaning (induction on the derivation). -/
theorem sameMeaning_denote {s t : Sp} (h : SameMeaning s t) : denote s = denote t :=
  Elab.sameMeaning_denote h

/-- Every supported spelling, at any nesting depth, elaborates to its documented meaning — both through
    `get_typing_lib_info` (as an annotation) and through `FieldMeta.__getitem__` (as an argument of a typedpy field;
    there a Structure-first PEP 604 union `Owner | …` is excluded: open finding `pep604-structure-first-nested`). -/
theorem elaborate_meaning (s : Sp) (h : supported tm s = true) :
    (itemOk s = true → elaborate tm s = .ok (denote s)) ∧ elaborateAnn tm s = .ok (some (denote s)) := by
  obtain ⟨o, hev, g⟩ := ev_good s h
  exact ⟨fun hi => by simp [elaborate, hev, getItem_good g hi], by simp [elaborateAnn, hev, g.gt]⟩

/-- `SameMeaning s₁ s₂ → elaborate tm s₁ = elaborate tm s₂` on the supported region. -/
theorem elaborate_equiv {s₁ s₂ : Sp} (h : SameMeaning s₁ s₂) (h₁ : supported tm s₁ = true)
    (h₂ : supported tm s₂ = true) :
    (itemOk s₁ = true → itemOk s₂ = true → elaborate tm s₁ = elaborate tm s₂)
    ∧ elaborateAnn tm s₁ = elaborateAnn tm s₂ := by
  refine ⟨fun i₁ i₂ => ?_, ?_⟩
  · rw [(elaborate_meaning s₁ h₁).1 i₁, (elaborate_meaning s₂ h₂).1 i₂, sameMeaning_denote h]
  · rw [(elaborate_meaning s₁ h₁).2, (elaborate_meaning s₂ h₂).2, sameMeaning_denote h]

/-- Field level: the model of `StructMeta.__new__` on one declaration yields the documented field,
    required flag and default (or the documented rejection of an invalid default). -/
theorem elabField_meaning (O : Oracles) (future : Bool) (fs : FieldSp)
    (h : fieldSupported O tm future fs = true) : elabField O tm future fs = fieldMeaning O fs :=
  elabField_meaning' O future fs h

/-- The same field in two spellings (annotation / assignment, `= v` / `default=v`, `Optional` /
    `AnyOf[…, None]` + `_optional`, any equivalent type expression), each with or without the future
    import, elaborates identically. -/
theorem elabField_equiv (O : Oracles) (f₁ f₂ : Bool) {a b : FieldSp} (h : FieldSame a b)
    (ha : fieldSupported O tm f₁ a = true) (hb : fieldSupported O tm f₂ b = true) :
    elabField O tm f₁ a = elabField O tm f₂ b := by
  rw [elabField_meaning O f₁ a ha, elabField_meaning O f₂ b hb, fieldMeaning_same O h]

/-- Class level: any mix of equivalent spellings across the fields of one class gives the same class
    statement outcome. -/
theorem elabClass_equiv (O : Oracles) {c₁ c₂ : ClassSp} (h : ClassSame c₁.fields c₂.fields)
    (hr : c₁.required = c₂.required)
    (h₁ : classSupported O tm c₁ = true) (h₂ : classSupported O tm c₂ = true) :
    elabClass O tm c₁ = elabClass O tm c₂ := by
  simp only [elabClass, elabFields_same O c₁.scope c₂.scope c₁.future c₂.future h h₁ h₂, hr]
  cases he : elabFields O tm c₂.scope c₂.future c₂.fields with
  | error e => rfl
  | ok rs =>
    simp only [bindE_ok]
    exact finishClass_opt_irrelevant _ _ _ rs (elabFields_allField O c₂.scope c₂.future c₂.fields rs h₂ he)

/-- Corollary: same field set (with the same Field per name), same `_required`, same defaults. -/
theorem same_fields_and_required (O : Oracles) {c₁ c₂ : ClassSp} (h : ClassSame c₁.fields c₂.fields)
    (hr : c₁.required = c₂.required)
    (h₁ : classSupported O tm c₁ = true) (h₂ : classSupported O tm c₂ = true)
    {o₁ o₂ : ClassOpts} {fs₁ fs₂ : List (String × FieldDecl)} {ds₁ ds₂ : List (String × PyVal)}
    (e₁ : elabClass O tm c₁ = .ok (.struct o₁ fs₁ ds₁)) (e₂ : elabClass O tm c₂ = .ok (.struct o₂ fs₂ ds₂)) :
    fs₁ = fs₂ ∧ o₁.required = o₂.required ∧ ds₁ = ds₂ := by
  rw [elabClass_equiv O h hr h₁ h₂, e₂] at e₁
  injection e₁ with e
  injection e with eo ef ed
  subst eo ef ed
  exact ⟨rfl, rfl, rfl⟩

/-- everything observable about a class statement and the class it creates: the exception class of the
    definition, else accept / reject (with exception class) / stored normal form of `K(**kw)`
    (`Sem/Validate.construct` is a function of the class declaration) -/
def classBehaviour (O : Oracles) (c : ClassSp) (kw : List (String × PyVal)) : R PyVal :=
  bindE (elabClass O tm c) fun cls => construct O cls kw

/-- Corollary: equivalent class bodies accept, reject (same exception class) and normalise every
    keyword-argument list identically. -/
theorem same_behaviour (O : Oracles) {c₁ c₂ : ClassSp} (h : ClassSame c₁.fields c₂.fields)
    (hr : c₁.required = c₂.required)
    (h₁ : classSupported O tm c₁ = true) (h₂ : classSupported O tm c₂ = true)
    (kw : List (String × PyVal)) : classBehaviour O c₁ kw = classBehaviour O c₂ kw := by
  simp only [classBehaviour, elabClass_equiv O h hr h₁ h₂]

/-! ### "behaviourally identical" as theorems: every operation of the other models is a function of the
    class declaration, so equal declarations give equal results (one congruence theorem per operation) -/

/-- any observation of the class statement's result -/
def observe {α : Type} (O : Oracles) (c : ClassSp) (obs : FieldDecl → R α) : R α :=
  bindE (elabClass O tm c) obs

/-- Congruence, once and for all: equivalent class bodies agree on EVERY observation that is a function of the
    class the statement creates (constructor, serializer, deserializer, schema export, …). -/
theorem same_observation {α : Type} (O : Oracles) {c₁ c₂ : ClassSp} (h : ClassSame c₁.fields c₂.fields)
    (hr : c₁.required = c₂.required)
    (h₁ : classSupported O tm c₁ = true) (h₂ : classSupported O tm c₂ = true) (obs : FieldDecl → R α) :
    observe O c₁ obs = observe O c₂ obs := by
  simp only [observe, elabClass_equiv O h hr h₁ h₂]

/-- `Serializer(K(**kw)).serialize()` (`Sem/Serde.serialize` after `Sem/Validate.construct`) -/
def classSerialize (O : Oracles) (c : ClassSp) (kw : List (String × PyVal)) : R PyVal :=
  observe O c fun cls => bindE (construct O cls kw) fun x => serialize O cls x

/-- `Deserializer(K).deserialize(doc)` (`Sem/Deser.deserialize`) -/
def classDeserialize (O : Oracles) (opts : DeserOpts) (c : ClassSp) (doc : PyVal) : R PyVal :=
  observe O c fun cls => deserialize O opts cls doc

/-- `structure_to_schema(K)` (`Sem/Schema.toSchema`: schema and definitions) -/
def classSchema (O : Oracles) (c : ClassSp) : R (PyVal × Sch.Defs) :=
  observe O c fun cls => .ok (Sch.toSchema cls)

/-- Equivalent class bodies serialize every constructed instance identically. -/
theorem same_serialize (O : Oracles) {c₁ c₂ : ClassSp} (h : ClassSame c₁.fields c₂.fields)
    (hr : c₁.required = c₂.required)
    (h₁ : classSupported O tm c₁ = true) (h₂ : classSupported O tm c₂ = true)
    (kw : List (String × PyVal)) : classSerialize O c₁ kw = classSerialize O c₂ kw :=
  same_observation O h hr h₁ h₂ _

/-- Equivalent class bodies deserialize every document identically (same instance or same exception class). -/
theorem same_deserialize (O : Oracles) (opts : DeserOpts) {c₁ c₂ : ClassSp} (h : ClassSame c₁.fields c₂.fields)
    (hr : c₁.required = c₂.required)
    (h₁ : classSupported O tm c₁ = true) (h₂ : classSupported O tm c₂ = true)
    (doc : PyVal) : classDeserialize O opts c₁ doc = classDeserialize O opts c₂ doc :=
  same_observation O h hr h₁ h₂ _

/-- Equivalent class bodies export the same JSON schema and definitions. -/
theorem same_schema (O : Oracles) {c₁ c₂ : ClassSp} (h : ClassSame c₁.fields c₂.fields)
    (hr : c₁.required = c₂.required)
    (h₁ : classSupported O tm c₁ = true) (h₂ : classSupported O tm c₂ = true) :
    classSchema O c₁ = classSchema O c₂ :=
  same_observation O h hr h₁ h₂ _

/-! ### the full statement, and what is proved of it -/

def fieldNames (r : R FieldDecl) : Option (List String × List String) :=
  match r with
  | .ok (.struct o fs _) => some (fs.map (·.1), o.required)
  | _ => none

/-- C13 at full strength, over the documented spellings -/
def C13_statement : Prop :=
  ∀ (O : Oracles) (c₁ c₂ : ClassSp), ClassSame c₁.fields c₂.fields → c₁.required = c₂.required →
    c₁.fields.all documentedField = true → c₂.fields.all documentedField = true →
    fieldNames (elabClass O tm c₁) = fieldNames (elabClass O tm c₂)
    ∧ ∀ kw, classBehaviour O c₁ kw = classBehaviour O c₂ kw

/-- What holds: the statement restricted to the supported region (`classSupported` excludes exactly
    the known-finding regions and typing's own flattening / de-duplication of unions). -/
theorem statement_partial (O : Oracles) (c₁ c₂ : ClassSp) (h : ClassSame c₁.fields c₂.fields)
    (hr : c₁.required = c₂.required)
    (h₁ : classSupported O tm c₁ = true) (h₂ : classSupported O tm c₂ = true) :
    fieldNames (elabClass O tm c₁) = fieldNames (elabClass O tm c₂)
    ∧ ∀ kw, classBehaviour O c₁ kw = classBehaviour O c₂ kw :=
  ⟨by rw [elabClass_equiv O h hr h₁ h₂], same_behaviour O h hr h₁ h₂⟩

/-! ### former findings (now theorems) and counterexamples for the open ones, checked by the kernel -/

def noRe : Oracles := { reMatch := fun _ _ => false }
def fInt : Sp := .fcls .int
def fStr : Sp := .fcls .str
def annF (ty : Sp) (dflt : DefaultSp := .none) (inOpt : Bool := false) : FieldSp :=
  { name := "a", mode := .ann, ty := ty, dflt := dflt, inOptional := inOpt }
def anyIntStr : FieldDecl := .anyOf [.integer {}, .string none none none]

/-! former findings 1–5 (fixed in typedpy b6795f9): now positive instances -/

/-- `a: int | str`, `a: Union[int, str]` and `a: AnyOf[Integer, String]` declare the same required field
    (was `field-dropped:pep604-plain-union`: the PEP-604 form declared nothing). -/
theorem fixed_pep604_plain :
    SameMeaning (.pipe (.builtin .int) (.builtin .str)) (.anyOf fInt fStr)
    ∧ elabField noRe tm false (annF (.pipe (.builtin .int) (.builtin .str))) = .ok (.field anyIntStr true none)
    ∧ elabField noRe tm false (annF (.anyOf fInt fStr)) = .ok (.field anyIntStr true none)
    ∧ elabField noRe tm false (annF (.union (.builtin .int) (.builtin .str))) = .ok (.field anyIntStr true none)
    ∧ elabField noRe tm false (annF (.pipe (.builtin .int) .noneLit))
        = elabField noRe tm false (annF (.optional (.builtin .int))) :=
  ⟨SameMeaning.alt .pipe .anyOf (SameMeaning.scalar .builtin .cls .int) (SameMeaning.scalar .builtin .cls .str),
   rfl, rfl, rfl, rfl⟩

/-- `a: list[int | str]` = `a: list[Union[int, str]]` (was `definition-error:pep604-plain-union-nested`). -/
theorem fixed_pep604_nested :
    elabField noRe tm false (annF (.pep585 .list (.pipe (.builtin .int) (.builtin .str))))
        = .ok (.field (.seqOf .list anyIntStr {}) true none)
    ∧ elabField noRe tm false (annF (.pep585 .list (.union (.builtin .int) (.builtin .str))))
        = .ok (.field (.seqOf .list anyIntStr {}) true none)
    ∧ elabField noRe tm false (annF (.sub .list (.pipe (.builtin .int) (.builtin .str))))
        = .ok (.field (.seqOf .list anyIntStr {}) true none) :=
  ⟨rfl, rfl, rfl⟩

/-- `a: Integer | None` = `a: AnyOf[Integer, None]` (both with `_optional`) = `a: Optional[int]`
    (was `definition-error:field-pipe-none`). -/
theorem fixed_field_pipe_none :
    elabField noRe tm false (annF (.pipe fInt .noneLit) .none true)
        = .ok (.field (.anyOf [.integer {}, .noneF]) false none)
    ∧ elabField noRe tm false (annF (.anyOf fInt .noneLit) .none true)
        = .ok (.field (.anyOf [.integer {}, .noneF]) false none)
    ∧ elabField noRe tm false (annF (.optional (.builtin .int)))
        = .ok (.field (.anyOf [.integer {}, .noneF]) false none) :=
  ⟨rfl, rfl, rfl⟩

/-- `a: Integer | list[int]` = `a: AnyOf[Integer, list[int]]`, and `Integer | Optional[int]` works
    (was `definition-error:field-pipe-nonconvertible`). -/
theorem fixed_field_pipe_generic :
    elabField noRe tm false (annF (.pipe fInt (.pep585 .list (.builtin .int))))
        = .ok (.field (.anyOf [.integer {}, .seqOf .list (.integer {}) {}]) true none)
    ∧ elabField noRe tm false (annF (.anyOf fInt (.pep585 .list (.builtin .int))))
        = .ok (.field (.anyOf [.integer {}, .seqOf .list (.integer {}) {}]) true none)
    ∧ elabField noRe tm false (annF (.pipe fInt (.optional (.builtin .int))))
        = .ok (.field (.anyOf [.integer {}, .anyOf [.integer {}, .noneF]]) true none) :=
  ⟨rfl, rfl, rfl⟩

/-- `Array[Map[String, Array[Map[String, Array[Integer]]]]]` — 54 characters -/
def longSp : Sp := .sub .list (.mapSub fStr (.sub .list (.mapSub fStr (.sub .list fInt))))

/-- The future import no longer influences elaboration at all (was `field-dropped:future-annotation-50`). -/
theorem elabField_future_irrelevant (O : Oracles) (fs : FieldSp) :
    elabField O tm true fs = elabField O tm false fs := rfl

theorem fixed_future_long :
    annLen longSp = 54
    ∧ elabField noRe tm true (annF longSp)
        = .ok (.field (.seqOf .list (.mapOf (.string none none none)
            (.seqOf .list (.mapOf (.string none none none) (.seqOf .list (.integer {}) {}) {}) {}) {}) {}) true none) :=
  ⟨rfl, rfl⟩

/-! open findings -/

/-- finding `definition-error:falsy-default-kw` — `a: String = 0` is rejected at class definition
    (TypeError: invalid default), `a: String(default=0)` is accepted with the invalid default. -/
theorem counterexample_falsy_default_kw :
    FieldSame (annF fStr (.eq (.int 0) 1)) (annF (.finst .str) (.kw (.int 0) 1))
    ∧ elabField noRe tm false (annF fStr (.eq (.int 0) 1)) = .error .typeErr
    ∧ elabField noRe tm false (annF (.finst .str) (.kw (.int 0) 1))
        = .ok (.field (.string none none none) false (some (.int 0))) :=
  ⟨⟨rfl, SameMeaning.scalar .cls .inst .str, rfl, rfl⟩, rfl, rfl⟩

/-- finding `error-class-differs:typing-union-duplicate` — `typing` collapses `Union[int, int]` to
    `int`, so the class rejects `'x'` with TypeError, while `AnyOf[Integer, Integer]` rejects it with
    ValueError. -/
theorem counterexample_union_duplicate :
    SameMeaning (.union (.builtin .int) (.builtin .int)) (.anyOf fInt fInt)
    ∧ elabField noRe tm false (annF (.union (.builtin .int) (.builtin .int))) = .ok (.field (.integer {}) true none)
    ∧ elabField noRe tm false (annF (.anyOf fInt fInt)) = .ok (.field (.anyOf [.integer {}, .integer {}]) true none)
    ∧ validate noRe (.integer {}) (.str "x") = .error .typeErr
    ∧ validate noRe (.anyOf [.integer {}, .integer {}]) (.str "x") = .error .valueErr :=
  ⟨SameMeaning.alt .union .anyOf (SameMeaning.scalar .builtin .cls .int) (SameMeaning.scalar .builtin .cls .int),
   rfl, rfl, rfl, rfl⟩

/-- The full statement is still false of the model (hence, by correspondence, of the code):
    `a: String = 0` is rejected at class definition, `a: String(default=0)` defines a class. -/
theorem statement_false : ¬ C13_statement := by
  intro h
  have := (h noRe { future := false, fields := [annF fStr (.eq (.int 0) 1)] }
    { future := false, fields := [annF (.finst .str) (.kw (.int 0) 1)] }
    (ClassSame.cons counterexample_falsy_default_kw.1 ClassSame.nil) rfl rfl rfl).1
  revert this
  decide

/-! ### a `None` alternative makes the field optional in EVERY position -/

/-- `a: Union[None, int]`, `a: None | int` and `a = AnyOf[None, Integer]` + `_optional` are the same field
    in three spellings (None FIRST): in the supported region, pairwise `FieldSame`, and all elaborate to the
    same optional (not required) field. -/
theorem none_first_equiv :
    let a : FieldSp := annF (.union .noneLit (.builtin .int))
    let b : FieldSp := annF (.pipe .noneLit (.builtin .int))
    let c : FieldSp := { name := "a", mode := .assign, ty := .anyOf .noneLit fInt, inOptional := true }
    FieldSame a c ∧ FieldSame b c
    ∧ fieldSupported noRe tm true a = true ∧ fieldSupported noRe tm true b = true
    ∧ fieldSupported noRe tm false c = true
    ∧ elabField noRe tm false a = .ok (.field (.anyOf [.noneF, .integer {}]) false none)
    ∧ elabField noRe tm false b = elabField noRe tm false a
    ∧ elabField noRe tm false c = elabField noRe tm false a :=
  ⟨⟨rfl, SameMeaning.alt .union .anyOf SameMeaning.none (SameMeaning.scalar .builtin .cls .int), rfl, rfl⟩,
   ⟨rfl, SameMeaning.alt .pipe .anyOf SameMeaning.none (SameMeaning.scalar .builtin .cls .int), rfl, rfl⟩,
   rfl, rfl, rfl, rfl, rfl, rfl⟩

/-- `_is_optional` is "some option is None", wherever it stands: `Union[int, None, str]` (written
    `Union[Union[int, None], str]`, which `typing` flattens), `int | None | str`, `Union[None, int, str]` and
    `Union[int, Optional[str]]` all declare an optional field (model facts outside the `supported` region,
    which excludes flattened unions; tied to the code by the correspondence suite's directed stream). -/
theorem none_inner_optional :
    elabField noRe tm false (annF (.union (.union (.builtin .int) .noneLit) (.builtin .str)))
        = .ok (.field (.anyOf [.integer {}, .noneF, .string none none none]) false none)
    ∧ elabField noRe tm false (annF (.pipe (.pipe (.builtin .int) .noneLit) (.builtin .str)))
        = .ok (.field (.anyOf [.integer {}, .noneF, .string none none none]) false none)
    ∧ elabField noRe tm false (annF (.union (.union .noneLit (.builtin .int)) (.builtin .str)))
        = .ok (.field (.anyOf [.noneF, .integer {}, .string none none none]) false none)
    ∧ elabField noRe tm false (annF (.union (.builtin .int) (.optional (.builtin .str))))
        = .ok (.field (.anyOf [.integer {}, .string none none none, .noneF]) false none)
    ∧ elabField noRe tm false (annF (.pipe (.optional (.builtin .int)) (.builtin .str)))
        = .ok (.field (.anyOf [.integer {}, .noneF, .string none none none]) false none) :=
  ⟨rfl, rfl, rfl, rfl, rfl⟩

/-- `hasNoneOpt` does not depend on the position of the `None` option. -/
theorem hasNoneOpt_position (pre post : List FieldDecl) : hasNoneOpt (.anyOf (pre ++ .noneF :: post)) = true := by
  simp [hasNoneOpt, isNoneF]

/-! ### the default `= None` -/

/-- `a: Optional[int] = None`, `a: int | None = None` and `a: AnyOf[Integer, None] = None` + `_optional` are
    the same declaration: `= None` is validated but is not a default, and the field stays optional (typing
    detection of the None member is independent of the `=` default).  `a: Integer = None` is rejected. -/
theorem none_default_equiv :
    let a : FieldSp := annF (.optional (.builtin .int)) (.eq .none 4)
    let b : FieldSp := annF (.pipe (.builtin .int) .noneLit) (.eq .none 4)
    let c : FieldSp := annF (.anyOf fInt .noneLit) (.eq .none 4) true
    FieldSame a c ∧ FieldSame b c
    ∧ fieldSupported noRe tm true a = true ∧ fieldSupported noRe tm false b = true
    ∧ fieldSupported noRe tm false c = true
    ∧ elabField noRe tm false a = .ok (.field (.anyOf [.integer {}, .noneF]) false none)
    ∧ elabField noRe tm false b = elabField noRe tm false a
    ∧ elabField noRe tm false c = elabField noRe tm false a
    ∧ elabField noRe tm false (annF (.optional (.builtin .int))) = elabField noRe tm false a
    ∧ elabField noRe tm false (annF fInt (.eq .none 4)) = .error .typeErr :=
  ⟨⟨rfl, SameMeaning.optionalAlt .anyOf (SameMeaning.scalar .builtin .cls .int), rfl, rfl⟩,
   ⟨rfl, SameMeaning.alt .pipe .anyOf (SameMeaning.scalar .builtin .cls .int) SameMeaning.none, rfl, rfl⟩,
   rfl, rfl, rfl, rfl, rfl, rfl, rfl, rfl⟩

/-- `default=None` is the keyword's own default: `a: Integer(default=None)`, `a = Integer(default=None)`, `a: Integer()` and
    `a: Integer` are the same declaration (a required field without default) - unlike `a: Integer = None`, where `None`
    is validated as a value (and refused). -/
theorem default_none_kw_equiv :
    let a : FieldSp := annF (.finst .int) (.kw .none 4)
    let a' : FieldSp := { name := "a", mode := .assign, ty := .finst .int, dflt := .kw .none 4 }
    let b : FieldSp := annF fInt
    FieldSame a b ∧ FieldSame a' b
    ∧ fieldSupported noRe tm false a = true ∧ fieldSupported noRe tm true a' = true
    ∧ elabField noRe tm false a = .ok (.field (.integer {}) true none)
    ∧ elabField noRe tm false a' = elabField noRe tm false a
    ∧ elabField noRe tm false b = elabField noRe tm false a
    ∧ elabField noRe tm false (annF (.lit (.string none (some 3) none) 19) (.kw .none 4) true)
        = .ok (.field (.string none (some 3) none) false none)
    ∧ elabField noRe tm false (annF fInt (.eq .none 4)) = .error .typeErr :=
  ⟨⟨rfl, SameMeaning.scalar .inst .cls .int, rfl, rfl⟩, ⟨rfl, SameMeaning.scalar .inst .cls .int, rfl, rfl⟩,
   rfl, rfl, rfl, rfl, rfl, rfl, rfl⟩

/-! ### default factories -/

/-- A default factory (a callable) is kept as the field's default - evaluated for every instance - whether it
    is given as `a: Integer = f`, `a: Integer(minimum=1) = f`, `a: list[int] = f`, `a: Optional[int] = f` or
    `a = Integer(default=f)`: all are `FieldSame`-compatible, supported and elaborate to the same default. -/
theorem factory_default_equiv :
    let p : PyVal := .int 100
    let a : FieldSp := annF fInt (.eqF p 9)
    let b : FieldSp := { name := "a", mode := .assign, ty := .finst .int, dflt := .kwF p 9 }
    FieldSame a b
    ∧ fieldSupported noRe tm false a = true ∧ fieldSupported noRe tm false b = true
    ∧ elabField noRe tm false a = .ok (.field (.integer {}) false (some factoryTag))
    ∧ elabField noRe tm false b = elabField noRe tm false a
    ∧ elabField noRe tm false (annF (.finst .int) (.eqF p 9)) = elabField noRe tm false a
    ∧ elabField noRe tm false (annF (.pep585 .list (.builtin .int)) (.eqF (.list [.int 1]) 9))
        = .ok (.field (.seqOf .list (.integer {}) {}) false (some factoryTag))
    ∧ elabField noRe tm false (annF (.optional (.builtin .int)) (.eqF p 9))
        = .ok (.field (.anyOf [.integer {}, .noneF]) false (some factoryTag)) :=
  ⟨⟨rfl, SameMeaning.scalar .cls .inst .int, rfl, rfl⟩, rfl, rfl, rfl, rfl, rfl, rfl, rfl⟩

/-- former finding `default-factory-differs:default-factory-once` (fixed in typedpy d1c0173): with a builtin
    CLASS annotation (`a: int = f`, `a: list = f`, `a: Any = f`) the factory used to be called at class
    definition and its product became the shared default; it is now kept, as for `a: Integer = f`. -/
theorem fixed_factory_builtin_class :
    FieldSame (annF (.builtin .int) (.eqF (.int 100) 9)) (annF fInt (.eqF (.int 100) 9))
    ∧ fieldSupported noRe tm false (annF (.builtin .int) (.eqF (.int 100) 9)) = true
    ∧ elabField noRe tm false (annF (.builtin .int) (.eqF (.int 100) 9)) = .ok (.field (.integer {}) false (some factoryTag))
    ∧ elabField noRe tm false (annF fInt (.eqF (.int 100) 9)) = .ok (.field (.integer {}) false (some factoryTag))
    ∧ elabField noRe tm false (annF (.bareBuiltin .list) (.eqF (.list [.int 1]) 9))
        = .ok (.field (.seqAny .list {}) false (some factoryTag))
    ∧ elabField noRe tm false (annF (.builtin .any) (.eqF (.int 100) 9)) = .ok (.field .anything false (some factoryTag)) :=
  ⟨⟨rfl, SameMeaning.scalar .builtin .cls .int, rfl, rfl⟩, rfl, rfl, rfl, rfl, rfl⟩

/-! ### string annotations and the scope of the class statement -/

/-- Evaluated annotations, the future import, and a quoted annotation without the import declare the same
    field whether the class statement stands at module level, inside a function that defines the type names,
    or one function deeper: `elabFieldAt` does not depend on these scopes. -/
theorem scope_irrelevant (O : Oracles) (future : Bool) (fs : FieldSp) :
    elabFieldAt .function O tm future fs = elabFieldAt .module O tm future fs
    ∧ elabFieldAt .nested O tm future fs = elabFieldAt .module O tm future fs := by
  simp [elabFieldAt]

/-- Inside the supported region a string annotation (future import, quoted, or both; of any length) in any
    non-enclosing scope elaborates like the evaluated annotation at module level. -/
theorem string_annotation_equiv (O : Oracles) (sc : Scope) (future : Bool) (fs : FieldSp)
    (h : fieldSupportedAt O tm sc future fs = true) :
    elabFieldAt sc O tm future fs = elabField O tm false { fs with quoted := false } := by
  simp only [fieldSupportedAt, Bool.and_eq_true] at h
  rw [elabFieldAt_eq sc O future fs h.2]
  rfl

/-- the class `a: "Integer"` in a module with the future import, and `a: "<54 characters>"` without it -/
def quotedInt : FieldSp := { name := "a", mode := .ann, ty := fInt, quoted := true }

/-- former finding `field-dropped:quoted-under-future-import` (fixed in typedpy b6495fe) — `a: "Integer"` declares the
    same field with and without `from __future__ import annotations` (the stored text of the string literal is
    evaluated twice). -/
theorem fixed_quoted_future :
    elabFieldAt .module noRe tm false quotedInt = .ok (.field (.integer {}) true none)
    ∧ elabFieldAt .module noRe tm true quotedInt = .ok (.field (.integer {}) true none)
    ∧ elabFieldAt .module noRe tm true (annF fInt) = .ok (.field (.integer {}) true none)
    ∧ fieldSupportedAt noRe tm .nested true quotedInt = true :=
  ⟨rfl, rfl, rfl, rfl⟩

/-- former finding `field-dropped:quoted-annotation-50` (fixed in typedpy b6495fe) — a quoted annotation of 50 or more
    characters (no future import) is evaluated like any other and declares its field. -/
theorem fixed_quoted_50 :
    annLenField { quotedInt with ty := longSp } = 54
    ∧ elabFieldAt .module noRe tm false { quotedInt with ty := longSp } = elabFieldAt .module noRe tm true (annF longSp)
    ∧ elabFieldAt .module noRe tm false (annF longSp) = elabFieldAt .module noRe tm true (annF longSp)
    ∧ elabFieldAt .module noRe tm true (annF longSp) ≠ .ok .dropped := by
  refine ⟨rfl, rfl, rfl, ?_⟩
  intro h
  cases h

/-- finding `definition-error:string-annotation-enclosing-scope` — a string annotation whose type names are
    locals of an ENCLOSING function, not captured by the function containing the class statement, raises
    NameError at class definition (a limitation of string annotations, PEP 563); the evaluated annotation, and
    a string annotation whose names are captured or builtin, work. -/
theorem counterexample_enclosing_scope :
    elabFieldAt .enclosing noRe tm true { annF fInt with unresolved := true } = .error (.other "NameError")
    ∧ elabFieldAt .enclosing noRe tm false { quotedInt with unresolved := true } = .error (.other "NameError")
    ∧ elabFieldAt .enclosing noRe tm false { annF fInt with unresolved := true } = .ok (.field (.integer {}) true none)
    ∧ elabFieldAt .enclosing noRe tm true (annF fInt) = .ok (.field (.integer {}) true none)
    ∧ elabFieldAt .function noRe tm true (annF fInt) = .ok (.field (.integer {}) true none) :=
  ⟨rfl, rfl, rfl, rfl, rfl⟩

/-! ### single-argument tuple forms -/

/-- `t: tuple[int]`, `t: typing.Tuple[int]`, `t: Tuple[Integer]`, `t = Tuple(items=Integer)` and
    `t: Tuple(items=Integer())` all declare the documented "tuple of any number of Integers": a Field class
    given as the single `items` is instantiated (typedpy finding `tuple-single-class`, see known findings). -/
theorem tuple_single_equiv :
    let d : FieldDecl := .tupleOf (.integer {}) false
    SameMeaning (.pep585 .tuple (.builtin .int)) (.call .tuple fInt)
    ∧ elabField noRe tm false (annF (.pep585 .tuple (.builtin .int))) = .ok (.field d true none)
    ∧ elabField noRe tm false (annF (.typingG .tuple (.builtin .int))) = .ok (.field d true none)
    ∧ elabField noRe tm false (annF (.sub .tuple fInt)) = .ok (.field d true none)
    ∧ elabField noRe tm false { name := "a", mode := .assign, ty := .call .tuple fInt } = .ok (.field d true none)
    ∧ elabField noRe tm false (annF (.call .tuple (.finst .int))) = .ok (.field d true none)
    ∧ fieldSupported noRe tm false (annF (.pep585 .tuple (.builtin .int))) = true
    ∧ fieldSupported noRe tm false (annF (.call .tuple fInt)) = true
    ∧ validate noRe d (.tuple [.int 1, .int 2]) = .ok (.tuple [.int 1, .int 2])
    ∧ validate noRe d (.tuple [.str "a"]) = .error .typeErr :=
  ⟨SameMeaning.coll .pep585 .call .tuple (SameMeaning.scalar .builtin .cls .int),
   rfl, rfl, rfl, rfl, rfl, rfl, rfl, rfl, rfl⟩

/-! ### typing's own rewriting of unions: flattening (and, below, de-duplication) -/

/-- Directly nested `Union[…]` / `Optional[…]` / PEP 604 `|` between non-field operands - plain types, `None`, Field
    classes AND typing objects (`List[int] | None`, `int | Optional[str]`) - which `typing` / Python flatten (documented:
    "unions of unions are flattened"): a tree of them over supported, pairwise distinct leaves (operand kinds as Python's
    `|` requires: `Spec/Meaning.pipeKind`) elaborates to the AnyOf of the FLATTENED documented alternatives (`Spec/Meaning.flatAlts`), through the model's `mkUnion` (= typing's flatten + de-duplicate).
    Structural induction over the tree (`Lemmas/ElabFlat`): no depth bound. -/
theorem elaborate_flatten (s : Sp) (ht : isUnionTree s = true) (hl : leavesOk tm s = true)
    (hd : allDistinct (flatObjs tm s) = true) :
    elaborateAnn tm s = .ok (some (.anyOf (flatAlts s))) :=
  elaborateAnn_flatten s ht hl hd

/-- Hence any two bracketings / spellings with the same flattened alternatives are the same annotation:
    `Union[Union[A, B], C]` ~ `Union[A, Union[B, C]]`, `Optional[Union[A, B]]` ~ `Union[A, Union[B, None]]` ~
    `Union[A, Optional[B]]`, with each leaf in any of its own equivalent spellings. -/
theorem flatten_equiv (s t : Sp) (hs : isUnionTree s = true) (ht : isUnionTree t = true)
    (ls : leavesOk tm s = true) (lt : leavesOk tm t = true)
    (ds : allDistinct (flatObjs tm s) = true) (dt : allDistinct (flatObjs tm t) = true)
    (h : flatAlts s = flatAlts t) : elaborateAnn tm s = elaborateAnn tm t :=
  Elab.flatten_equiv s t hs ht ls lt ds dt h

/-- Field level: such an annotation declares the flattened AnyOf; the field is optional iff `None` is among the
    flattened alternatives (in any position, at any nesting depth of the tree) or the name is in `_optional`. -/
theorem elabField_flatten (O : Oracles) (future : Bool) (name : String) (inOpt : Bool) (s : Sp)
    (ht : isUnionTree s = true) (hl : leavesOk tm s = true) (hd : allDistinct (flatObjs tm s) = true) :
    elabField O tm future { name := name, mode := .ann, ty := s, inOptional := inOpt }
      = .ok (.field (.anyOf (flatAlts s)) (!((flatAlts s).any isNoneF || inOpt)) none) := by
  simp [elabField, evTop, ev_flatten s ht hl hd, annField, isFieldObj_treeObj, isSclsObj_treeObj, gtli_flatten s hl hd,
    afterGtli, finishField, hasNoneOpt]

theorem typingArg_treeObj (k : UKind) (l : List Obj) : typingArg (treeObj k l) = treeObj k l := by
  unfold treeObj; split <;> rfl

/-- One level further down: a union tree as the ARGUMENT of a one-argument collection, in the builtin (`list[T]`),
    typing (`List[T]`) and typedpy (`Array[T]`) spelling - the collection of the flattened AnyOf. -/
theorem coll_of_union_tree (c : Coll) (s : Sp) (ht : isUnionTree s = true) (hl : leavesOk tm s = true)
    (hd : allDistinct (flatObjs tm s) = true) :
    elaborateAnn tm (.pep585 c s) = .ok (some (c.ofDecl (.anyOf (flatAlts s))))
    ∧ elaborateAnn tm (.typingG c s) = .ok (some (c.ofDecl (.anyOf (flatAlts s))))
    ∧ elaborateAnn tm (.sub c s) = .ok (some (c.ofDecl (.anyOf (flatAlts s)))) := by
  have hev := ev_flatten s ht hl hd
  have hg := gtli_flatten s hl hd
  have hgi : getItem tm (treeObj (nodeKind s) (flatObjs tm s)) = .ok (.anyOf (flatAlts s)) := getItem_of_gtli' hg
  refine ⟨?_, ?_, ?_⟩
  · simp [elaborateAnn, ev, hev, gtli, cbt_coll, gtliArgs_one _ hg, mkFromArgs, coll_head_ne_anyOf, mkItems_coll, someDecl]
  · simp [elaborateAnn, ev, hev, typingArg_treeObj, gtli, cbt_coll, gtliArgs_one _ hg, mkFromArgs, coll_head_ne_anyOf,
      mkItems_coll, someDecl]
  · simp [elaborateAnn, ev, hev, hgi, mkItems_coll, gtli]

/-- non-vacuity: `Union[Union[int, None], str]`, `Union[int, Union[None, str]]`, `Union[Optional[int], str]`, the PEP 604
    chain `int | None | str`, `int | (None | str)` and the mixed `Optional[int] | str` / `List[int] | None` (a `|` with a
    typing object) are union trees over distinct supported leaves; the first six have the same flattened alternatives
    [Integer, None, String]. -/
theorem flatten_example :
    let s₁ : Sp := .union (.union (.builtin .int) .noneLit) (.builtin .str)
    let s₂ : Sp := .union (.builtin .int) (.union .noneLit fStr)
    let s₃ : Sp := .union (.optional (.finst .int)) (.builtin .str)
    let s₄ : Sp := .pipe (.pipe (.builtin .int) .noneLit) (.builtin .str)
    let s₅ : Sp := .pipe (.builtin .int) (.pipe .noneLit (.builtin .str))
    let s₆ : Sp := .pipe (.optional (.builtin .int)) (.builtin .str)
    let s₇ : Sp := .pipe (.typingG .list (.builtin .int)) .noneLit
    isUnionTree s₄ = true ∧ leavesOk tm s₄ = true ∧ allDistinct (flatObjs tm s₄) = true
    ∧ isUnionTree s₅ = true ∧ leavesOk tm s₅ = true ∧ allDistinct (flatObjs tm s₅) = true
    ∧ isUnionTree s₆ = true ∧ leavesOk tm s₆ = true ∧ allDistinct (flatObjs tm s₆) = true
    ∧ isUnionTree s₇ = true ∧ leavesOk tm s₇ = true ∧ allDistinct (flatObjs tm s₇) = true
    ∧ supported tm s₆ = false ∧ supported tm s₇ = false
    ∧ flatAlts s₄ = flatAlts s₁ ∧ flatAlts s₅ = flatAlts s₁ ∧ flatAlts s₆ = flatAlts s₁
    ∧ elabField noRe tm true (annF s₄) = elabField noRe tm false (annF s₁)
    ∧ elabField noRe tm true (annF s₅) = elabField noRe tm false (annF s₁)
    ∧ elabField noRe tm true (annF s₆) = elabField noRe tm false (annF s₁)
    ∧ elabField noRe tm true (annF s₇) = .ok (.field (.anyOf [.seqOf .list (.integer {}) {}, .noneF]) false none)
    ∧
    isUnionTree s₁ = true ∧ leavesOk tm s₁ = true ∧ allDistinct (flatObjs tm s₁) = true
    ∧ isUnionTree s₂ = true ∧ leavesOk tm s₂ = true ∧ allDistinct (flatObjs tm s₂) = true
    ∧ leavesOk tm s₃ = true ∧ allDistinct (flatObjs tm s₃) = true
    ∧ flatAlts s₁ = [.integer {}, .noneF, .string none none none]
    ∧ flatAlts s₂ = flatAlts s₁ ∧ flatAlts s₃ = flatAlts s₁
    ∧ elabField noRe tm false (annF s₁) = .ok (.field (.anyOf [.integer {}, .noneF, .string none none none]) false none)
    ∧ elabField noRe tm true (annF s₂) = elabField noRe tm false (annF s₁)
    ∧ elabField noRe tm true (annF s₃) = elabField noRe tm false (annF s₁) :=
  ⟨rfl, rfl, rfl, rfl, rfl, rfl, rfl, rfl, rfl, rfl, rfl, rfl, rfl, rfl, rfl, rfl, rfl, rfl, rfl, rfl, rfl,
   rfl, rfl, rfl, rfl, rfl, rfl, rfl, rfl, rfl, rfl, rfl, rfl, rfl, rfl⟩

/-- typing's de-duplication ("redundant arguments are skipped"): for a supported spelling `x` that is not a Field
    INSTANCE and not itself a union, `Union[x, x]` IS `x` - the annotation elaborates to the single field, not to an
    AnyOf (this is what separates it from `AnyOf[X, X]`: finding `typing-union-duplicate`). -/
theorem union_duplicate_collapses (x : Sp) (hs : supported tm x = true) (hu : unionLike x = false)
    (he : ∀ o, ev tm x = .ok o → objEq o o = true) :
    elaborateAnn tm (.union x x) = elaborateAnn tm x := by
  obtain ⟨o, hev, g⟩ := ev_good x hs
  have hm := unionMembers_of_gtli g.gt (g.nu hu)
  simp [elaborateAnn, ev, hev, hm, mkUnion, dedupObj, he o hev]

/-! ### `_required` written out in the class body -/

/-- Writing `_required = [...]` with exactly the names typedpy computes by itself (fields without default that are
    neither listed in `_optional` nor annotated with a union that has a None member) gives the same class as not
    writing it - for every class body whose fields elaborate, whatever their spellings. (`conflictOpt`: typedpy
    refuses a name that is both optional and listed, "optional cannot override prior required"; it cannot happen
    when the field names are distinct.) -/
theorem explicit_required_equiv (O : Oracles) (c : ClassSp) (rs : List (String × FieldRes))
    (h : elabFields O tm c.scope c.future c.fields = .ok rs) (hc : conflictOpt (requiredOf rs) rs = false)
    (hd : conflictDropped (requiredOf rs) (optionalNames c.fields) rs = false) :
    elabClass O tm { c with required := some (requiredOf rs) } = elabClass O tm { c with required := none } := by
  simp only [elabClass, h, bindE_ok, finishClass_explicit _ rs hc hd]

/-- `a: int; b: Optional[str]; c: int = 3`: `_required = ['a']` is the class typedpy computes; `_required = []` makes
    `a` optional as well; a defaulted name listed in `_required` is dropped from it; `_required = ['a', 'b']` is
    refused (ValueError: `b` is optional through its annotation), whereas `b: AnyOf[String, None]` may be listed. -/
theorem explicit_required_example :
    let fa : FieldSp := { name := "a", mode := .ann, ty := .builtin .int }
    let fb : FieldSp := { name := "b", mode := .ann, ty := .optional (.builtin .str) }
    let fb' : FieldSp := { name := "b", mode := .ann, ty := .anyOf fStr .noneLit }
    let fc : FieldSp := { name := "c", mode := .ann, ty := .builtin .int, dflt := .eq (.int 3) 1 }
    let K (req : Option (List String)) (b : FieldSp) : ClassSp := { future := false, fields := [fa, b, fc], required := req }
    fieldNames (elabClass noRe tm (K none fb)) = some (["a", "b", "c"], ["a"])
    ∧ elabClass noRe tm (K (some ["a"]) fb) = elabClass noRe tm (K none fb)
    ∧ fieldNames (elabClass noRe tm (K (some []) fb)) = some (["a", "b", "c"], [])
    ∧ fieldNames (elabClass noRe tm (K (some ["c", "a"]) fb)) = some (["a", "b", "c"], ["a"])
    ∧ elabClass noRe tm (K (some ["a", "b"]) fb) = .error .valueErr
    ∧ fieldNames (elabClass noRe tm (K (some ["a", "b"]) fb')) = some (["a", "b", "c"], ["a", "b"])
    ∧ fieldNames (elabClass noRe tm (K none fb')) = some (["a", "b", "c"], ["a", "b"]) :=
  ⟨rfl, rfl, rfl, rfl, rfl, rfl, rfl⟩

/-! ### field and class level over the union of both proved regions (`classRegionX`) -/

/-- On the union of the two regions - `fieldSupportedAt` (every spelling is its documented `denote`) and the union-tree
    region (nested `Union` / `Optional` / `|`, with no default, a `= v` default or a default factory) - the model of
    `StructMeta.__new__` yields the documented meaning `fieldMeaningX` (flattened where typing flattens). -/
theorem elabField_meaningX (sc : Scope) (O : Oracles) (future : Bool) (fs : FieldSp)
    (h : fieldRegionX O tm sc future fs = true) : elabFieldAt sc O tm future fs = fieldMeaningX O tm fs :=
  elabFieldAt_meaningX sc O future fs h

/-- Class level over the extended region: two class bodies whose fields pairwise have the same name and the same
    documented meaning (`ClassSameX`: includes every `ClassSame` pair and all re-bracketings / re-spellings of nested
    unions) give the same class statement outcome. -/
theorem elabClass_equivX (O : Oracles) {c₁ c₂ : ClassSp} (h : ClassSameX O tm c₁.fields c₂.fields)
    (hr : c₁.required = c₂.required)
    (h₁ : classRegionX O tm c₁ = true) (h₂ : classRegionX O tm c₂ = true) :
    elabClass O tm c₁ = elabClass O tm c₂ := by
  simp only [elabClass, elabFields_sameX O c₁.scope c₂.scope c₁.future c₂.future h h₁ h₂, hr]
  cases he : elabFields O tm c₂.scope c₂.future c₂.fields with
  | error e => rfl
  | ok rs =>
    simp only [bindE_ok]
    exact finishClass_opt_irrelevant _ _ _ rs (elabFields_allFieldX O c₂.scope c₂.future c₂.fields rs h₂ he)

/-- ... and agree on every observation of the class (constructor, Serializer, Deserializer, schema). -/
theorem same_observationX {α : Type} (O : Oracles) {c₁ c₂ : ClassSp} (h : ClassSameX O tm c₁.fields c₂.fields)
    (hr : c₁.required = c₂.required)
    (h₁ : classRegionX O tm c₁ = true) (h₂ : classRegionX O tm c₂ = true) (obs : FieldDecl → R α) :
    observe O c₁ obs = observe O c₂ obs := by
  simp only [observe, elabClass_equivX O h hr h₁ h₂]

/-- `FieldSame` spellings inside the old region are `FieldSameX` (the extended relation loses nothing). -/
theorem fieldSame_sameX (O : Oracles) {a b : FieldSp} (h : FieldSame a b)
    (ha : flatRegion tm a = false) (hb : flatRegion tm b = false) : FieldSameX O tm a b :=
  ⟨h.name, by simp [fieldMeaningX, ha, hb, fieldMeaning_same O h]⟩

/-- non-vacuity: `a: Union[Union[int, None], str] = 7; b: str` (future import) and `a: int | (None | str) = 7; b = String`
    are `ClassSameX`, both in the extended region (the first field outside `fieldSupported`), and construct / serialize
    identically: `K(b='x')` gives `{"a": 7, "b": "x"}`. -/
theorem classX_example :
    let a₁ : FieldSp := { name := "a", mode := .ann, ty := .union (.union (.builtin .int) .noneLit) (.builtin .str), dflt := .eq (.int 7) 1 }
    let a₂ : FieldSp := { name := "a", mode := .ann, ty := .pipe (.builtin .int) (.pipe .noneLit (.builtin .str)), dflt := .eq (.int 7) 1 }
    let b₁ : FieldSp := { name := "b", mode := .ann, ty := .builtin .str }
    let b₂ : FieldSp := { name := "b", mode := .assign, ty := fStr }
    let c₁ : ClassSp := { future := true, fields := [a₁, b₁] }
    let c₂ : ClassSp := { future := false, fields := [a₂, b₂] }
    ClassSameX noRe tm c₁.fields c₂.fields
    ∧ classRegionX noRe tm c₁ = true ∧ classRegionX noRe tm c₂ = true ∧ classSupported noRe tm c₁ = false
    ∧ classSerialize noRe c₁ [("b", .str "x")] = .ok (.dict [(.str "a", .int 7), (.str "b", .str "x")])
    ∧ classSerialize noRe c₂ [("b", .str "x")] = .ok (.dict [(.str "a", .int 7), (.str "b", .str "x")])
    ∧ classBehaviour noRe c₁ [("a", .float ⟨1, 2⟩), ("b", .str "x")] = .error .valueErr :=
  ⟨ClassSameX.cons ⟨rfl, rfl⟩ (ClassSameX.cons ⟨rfl, rfl⟩ ClassSameX.nil), rfl, rfl, rfl, rfl, rfl, rfl⟩

/-- typing's de-duplication at non-adjacent positions and across bracketings, kernel-checked on the model (no general
    theorem: `dedupObj` keeps the FIRST of each group of `==` members): `Union[int, str, int]` and `int | str | int` are
    `Union[int, str]`; `Union[int, Union[str, int]]` as well; `Union[int, Optional[int]]` is `Optional[int]`;
    `Union[list[int], List[int]]` keeps both (a PEP 585 alias and a typing alias are different objects), and
    `Union[Integer(), Integer()]` keeps both Field instances. -/
theorem dedup_examples :
    elabField noRe tm false (annF (.union (.union (.builtin .int) (.builtin .str)) (.builtin .int)))
        = elabField noRe tm false (annF (.union (.builtin .int) (.builtin .str)))
    ∧ elabField noRe tm false (annF (.pipe (.pipe (.builtin .int) (.builtin .str)) (.builtin .int)))
        = elabField noRe tm false (annF (.union (.builtin .int) (.builtin .str)))
    ∧ elabField noRe tm false (annF (.union (.builtin .int) (.union (.builtin .str) (.builtin .int))))
        = elabField noRe tm false (annF (.union (.builtin .int) (.builtin .str)))
    ∧ elabField noRe tm false (annF (.union (.builtin .int) (.optional (.builtin .int))))
        = elabField noRe tm false (annF (.optional (.builtin .int)))
    ∧ elabField noRe tm false (annF (.union (.pep585 .list (.builtin .int)) (.typingG .list (.builtin .int))))
        = .ok (.field (.anyOf [.seqOf .list (.integer {}) {}, .seqOf .list (.integer {}) {}]) true none)
    ∧ elabField noRe tm false (annF (.union (.finst .int) (.finst .int)))
        = .ok (.field (.anyOf [.integer {}, .integer {}]) true none) :=
  ⟨rfl, rfl, rfl, rfl, rfl, rfl⟩

/-! ### Structure classes as field types, two-element tuples -/

/-- the Structure class `class Owner(Structure): name: str` -/
def ownerD : FieldDecl :=
  .struct { name := "Owner", required := ["name"], accepts := ["Owner"] } [("name", .string none none none)] []
def owner : Sp := .scls ownerD 5

/-- A Structure class is a field type in every position, in every spelling: `a: Owner` = `a = Owner`;
    `list[Owner]` ~ `List[Owner]` ~ `Array[Owner]` ~ `Array(items=Owner)`; `Optional[Owner]` ~ `Owner | None` ~
    `AnyOf[Owner, None]` + `_optional`; `Owner | int` ~ `Union[Owner, int]` ~ `AnyOf[Owner, Integer]`; `Integer | Owner`;
    all in the proved region; the field is a reference to the class (accepts its instances only). -/
theorem struct_field_equiv :
    FieldSame (annF owner) { name := "a", mode := .assign, ty := owner }
    ∧ fieldSupported noRe tm true (annF owner) = true
    ∧ fieldSupported noRe tm false { name := "a", mode := .assign, ty := owner } = true
    ∧ elabField noRe tm true (annF owner) = .ok (.field ownerD true none)
    ∧ elabField noRe tm false { name := "a", mode := .assign, ty := owner } = .ok (.field ownerD true none)
    ∧ SameMeaning (.pep585 .list owner) (.call .list owner)
    ∧ fieldSupported noRe tm true (annF (.pep585 .list owner)) = true
    ∧ fieldSupported noRe tm true (annF (.typingG .list owner)) = true
    ∧ fieldSupported noRe tm false (annF (.call .list owner)) = true
    ∧ elabField noRe tm true (annF (.pep585 .list owner)) = .ok (.field (.seqOf .list ownerD {}) true none)
    ∧ elabField noRe tm false (annF (.call .list owner)) = .ok (.field (.seqOf .list ownerD {}) true none)
    ∧ fieldSupported noRe tm true (annF (.optional owner)) = true
    ∧ fieldSupported noRe tm true (annF (.pipe owner .noneLit)) = true
    ∧ fieldSupported noRe tm false (annF (.anyOf owner .noneLit) .none true) = true
    ∧ elabField noRe tm true (annF (.optional owner)) = .ok (.field (.anyOf [ownerD, .noneF]) false none)
    ∧ elabField noRe tm true (annF (.pipe owner .noneLit)) = .ok (.field (.anyOf [ownerD, .noneF]) false none)
    ∧ elabField noRe tm false (annF (.anyOf owner .noneLit) .none true) = .ok (.field (.anyOf [ownerD, .noneF]) false none)
    ∧ fieldSupported noRe tm true (annF (.pipe owner (.builtin .int))) = true
    ∧ elabField noRe tm true (annF (.pipe owner (.builtin .int))) = .ok (.field (.anyOf [ownerD, .integer {}]) true none)
    ∧ elabField noRe tm true (annF (.union owner (.builtin .int))) = .ok (.field (.anyOf [ownerD, .integer {}]) true none)
    ∧ elabField noRe tm true (annF (.pipe fInt owner)) = .ok (.field (.anyOf [.integer {}, ownerD]) true none)
    ∧ validate noRe ownerD (.inst "Owner" [("name", .str "x")]) = .ok (.inst "Owner" [("name", .str "x")])
    ∧ validate noRe ownerD (.dict [(.str "name", .str "x")]) = .error .typeErr :=
  ⟨⟨rfl, SameMeaning.scls ownerD 5 5, rfl, rfl⟩, rfl, rfl, rfl, rfl,
   SameMeaning.coll .pep585 .call .list (SameMeaning.scls ownerD 5 5),
   rfl, rfl, rfl, rfl, rfl, rfl, rfl, rfl, rfl, rfl, rfl, rfl, rfl, rfl, rfl, rfl, rfl⟩

/-- `tuple[int, str]` ~ `typing.Tuple[int, str]` ~ `Tuple[Integer, String]` ~ `Tuple(items=[Integer, String])`
    (annotation or assignment): the documented tuple of exactly that shape; also with a Structure class member. -/
theorem tuple_pair_equiv :
    let d : FieldDecl := .tuplePos [.integer {}, .string none none none] false
    SameMeaning (.tup585 (.builtin .int) (.builtin .str)) (.tupCall fInt fStr)
    ∧ fieldSupported noRe tm true (annF (.tup585 (.builtin .int) (.builtin .str))) = true
    ∧ fieldSupported noRe tm true (annF (.tupTyping (.builtin .int) (.builtin .str))) = true
    ∧ fieldSupported noRe tm false { name := "a", mode := .assign, ty := .tupSub fInt fStr } = true
    ∧ fieldSupported noRe tm false { name := "a", mode := .assign, ty := .tupCall fInt (.finst .str) } = true
    ∧ elabField noRe tm true (annF (.tup585 (.builtin .int) (.builtin .str))) = .ok (.field d true none)
    ∧ elabField noRe tm true (annF (.tupTyping (.builtin .int) (.builtin .str))) = .ok (.field d true none)
    ∧ elabField noRe tm false { name := "a", mode := .assign, ty := .tupSub fInt fStr } = .ok (.field d true none)
    ∧ elabField noRe tm false { name := "a", mode := .assign, ty := .tupCall fInt (.finst .str) } = .ok (.field d true none)
    ∧ fieldSupported noRe tm true (annF (.tup585 (.builtin .int) owner)) = true
    ∧ elabField noRe tm true (annF (.tup585 (.builtin .int) owner))
        = .ok (.field (.tuplePos [.integer {}, ownerD] false) true none)
    ∧ elabField noRe tm true (annF (.tupSub fInt owner))
        = .ok (.field (.tuplePos [.integer {}, ownerD] false) true none)
    ∧ validate noRe d (.tuple [.int 1, .str "a"]) = .ok (.tuple [.int 1, .str "a"])
    ∧ validate noRe d (.tuple [.int 1]) = .error .valueErr
    ∧ validate noRe d (.tuple [.int 1, .int 2]) = .error .typeErr :=
  ⟨SameMeaning.tup .pep585 .call (SameMeaning.scalar .builtin .cls .int) (SameMeaning.scalar .builtin .cls .str),
   rfl, rfl, rfl, rfl, rfl, rfl, rfl, rfl, rfl, rfl, rfl, rfl, rfl, rfl⟩

/-- former finding `definition-error:tuple-items-structure-class` (fixed in typedpy cdab473) — `Tuple(items=Owner)` and
    `Tuple(items=[Integer, Owner])` used to raise TypeError (Tuple.__init__ converted Field classes and instances only);
    they now declare the same field as `Tuple[Owner]`, `tuple[Owner]`, `Tuple[Integer, Owner]`, inside the proved region. -/
theorem fixed_tuple_items_struct :
    SameMeaning (.sub .tuple owner) (.call .tuple owner)
    ∧ SameMeaning (.tupSub fInt owner) (.tupCall fInt owner)
    ∧ fieldSupported noRe tm false (annF (.call .tuple owner)) = true
    ∧ fieldSupported noRe tm false (annF (.tupCall fInt owner)) = true
    ∧ elabField noRe tm false (annF (.sub .tuple owner)) = .ok (.field (.tupleOf ownerD false) true none)
    ∧ elabField noRe tm false (annF (.pep585 .tuple owner)) = .ok (.field (.tupleOf ownerD false) true none)
    ∧ elabField noRe tm false (annF (.call .tuple owner)) = .ok (.field (.tupleOf ownerD false) true none)
    ∧ elabField noRe tm false (annF (.tupSub fInt owner)) = .ok (.field (.tuplePos [.integer {}, ownerD] false) true none)
    ∧ elabField noRe tm false (annF (.tupCall fInt owner)) = .ok (.field (.tuplePos [.integer {}, ownerD] false) true none)
    ∧ elabField noRe tm false (annF (.call .list owner)) = .ok (.field (.seqOf .list ownerD {}) true none) :=
  ⟨SameMeaning.coll .sub .call .tuple (SameMeaning.scls ownerD 5 5),
   SameMeaning.tup .sub .call (SameMeaning.scalar .cls .cls .int) (SameMeaning.scls ownerD 5 5),
   rfl, rfl, rfl, rfl, rfl, rfl, rfl, rfl⟩

/-- former finding `definition-error:pep604-structure-first-nested` (fixed in typedpy 4d54fb6) — a PEP 604 union whose
    FIRST member is a Structure class, used as an argument of a typedpy field (`Array[Owner | None]`,
    `AnyOf[Owner | int, String]`, `Map[String, Owner | None]`), used to raise RecursionError at class definition; it now
    declares the same field as `Array[Optional[Owner]]` / `list[Owner | None]`, and lies in the proved region. -/
theorem fixed_struct_first_nested :
    SameMeaning (.sub .list (.pipe owner .noneLit)) (.sub .list (.optional owner))
    ∧ fieldSupported noRe tm false (annF (.sub .list (.pipe owner .noneLit))) = true
    ∧ elabField noRe tm false (annF (.sub .list (.pipe owner .noneLit)))
        = .ok (.field (.seqOf .list (.anyOf [ownerD, .noneF]) {}) true none)
    ∧ elabField noRe tm false (annF (.anyOf (.pipe owner (.builtin .int)) fStr))
        = .ok (.field (.anyOf [.anyOf [ownerD, .integer {}], .string none none none]) true none)
    ∧ elabField noRe tm false (annF (.mapSub fStr (.pipe owner .noneLit)))
        = .ok (.field (.mapOf (.string none none none) (.anyOf [ownerD, .noneF]) {}) true none)
    ∧ elabField noRe tm false (annF (.sub .list (.optional owner)))
        = .ok (.field (.seqOf .list (.anyOf [ownerD, .noneF]) {}) true none)
    ∧ elabField noRe tm false (annF (.pep585 .list (.pipe owner .noneLit)))
        = .ok (.field (.seqOf .list (.anyOf [ownerD, .noneF]) {}) true none)
    ∧ elabField noRe tm false (annF (.pipe owner .noneLit)) = .ok (.field (.anyOf [ownerD, .noneF]) false none)
    ∧ elabField noRe tm false (annF (.sub .list (.pipe .noneLit owner)))
        = .ok (.field (.seqOf .list (.anyOf [.noneF, ownerD]) {}) true none) :=
  ⟨SameMeaning.coll .sub .sub .list (SameMeaning.altOptional .pipe (SameMeaning.scls ownerD 5 5)),
   rfl, rfl, rfl, rfl, rfl, rfl, rfl, rfl⟩

/-! ### a literal alternative -/

/-- The documented PEP-604 example `a: Integer(maximum=100) | Owner | str | 529` ("a can be assigned any integer up to 100,
    an instance of Owner, a string, the number 529") and `AnyOf[AnyOf[AnyOf[Integer(maximum=100), Owner], String],
    Enum(values=[529])]` are the same declaration, inside the proved region. -/
theorem pipe_literal_equiv :
    let i100 : Sp := .lit (.integer { max := some ⟨100, 1⟩ }) 20
    let chain : Sp := .pipeLit (.pipe (.pipe i100 owner) (.builtin .str)) (.int 529) 3
    let nested : Sp := .anyOf (.anyOf (.anyOf i100 owner) fStr) (.lit (.enumLit [.int 529]) 18)
    let d : FieldDecl := .anyOf [.anyOf [.anyOf [.integer { max := some ⟨100, 1⟩ }, ownerD], .string none none none], .enumLit [.int 529]]
    SameMeaning chain nested
    ∧ fieldSupported noRe tm true (annF chain) = true ∧ fieldSupported noRe tm false (annF nested) = true
    ∧ elabField noRe tm true (annF chain) = .ok (.field d true none)
    ∧ elabField noRe tm false (annF nested) = .ok (.field d true none)
    ∧ elabField noRe tm false { name := "a", mode := .assign, ty := chain } = .ok (.field d true none)
    ∧ validate noRe d (.int 529) = .ok (.int 529)
    ∧ validate noRe d (.int 99) = .ok (.int 99)
    ∧ validate noRe d (.int 530) = .error .valueErr
    ∧ elabField noRe tm false (annF (.pipeLit (.builtin .int) (.int 5) 1)) = .error .typeErr :=
  ⟨SameMeaning.pipeLitAnyOf (.int 529) 3 18
      (SameMeaning.alt .pipe .anyOf
        (SameMeaning.alt .pipe .anyOf (SameMeaning.lit _ 20 20) (SameMeaning.scls ownerD 5 5))
        (SameMeaning.scalar .builtin .cls .str)),
   rfl, rfl, rfl, rfl, rfl, rfl, rfl, rfl, rfl⟩

/-! ### behaviour clause, concretely -/

/-- `a: Optional[list[int]]` (future import) and `a = AnyOf[Array[Integer], None]` + `_optional`: both classes
    are in the proved region and `ClassSame`; constructing with `a=[1, 2]` and serializing gives `{"a": [1, 2]}`
    for both, deserializing `{"a": [1]}` gives the same instance, and a wrong element type is rejected by both. -/
theorem behaviour_example :
    let cA : ClassSp := { future := true, fields := [{ name := "a", mode := .ann, ty := .optional (.pep585 .list (.builtin .int)) }] }
    let cB : ClassSp := { future := false, fields := [{ name := "a", mode := .assign, ty := .anyOf (.sub .list fInt) .noneLit, inOptional := true }] }
    ClassSame cA.fields cB.fields ∧ classSupported noRe tm cA = true ∧ classSupported noRe tm cB = true
    ∧ classSerialize noRe cA [("a", .list [.int 1, .int 2])] = .ok (.dict [(.str "a", .list [.int 1, .int 2])])
    ∧ classSerialize noRe cB [("a", .list [.int 1, .int 2])] = .ok (.dict [(.str "a", .list [.int 1, .int 2])])
    ∧ classDeserialize noRe {} cA (.dict [(.str "a", .list [.int 1])]) = .ok (.inst "K" [("a", .list [.int 1])])
    ∧ classDeserialize noRe {} cB (.dict [(.str "a", .list [.int 1])]) = .ok (.inst "K" [("a", .list [.int 1])])
    ∧ classBehaviour noRe cA [("a", .list [.str "x"])] = .error .valueErr
    ∧ classBehaviour noRe cB [("a", .list [.str "x"])] = .error .valueErr :=
  ⟨ClassSame.cons ⟨rfl, SameMeaning.optionalAlt .anyOf
      (SameMeaning.coll .pep585 .sub .list (SameMeaning.scalar .builtin .cls .int)), rfl, rfl⟩ ClassSame.nil,
   rfl, rfl, rfl, rfl, rfl, rfl, rfl, rfl⟩

/-! ### non-vacuity -/

/-- `a: Optional[list[dict[str, int]]]` (builtins / typing, under the future import),
    `a: list[dict[str, int]] | None` (PEP 604) and `a = AnyOf[Array[Map[String, Integer]], None]` +
    `_optional` (plain assignment): all are in the supported region, pairwise `FieldSame`, and elaborate to
    the same optional nested field. -/
theorem equiv_example :
    let s₁ : Sp := .optional (.pep585 .list (.dict585 (.builtin .str) (.builtin .int)))
    let s₂ : Sp := .anyOf (.sub .list (.mapSub fStr fInt)) .noneLit
    let s₃ : Sp := .pipe (.pep585 .list (.dict585 (.builtin .str) (.builtin .int))) .noneLit
    let a : FieldSp := { name := "a", mode := .ann, ty := s₁ }
    let b : FieldSp := { name := "a", mode := .assign, ty := s₂, inOptional := true }
    let c : FieldSp := { name := "a", mode := .ann, ty := s₃ }
    FieldSame a b ∧ FieldSame c b
    ∧ fieldSupported noRe tm true a = true ∧ fieldSupported noRe tm false b = true
    ∧ fieldSupported noRe tm true c = true
    ∧ elabField noRe tm true a = elabField noRe tm false b
    ∧ elabField noRe tm true c = elabField noRe tm false b
    ∧ elabField noRe tm true a
        = .ok (.field (.anyOf [.seqOf .list (.mapOf (.string none none none) (.integer {}) {}) {}, .noneF]) false none) := by
  have hcoll : SameMeaning (.pep585 .list (.dict585 (.builtin .str) (.builtin .int))) (.sub .list (.mapSub fStr fInt)) :=
    SameMeaning.coll .pep585 .sub .list
      (SameMeaning.dict .pep585 .sub (SameMeaning.scalar .builtin .cls .str) (SameMeaning.scalar .builtin .cls .int))
  exact ⟨⟨rfl, SameMeaning.optionalAlt .anyOf hcoll, rfl, rfl⟩,
    ⟨rfl, SameMeaning.alt .pipe .anyOf hcoll SameMeaning.none, rfl, rfl⟩, rfl, rfl, rfl, rfl, rfl, rfl⟩

end Typedpy.C13
