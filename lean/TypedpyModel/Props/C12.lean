/-
  Props/C12.lean — property theorems for C12 (in progress).
-/
import TypedpyModel.Spec.FieldSet
namespace Typedpy.C12
end Typedpy.C12
