/-
  Props/C12.lean — C12: Partial / AllFieldsRequired / Extend / Omit / Pick keep exact field sets
  and constraints.

  `deriveClass` (Sem/Derive.lean) mirrors structures_reuse.py and `Structure.omit/pick`;
  `specHasField` / `specRequires` (Spec/FieldSet.lean) are the documented outcome.  All theorems
  hold for every source class (any hierarchy behind it), every operator, every list of names, every
  world that contains `Structure`, and — by induction on the operator list — compositions of any
  length.  Where the code today violates the statement the theorem proved is the `_partial` one
  with an explicit exclusion and a kernel-checked counterexample (= known finding).  Two former
  findings are fixed in /repo (61d07fa inherited `_ignore_none`, c926eea AllFieldsRequired +
  Constant); their theorems are now unconditional.
-/
import TypedpyModel.Lemmas.Derive
import TypedpyModel.Lemmas.DeriveTotal
import TypedpyModel.Props.C14
namespace Typedpy.C12
open Typedpy

/-- the class an operator returns, in terms of its source -/
theorem derive_shape {O : Oracles} {w : World} (hS : HasStructure w) {c d : ClassDef} {nm : String}
    {op : DeriveOp} (h : deriveClass O w c nm op = .ok d) :
    d.allFields = updateAll [] (derivedFields c op) ∧ d.mro = [nm, "Structure"] ∧ d.name = nm
    ∧ d.required = dedupStr ((derivedRequired c op).filter fun n =>
          !((derivedFields c op).any fun p => p.1 == n && p.2.hasDefault))
    ∧ d.ignoreNone = c.ignoreNone ∧ d.bases = ["Structure"] := by
  unfold deriveClass at h
  rcases bindE_eq_ok h with ⟨src, hsrc, hd⟩
  rcases defineClass_ok hd with ⟨_, rfl⟩
  rw [deriveSrc_ok hsrc]
  exact build_derived hS c nm _ _

/-- the retained Field objects, exactly and in order -/
theorem derive_allFields {O : Oracles} {w : World} (hS : HasStructure w) {c d : ClassDef} {nm : String}
    {op : DeriveOp} (hk : KeysNodup c.allFields) (h : deriveClass O w c nm op = .ok d) :
    d.allFields = derivedFields c op := by
  rw [(derive_shape hS h).1, updateAll_nodup_eq _ [] (by simpa using derivedFields_keysNodup hk op)]
  rfl

theorem specHasField_eq (op : DeriveOp) (fs : List String) (n : String) :
    specHasField op fs n = (fs.contains n && keeps op n) := by
  cases op <;> simp [specHasField, keeps]

/-- C12 (field set): the derived class has exactly the documented field names. -/
theorem derive_fields {O : Oracles} {w : World} (hS : HasStructure w) {c d : ClassDef} {nm : String}
    {op : DeriveOp} (hk : KeysNodup c.allFields) (h : deriveClass O w c nm op = .ok d) (n : String) :
    n ∈ d.fieldNames ↔ specHasField op c.fieldNames n = true := by
  rw [ClassDef.fieldNames, ← lookup_isSome_iff, derive_allFields hS hk h, lookup_derivedFields,
    specHasField_eq]
  cases hkp : keeps op n
  · simp
  · simp only [if_true, Bool.and_true, ClassDef.fieldNames, List.contains_eq_mem, decide_eq_true_eq]
    exact lookup_isSome_iff n c.allFields

/-- C12 (constraints and defaults): every retained field is the source's Field object —
    identical declaration and default — and an omitted / unpicked name is absent. -/
theorem derive_field_same {O : Oracles} {w : World} (hS : HasStructure w) {c d : ClassDef} {nm : String}
    {op : DeriveOp} (hk : KeysNodup c.allFields) (h : deriveClass O w c nm op = .ok d) (n : String) :
    lookup n d.allFields = if keeps op n then lookup n c.allFields else none := by
  rw [derive_allFields hS hk h, lookup_derivedFields]

/-- hence the same accept / reject / normal form for every value, and the same default -/
theorem derive_field_behaviour (O : Oracles) {w : World} (hS : HasStructure w) {c d : ClassDef}
    {nm : String} {op : DeriveOp} (hk : KeysNodup c.allFields) (h : deriveClass O w c nm op = .ok d)
    {n : String} (hn : n ∈ d.fieldNames) :
    (∀ v, C14.fieldValidate O d n v = C14.fieldValidate O c n v)
    ∧ C14.fieldDefault d n = C14.fieldDefault c n := by
  apply C14.same_field_same_behaviour
  rw [derive_field_same hS hk h]
  have := (derive_fields hS hk h n).mp hn
  rw [specHasField_eq] at this
  simp [(Bool.and_eq_true _ _ |>.mp this).2]

/-- no field required in the class has a default (true of every class typedpy defines unless an
    inherited field with a default is listed in `_required` by a subclass) -/
def ReqNoDefault (c : ClassDef) : Prop := ∀ n ∈ c.required, memberHasDefault c.allFields n = false

theorem mem_filter_needsValue {l : List (String × Member)} (hk : KeysNodup l) (n : String) :
    n ∈ (l.filter fun p => p.2.needsValue).map (·.1) ↔ memberNeedsValue l n = true := by
  induction l with
  | nil => simp [memberNeedsValue, lookup]
  | cons p ps ih =>
    obtain ⟨k, m⟩ := p
    have hnd : k ∉ ps.map (·.1) ∧ (ps.map (·.1)).Nodup := List.nodup_cons.mp hk
    have ih' := ih hnd.2
    by_cases hnk : n = k
    · subst hnk
      have hps : n ∉ (ps.filter fun p => p.2.needsValue).map (·.1) := by
        intro hm
        rcases List.mem_map.mp hm with ⟨q, hq, hqn⟩
        exact hnd.1 (hqn ▸ List.mem_map_of_mem (List.mem_filter.mp hq).1)
      cases hd : m.needsValue
      · simp only [List.filter, hd, memberNeedsValue, lookup, beq_self_eq_true, if_true]
        constructor
        · intro hm; exact absurd hm hps
        · intro hm; cases hm
      · simp [List.filter, hd, memberNeedsValue, lookup]
    · have hb : (n == k) = false := by simpa using hnk
      have hm' : memberNeedsValue ((k, m) :: ps) n = memberNeedsValue ps n := by
        simp [memberNeedsValue, lookup, hb]
      rw [hm']
      cases hd : m.needsValue
      · simp only [List.filter, hd]
        exact ih'
      · simp only [List.filter, hd, List.map_cons, List.mem_cons, hnk, false_or]
        exact ih'

theorem needsValue_noDefault {l : List (String × Member)} {n : String}
    (h : memberNeedsValue l n = true) : memberHasDefault l n = false := by
  simp only [memberNeedsValue, memberHasDefault] at h ⊢
  cases hl : lookup n l with
  | none => rfl
  | some m =>
    rw [hl] at h
    cases m with
    | const v => rfl
    | field d dflt => cases dflt <;> simp_all [Member.needsValue, Member.hasDefault]

theorem memberHasDefault_derived (c : ClassDef) (op : DeriveOp) (n : String) :
    memberHasDefault (derivedFields c op) n = (keeps op n && memberHasDefault c.allFields n) := by
  simp only [memberHasDefault, lookup_derivedFields]
  cases keeps op n <;> simp

/-- C12 (required set): exactly the documented one — for Extend / Omit / Pick provided the source
    does not require a field that has a default (otherwise the operator drops it: finding). -/
theorem derive_required_partial {O : Oracles} {w : World} (hS : HasStructure w) {c d : ClassDef}
    {nm : String} {op : DeriveOp} (hk : KeysNodup c.allFields) (hr : ReqNoDefault c)
    (h : deriveClass O w c nm op = .ok d) (n : String) :
    n ∈ d.required ↔ specRequires op c n = true := by
  rw [(derive_shape hS h).2.2.2.1, mem_dedupStr, List.mem_filter,
    any_hasDefault_eq (derivedFields_keysNodup hk op), memberHasDefault_derived]
  cases op with
  | partialOf => simp [derivedRequired, specRequires]
  | allRequired =>
    simp only [derivedRequired, specRequires, keeps, Bool.true_and, mem_filter_needsValue hk,
      Bool.not_eq_true']
    exact ⟨fun hx => hx.1, fun hx => ⟨hx, needsValue_noDefault hx⟩⟩
  | extend =>
    simp only [derivedRequired, specRequires, keeps, Bool.true_and, List.contains_eq_mem,
      decide_eq_true_eq, Bool.not_eq_true']
    exact ⟨fun hx => hx.1, fun hx => ⟨hx, hr n hx⟩⟩
  | «omit» names =>
    simp only [derivedRequired, specRequires, keeps, List.mem_filter, Bool.and_eq_true,
      List.contains_eq_mem, decide_eq_true_eq, Bool.not_eq_true']
    constructor
    · intro hx; exact hx.1
    · intro hx; exact ⟨hx, by rw [hr n hx.1]; simp⟩
  | pick names =>
    simp only [derivedRequired, specRequires, keeps, List.mem_filter, Bool.and_eq_true,
      List.contains_eq_mem, decide_eq_true_eq, Bool.not_eq_true']
    constructor
    · intro hx; exact hx.1
    · intro hx; exact ⟨hx, by rw [hr n hx.1]; simp⟩

/-- the full required-set statement (no exclusion): false of the code, see `extend_drops_required` -/
def derive_required_statement : Prop :=
  ∀ (O : Oracles) (w : World) (c d : ClassDef) (nm : String) (op : DeriveOp), HasStructure w →
    KeysNodup c.allFields → deriveClass O w c nm op = .ok d → ∀ n, n ∈ d.required ↔ specRequires op c n = true

/-- C12: the derived class is a Structure class and not a subclass of its source. -/
theorem derive_not_subclass {O : Oracles} {w : World} (hS : HasStructure w) {c d : ClassDef}
    {nm : String} {op : DeriveOp} (h : deriveClass O w c nm op = .ok d)
    (hne : c.name ≠ nm) (hst : c.name ≠ "Structure") :
    c.name ∉ d.mro ∧ "Structure" ∈ d.mro := by
  rw [(derive_shape hS h).2.1]
  simp [hne, hst]

/-- C12: naming a non-existent field raises TypeError. -/
theorem derive_unknown_name_TypeError (O : Oracles) (w : World) (c : ClassDef) (nm : String)
    (names : List String) (k : String) (hk : k ∈ names) (hn : k ∉ c.fieldNames) :
    deriveClass O w c nm (.omit names) = .error .typeErr
    ∧ deriveClass O w c nm (.pick names) = .error .typeErr := by
  have : names.all (fun k => c.fieldNames.contains k) = false := by
    apply List.all_eq_false.mpr
    exact ⟨k, hk, by simpa using hn⟩
  simp only [deriveClass, deriveSrc, this, Bool.false_eq_true, if_false, bindE_error, and_self]

/-- C12 (purity): applying an operator — successfully or not — leaves every existing class
    object, the source included, exactly as it was. -/
theorem derive_pure (O : Oracles) (w : World) (s : Step) (n : String) (c : ClassDef)
    (h : w.find n = some c) : (stepWorld O w s).find n = some c := by
  unfold stepWorld
  cases stepClass O w s with
  | ok d => exact find_add_of_some h
  | error e => exact h

/-- C12 (class-level None handling): the derived class ignores None exactly when the source does
    (whether `_ignore_none` is the source's own attribute or inherited). -/
theorem derive_ignore_none {O : Oracles} {w : World} (hS : HasStructure w) {c d : ClassDef}
    {nm : String} {op : DeriveOp} (h : deriveClass O w c nm op = .ok d) :
    d.ignoreNone = c.ignoreNone :=
  (derive_shape hS h).2.2.2.2.1

/-- C12 (AllFieldsRequired and Constants): a Constant of the source is carried over unchanged and
    is not required -/
theorem allRequired_keeps_constants {O : Oracles} {w : World} (hS : HasStructure w) {c d : ClassDef}
    {nm : String} (hk : KeysNodup c.allFields) (hr : ReqNoDefault c)
    (h : deriveClass O w c nm .allRequired = .ok d) {n : String} {v : PyVal}
    (hc : lookup n c.allFields = some (.const v)) :
    lookup n d.allFields = some (.const v) ∧ n ∉ d.required := by
  refine ⟨by rw [derive_field_same hS hk h]; simpa [keeps] using hc, ?_⟩
  intro hn
  have := (derive_required_partial hS hk hr h n).mp hn
  simp [specRequires, memberNeedsValue, hc, Member.needsValue] at this

/-! ### totality: on every class a history can define, an operator returns a class -/

/-- C12 (totality): in every world reachable by class statements (definitions at any depth and
    shape, mixins, earlier derivations), for every class of that world, every operator whose names —
    if it takes any — are fields of the class RETURNS A CLASS (no check of the class statement it ends
    in can fail), and that class has exactly the documented field set, for every retained name the
    source's Field object (declaration and default), the documented required set (outside the known
    finding region), is a plain Structure class and keeps class-level None handling. -/
theorem derive_total (O : Oracles) {w : World} (hr : Reachable O w) {c : ClassDef} {cn : String}
    (hc : w.find cn = some c) (nm : String) (op : DeriveOp) (hn : ∀ k ∈ opNames op, k ∈ c.fieldNames) :
    ∃ d, deriveClass O w c nm op = .ok d
      ∧ (∀ n, n ∈ d.fieldNames ↔ specHasField op c.fieldNames n = true)
      ∧ (∀ n, lookup n d.allFields = if keeps op n then lookup n c.allFields else none)
      ∧ (ReqNoDefault c → ∀ n, n ∈ d.required ↔ specRequires op c n = true)
      ∧ d.mro = [nm, "Structure"] ∧ d.ignoreNone = c.ignoreNone := by
  have hS := reachable_hasStructure hr
  have hk := classOk_keysNodup (reachable_ok hr cn c hc)
  have h := c12_derive_total O hS (reachable_good hr cn c hc) nm op hn
  exact ⟨_, h, derive_fields hS hk h, derive_field_same hS hk h,
    fun hrd => derive_required_partial hS hk hrd h, (derive_shape hS h).2.1, derive_ignore_none hS h⟩

/-- C12 (when an operator raises): on a class of a reachable world an operator raises exactly when
    it is given a name that is not a field of the class — and then it is TypeError -/
theorem derive_raises_iff (O : Oracles) {w : World} (hr : Reachable O w) {c : ClassDef} {cn : String}
    (hc : w.find cn = some c) (nm : String) (op : DeriveOp) :
    (∃ e, deriveClass O w c nm op = .error e) ↔ ∃ k ∈ opNames op, k ∉ c.fieldNames := by
  constructor
  · rintro ⟨e, he⟩
    apply Classical.byContradiction
    intro hno
    have hn : ∀ k ∈ opNames op, k ∈ c.fieldNames := by
      intro k hk
      apply Classical.byContradiction
      intro hk'
      exact hno ⟨k, hk, hk'⟩
    rcases derive_total O hr hc nm op hn with ⟨d, hd, _⟩
    rw [hd] at he
    cases he
  · rintro ⟨k, hk, hkn⟩
    cases op with
    | partialOf => cases hk
    | allRequired => cases hk
    | extend => cases hk
    | «omit» names => exact ⟨.typeErr, (derive_unknown_name_TypeError O w c nm names k hk hkn).1⟩
    | pick names => exact ⟨.typeErr, (derive_unknown_name_TypeError O w c nm names k hk hkn).2⟩

/-- C12 (what is done with the other class-level settings): `_init_class_dict` copies `_fields`,
    `_ignore_none` and nothing else, so the derived class has NO `_additional_properties` /
    `_immutable` / `_serialization_mapper` / `_deserialization_mapper` of its own and reads typedpy's
    defaults through `Structure`: it admits additional
    properties (its constructor has `**kwargs`) and is mutable — whatever the source declares or
    inherits (an `ImmutableStructure` source, `_additional_properties = False`) -/
theorem derive_flags_not_copied {O : Oracles} {w : World} (hS : HasStructure w) {c d : ClassDef}
    {nm : String} {op : DeriveOp} (h : deriveClass O w c nm op = .ok d) :
    d.ownAddl = none ∧ d.addl = true ∧ d.sig.kwargs = true ∧ d.ownImmutable = none ∧ d.immutable = false
    ∧ d.ownMappers = [] := by
  unfold deriveClass at h
  rcases bindE_eq_ok h with ⟨src, hsrc, hd⟩
  rcases defineClass_ok hd with ⟨_, rfl⟩
  rw [deriveSrc_ok hsrc]
  have hS' : w.find "Structure" = some (World.builtin "Structure" [] false) := hS
  have hbd : baseDefs w (derivedSrc c nm (derivedFields c op) (derivedRequired c op))
      = [World.builtin "Structure" [] false] := by
    simp [baseDefs, derivedSrc, hS']
  have hseq : mroSeqs w (derivedSrc c nm (derivedFields c op) (derivedRequired c op))
      = [["Structure"], ["Structure"]] := by
    rw [mroSeqs, hbd]; rfl
  have htail : mroTail w (derivedSrc c nm (derivedFields c op) (derivedRequired c op)) = ["Structure"] := by
    simp [mroTail, hseq, c3_structure]
  have hmap : ownMappersOf (derivedSrc c nm (derivedFields c op) (derivedRequired c op)).entries = [] := by
    have : ∀ fs : List (String × Member), (objEntries fs).filter
        (fun p => mapperNames.contains p.1 && isAttrEntry p.2) = [] := by
      intro fs
      induction fs with
      | nil => rfl
      | cons q qs ih => simpa [objEntries, isAttrEntry] using ih
    show ((("_fields", SrcEntry.attr .list) :: objEntries (derivedFields c op)).filter
        (fun p => mapperNames.contains p.1 && isAttrEntry p.2)).map (·.1) = []
    have h0 : mapperNames.contains "_fields" = false := by decide
    rw [List.filter_cons_of_neg (by rw [h0]; simp), this]; rfl
  refine ⟨rfl, ?_, ?_, rfl, ?_, hmap⟩
  · show ((derivedSrc c nm _ _).addl.orElse fun _ => inheritedOpt w (·.ownAddl) (mroTail w _)).getD true = true
    rw [htail]
    simp [inheritedOpt, hS', World.builtin, derivedSrc]
  · show ((derivedSrc c nm _ _).addl.orElse fun _ => inheritedOpt w (·.ownAddl) (mroTail w _)).getD true = true
    rw [htail]
    simp [inheritedOpt, hS', World.builtin, derivedSrc]
  · show ((derivedSrc c nm _ _).immutable.orElse fun _ => inheritedOpt w (·.ownImmutable) (mroTail w _)).getD false = false
    rw [htail]
    simp [inheritedOpt, hS', World.builtin, derivedSrc]

/-! ### closure under composition (any number of operators) and further extension -/

theorem hasStructure_add {w : World} (hS : HasStructure w) (d : ClassDef) : HasStructure (w.add d) :=
  find_add_of_some hS

theorem derived_keysNodup {O : Oracles} {w : World} (hS : HasStructure w) {c d : ClassDef}
    {nm : String} {op : DeriveOp} (h : deriveClass O w c nm op = .ok d) : KeysNodup d.allFields := by
  rw [(derive_shape hS h).1]; exact updateAll_keysNodup _ [] (by simp [KeysNodup])

/-- every field of the result of a composition is the identical Field object of the original
    source (induction on the operator list) -/
theorem deriveMany_field_same (O : Oracles) : ∀ (ops : List (DeriveOp × String)) (w : World)
    (c : ClassDef) (w' : World) (r : ClassDef), HasStructure w → KeysNodup c.allFields →
    deriveMany O w c ops = .ok (w', r) →
    ∀ n m, lookup n r.allFields = some m → lookup n c.allFields = some m
  | [], w, c, w', r, _, _, h, n, m, hl => by
    simp only [deriveMany] at h
    cases h; exact hl
  | (op, nm) :: rest, w, c, w', r, hS, hk, h, n, m, hl => by
    simp only [deriveMany] at h
    rcases bindE_eq_ok h with ⟨d, hd, hrest⟩
    have := deriveMany_field_same O rest (w.add d) d w' r (hasStructure_add hS d)
      (derived_keysNodup hS hd) hrest n m hl
    rw [derive_field_same hS hk hd] at this
    split at this
    · exact this
    · cases this

theorem specHasFieldMany_eq : ∀ (ops : List DeriveOp) (fs : List String) (n : String),
    specHasFieldMany ops fs n = (fs.contains n && ops.all fun op => keeps op n)
  | [], fs, n => by simp [specHasFieldMany]
  | op :: rest, fs, n => by
    rw [specHasFieldMany, specHasFieldMany_eq rest]
    have : (fs.filter (specHasField op fs)).contains n = (fs.contains n && keeps op n) := by
      have h1 : (fs.filter (specHasField op fs)).contains n
          = (fs.contains n && specHasField op fs n) := by
        cases h : specHasField op fs n <;> cases h2 : fs.contains n <;>
          simp_all [List.contains_eq_mem, List.mem_filter]
      rw [h1, specHasField_eq]
      cases fs.contains n <;> simp
    rw [this, List.all_cons, Bool.and_assoc]

/-- C12 (composition): the field set after any number of operators is the documented one -/
theorem deriveMany_fields (O : Oracles) : ∀ (ops : List (DeriveOp × String)) (w : World)
    (c : ClassDef) (w' : World) (r : ClassDef), HasStructure w → KeysNodup c.allFields →
    deriveMany O w c ops = .ok (w', r) →
    ∀ n, n ∈ r.fieldNames ↔ specHasFieldMany (ops.map (·.1)) c.fieldNames n = true
  | [], w, c, w', r, _, _, h, n => by
    simp only [deriveMany] at h
    cases h
    simp [specHasFieldMany]
  | (op, nm) :: rest, w, c, w', r, hS, hk, h, n => by
    simp only [deriveMany] at h
    rcases bindE_eq_ok h with ⟨d, hd, hrest⟩
    have ih := deriveMany_fields O rest (w.add d) d w' r (hasStructure_add hS d)
      (derived_keysNodup hS hd) hrest n
    rw [ih, List.map_cons, specHasFieldMany_eq, specHasFieldMany_eq, List.all_cons]
    have hd' := derive_fields hS hk hd n
    rw [specHasField_eq] at hd'
    cases hdn : d.fieldNames.contains n
    · have : ¬ (n ∈ d.fieldNames) := by simpa using hdn
      have h2 : (c.fieldNames.contains n && keeps op n) = false := by
        cases hx : (c.fieldNames.contains n && keeps op n)
        · rfl
        · exact absurd (hd'.mpr hx) this
      rw [← Bool.and_assoc, h2]
    · have : n ∈ d.fieldNames := by simpa using hdn
      rw [← Bool.and_assoc, hd'.mp this]

/-- the result of a non-empty composition is again a plain Structure class -/
theorem deriveMany_not_subclass (O : Oracles) : ∀ (ops : List (DeriveOp × String)) (w : World)
    (c : ClassDef) (w' : World) (r : ClassDef), HasStructure w → ops ≠ [] →
    deriveMany O w c ops = .ok (w', r) → ∃ nm, r.mro = [nm, "Structure"]
  | [], _, _, _, _, _, hne, _ => absurd rfl hne
  | (op, nm) :: rest, w, c, w', r, hS, _, h => by
    simp only [deriveMany] at h
    rcases bindE_eq_ok h with ⟨d, hd, hrest⟩
    cases rest with
    | nil =>
      simp only [deriveMany] at hrest
      cases hrest
      exact ⟨nm, (derive_shape hS hd).2.1⟩
    | cons o os =>
      exact deriveMany_not_subclass O (o :: os) (w.add d) d w' r (hasStructure_add hS d)
        (by simp) hrest

/-- composition is pure as well: every class that existed before still exists unchanged -/
theorem deriveMany_pure (O : Oracles) : ∀ (ops : List (DeriveOp × String)) (w : World)
    (c : ClassDef) (w' : World) (r : ClassDef), deriveMany O w c ops = .ok (w', r) →
    ∀ n x, w.find n = some x → w'.find n = some x
  | [], w, c, w', r, h, n, x, hx => by
    simp only [deriveMany] at h
    cases h; exact hx
  | (op, nm) :: rest, w, c, w', r, h, n, x, hx => by
    simp only [deriveMany] at h
    rcases bindE_eq_ok h with ⟨d, _, hrest⟩
    exact deriveMany_pure O rest (w.add d) d w' r hrest n x (find_add_of_some hx)

/-- C12 (further extension): a class that extends a derived class (its only base) keeps, for every
    name it does not redeclare, the identical Field object of the *original source*. -/
theorem extended_derived_field_same {O : Oracles} {w : World} (hw : WorldOk w) (hS : HasStructure w)
    {c d e : ClassDef} {nm : String} {op : DeriveOp} {src : ClassSrc} {n : String}
    (hk : KeysNodup c.allFields) (hd : deriveClass O w c nm op = .ok d) (hfd : w.find nm = none)
    (hsrc : src.bases = [nm]) (he : defineClass O (w.add d) src = .ok e)
    (hfe : (w.add d).find src.name = none)
    (hn : n ∉ (ownMembers src.entries).map (·.1)) :
    lookup n e.allFields = if keeps op n then lookup n c.allFields else none := by
  have hname : d.name = nm := (derive_shape hS hd).2.2.1
  have hw' : WorldOk (w.add d) := by
    unfold deriveClass at hd
    rcases bindE_eq_ok hd with ⟨s, _, hdd⟩
    have : s.name = nm := by rw [← defineClass_name hdd, hname]
    exact worldOk_add_define hw hdd (by rw [this]; exact hfd)
  have hfind : (w.add d).find nm = some d := by
    rw [← hname]; exact find_add_fresh (by rw [hname]; exact hfd)
  rw [C14.inherited_field_same hw' he hfe (b := nm) (by rw [hsrc]; simp) hfind
    (by intro b' hb' hne; rw [hsrc] at hb'; simp at hb'; exact absurd hb' hne) hn]
  exact derive_field_same hS hk hd n

/-! ### kernel-checked counterexamples (known findings) and non-vacuity -/

def exO : Oracles := { reMatch := fun _ _ => true }
def W0 : World := initWorld true true
def intF : SrcEntry := .field (.integer {}) none none
def strD : SrcEntry := .field (.string none none none) (some (.lit (.str "x"))) none

def getCls (w : World) (n : String) : ClassDef := (w.find n).getD (mixinDef "?")

/-- fixed finding `ignore-none-dropped:inherited` (61d07fa): an `_ignore_none` the source only
    inherits is kept -/
def ignWorld : World :=
  runSteps exO W0 [.define { name := "Ba", bases := ["Structure"], entries := [("a", intF)], ignoreNone := some true },
                   .define { name := "Mid", bases := ["Ba"], entries := [("b", intF)] },
                   .derive .partialOf "Mid" "PMid"]

theorem inherited_ignore_none_kept :
    (getCls ignWorld "Mid").ignoreNone = true ∧ (getCls ignWorld "PMid").ignoreNone = true
    ∧ (getCls ignWorld "PMid").fieldNames = ["a", "b"] ∧ (getCls ignWorld "PMid").required = [] := by
  decide

/-- fixed finding `derive-raises:allRequired:constant` (c926eea): AllFieldsRequired on a class with a
    Constant returns a class; the Constant stays a constant and is not required -/
def constWorld : World :=
  runSteps exO W0 [.define { name := "Ba", bases := ["Structure"],
                             entries := [("a", intF), ("s", strD), ("c", .obj (.const (.int 3)))] },
                   .derive .allRequired "Ba" "R"]

theorem allRequired_constant_example :
    (getCls constWorld "R").fieldNames = ["a", "s", "c"] ∧ (getCls constWorld "R").required = ["a"]
    ∧ (getCls constWorld "R").constants.map (·.1) = ["c"] := by
  decide

/-- fixed route of finding `required-set:*:source-requires-field-with-default`: a subclass that
    lists an inherited field with a default in `_required` does not require it ("every field that has
    a default value is, by definition, optional"), so Extend agrees with its source -/
def reqDefWorld : World :=
  runSteps exO W0 [.define { name := "A", bases := ["Structure"], entries := [("a", strD)] },
                   .define { name := "S", bases := ["A"], entries := [("b", intF)], required := some ["a", "b"] },
                   .derive .extend "S" "ES"]

theorem fixed_inherited_default_not_required :
    (getCls reqDefWorld "S").required = ["b"] ∧ (getCls reqDefWorld "ES").required = ["b"] := by
  decide

/-- finding `required-set:extend:source-requires-field-with-default` (remaining route): with two
    bases the later one's required parameter is required in the subclass although the Field object
    the subclass holds (the earlier base's) has a default; Extend (and Omit / Pick) drop it -/
def reqDefWorld2 : World :=
  runSteps exO W0 [.define { name := "K1", bases := ["Structure"], entries := [("e", intF)] },
                   .define { name := "K2", bases := ["Structure"], entries := [("e", strD)] },
                   .define { name := "K3", bases := ["K2", "K1"], entries := [] },
                   .derive .extend "K3" "E3"]

theorem extend_drops_required :
    (getCls reqDefWorld2 "K3").required = ["e"] ∧ (getCls reqDefWorld2 "E3").required = [] := by
  decide

/-- non-vacuity: operators and a composition on a class with inheritance, a default and
    `_ignore_none` -/
def exWorld : World :=
  runSteps exO W0 [.define { name := "A", bases := ["Structure"], entries := [("a", intF), ("s", strD)],
                             ignoreNone := some true },
                   .define { name := "F", bases := ["A"], entries := [("b", intF), ("c", intF)] },
                   .derive .partialOf "F" "P", .derive .allRequired "F" "R", .derive (.omit ["a", "c"]) "F" "Om",
                   .derive (.pick ["s", "s"]) "Om" "Pk", .derive (.pick ["nope"]) "F" "Bad",
                   .define { name := "X", bases := ["P"], entries := [("x", intF)] }]

theorem derive_example :
    (getCls exWorld "F").fieldNames = ["a", "s", "b", "c"] ∧ (getCls exWorld "F").required = ["a", "b", "c"]
    ∧ (getCls exWorld "P").fieldNames = ["a", "s", "b", "c"] ∧ (getCls exWorld "P").required = []
    ∧ (getCls exWorld "R").required = ["a", "b", "c"]
    ∧ (getCls exWorld "Om").fieldNames = ["s", "b"] ∧ (getCls exWorld "Om").required = ["b"]
    ∧ (getCls exWorld "Pk").fieldNames = ["s"] ∧ (getCls exWorld "Pk").mro = ["Pk", "Structure"]
    ∧ (exWorld.find "Bad").isNone = true
    ∧ (getCls exWorld "X").fieldNames = ["a", "s", "b", "c", "x"] ∧ (getCls exWorld "X").required = ["x"] := by
  decide

/-- non-vacuity of `derive_flags_not_copied`: Partial of an ImmutableStructure class that forbids
    additional properties is mutable and admits them -/
def flagWorld : World :=
  runSteps exO W0 [.define { name := "Im", bases := ["ImmutableStructure"], entries := [("a", intF)], addl := some false },
                   .derive .partialOf "Im" "PIm"]

theorem flags_example :
    (getCls flagWorld "Im").immutable = true ∧ (getCls flagWorld "Im").addl = false
    ∧ (getCls flagWorld "PIm").immutable = false ∧ (getCls flagWorld "PIm").addl = true
    ∧ (getCls flagWorld "PIm").sig.kwargs = true ∧ (getCls flagWorld "PIm").fieldNames = ["a"] := by
  decide

end Typedpy.C12
