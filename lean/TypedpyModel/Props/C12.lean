/-
  Props/C12.lean — property theorems for C12 (stub; to be filled in).
-/
namespace Typedpy.C12
end Typedpy.C12
