/-
  Props/C04.lean — C04: immutable structures and immutable fields never change after construction.

  On the mutation machine of Sem/Mutate.lean (wrapper methods interpreted from the table regenerated
  from the working tree): for an ImmutableStructure every top-level operation — attribute
  assignment, deletion, every mutating method or operator of a field value — fails and leaves the
  state exactly as it was, for every finite history (`immutable_run_frozen`); a field declared
  immutable inside a mutable structure keeps its value under every history
  (`immField_run_frozen`).  Both are conditional on every mutator row being guarded or routed
  through a validated assignment; `tables_guarded` re-proves that for the current tree by `decide`.

  A mutator applied to a typed wrapper obtained by indexing a field value acts on a defensive copy
  (`immutable_step_state` covers `callNested`).  Objects obtained through the other accessors
  (iteration, copies, items()/values(), reversed, +, *, dict(x) …) and retained constructor
  arguments are decided on the real code by the alias probe of the harness; the accessor table
  obligation `accessors_ok` (every element-returning accessor of list/dict/deque is overridden by
  the wrapper) is re-proved on every run over the table regenerated from the working tree.
-/
import TypedpyModel.Props.C03
namespace Typedpy.C04
open Typedpy Typedpy.C03

/-- every mutator is refused on immutable targets: it either checks `_raise_if_immutable()` or goes
    through the (immutability-checking) validated assignment -/
def GuardedTbl (tbl : List MethodRec) : Bool := tbl.all (fun r => r.guarded || r.validated)

theorem setattr_immutable (O : Oracles) (c : ClassOpts) (fields : List (String × FieldDecl))
    (s : Attrs) (f : String) (v : PyVal) (hi : c.immutable = true) :
    setattrStep O c fields s f v = (s, .err .valueErr) := by
  simp [setattrStep, hi]

theorem delitem_immutable (c : ClassOpts) (s : Attrs) (f : String) (hi : c.immutable = true) :
    delitemStep c s f = (s, .err .valueErr) := by
  simp [delitemStep, hi]

theorem call_immutable (O : Oracles) (c : ClassOpts) (fields : List (String × FieldDecl))
    (s : Attrs) (f kind : String) (r : MethodRec) (m : NOp) (cur : PyVal)
    (hi : c.immutable = true) (hr : (r.guarded || r.validated) = true) :
    ∃ e, callStep O c fields s f kind r m cur = (s, .err e) := by
  unfold callStep
  cases hg : r.guarded
  · simp only [hg, Bool.false_or] at hr
    simp only [Bool.false_and, Bool.false_eq_true, if_false, hr, if_true]
    cases applyNative kind m cur with
    | error e => exact ⟨_, rfl⟩
    | ok new =>
      simp only []
      split
      · exact ⟨_, rfl⟩
      · exact ⟨_, setattr_immutable O c fields s f new hi⟩
  · simp [hi]

/-- on an immutable structure every top-level operation raises and changes nothing -/
theorem immutable_step_frozen (tbl : List MethodRec) (O : Oracles) (c : ClassOpts)
    (fields : List (String × FieldDecl)) (s : Attrs) (op : Op)
    (hi : c.immutable = true) (htbl : GuardedTbl tbl = true) (htop : TopOp op = true) :
    ∃ e, step tbl O c fields s op = (s, .err e) := by
  cases op with
  | setattr f v => exact ⟨_, setattr_immutable O c fields s f v hi⟩
  | delitem f => exact ⟨_, delitem_immutable c s f hi⟩
  | callNested f k m => simp [TopOp] at htop
  | call f m =>
    simp only [step]
    split
    · rename_i fd cur _ _
      split
      · exact ⟨_, rfl⟩
      · rename_i kind _
        split
        · exact ⟨_, rfl⟩
        · rename_i r hfind
          exact call_immutable O c fields s f kind r m cur hi
            ((List.all_eq_true.mp htbl) r (findRec_mem tbl kind m.name r hfind))
    · exact ⟨_, rfl⟩

theorem nested_immutable (c : ClassOpts) (s : Attrs) (f : String) (k : PyVal) (kind : String)
    (r : MethodRec) (m : NOp) (cur elem : PyVal) (hi : c.immutable = true) :
    (nestedStep c s f k kind r m cur elem).1 = s := by
  unfold nestedStep
  split
  · rfl
  · cases applyNative kind m elem with
    | error e => rfl
    | ok new => simp [hi]

/-- on an immutable structure NO operation — including a mutator called on a typed wrapper
    obtained by indexing a field value (it acts on a defensive copy) — changes the state -/
theorem immutable_step_state (tbl : List MethodRec) (O : Oracles) (c : ClassOpts)
    (fields : List (String × FieldDecl)) (s : Attrs) (op : Op)
    (hi : c.immutable = true) (htbl : GuardedTbl tbl = true) :
    (step tbl O c fields s op).1 = s := by
  cases htop : TopOp op
  · cases op with
    | callNested f k m =>
      simp only [step]
      repeat' split
      all_goals first | rfl | exact nested_immutable c s f k _ _ m _ _ hi
    | _ => simp [TopOp] at htop
  · rcases immutable_step_frozen tbl O c fields s op hi htbl htop with ⟨e, he⟩
    rw [he]

/-- **C04 (structures)**: no finite history of operations changes an ImmutableStructure -/
theorem immutable_run_frozen (tbl : List MethodRec) (O : Oracles) (c : ClassOpts)
    (fields : List (String × FieldDecl)) (hi : c.immutable = true) (htbl : GuardedTbl tbl = true) :
    ∀ (ops : List Op) (s : Attrs), (run tbl O c fields s ops).1 = s
  | [], s => rfl
  | op :: rest, s => by
    simp only [run]
    rw [immutable_step_state tbl O c fields s op hi htbl]
    exact immutable_run_frozen tbl O c fields hi htbl rest s

/-- every operation of such a history raises -/
theorem immutable_run_all_raise (tbl : List MethodRec) (O : Oracles) (c : ClassOpts)
    (fields : List (String × FieldDecl)) (hi : c.immutable = true) (htbl : GuardedTbl tbl = true) :
    ∀ (ops : List Op) (s : Attrs), ops.all TopOp = true →
      (run tbl O c fields s ops).2.all (fun o => o != .ok) = true
  | [], s, _ => rfl
  | op :: rest, s, hops => by
    simp only [List.all_cons, and_true_iff] at hops
    simp only [run]
    rcases immutable_step_frozen tbl O c fields s op hi htbl hops.1 with ⟨e, he⟩
    rw [he]
    simp only [List.all_cons, and_true_iff]
    exact ⟨by simp, immutable_run_all_raise tbl O c fields hi htbl rest s hops.2⟩

/-! ### immutable field inside a mutable structure -/

theorem setattr_immField (O : Oracles) (c : ClassOpts) (fields : List (String × FieldDecl))
    (s : Attrs) (f g : String) (v w : PyVal)
    (hf : c.immFields.contains f = true) (hfield : (lookup f fields).isSome = true)
    (hset : lookup f s = some w) :
    lookup f (setattrStep O c fields s g v).1 = some w := by
  unfold setattrStep
  split
  · exact hset
  · cases hgf : (f == g)
    · -- another attribute
      have keep : ∀ u, lookup f (assocSet g u s) = some w := fun u => by
        rw [lookup_assocSet_ne g f u hgf]; exact hset
      repeat' split
      all_goals first | exact hset | exact keep _
    · have : f = g := by simpa using hgf
      subst this
      split
      · rename_i hl; rw [hl] at hfield; cases hfield
      · split
        · exact hset
        · split
          · exact hset
          · split
            · exact hset
            · rename_i hcon
              rw [hf, hset] at hcon
              exact absurd rfl hcon

theorem delitem_immField (c : ClassOpts) (s : Attrs) (f g : String) (w : PyVal)
    (hf : c.immFields.contains f = true) (hset : lookup f s = some w) :
    lookup f (delitemStep c s g).1 = some w := by
  unfold delitemStep
  cases hgf : (f == g)
  · repeat' split
    all_goals first | exact hset | (rw [lookup_assocDel_ne g f hgf]; exact hset)
  · have : f = g := by simpa using hgf
    subst this
    split
    · exact hset
    · simp only [hf, if_true]; exact hset

theorem call_immField (O : Oracles) (c : ClassOpts) (fields : List (String × FieldDecl))
    (s : Attrs) (f g kind : String) (r : MethodRec) (m : NOp) (cur w : PyVal)
    (hf : c.immFields.contains f = true) (hfield : (lookup f fields).isSome = true)
    (hset : lookup f s = some w) (hr : (r.guarded || r.validated) = true) :
    lookup f (callStep O c fields s g kind r m cur).1 = some w := by
  unfold callStep
  split
  · exact hset
  · cases applyNative kind m cur with
    | error e => exact hset
    | ok new =>
      simp only []
      cases hv : r.validated
      · -- not validated ⇒ guarded; the guard did not fire, so `g` is not an immutable field
        simp only [hv, Bool.or_false] at hr
        rename_i hng
        simp only [hr, Bool.true_and, Bool.or_eq_true, not_or, Bool.not_eq_true] at hng
        have hgf : (f == g) = false := by
          cases h : (f == g)
          · rfl
          · have : f = g := by simpa using h
            subst this
            rw [hf] at hng; exact absurd hng.2 (by simp)
        simp only [Bool.false_eq_true, if_false]
        split
        · rw [lookup_assocSet_ne g f new hgf]; exact hset
        · exact hset
      · simp only [if_true]
        split
        · exact hset
        · exact setattr_immField O c fields s f g new w hf hfield hset

/-- an immutable field keeps its value under every top-level operation -/
theorem immField_step_frozen (tbl : List MethodRec) (O : Oracles) (c : ClassOpts)
    (fields : List (String × FieldDecl)) (s : Attrs) (f : String) (w : PyVal) (op : Op)
    (hf : c.immFields.contains f = true) (hfield : (lookup f fields).isSome = true)
    (hset : lookup f s = some w) (htbl : GuardedTbl tbl = true) (htop : TopOp op = true) :
    lookup f (step tbl O c fields s op).1 = some w := by
  cases op with
  | setattr g v => exact setattr_immField O c fields s f g v w hf hfield hset
  | delitem g => exact delitem_immField c s f g w hf hset
  | callNested g k m => simp [TopOp] at htop
  | call g m =>
    simp only [step]
    split
    · rename_i fd cur _ _
      split
      · exact hset
      · rename_i kind _
        split
        · exact hset
        · rename_i r hfind
          exact call_immField O c fields s f g kind r m cur w hf hfield hset
            ((List.all_eq_true.mp htbl) r (findRec_mem tbl kind m.name r hfind))
    · exact hset

/-- **C04 (fields)**: a field declared immutable inside a mutable structure keeps its value under
    every finite history of top-level operations -/
theorem immField_run_frozen (tbl : List MethodRec) (O : Oracles) (c : ClassOpts)
    (fields : List (String × FieldDecl)) (f : String) (w : PyVal)
    (hf : c.immFields.contains f = true) (hfield : (lookup f fields).isSome = true)
    (htbl : GuardedTbl tbl = true) :
    ∀ (ops : List Op) (s : Attrs), ops.all TopOp = true → lookup f s = some w →
      lookup f (run tbl O c fields s ops).1 = some w
  | [], s, _, hs => hs
  | op :: rest, s, hops, hs => by
    simp only [List.all_cons, and_true_iff] at hops
    simp only [run]
    exact immField_run_frozen tbl O c fields f w hf hfield htbl rest _ hops.2
      (immField_step_frozen tbl O c fields s f w op hf hfield hs htbl hops.1)

/-! ### every operation: nested calls under either binding, kept (stale) references -/

theorem nestedBound_immutable (O : Oracles) (c : ClassOpts) (fields : List (String × FieldDecl))
    (s : Attrs) (f : String) (k : PyVal) (kind : String) (r : MethodRec) (m : NOp) (cur elem : PyVal)
    (hi : c.immutable = true) (hr : (r.guarded || r.validated) = true) :
    ∃ e, nestedBoundStep O c fields s f k kind r m cur elem = (s, .err e) := by
  unfold nestedBoundStep
  cases hg : r.guarded
  · simp only [hg, Bool.false_or] at hr
    simp only [Bool.false_and, Bool.false_eq_true, if_false, hr, if_true]
    cases applyNative kind m elem with
    | error e => exact ⟨_, rfl⟩
    | ok new =>
      simp only []
      split
      · exact ⟨_, rfl⟩
      · exact ⟨_, setattr_immutable O c fields s f _ hi⟩
  · simp [hi]

/-- on an immutable structure no operation changes the state, whichever way nested wrappers are bound -/
theorem immutable_stepB_state (bound dh : Bool) (tbl : List MethodRec) (O : Oracles) (c : ClassOpts)
    (fields : List (String × FieldDecl)) (s : Attrs) (op : Op)
    (hi : c.immutable = true) (htbl : GuardedTbl tbl = true) :
    (stepB bound dh tbl O c fields s op).1 = s := by
  have hdel : ∀ f, (delitemStepH dh O c s f).1 = s := by
    intro f
    unfold delitemStepH
    rw [delitem_immutable c s f hi]
    cases dh <;> rfl
  cases bound with
  | false =>
    cases op with
    | delitem f => exact hdel f
    | setattr f v => exact immutable_step_state tbl O c fields s (.setattr f v) hi htbl
    | call f m => exact immutable_step_state tbl O c fields s (.call f m) hi htbl
    | callNested f k m => exact immutable_step_state tbl O c fields s (.callNested f k m) hi htbl
  | true =>
    cases op with
    | callNested f k m =>
      simp only [stepB]
      split
      · split
        · split
          · rfl
          · rename_i kind _
            split
            · rfl
            · rename_i r hfind
              rcases nestedBound_immutable O c fields s f k kind r m _ _ hi
                ((List.all_eq_true.mp htbl) r (findRec_mem tbl kind m.name r hfind)) with ⟨e, he⟩
              rw [he]
        · rfl
      · rfl
    | setattr f v => exact immutable_step_state tbl O c fields s (.setattr f v) hi htbl
    | delitem f => exact hdel f
    | call f m => exact immutable_step_state tbl O c fields s (.call f m) hi htbl

/-- … and neither does a mutator called on a wrapper reference the caller kept -/
theorem immutable_stepR_state (bound dh : Bool) (tbl : List MethodRec) (O : Oracles) (c : ClassOpts)
    (fields : List (String × FieldDecl)) (st : MState) (op : ROp)
    (hi : c.immutable = true) (htbl : GuardedTbl tbl = true) :
    (stepR bound dh tbl O c fields st op).1.attrs = st.attrs := by
  cases op with
  | plain o => simp only [stepR]; exact immutable_stepB_state bound dh tbl O c fields st.attrs o hi htbl
  | take f =>
    simp only [stepR]
    repeat' split
    all_goals rfl
  | assignRef f i =>
    simp only [stepR]
    split
    · rfl
    · rename_i w _
      split
      · rfl
      · show (setattrStep O c fields st.attrs f w.payload).1 = st.attrs
        rw [setattr_immutable O c fields st.attrs f w.payload hi]
  | callRef i m =>
    simp only [stepR]
    split
    · rfl
    · rename_i w _
      split
      · rfl
      · rename_i r hfind
        have hr := (List.all_eq_true.mp htbl) r (findRec_mem tbl w.kind m.name r hfind)
        show (refCallStep O c fields st.attrs w.field w.kind r m w.payload).1 = st.attrs
        unfold refCallStep
        split
        · split
          · rfl
          · cases applyNative w.kind m w.payload <;> rfl
        · rcases call_immutable O c fields st.attrs w.field w.kind r m w.payload hi hr with ⟨e, he⟩
          rw [he]

/-- **C04 (structures), every history**: assignment, deletion, every mutator of a field value, of a
    nested wrapper (either binding) and of a kept — possibly stale — wrapper reference: nothing
    changes an ImmutableStructure -/
theorem immutable_runR_frozen (bound dh : Bool) (tbl : List MethodRec) (O : Oracles) (c : ClassOpts)
    (fields : List (String × FieldDecl)) (hi : c.immutable = true) (htbl : GuardedTbl tbl = true) :
    ∀ (ops : List ROp) (st : MState), (runR bound dh tbl O c fields st ops).1.attrs = st.attrs
  | [], st => rfl
  | op :: rest, st => by
    simp only [runR]
    rw [immutable_runR_frozen bound dh tbl O c fields hi htbl rest]
    exact immutable_stepR_state bound dh tbl O c fields st op hi htbl

/-- operations that attempt a mutation (taking a reference does not) -/
def Attempt : ROp → Bool
  | .take _ => false
  | _ => true

/-- **C04 (every direct attempt raises)**: on an ImmutableStructure, with nested wrappers bound to
    their parent (the tree since cbf3b48), EVERY mutation attempt — assignment, deletion, a mutator
    of a field value, of a nested wrapper at any depth, of a kept reference, handing a kept reference
    back — raises (and, by `immutable_stepR_state`, changes nothing) -/
theorem immutable_stepR_raises (dh : Bool) (tbl : List MethodRec) (O : Oracles) (c : ClassOpts)
    (fields : List (String × FieldDecl)) (st : MState) (op : ROp)
    (hi : c.immutable = true) (htbl : tbl.all (fun r => r.guarded) = true) (ha : Attempt op = true) :
    ∃ e, (stepR true dh tbl O c fields st op).2 = .err e := by
  have hg : GuardedTbl tbl = true := by
    unfold GuardedTbl; rw [List.all_eq_true]; intro r hr
    have h1 : r.guarded = true := (List.all_eq_true.mp htbl) r hr
    show (r.guarded || r.validated) = true
    rw [h1]; rfl
  cases op with
  | take f => simp [Attempt] at ha
  | assignRef f i =>
    simp only [stepR]
    split
    · exact ⟨_, rfl⟩
    · rename_i w _
      split
      · exact ⟨_, rfl⟩
      · show ∃ e, (setattrStep O c fields st.attrs f w.payload).2 = .err e
        rw [setattr_immutable O c fields st.attrs f w.payload hi]; exact ⟨_, rfl⟩
  | callRef i m =>
    simp only [stepR]
    split
    · exact ⟨_, rfl⟩
    · rename_i w _
      split
      · exact ⟨_, rfl⟩
      · rename_i r hfind
        have hrg : r.guarded = true := (List.all_eq_true.mp htbl) r (findRec_mem tbl w.kind m.name r hfind)
        show ∃ e, (refCallStep O c fields st.attrs w.field w.kind r m w.payload).2 = .err e
        unfold refCallStep
        split
        · simp [hrg, hi]
        · rcases call_immutable O c fields st.attrs w.field w.kind r m w.payload hi
            ((List.all_eq_true.mp hg) r (findRec_mem tbl w.kind m.name r hfind)) with ⟨e, he⟩
          rw [he]; exact ⟨e, rfl⟩
  | plain o =>
    simp only [stepR]
    cases o with
    | setattr f v =>
      show ∃ e, (setattrStep O c fields st.attrs f v).2 = .err e
      rw [setattr_immutable O c fields st.attrs f v hi]; exact ⟨_, rfl⟩
    | delitem f =>
      show ∃ e, (delitemStepH dh O c st.attrs f).2 = .err e
      unfold delitemStepH
      rw [delitem_immutable c st.attrs f hi]
      cases dh <;> exact ⟨_, rfl⟩
    | call f m =>
      rcases immutable_step_frozen tbl O c fields st.attrs (.call f m) hi hg rfl with ⟨e, he⟩
      show ∃ e, (step tbl O c fields st.attrs (.call f m)).2 = .err e
      rw [he]; exact ⟨e, rfl⟩
    | callNested f k m =>
      simp only [stepB]
      split
      · split
        · split
          · exact ⟨_, rfl⟩
          · rename_i kind _
            split
            · exact ⟨_, rfl⟩
            · rename_i r hfind
              rcases nestedBound_immutable O c fields st.attrs f k kind r m _ _ hi
                ((List.all_eq_true.mp hg) r (findRec_mem tbl kind m.name r hfind)) with ⟨e, he⟩
              rw [he]; exact ⟨e, rfl⟩
        · exact ⟨_, rfl⟩
      · exact ⟨_, rfl⟩

/-- every mutator row checks `_raise_if_immutable()` itself (needed for wrappers that do not reach
    the owning field's own check: scratch-bound nested wrappers) -/
def AllGuardedTbl (tbl : List MethodRec) : Bool := tbl.all (fun r => r.guarded)

theorem nested_immField (c : ClassOpts) (s : Attrs) (f g : String) (k : PyVal) (kind : String)
    (r : MethodRec) (m : NOp) (cur elem w : PyVal) (hf : c.immFields.contains f = true)
    (hset : lookup f s = some w) (hr : r.guarded = true) :
    lookup f (nestedStep c s g k kind r m cur elem).1 = some w := by
  unfold nestedStep
  cases hgf : (f == g)
  · have keep : ∀ u, lookup f (assocSet g u s) = some w := fun u => by
      rw [lookup_assocSet_ne g f u hgf]; exact hset
    split
    · exact hset
    · cases applyNative kind m elem with
      | error e => exact hset
      | ok new =>
        simp only []
        repeat' split
        all_goals first | exact hset | exact keep _
  · have : f = g := by simpa using hgf
    subst this
    rw [if_pos (by rw [hr, hf]; rfl)]
    exact hset

theorem nestedBound_immField (O : Oracles) (c : ClassOpts) (fields : List (String × FieldDecl))
    (s : Attrs) (f g : String) (k : PyVal) (kind : String) (r : MethodRec) (m : NOp)
    (cur elem w : PyVal) (hf : c.immFields.contains f = true)
    (hfield : (lookup f fields).isSome = true) (hset : lookup f s = some w) (hr : r.guarded = true) :
    lookup f (nestedBoundStep O c fields s g k kind r m cur elem).1 = some w := by
  unfold nestedBoundStep
  split
  · exact hset
  · rename_i hng
    have hgf : (f == g) = false := by
      cases h : (f == g)
      · rfl
      · have : f = g := by simpa using h
        subst this
        exact absurd (by rw [hr, hf]; simp) hng
    cases applyNative kind m elem with
    | error e => exact hset
    | ok new =>
      simp only []
      split
      · split
        · exact hset
        · exact setattr_immField O c fields s f g _ w hf hfield hset
      · split
        · rw [lookup_assocSet_ne g f _ hgf]; exact hset
        · exact hset

/-- an immutable field keeps its value under EVERY operation (nested calls under either binding and
    kept references included), provided every mutator row is guarded -/
theorem immField_stepR_frozen (bound dh : Bool) (tbl : List MethodRec) (O : Oracles) (c : ClassOpts)
    (fields : List (String × FieldDecl)) (st : MState) (f : String) (w : PyVal) (op : ROp)
    (hf : c.immFields.contains f = true) (hfield : (lookup f fields).isSome = true)
    (hset : lookup f st.attrs = some w) (htbl : AllGuardedTbl tbl = true) :
    lookup f (stepR bound dh tbl O c fields st op).1.attrs = some w := by
  have hg : GuardedTbl tbl = true := by
    unfold GuardedTbl; rw [List.all_eq_true]; intro r hr
    have h1 : r.guarded = true := (List.all_eq_true.mp htbl) r hr
    show (r.guarded || r.validated) = true
    rw [h1]; rfl
  cases op with
  | take g =>
    simp only [stepR]
    repeat' split
    all_goals exact hset
  | assignRef g i =>
    simp only [stepR]
    split
    · exact hset
    · rename_i wr _
      split
      · exact hset
      · show lookup f (setattrStep O c fields st.attrs g wr.payload).1 = some w
        exact setattr_immField O c fields st.attrs f g wr.payload w hf hfield hset
  | callRef i m =>
    simp only [stepR]
    split
    · exact hset
    · rename_i wr _
      split
      · exact hset
      · rename_i r hfind
        have hr := (List.all_eq_true.mp hg) r (findRec_mem tbl wr.kind m.name r hfind)
        show lookup f (refCallStep O c fields st.attrs wr.field wr.kind r m wr.payload).1 = some w
        unfold refCallStep
        split
        · split
          · exact hset
          · cases applyNative wr.kind m wr.payload <;> exact hset
        · exact call_immField O c fields st.attrs f wr.field wr.kind r m wr.payload w hf hfield hset hr
  | plain o =>
    simp only [stepR]
    cases o with
    | setattr g v =>
      have : stepB bound dh tbl O c fields st.attrs (.setattr g v) = setattrStep O c fields st.attrs g v := by
        cases bound <;> rfl
      rw [this]; exact setattr_immField O c fields st.attrs f g v w hf hfield hset
    | delitem g =>
      have : stepB bound dh tbl O c fields st.attrs (.delitem g) = delitemStepH dh O c st.attrs g := by
        cases bound <;> rfl
      rw [this]
      cases hres : delitemStepH dh O c st.attrs g with
      | mk a o =>
        rcases C03.delitemH_facts dh O c st.attrs a g o hres with h1 | h1
        · have := delitem_immField c st.attrs f g w hf hset
          rw [h1] at this; exact this
        · show lookup f a = some w
          rw [h1.2]; exact hset
    | call g m =>
      have : stepB bound dh tbl O c fields st.attrs (.call g m) = step tbl O c fields st.attrs (.call g m) := by
        cases bound <;> rfl
      rw [this]
      exact immField_step_frozen tbl O c fields st.attrs f w (.call g m) hf hfield hset hg rfl
    | callNested g k m =>
      cases bound with
      | false =>
        show lookup f (step tbl O c fields st.attrs (.callNested g k m)).1 = some w
        simp only [step]
        split
        · split
          · split
            · exact hset
            · rename_i kind _
              split
              · exact hset
              · rename_i r hfind
                exact nested_immField c st.attrs f g k kind r m _ _ w hf hset
                  ((List.all_eq_true.mp htbl) r (findRec_mem tbl kind m.name r hfind))
          · exact hset
        · exact hset
      | true =>
        simp only [stepB]
        split
        · split
          · split
            · exact hset
            · rename_i kind _
              split
              · exact hset
              · rename_i r hfind
                exact nestedBound_immField O c fields st.attrs f g k kind r m _ _ w hf hfield hset
                  ((List.all_eq_true.mp htbl) r (findRec_mem tbl kind m.name r hfind))
          · exact hset
        · exact hset

/-- **C04 (fields), every history** -/
theorem immField_runR_frozen (bound dh : Bool) (tbl : List MethodRec) (O : Oracles) (c : ClassOpts)
    (fields : List (String × FieldDecl)) (f : String) (w : PyVal)
    (hf : c.immFields.contains f = true) (hfield : (lookup f fields).isSome = true)
    (htbl : AllGuardedTbl tbl = true) :
    ∀ (ops : List ROp) (st : MState), lookup f st.attrs = some w →
      lookup f (runR bound dh tbl O c fields st ops).1.attrs = some w
  | [], st, hs => hs
  | op :: rest, st, hs => by
    simp only [runR]
    exact immField_runR_frozen bound dh tbl O c fields f w hf hfield htbl rest _
      (immField_stepR_frozen bound dh tbl O c fields st f w op hf hfield hs htbl)

theorem tables_all_guarded : AllGuardedTbl Generated.wrappers = true := by decide

/-- the table regenerated from the current working tree refuses every mutator on immutables -/
theorem tables_guarded : GuardedTbl Generated.wrappers = true := by decide

/-- members of list / dict / deque that return no reference to an element -/
def refFree : List String :=
  ["__contains__", "__len__", "count", "index", "keys", "__reversed__:dict", "__iter__:dict"]

/-- every accessor that can hand out element references is overridden by the wrapper (so that it
    can apply the defensive copy) -/
def AccessorsOk (tbl : List AccessorRec) : Bool :=
  tbl.all (fun a => a.overridden || refFree.contains a.method
                      || refFree.contains (a.method ++ ":" ++ a.wrapper))

theorem accessors_ok : AccessorsOk Generated.accessors = true := by decide

/-! ### non-vacuity and the known finding -/

def imC : ClassOpts := { name := "I", required := ["a"], addl := false, immutable := true, accepts := ["I"] }
def imFields : List (String × FieldDecl) :=
  [("a", .seqOf .list (.integer {}) {}), ("n", .seqOf .list (.seqOf .list (.integer {}) {}) {})]
def imStart : Attrs := [("a", .list [.int 1, .int 2]), ("n", .list [.list [.int 1]])]

theorem immutable_example :
    (run Generated.wrappers C03.exO imC imFields imStart
      [.call "a" (.append (.int 3)), .setattr "a" (.list []), .delitem "n", .call "a" .sort,
       .call "a" (.iadd [.int 9]), .call "a" (.delitem (.int 0))]).2
      = [.err .valueErr, .err .valueErr, .err .valueErr, .err .valueErr, .err .valueErr, .err .valueErr] := by
  decide

/-- a mutator called on the typed wrapper obtained by `x.n[0]` acts on a defensive copy -/
theorem nested_immutable_example :
    (match (step Generated.wrappers C03.exO imC imFields imStart
        (.callNested "n" (.int 0) (.append (.int 5)))) with
      | ([_, ("n", .list [.list [.int 1]])], .ok) => true
      | _ => false) = true := by
  decide

end Typedpy.C04
