/-
  Props/C04.lean — property theorems for C04 (stub; to be filled in).
-/
namespace Typedpy.C04
end Typedpy.C04
