/-
  Props/C04Alias.lean — C04, accessor side: no sequence of reads through the accessors of the typed
  wrappers (and of the field read itself), interleaved with native mutations of whatever the caller
  was handed or built, changes an object an immutable owner holds.

  Model: Sem/AliasC04.lean on the heap of Sem/Alias.lean.  Table: Generated/AliasingC04.lean,
  regenerated from the working tree on every run (AST idioms of collections_impl.py /
  structures.py + a witness probe on real instances); `tables_accessors_safe` and
  `tables_ctor_no_retention` are re-proved by `decide` each run.  The table found one raw row on
  /repo 58bf716 — `reversed(x.m)` on a Map value was not overridden by `_DictStruct` and handed out
  the stored key objects (repaired in 330c788, `fixed_dict_reversed_today`); `raw_accessor_leaks`
  is the kernel-checked reason why a raw row breaks the property.
-/
import TypedpyModel.Lemmas.AliasC04
import TypedpyModel.Generated.AliasingC04
namespace Typedpy.C04
open Typedpy.Alias Typedpy.AliasC04

/-- **general form**: `P` = the protected objects (all allocated, closed under references is not
    even needed), `S` = the sealed ones.  If at the start everything the caller can get at natively is
    unprotected or sealed, then after any admissible interleaving of accessor calls in safe modes and
    native mutations every protected cell is exactly as it was. -/
theorem reads_frozen (P : Nat → Prop) (S : Nat → Bool) (fuel : Nat) (h0 : Heap) (K0 : List Nat)
    (hold : ∀ a, P a → a < h0.next) (hcl : ClosedBelow h0.next h0) (hroots : ∀ a, a ∈ K0 → a < h0.next)
    (hinit : ∀ a, Can S h0 K0 a → ¬ P a ∨ S a = true)
    (evs : List Ev) (adm : AdmEvs S fuel h0 K0 evs) (safe : readsSafe evs = true) :
    ∀ a, P a → (runEvs S fuel h0 K0 evs).1.cells a = h0.cells a := by
  have i0 : Inv P S h0 h0 K0 :=
    { keep := fun _ _ => rfl, old := hold, le := Nat.le_refl _, closed := hcl, rootsLt := hroots, can := hinit }
  exact (c04_inv_run fuel evs h0 K0 i0 adm safe).keep

/-- … and the caller still cannot get at an unsealed protected object afterwards (so the argument
    can be repeated: the theorem composes over any further history) -/
theorem reads_keep_separation (P : Nat → Prop) (S : Nat → Bool) (fuel : Nat) (h0 : Heap) (K0 : List Nat)
    (hold : ∀ a, P a → a < h0.next) (hcl : ClosedBelow h0.next h0) (hroots : ∀ a, a ∈ K0 → a < h0.next)
    (hinit : ∀ a, Can S h0 K0 a → ¬ P a ∨ S a = true)
    (evs : List Ev) (adm : AdmEvs S fuel h0 K0 evs) (safe : readsSafe evs = true) :
    ∀ a, Can S (runEvs S fuel h0 K0 evs).1 (runEvs S fuel h0 K0 evs).2 a → ¬ P a ∨ S a = true := by
  have i0 : Inv P S h0 h0 K0 :=
    { keep := fun _ _ => rfl, old := hold, le := Nat.le_refl _, closed := hcl, rootsLt := hroots, can := hinit }
  exact (c04_inv_run fuel evs h0 K0 i0 adm safe).can

/-- **C04 (ImmutableStructure, accessor side)**: a caller that holds a reference to an immutable
    instance (sealed: its own mutators raise) and otherwise only objects that share nothing with it
    never changes a cell that existed before, whatever it reads and mutates; what can be observed
    of the instance (field reads, `==`, `str`, serialization: `observeN` to any depth) is unchanged. -/
theorem immutable_structure_reads_frozen (S : Nat → Bool) (fuel : Nat) (h0 : Heap) (inst : Nat)
    (hinst : inst < h0.next) (hs : S inst = true) (hcl : ClosedBelow h0.next h0)
    (evs : List Ev) (adm : AdmEvs S fuel h0 [inst] evs) (safe : readsSafe evs = true) (d : Nat) :
    (∀ a, a < h0.next → (runEvs S fuel h0 [inst] evs).1.cells a = h0.cells a)
    ∧ observeN d (runEvs S fuel h0 [inst] evs).1 (.ref inst) = observeN d h0 (.ref inst) := by
  have hinit : ∀ a, Can S h0 [inst] a → ¬ (a < h0.next) ∨ S a = true := by
    intro a c
    have : a = inst := by
      induction c with
      | root hm => simpa using hm
      | step _ hsb _ ih => subst ih; rw [hs] at hsb; cases hsb
    subst this; exact Or.inr hs
  have fr := reads_frozen (fun a => a < h0.next) S fuel h0 [inst] (fun _ h => h) hcl
    (fun a ha => by simp at ha; subst ha; exact hinst) hinit evs adm safe
  refine ⟨fr, ?_⟩
  exact observe_agree (fun a => a < h0.next) fr (fun a ha k hk => hcl a ha k hk) d (.ref inst)
    (fun a e => by cases e; exact hinst)

/-- **C04 (immutable field of a mutable structure, accessor side)**: `P` = what the field's value
    reaches (closed under references); the mutable instance and the caller's other objects are
    outside `P`.  The value's object graph is unchanged and reads the same to any depth. -/
theorem immutable_field_reads_frozen (P : Nat → Prop) (S : Nat → Bool) (fuel : Nat) (h0 : Heap)
    (K0 : List Nat) (v : Nat) (hv : P v)
    (hold : ∀ a, P a → a < h0.next) (hPclosed : ∀ a, P a → ∀ k, k ∈ (h0.cells a).kids → P k)
    (hcl : ClosedBelow h0.next h0) (hroots : ∀ a, a ∈ K0 → a < h0.next)
    (hinit : ∀ a, Can S h0 K0 a → ¬ P a ∨ S a = true)
    (evs : List Ev) (adm : AdmEvs S fuel h0 K0 evs) (safe : readsSafe evs = true) (d : Nat) :
    observeN d (runEvs S fuel h0 K0 evs).1 (.ref v) = observeN d h0 (.ref v) :=
  observe_agree P (reads_frozen P S fuel h0 K0 hold hcl hroots hinit evs adm safe) hPclosed d (.ref v)
    (fun a e => by cases e; exact hv)

/-! ### constructor: the arguments are not retained -/

/-- after the (deep-copying) constructor of an immutable owner, the caller — who keeps its arguments
    and everything else it had, and gets the new instance — can get at nothing of the instance's
    object graph except the sealed instance itself -/
theorem ctor_separates (fuel : Nat) (h : Heap) (args : List (String × Item)) (Kc : List Nat)
    (h' : Heap) (inst : Nat) (hcl : ClosedBelow h.next h) (hK : ∀ a, a ∈ Kc → a < h.next)
    (e : constructImm fuel h args = (h', some inst)) :
    let P := fun a => h.next ≤ a ∧ a < h'.next
    let S := fun a => a == inst
    (∀ a, P a → a < h'.next) ∧ ClosedBelow h'.next h' ∧ (∀ a, a ∈ inst :: Kc → a < h'.next)
    ∧ (∀ a, Can S h' (inst :: Kc) a → ¬ P a ∨ S a = true) ∧ P inst := by
  intro P S
  unfold constructImm at e
  cases e1 : mapItems (deepCopy fuel) h args with
  | mk h1 o =>
    rw [e1] at e
    cases o with
    | none => simp at e
    | some its =>
      simp only [Prod.mk.injEq, Option.some.injEq] at e
      obtain ⟨eh, ei⟩ := e
      have fr1 : Frame h h1 := mapItems_frame (deepCopy_frame fuel) _ _ _ _ e1
      have fs1 := mapItems_fresh (deepCopy_frame fuel) (deepCopy_fresh h.next fuel) _ _ _ _
        (Nat.le_refl _) (c04_newClosed_self h) e1
      have af := alloc_fresh fr1.1 fs1.1 "instance" fs1.2
      have frA : Frame h1 (h1.alloc ⟨"instance", its⟩).1 := frame_alloc _ _
      have fr : Frame h h' := by rw [← eh]; exact fr1.trans frA
      have nc : NewClosed h.next h' := by rw [← eh]; exact af.1
      have hnext : h'.next = h1.next + 1 := by rw [← eh]; rfl
      have hinstP : P inst := by
        show h.next ≤ inst ∧ inst < h'.next
        rw [← ei, hnext]; exact ⟨fr1.1, Nat.lt_succ_self _⟩
      have hclosed' : ClosedBelow h'.next h' := by
        intro a ha k hk
        by_cases hlt : a < h.next
        · rw [fr.2 a hlt] at hk
          exact Nat.lt_of_lt_of_le (hcl a hlt k hk) fr.1
        · exact (nc a (Nat.le_of_not_lt hlt) ha k hk).2
      refine ⟨fun a pa => pa.2, hclosed', ?_, ?_, hinstP⟩
      · intro a ha
        cases ha with
        | head => exact hinstP.2
        | tail _ h'' => exact Nat.lt_of_lt_of_le (hK a h'') fr.1
      · intro a c
        have : a = inst ∨ a < h.next := by
          induction c with
          | root hm =>
            cases hm with
            | head => exact Or.inl rfl
            | tail _ h'' => exact Or.inr (hK _ h'')
          | @step a' b' _ hsb hk ih =>
            cases ih with
            | inl eq => subst eq; simp [S] at hsb
            | inr hlt =>
              rw [fr.2 b' hlt] at hk
              exact Or.inr (hcl b' hlt a' hk)
        cases this with
        | inl eq => subst eq; exact Or.inr (by simp [S])
        | inr hlt => exact Or.inl (fun pa => Nat.lt_irrefl _ (Nat.lt_of_lt_of_le hlt pa.1))

/-- **C04 (constructor arguments)**: build an immutable instance from caller-owned arguments, then
    let the caller do anything admissible with the arguments it kept, with the instance and with
    whatever it reads from it: no cell of the instance's object graph changes -/
theorem ctor_then_reads_frozen (fuel : Nat) (h : Heap) (args : List (String × Item)) (Kc : List Nat)
    (h' : Heap) (inst : Nat) (hcl : ClosedBelow h.next h) (hK : ∀ a, a ∈ Kc → a < h.next)
    (e : constructImm fuel h args = (h', some inst))
    (evs : List Ev) (adm : AdmEvs (fun a => a == inst) fuel h' (inst :: Kc) evs)
    (safe : readsSafe evs = true) :
    ∀ a, h.next ≤ a → a < h'.next →
      (runEvs (fun a => a == inst) fuel h' (inst :: Kc) evs).1.cells a = h'.cells a := by
  have sep := ctor_separates fuel h args Kc h' inst hcl hK e
  intro a h1 h2
  exact reads_frozen (fun a => h.next ≤ a ∧ a < h'.next) (fun a => a == inst) fuel h' (inst :: Kc)
    sep.1 sep.2.1 sep.2.2.1 sep.2.2.2.1 evs adm safe a ⟨h1, h2⟩

/-! ### the regenerated tables -/

/-- rows that are known to be raw today: none (the one open finding, ("dict", "__reversed__"), was
    repaired in /repo 330c788; `raw_accessor_leaks` below keeps the reason why a raw row is a leak) -/
def knownRawRows : List (String × String) := []

/-- fixed in /repo 330c788: `reversed(x.m)` hands out copies of the keys -/
theorem fixed_dict_reversed_today :
    (Generated.accessorRowsC04.filter (fun r => r.wrapper == "dict" && r.accessor == "__reversed__")).all
      (fun r => r.mode.safe && r.overridden && r.astMode.safe) = true := by decide

/-- members of the pickle protocol an overriding wrapper assembles from `super().__reduce__()` and
    `__getstate__()` (no copy idiom of its own; covered by the witness probe) -/
def protocolMembers : List String := ["__reduce__"]

/-- every accessor the witness probe called hands out copies or sealed objects only, and every
    overriding accessor body shows a copy idiom — except exactly the known-finding rows -/
def AccessorsSafe (tbl : List AccRow) : Bool :=
  tbl.all fun r =>
    knownRawRows.contains (r.wrapper, r.accessor)
    || (r.mode.safe && (!r.overridden || r.astMode.safe || protocolMembers.contains r.accessor))

theorem tables_accessors_safe : AccessorsSafe Generated.accessorRowsC04 = true := by decide

theorem tables_ctor_no_retention : Generated.ctorRowsC04.all (fun r => !r.retains) = true := by decide

/-- the events of a history use the modes the table records for the current tree -/
def usesTable (tbl : List AccRow) : List Ev → Bool
  | [] => true
  | .read _ m :: rest => tbl.any (fun r => r.mode == m && !knownRawRows.contains (r.wrapper, r.accessor)) && usesTable tbl rest
  | .act _ :: rest => usesTable tbl rest

theorem usesTable_safe (tbl : List AccRow) (ht : AccessorsSafe tbl = true) :
    ∀ evs, usesTable tbl evs = true → readsSafe evs = true
  | [], _ => rfl
  | .act _ :: rest, h => by
    simp only [usesTable] at h
    simp only [readsSafe]; exact usesTable_safe tbl ht rest h
  | .read a m :: rest, h => by
    simp only [usesTable, Bool.and_eq_true, List.any_eq_true] at h
    obtain ⟨⟨r, hr, hm⟩, hrest⟩ := h
    simp only [readsSafe, Bool.and_eq_true]
    refine ⟨?_, usesTable_safe tbl ht rest hrest⟩
    have hrow := (List.all_eq_true.mp ht) r hr
    simp only [Bool.and_eq_true, Bool.not_eq_true'] at hm
    have hmode : r.mode = m := by simpa using hm.1
    rw [hm.2, Bool.false_or] at hrow
    simp only [Bool.and_eq_true] at hrow
    rw [← hmode]; exact hrow.1

/-- for the current tree: histories whose reads go through the accessors of the table (the
    known-finding row excluded) leave the immutable instance as it was -/
theorem immutable_structure_reads_frozen_current (S : Nat → Bool) (fuel : Nat) (h0 : Heap) (inst : Nat)
    (hinst : inst < h0.next) (hs : S inst = true) (hcl : ClosedBelow h0.next h0)
    (evs : List Ev) (adm : AdmEvs S fuel h0 [inst] evs)
    (ht : usesTable Generated.accessorRowsC04 evs = true) (d : Nat) :
    observeN d (runEvs S fuel h0 [inst] evs).1 (.ref inst) = observeN d h0 (.ref inst) :=
  (immutable_structure_reads_frozen S fuel h0 inst hinst hs hcl evs adm
    (usesTable_safe _ tables_accessors_safe evs ht) d).2

/-! ### non-vacuity and the known finding -/

/-- cell 0: the immutable instance, field m -> cell 1; cell 1: the Map wrapper (sealed) with a key
    object (cell 2, a mutable Structure) and a value list (cell 3) -/
def exHeap : Heap := Heap.ofList
  [⟨"instance", [("m", .ref 1)]⟩, ⟨"dict", [("key", .ref 2), ("val", .ref 3)]⟩,
   ⟨"inst", [("name", .atom 7)]⟩, ⟨"list", [("0", .atom 1)]⟩]
def exSealed (a : Nat) : Bool := a == 0 || a == 1

/-- reading through `guardedCopy` / `deepAll` accessors and mutating what was handed out leaves the
    instance as it was … -/
theorem accessor_example :
    (let r := runEvs exSealed 5 exHeap [0]
        [.read 0 .guardedCopy,                                  -- x.m: the sealed wrapper itself
         .read 1 .guardedCopy,                                  -- items(): copies of key and value (cells 4, 5)
         .act (.write 4 ⟨"inst", [("name", .atom 99)]⟩),        -- mutate the key copy
         .read 1 .deepAll,                                      -- copy(): cells 6.. 
         .act (.write 5 ⟨"list", []⟩)]                           -- clear the value copy
     (observeN 4 r.1 (.ref 0)).beq (observeN 4 exHeap (.ref 0)) && sameBelow 4 exHeap r.1) = true := by
  decide

/-- … while the `raw` mode of the one accessor `_DictStruct` does not override (`reversed(x.m)`,
    finding `leak:reversed`) hands out the stored key object: mutating it changes the instance -/
theorem raw_accessor_leaks :
    (let r := runEvs exSealed 5 exHeap [0]
        [.read 0 .guardedCopy, .read 1 .raw, .act (.write 2 ⟨"inst", [("name", .atom 99)]⟩)]
     (observeN 4 r.1 (.ref 0)).beq (observeN 4 exHeap (.ref 0))) = false := by
  decide

end Typedpy.C04
