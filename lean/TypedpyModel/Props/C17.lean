/-
  Props/C17.lean — C17: versioned conversion composes, reaches the latest version, leaves its input intact.

  Model: Sem/Convert.lean (`convert` = `_convert`, `convertDict` = `convert_dict`, `deserVersioned` = the
  `Versioned` prologue of `deserialize_structure_internal`, `versionedInitKw` = `Versioned.__init__`).
  Spec: Spec/ConvertSpec.lean (`upgrade`: the documented "apply mapping number v while v ≤ len" process, driven
  by the document's own version; `wfHistory`: no mapping has an entry for the top-level `version` key).

  All theorems quantify over every history `ms : List Mapping` (any length, any nesting of `._mapper`
  entries, any Constant / Deleted / move / FunctionCall entries), every JSON document and every split point.
  They are proved by induction on the list of mappings; the only facts needed about `_convert` itself are the
  frame lemma `convert_frame` (Lemmas/Convert.lean, by induction over the three loops) and "a dict goes to a dict".

  The pinned code violates the full statement in three places (model and code agree, see the counterexample
  theorems and `known_findings_C17.json`):
   * a document *without* a `version` key is treated as version 1 but comes out with version `len ms` instead of
     `len ms + 1` (`x.get("version", 0) + 1`), so a second conversion re-applies the last mapping;
   * a mapping that has an entry for `version` clobbers the bookkeeping;
   * `deserialize_structure_internal` reads `cls._versions_mapping` without a default, so a `Versioned` class that
     relies on the default empty history (as `Versioned.__init__` allows) cannot be deserialized at all.
-/
import TypedpyModel.Lemmas.Convert
namespace Typedpy.C17
open Typedpy.Convert

/-! ### list slicing -/

theorem drop_take_split {α} : ∀ (l : List α) (i k : Nat),
    l.drop i = (l.take k).drop i ++ l.drop (i + ((l.take k).drop i).length)
  | [], i, k => by simp
  | x :: l, i, 0 => by simp
  | x :: l, 0, k + 1 => by
    have := drop_take_split l 0 k
    simp only [List.drop_zero, Nat.zero_add] at this
    simp only [List.take_succ_cons, List.drop_zero, List.length_cons, Nat.zero_add, List.cons_append,
      List.drop_succ_cons]
    rw [← this]
  | x :: l, i + 1, k + 1 => by
    have := drop_take_split l i k
    simp only [List.take_succ_cons, List.drop_succ_cons]
    rw [show i + 1 + ((l.take k).drop i).length = (i + ((l.take k).drop i).length) + 1 by omega,
      List.drop_succ_cons]
    exact this

/-! ### version reached -/

/-- general form: from any start version `v ≥ 1` the result carries `max v (len ms + 1)` -/
theorem convert_version_max (ms : List Mapping) (d r : Json) (v : Int) (hw : wfHistory ms = true)
    (hv : docVersion d = some v) (h1 : 1 ≤ v) (h : convertDict d ms = .ok r) :
    docVersion r = some (max v ((ms.length : Int) + 1)) := by
  rw [convertDict_drop ms hv h1] at h
  have := runSteps_version _ d r v (wfHistory_drop _ hw) hv h
  rw [this, List.length_drop]
  congr 1
  omega

/-- **convert_version**: a document at version `v ∈ 1..len+1` is converted to a document whose version is
    `len ms + 1`, for every well-formed history -/
theorem convert_version (ms : List Mapping) (d r : Json) (v : Int) (hw : wfHistory ms = true)
    (hv : docVersion d = some v) (h1 : 1 ≤ v) (h2 : v ≤ (ms.length : Int) + 1)
    (h : convertDict d ms = .ok r) : docVersion r = some ((ms.length : Int) + 1) := by
  rw [convert_version_max ms d r v hw hv h1 h]
  congr 1
  omega

/-- the executable law the driver evaluates on the real code's result is the theorem's conclusion -/
theorem convert_version_law (ms : List Mapping) (d r : Json) (hw : wfHistory ms = true)
    (hd : inDomain ms d = true) (h : convertDict d ms = .ok r) : versionLaw ms r = true := by
  simp only [inDomain] at hd
  cases hv : docVersion d with
  | none => simp [hv] at hd
  | some v =>
    simp only [hv, Bool.and_eq_true, decide_eq_true_eq] at hd
    simp [versionLaw, convert_version ms d r v hw hv hd.1 hd.2 h]

/-! ### exactly the mappings from the document's version onward, in order -/

theorem upgrade_eq_runSteps (ms : List Mapping) (hw : wfHistory ms = true) :
    ∀ (n : Nat) (d : Json) (v : Int), docVersion d = some v → 1 ≤ v →
      n = ((ms.length : Int) + 1 - v).toNat →
      runSteps (ms.drop (v - 1).toNat) d = upgrade ms n d
  | 0, d, v, _, h1, hn => by
    have : ms.length ≤ (v - 1).toNat := by omega
    rw [List.drop_eq_nil_of_le this]; rfl
  | n + 1, d, v, hv, h1, hn => by
    have hlt : (v - 1).toNat < ms.length := by omega
    have hm : ms[(v - 1).toNat]? = some ms[(v - 1).toNat] := List.getElem?_eq_getElem hlt
    have hwm : writesKey "version" ms[(v - 1).toNat] = false := by
      have := (List.all_eq_true.mp hw) ms[(v - 1).toNat] (List.getElem_mem hlt)
      simpa using this
    rw [List.drop_eq_getElem_cons hlt]
    simp only [runSteps, upgrade, hv, hm, show ¬ v < 1 by omega, if_false, stepSpec]
    cases hc : convert ms[(v - 1).toNat] d with
    | error e => simp
    | ok d' =>
      rcases docVersion_obj hv with ⟨kvs, rfl, hg⟩
      rcases convert_frame _ kvs d' hwm hc with ⟨kvs', rfl, hg'⟩
      rw [hg] at hg'
      simp only [bindE_ok, bump, hg', versionInt]
      have hv' : docVersion (.obj (set "version" (.int (v + 1)) kvs')) = some (v + 1) :=
        docVersion_of_get (get_set_same _ _ _)
      have := upgrade_eq_runSteps ms hw n _ (v + 1) hv' (by omega) (by omega)
      rw [← this]
      congr 2
      omega

/-- **convert_is_upgrade**: `convert_dict` (one slice by the start version) is the documented upgrade
    process (look at the document's current version, apply that version's mapping, repeat): it applies
    exactly the mappings `v, v+1, …, len` in order -/
theorem convert_is_upgrade (ms : List Mapping) (d : Json) (v : Int) (hw : wfHistory ms = true)
    (hv : docVersion d = some v) (h1 : 1 ≤ v) :
    convertDict d ms = upgrade ms ((ms.length : Int) + 1 - v).toNat d := by
  rw [convertDict_drop ms hv h1]
  exact upgrade_eq_runSteps ms hw _ d v hv h1 rfl

/-! ### composition over every split point -/

/-- **convert_compose**: converting with the first `k` mappings and then onward with the full list is
    converting at once — every history, every start version `v ≥ 1`, every split point `k` (also `k` beyond
    the list or before the start version) -/
theorem convert_compose (ms : List Mapping) (d d1 : Json) (v : Int) (k : Nat) (hw : wfHistory ms = true)
    (hv : docVersion d = some v) (h1 : 1 ≤ v) (hs : convertDict d (ms.take k) = .ok d1) :
    convertDict d1 ms = convertDict d ms := by
  rw [convertDict_drop _ hv h1] at hs
  have hv1 := runSteps_version _ d d1 v (wfHistory_drop _ (wfHistory_take k hw)) hv hs
  rw [convertDict_drop ms hv h1, convertDict_drop ms hv1 (by omega),
    drop_take_split ms (v - 1).toNat k, runSteps_append, hs, bindE_ok]
  congr 2
  omega

/-- if the first stage raises, converting at once raises the same exception -/
theorem convert_compose_error (ms : List Mapping) (d : Json) (v : Int) (k : Nat) (e : Err)
    (hv : docVersion d = some v) (h1 : 1 ≤ v) (hs : convertDict d (ms.take k) = .error e) :
    convertDict d ms = .error e := by
  rw [convertDict_drop _ hv h1] at hs
  rw [convertDict_drop ms hv h1, drop_take_split ms (v - 1).toNat k, runSteps_append, hs, bindE_error]

/-! ### latest version: identity, idempotence -/

/-- **convert_latest_id**: a document already at (or beyond) the latest version is returned unchanged; no
    hypothesis on the history -/
theorem convert_latest_id (ms : List Mapping) (d : Json) (v : Int) (hv : docVersion d = some v)
    (h : (ms.length : Int) + 1 ≤ v) : convertDict d ms = .ok d := by
  rw [convertDict_drop ms hv (by omega)]
  have : ms.length ≤ (v - 1).toNat := by omega
  rw [List.drop_eq_nil_of_le this]; rfl

/-- converting a converted document changes nothing -/
theorem convert_idempotent (ms : List Mapping) (d r : Json) (v : Int) (hw : wfHistory ms = true)
    (hv : docVersion d = some v) (h1 : 1 ≤ v) (h : convertDict d ms = .ok r) : convertDict r ms = .ok r :=
  convert_latest_id ms r _ (convert_version_max ms d r v hw hv h1 h) (by omega)

/-! ### inputs unchanged -/

/-- **convert_pure**: the post-states of the document and of the mapping list are the arguments (the model
    threads them Aeneas-style; that the code indeed never writes through them is what the harness's deep
    snapshots and alias probe check on every case) -/
theorem convert_pure (d : Json) (ms : List Mapping) :
    (convertDictSt d ms).2 = (d, ms) ∧ (convertDictSt d ms).1 = convertDict d ms := ⟨rfl, rfl⟩

/-- the empty mapping copies: `_convert(x, {})` is `x` for every JSON value -/
theorem convert_empty_mapping (d : Json) : convert [] d = .ok d := convert_nil d

/-- **convert_frame**: keys a mapping has no entry for are carried over untouched by `_convert` -/
theorem convert_frame (q : String) (m : Mapping) (kvs : Obj) (r : Json) (hw : writesKey q m = false)
    (h : convert m (.obj kvs) = .ok r) : ∃ kvs', r = .obj kvs' ∧ get q kvs' = get q kvs :=
  Typedpy.Convert.convert_frame m kvs r hw h

/-- **deleted clause of the step contract**: after `_convert`, a key the mapping marks `Deleted` is absent -/
theorem convert_deleted_absent (k : String) (m : Mapping) (kvs : Obj) (r : Json)
    (hm : (k, Entry.deleted) ∈ m) (h : convert m (.obj kvs) = .ok r) :
    ∃ kvs', r = .obj kvs' ∧ get k kvs' = none := by
  simp only [convert, convShape] at h
  rcases bindE_eq_ok h with ⟨o1, _, h2⟩
  cases h2
  have hc : (k, CEntry.deleted) ∈ compileMap m := by
    have := mem_compileMap m hm
    simpa [Entry.compile] using this
  exact ⟨_, rfl, loop3_deleted _ _ (Or.inl hc)⟩

/-- **constant clause of the step contract**: after `_convert`, a key whose only entry in the mapping is
    `Constant(v)` holds `v` -/
theorem convert_constant_set (k : String) (v : Json) (m : Mapping) (kvs : Obj) (r : Json)
    (hm : (k, Entry.const v) ∈ m) (hu : ∀ e, (k, e) ∈ m → e = Entry.const v)
    (h : convert m (.obj kvs) = .ok r) : ∃ kvs', r = .obj kvs' ∧ get k kvs' = some v := by
  simp only [convert, convShape] at h
  rcases bindE_eq_ok h with ⟨o1, h1, h2⟩
  cases h2
  have hc : (k, CEntry.const v) ∈ compileMap m := by
    have := mem_compileMap m hm
    simpa [Entry.compile] using this
  have huc : ∀ ce, (k, ce) ∈ compileMap m → ce = CEntry.const v := by
    intro ce hce
    rcases mem_compileMap_inv m hce with ⟨e, he, rfl⟩
    rw [hu e he]; simp [Entry.compile]
  refine ⟨_, rfl, ?_⟩
  rw [loop3_const _ _ huc, loop2_const _ _ huc]
  exact loop1_const _ kvs kvs o1 huc h1 (Or.inl hc)

/-! ### `Versioned` deserialization and construction -/

/-- **versioned_deser_equiv**: deserializing a `Versioned` class from a document at any version `v ≥ 1` is
    deserializing it from the converted latest-version document (`rest` = the remainder of
    `deserialize_structure_internal`, any function of the converted input) -/
theorem versioned_deser_equiv {α} (rest : Json → α) (ms : List Mapping) (d d' : Json) (v : Int)
    (hw : wfHistory ms = true) (hv : docVersion d = some v) (h1 : 1 ≤ v)
    (h : convertDict d ms = .ok d') :
    deserVersioned rest (some ms) d' = deserVersioned rest (some ms) d := by
  have hv' := convert_version_max ms d d' v hw hv h1 h
  have hid := convert_idempotent ms d d' v hw hv h1 h
  rcases docVersion_obj hv with ⟨kvs, rfl, hg⟩
  rcases docVersion_obj hv' with ⟨kvs', rfl, hg'⟩
  cases ms with
  | nil =>
    have : convertDict (.obj kvs) [] = .ok (.obj kvs) := convert_latest_id [] _ v hv (by simpa using h1)
    rw [this] at h; cases h; rfl
  | cons m r => simp only [deserVersioned, hg, hg', h, hid, bindE_ok]

/-- and it yields `rest` of the converted document -/
theorem versioned_deser_result {α} (rest : Json → α) (ms : List Mapping) (d d' : Json) (v : Int)
    (hv : docVersion d = some v) (h : convertDict d ms = .ok d') :
    deserVersioned rest (some ms) d = .ok (rest d') := by
  rcases docVersion_obj hv with ⟨kvs, rfl, hg⟩
  cases ms with
  | nil =>
    simp only [convertDict, startVersion, hg, versionInt, bindE_ok, pySliceFrom, List.drop_nil, ite_self,
      runSteps] at h
    cases h
    simp only [deserVersioned, hg]
  | cons m r => simp only [deserVersioned, hg, h, bindE_ok]

/-- **new_instance_latest**: `Versioned.__init__` forces `version = len(_versions_mapping) + 1` (1 without the
    attribute), whatever the caller passed, and that value is a positive integer -/
theorem new_instance_latest (ms : Option (List Mapping)) (kw : Obj) :
    get "version" (versionedInitKw ms kw) = some (.int (((ms.getD []).length : Int) + 1))
    ∧ (0 : Int) < ((ms.getD []).length : Int) + 1 :=
  ⟨get_set_same _ _ _, by omega⟩

/-! ### the full statement, what the pinned code violates, and the partial theorems -/

/-- full-strength version statement: every document `convert_dict` accepts as being at version `v ∈ 1..len+1`
    (a document without a `version` key is accepted as version 1) comes out at `len ms + 1` -/
def VersionStatement : Prop :=
  ∀ (ms : List Mapping) (d r : Json) (v : Int), effectiveVersion d = some v → 1 ≤ v →
    v ≤ (ms.length : Int) + 1 → convertDict d ms = .ok r → effectiveVersion r = some ((ms.length : Int) + 1)

/-- full-strength composition statement -/
def ComposeStatement : Prop :=
  ∀ (ms : List Mapping) (d d1 : Json) (v : Int) (k : Nat), effectiveVersion d = some v → 1 ≤ v →
    convertDict d (ms.take k) = .ok d1 → convertDict d1 ms = convertDict d ms

/-- full-strength deserialization statement for the default (empty) history of a `Versioned` class that does
    not define `_versions_mapping`: a version-1 document is latest and deserializes as itself -/
def DeserDefaultHistoryStatement : Prop :=
  ∀ (rest : Json → Json) (d : Json), docVersion d = some 1 → deserVersioned rest none d = .ok (rest d)

theorem effectiveVersion_of_docVersion {d : Json} {v : Int} (h : docVersion d = some v) :
    effectiveVersion d = some v := by
  rcases docVersion_obj h with ⟨kvs, rfl, hg⟩
  simp [effectiveVersion, hg]

/-- the statements restricted by the decidable exclusion of exactly the known-finding region
    (`wfHistory ms` and "the document has an integer `version` key") -/
theorem version_partial (ms : List Mapping) (d r : Json) (v : Int) (hw : wfHistory ms = true)
    (hk : docVersion d = some v) (_ : effectiveVersion d = some v) (h1 : 1 ≤ v)
    (h2 : v ≤ (ms.length : Int) + 1) (h : convertDict d ms = .ok r) :
    effectiveVersion r = some ((ms.length : Int) + 1) :=
  effectiveVersion_of_docVersion (convert_version ms d r v hw hk h1 h2 h)

theorem compose_partial (ms : List Mapping) (d d1 : Json) (v : Int) (k : Nat) (hw : wfHistory ms = true)
    (hk : docVersion d = some v) (_ : effectiveVersion d = some v) (h1 : 1 ≤ v)
    (hs : convertDict d (ms.take k) = .ok d1) : convertDict d1 ms = convertDict d ms :=
  convert_compose ms d d1 v k hw hk h1 hs

/-- what the code does instead for a version-less document and a non-empty well-formed history: the result
    version is `len ms`, one short -/
theorem versionless_off_by_one (m : Mapping) (ms : List Mapping) (kvs : Obj) (r : Json)
    (hw : wfHistory (m :: ms) = true) (hn : get "version" kvs = none)
    (h : convertDict (.obj kvs) (m :: ms) = .ok r) : docVersion r = some ((m :: ms).length : Int) := by
  simp only [convertDict, startVersion, hn, bindE_ok, pySliceFrom, Int.sub_self, Int.le_refl, if_true,
    Int.toNat_zero, List.drop_zero, runSteps] at h
  rcases bindE_eq_ok h with ⟨d', hc, h'⟩
  rcases bindE_eq_ok h' with ⟨d'', hb, hr⟩
  have hc' := wfHistory_cons hw
  rcases Typedpy.Convert.convert_frame m kvs d' hc'.1 hc with ⟨kvs', rfl, hg'⟩
  rw [hn] at hg'
  simp only [bump, hg'] at hb
  cases hb
  have hv1 : docVersion (.obj (set "version" (.int 1) kvs')) = some 1 := docVersion_of_get (get_set_same _ _ _)
  rw [runSteps_version ms _ r 1 hc'.2 hv1 hr]
  simp only [List.length_cons]
  congr 1
  omega

/-- counterexample 1 (finding `version-off-by-one:versionless-document`):
    `convert_dict({"a": 1}, [{}])` returns `{"a": 1, "version": 1}` -/
theorem version_counterexample_versionless : ¬ VersionStatement := by
  intro h
  have := h [[]] (.obj [("a", .int 1)]) (.obj [("a", .int 1), ("version", .int 1)]) 1 rfl (by decide)
    (by decide) rfl
  revert this; decide

/-- counterexample 2 (finding `version-clobbered:mapping-writes-version`):
    `convert_dict({"version": 1}, [{"version": Constant(7)}, {}])` returns `{"version": 9}` -/
theorem version_counterexample_clobber : ¬ VersionStatement := by
  intro h
  have := h [[("version", .const (.int 7))], []] (.obj [("version", .int 1)]) (.obj [("version", .int 9)]) 1 rfl
    (by decide) (by decide) rfl
  revert this; decide

/-- counterexample 3 (finding `compose-broken:versionless-document`): with `ms = [{"a": FunctionCall(add_one)}]`
    and `d = {"a": 1}`, stage one gives `{"a": 2, "version": 1}`, whose conversion re-applies the mapping:
    `{"a": 3, "version": 2}`, while converting at once gives `{"a": 2, "version": 1}` -/
theorem compose_counterexample_versionless : ¬ ComposeStatement := by
  intro h
  have := h [[("a", .fn .addOne [])]] (.obj [("a", .int 1)]) (.obj [("a", .int 2), ("version", .int 1)]) 1 1 rfl
    (by decide) rfl
  have h2 : sameResult (convertDict (.obj [("a", .int 2), ("version", .int 1)]) [[("a", .fn .addOne [])]])
      (convertDict (.obj [("a", .int 1)]) [[("a", .fn .addOne [])]]) = false := by decide
  rw [this] at h2
  revert h2; decide

/-- counterexample 4 (finding `compose-broken:mapping-writes-version`): `ms = [{"version": Constant(5)}, {"a":
    Constant(0)}]`, `d = {"version": 1}`, split after the first mapping: stage one gives `{"version": 6}`, which
    is then "beyond latest" and returned as is, while converting at once gives `{"version": 7, "a": 0}` -/
theorem compose_counterexample_clobber : ¬ ComposeStatement := by
  intro h
  have := h [[("version", .const (.int 5))], [("a", .const (.int 0))]] (.obj [("version", .int 1)])
    (.obj [("version", .int 6)]) 1 1 rfl (by decide) rfl
  have h2 : sameResult (convertDict (.obj [("version", .int 6)])
        [[("version", .const (.int 5))], [("a", .const (.int 0))]])
      (convertDict (.obj [("version", .int 1)]) [[("version", .const (.int 5))], [("a", .const (.int 0))]])
      = false := by decide
  rw [this] at h2
  revert h2; decide

/-- counterexample 5 (finding `deser-crash:versions-mapping-attribute-absent`): a `Versioned` class without
    `_versions_mapping` raises AttributeError on `{"version": 1}` -/
theorem deser_counterexample_no_attribute : ¬ DeserDefaultHistoryStatement := by
  intro h
  have := h id (.obj [("version", .int 1)]) rfl
  simp [deserVersioned, Typedpy.Convert.get] at this

/-- with the attribute present (even empty) the default-history statement holds -/
theorem deser_default_history_partial {α} (rest : Json → α) (d : Json) (v : Int)
    (hv : docVersion d = some v) : deserVersioned rest (some []) d = .ok (rest d) := by
  rcases docVersion_obj hv with ⟨kvs, rfl, hg⟩
  simp only [deserVersioned, hg]

/-- the `Bool` comparison of outcomes used by the driver-evaluated laws means equality -/
theorem beq_sound (a b : R Json) (h : sameResult a b = true) : a = b := sameResult_sound h

/-! ### non-vacuity -/

/-- a three-step history with a Constant, a nested `._mapper` over a list of sub-documents, a FunctionCall
    with arguments, a dotted move and deletions -/
def exHistory : List Mapping :=
  [ [("j", .const (.int 100)),
     ("items", .sub [("n", .fn .addOne []), ("tag", .const (.str "t"))])],
    [("bar", .move ["old", "inner"]), ("old", .deleted), ("w", .fn .pair ["i", "j"])],
    [("first", .move ["items", "n"]), ("i", .fn .wrap ["i"])] ]

def exDoc : Json :=
  .obj [("version", .int 1), ("i", .int 2),
        ("items", .list [.obj [("n", .int 1)], .obj [("n", .int 5), ("z", .null)]]),
        ("old", .obj [("inner", .list [.bool true])])]

def exLatest : Json :=
  .obj [("version", .int 4), ("i", .list [.int 2]),
        ("items", .list [.obj [("n", .int 2), ("tag", .str "t")],
                         .obj [("n", .int 6), ("z", .null), ("tag", .str "t")]]),
        ("j", .int 100), ("w", .list [.int 2, .int 100]), ("bar", .list [.bool true]),
        ("first", .list [.int 2, .int 6])]

theorem laws_example :
    wfHistory exHistory = true ∧ inDomain exHistory exDoc = true
    ∧ sameResult (convertDict exDoc exHistory) (.ok exLatest) = true
    ∧ versionLaw exHistory exLatest = true
    ∧ (match convertDict exDoc (exHistory.take 1) with
        | .ok d1 => sameResult (convertDict d1 exHistory) (convertDict exDoc exHistory)
                     && sameResult (.ok d1) (.ok exLatest) == false
        | .error _ => false) = true
    ∧ (match convertDict exDoc (exHistory.take 2) with
        | .ok d2 => sameResult (convertDict d2 exHistory) (convertDict exDoc exHistory)
        | .error _ => false) = true
    ∧ sameResult (convertDict exLatest exHistory) (.ok exLatest) = true
    ∧ sameResult (upgrade exHistory 3 exDoc) (.ok exLatest) = true
    ∧ sameResult (convertDict (.obj [("version", .int 1), ("items", .int 3)]) exHistory)
        (.error .attrErr) = true := by
  decide

end Typedpy.C17
