/-
  Props/C17.lean — property theorems for C17 (stub; to be filled in).
-/
namespace Typedpy.C17
end Typedpy.C17
