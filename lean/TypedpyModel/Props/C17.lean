/-
  Props/C17.lean — C17: versioned conversion composes, reaches the latest version, leaves its input intact.

  Model: Sem/Convert.lean (`convert` = `_convert`, `convertDict` = `convert_dict`, `deserVersioned` = the
  `Versioned` prologue of `deserialize_structure_internal`, `versionedInitKw` = `Versioned.__init__`), aligned with
  typedpy commit f017e49 (version counted from the start version, Constant values copied,
  `getattr(cls, "_versions_mapping", None)`).
  Spec: Spec/ConvertSpec.lean (`upgrade`: the documented "apply mapping number v while v ≤ len" process, driven
  by the document's own version).

  All theorems quantify over every history `ms : List Mapping` (any length, any nesting of `._mapper`
  entries, any Constant / Deleted / move / FunctionCall entries — including entries for the `version` key
  itself), every JSON document and every split point.  They are proved by induction on the list of mappings.
  The only hypothesis about the document is that its *effective* start version (`version` key holding an
  integer, or no `version` key = version 1, as `convert_dict` reads it) is an integer `v ≥ 1`
  (`v ≤ len ms + 1` where the conclusion says "len ms + 1" rather than `max v (len ms + 1)`).
  No well-formedness restriction on the history remains: the full statements `VersionStatement`,
  `ComposeStatement` and `DeserDefaultHistoryStatement`, which the code before f017e49 violated (kernel-checked
  counterexamples then), are now theorems; the former counterexample inputs are kept as `fixed_*` examples.
-/
import TypedpyModel.Lemmas.ConvertStep
import TypedpyModel.Lemmas.AliasC17
import TypedpyModel.Generated.AliasingC17
namespace Typedpy.C17
open Typedpy.Convert

/-! ### list slicing -/

theorem drop_take_split {α} : ∀ (l : List α) (i k : Nat),
    l.drop i = (l.take k).drop i ++ l.drop (i + ((l.take k).drop i).length)
  | [], i, k => by simp
  | x :: l, i, 0 => by simp
  | x :: l, 0, k + 1 => by
    have := drop_take_split l 0 k
    simp only [List.drop_zero, Nat.zero_add] at this
    simp only [List.take_succ_cons, List.drop_zero, List.length_cons, Nat.zero_add, List.cons_append,
      List.drop_succ_cons]
    rw [← this]
  | x :: l, i + 1, k + 1 => by
    have := drop_take_split l i k
    simp only [List.take_succ_cons, List.drop_succ_cons]
    rw [show i + 1 + ((l.take k).drop i).length = (i + ((l.take k).drop i).length) + 1 by omega,
      List.drop_succ_cons]
    exact this

/-! ### version reached -/

/-- general form: from any effective start version `v ≥ 1` the result carries `max v (len ms + 1)` — no
    hypothesis on the history -/
theorem convert_version_max (ms : List Mapping) (d r : Json) (v : Int)
    (hv : effectiveVersion d = some v) (h1 : 1 ≤ v) (h : convertDict d ms = .ok r) :
    effectiveVersion r = some (max v ((ms.length : Int) + 1)) := by
  rw [convertDict_drop ms hv h1] at h
  rw [runSteps_effVersion _ d r v hv h, List.length_drop]
  congr 1
  omega

/-- the same when the document has a `version` key: so has the result -/
theorem convert_version_max_keyed (ms : List Mapping) (d r : Json) (v : Int)
    (hv : docVersion d = some v) (h1 : 1 ≤ v) (h : convertDict d ms = .ok r) :
    docVersion r = some (max v ((ms.length : Int) + 1)) := by
  rw [convertDict_drop ms (effectiveVersion_of_docVersion hv) h1] at h
  rw [runSteps_version _ d r v hv h, List.length_drop]
  congr 1
  omega

/-- **convert_version**: a document at effective version `v ∈ 1..len+1` is converted to a document whose
    version is `len ms + 1`, for every history -/
theorem convert_version (ms : List Mapping) (d r : Json) (v : Int)
    (hv : effectiveVersion d = some v) (h1 : 1 ≤ v) (h2 : v ≤ (ms.length : Int) + 1)
    (h : convertDict d ms = .ok r) : effectiveVersion r = some ((ms.length : Int) + 1) := by
  rw [convert_version_max ms d r v hv h1 h]
  congr 1
  omega

/-- with a `version` key in the document the result has the key, with value `len ms + 1` -/
theorem convert_version_keyed (ms : List Mapping) (d r : Json) (v : Int)
    (hv : docVersion d = some v) (h1 : 1 ≤ v) (h2 : v ≤ (ms.length : Int) + 1)
    (h : convertDict d ms = .ok r) : docVersion r = some ((ms.length : Int) + 1) := by
  rw [convert_version_max_keyed ms d r v hv h1 h]
  congr 1
  omega

/-- a document *without* `version` key converted with a non-empty history gets the key, with value
    `len ms + 1` (before f017e49 it came out one short) -/
theorem convert_version_versionless (m : Mapping) (ms : List Mapping) (kvs : Obj) (r : Json)
    (hn : get "version" kvs = none) (h : convertDict (.obj kvs) (m :: ms) = .ok r) :
    docVersion r = some (((m :: ms).length : Int) + 1) := by
  have hv : effectiveVersion (.obj kvs) = some 1 := by simp [effectiveVersion, hn]
  rw [convertDict_drop _ hv (by omega)] at h
  simp only [Int.sub_self, Int.toNat_zero, List.drop_zero] at h
  rw [runSteps_version_cons m ms kvs r 1 h]
  congr 1
  omega

/-- the executable law the driver evaluates on the real code's result is the theorem's conclusion -/
theorem convert_version_law (ms : List Mapping) (d r : Json)
    (hd : inDomain ms d = true) (h : convertDict d ms = .ok r) : versionLaw ms r = true := by
  simp only [inDomain] at hd
  cases hv : effectiveVersion d with
  | none => simp [hv] at hd
  | some v =>
    simp only [hv, Bool.and_eq_true, decide_eq_true_eq] at hd
    simp [versionLaw, convert_version ms d r v hv hd.1 hd.2 h]

/-! ### exactly the mappings from the document's version onward, in order -/

theorem upgrade_eq_runSteps (ms : List Mapping) :
    ∀ (n : Nat) (d : Json) (v : Int), effectiveVersion d = some v → 1 ≤ v →
      n = ((ms.length : Int) + 1 - v).toNat →
      runSteps (ms.drop (v - 1).toNat) v d = upgrade ms n d
  | 0, d, v, _, h1, hn => by
    have : ms.length ≤ (v - 1).toNat := by omega
    rw [List.drop_eq_nil_of_le this]; rfl
  | n + 1, d, v, hv, h1, hn => by
    have hlt : (v - 1).toNat < ms.length := by omega
    have hm : ms[(v - 1).toNat]? = some ms[(v - 1).toNat] := List.getElem?_eq_getElem hlt
    rw [List.drop_eq_getElem_cons hlt]
    simp only [runSteps, upgrade, hv, hm, show ¬ v < 1 by omega, if_false, stepSpec]
    cases hc : convert ms[(v - 1).toNat] d with
    | error e => simp
    | ok d' =>
      rcases effectiveVersion_obj hv with ⟨kvs, rfl, _⟩
      rcases convert_obj _ kvs d' hc with ⟨kvs', rfl⟩
      simp only [bindE_ok, setVersion]
      have hv' : effectiveVersion (.obj (set "version" (.int (v + 1)) kvs')) = some (v + 1) :=
        effectiveVersion_of_docVersion (docVersion_of_get (get_set_same _ _ _))
      have := upgrade_eq_runSteps ms n _ (v + 1) hv' (by omega) (by omega)
      rw [← this]
      have hi : (v - 1).toNat + 1 = (v + 1 - 1).toNat := by omega
      rw [hi]

/-- **convert_is_upgrade**: `convert_dict` (one slice by the start version, version counted from the start
    version) is the documented upgrade process (look at the document's current version, apply that version's
    mapping, repeat): it applies exactly the mappings `v, v+1, …, len` in order — for every history -/
theorem convert_is_upgrade (ms : List Mapping) (d : Json) (v : Int)
    (hv : effectiveVersion d = some v) (h1 : 1 ≤ v) :
    convertDict d ms = upgrade ms ((ms.length : Int) + 1 - v).toNat d := by
  rw [convertDict_drop ms hv h1]
  exact upgrade_eq_runSteps ms _ d v hv h1 rfl

/-! ### composition over every split point -/

/-- **convert_compose**: converting with the first `k` mappings and then onward with the full list is
    converting at once — every history, every effective start version `v ≥ 1` (also a document without
    `version` key), every split point `k` (also `k` beyond the list or before the start version) -/
theorem convert_compose (ms : List Mapping) (d d1 : Json) (v : Int) (k : Nat)
    (hv : effectiveVersion d = some v) (h1 : 1 ≤ v) (hs : convertDict d (ms.take k) = .ok d1) :
    convertDict d1 ms = convertDict d ms := by
  rw [convertDict_drop _ hv h1] at hs
  have hv1 := runSteps_effVersion _ d d1 v hv hs
  rw [convertDict_drop ms hv h1, convertDict_drop ms hv1 (by omega),
    drop_take_split ms (v - 1).toNat k, runSteps_append, hs, bindE_ok]
  congr 2
  omega

/-- if the first stage raises, converting at once raises the same exception -/
theorem convert_compose_error (ms : List Mapping) (d : Json) (v : Int) (k : Nat) (e : Err)
    (hv : effectiveVersion d = some v) (h1 : 1 ≤ v) (hs : convertDict d (ms.take k) = .error e) :
    convertDict d ms = .error e := by
  rw [convertDict_drop _ hv h1] at hs
  rw [convertDict_drop ms hv h1, drop_take_split ms (v - 1).toNat k, runSteps_append, hs, bindE_error]

/-! ### latest version: identity, idempotence -/

/-- **convert_latest_id**: a document already at (or beyond) the latest version is returned unchanged -/
theorem convert_latest_id (ms : List Mapping) (d : Json) (v : Int) (hv : effectiveVersion d = some v)
    (h : (ms.length : Int) + 1 ≤ v) : convertDict d ms = .ok d := by
  rw [convertDict_drop ms hv (by omega)]
  have : ms.length ≤ (v - 1).toNat := by omega
  rw [List.drop_eq_nil_of_le this]; rfl

/-- converting a converted document changes nothing -/
theorem convert_idempotent (ms : List Mapping) (d r : Json) (v : Int)
    (hv : effectiveVersion d = some v) (h1 : 1 ≤ v) (h : convertDict d ms = .ok r) : convertDict r ms = .ok r :=
  convert_latest_id ms r _ (convert_version_max ms d r v hv h1 h) (by omega)

/-! ### inputs unchanged -/

/-- **convert_pure**: the post-states of the document and of the mapping list are the arguments (the model
    threads them Aeneas-style; that the code indeed never writes through them is what the harness's deep
    snapshots and alias probe check on every case) -/
theorem convert_pure (d : Json) (ms : List Mapping) :
    (convertDictSt d ms).2 = (d, ms) ∧ (convertDictSt d ms).1 = convertDict d ms := ⟨rfl, rfl⟩

/-- the empty mapping copies: `_convert(x, {})` is `x` for every JSON value -/
theorem convert_empty_mapping (d : Json) : convert [] d = .ok d := convert_nil d

/-- **convert_frame**: keys a mapping has no entry for are carried over untouched by `_convert` -/
theorem convert_frame (q : String) (m : Mapping) (kvs : Obj) (r : Json) (hw : writesKey q m = false)
    (h : convert m (.obj kvs) = .ok r) : ∃ kvs', r = .obj kvs' ∧ get q kvs' = get q kvs :=
  Typedpy.Convert.convert_frame m kvs r hw h

/-- **deleted clause of the step contract**: after `_convert`, a key the mapping marks `Deleted` is absent -/
theorem convert_deleted_absent (k : String) (m : Mapping) (kvs : Obj) (r : Json)
    (hm : (k, Entry.deleted) ∈ m) (h : convert m (.obj kvs) = .ok r) :
    ∃ kvs', r = .obj kvs' ∧ get k kvs' = none := by
  simp only [convert, convShape] at h
  rcases bindE_eq_ok h with ⟨o1, _, h2⟩
  cases h2
  have hc : (k, CEntry.deleted) ∈ compileMap m := by
    have := mem_compileMap m hm
    simpa [Entry.compile] using this
  exact ⟨_, rfl, loop3_deleted _ _ (Or.inl hc)⟩

/-- **constant clause of the step contract**: after `_convert`, a key whose only entry in the mapping is
    `Constant(v)` holds `v` -/
theorem convert_constant_set (k : String) (v : Json) (m : Mapping) (kvs : Obj) (r : Json)
    (hm : (k, Entry.const v) ∈ m) (hu : ∀ e, (k, e) ∈ m → e = Entry.const v)
    (h : convert m (.obj kvs) = .ok r) : ∃ kvs', r = .obj kvs' ∧ get k kvs' = some v := by
  simp only [convert, convShape] at h
  rcases bindE_eq_ok h with ⟨o1, h1, h2⟩
  cases h2
  have hc : (k, CEntry.const v) ∈ compileMap m := by
    have := mem_compileMap m hm
    simpa [Entry.compile] using this
  have huc : ∀ ce, (k, ce) ∈ compileMap m → ce = CEntry.const v := by
    intro ce hce
    rcases mem_compileMap_inv m hce with ⟨e, he, rfl⟩
    rw [hu e he]; simp [Entry.compile]
  refine ⟨_, rfl, ?_⟩
  rw [loop3_const _ _ huc, loop2_const _ _ huc]
  exact loop1_const _ kvs kvs o1 huc h1 (Or.inl hc)

/-! ### the documented single-step contract (docs/versioning.rst) — every clause, proved

  `stepViolations m before after` (Spec/ConvertSpec.lean) lists the clauses of the documented contract of one mapping
  application that a pair of documents violates: deleted, constant, move (dotted paths, the rename idiom), function
  (arguments as the entries written before left them), nested `._mapper` (a sub-document, every sub-document of a
  list; `None` / absent stay), frame — with the precedence rules when several entries touch one key (a move wins
  over a `._mapper` entry, a Constant and a `._mapper` entry act in the order written, a function sees the Constant
  written before it).  The driver evaluates it on what the real code returned.  Here: the model of
  `_convert` satisfies ALL of it, for every mapping that is a Python dict (`wfMapping`: a key occurs once per nesting
  level), whatever user functions its `FunctionCall` entries carry, and every JSON value. -/

/-- **step_contract_holds**: `_convert` satisfies every clause of the documented contract -/
theorem step_contract_holds (m : Mapping) (hwf : wfMapping m = true) (before after : Json)
    (h : convert m before = .ok after) : stepViolations m before after = [] :=
  c17_step_contract m hwf before after h

/-- one iteration of `convert_dict` (`_convert`, then `version` is set by the caller) satisfies the contract -/
theorem step_contract_top_holds (m : Mapping) (hwf : wfMapping m = true) (b : Obj) (d' d'' : Json) (v : Int)
    (h : convert m (.obj b) = .ok d') (hs : setVersion v d' = .ok d'') : stepViolationsTop m (.obj b) d'' = [] :=
  c17_step_contract_top m hwf b d' d'' v h hs

/-- **convert_steps_contract**: the conversions with the prefixes `ms[:k]` and `ms[:k+1]` (what the driver's
    `modelSteps` / `implSteps` look at) are one contract-satisfying application of `ms[k]` apart — so
    `convert_dict` from version `v` to the latest is the fold of documented single steps `v, v+1, …, len` -/
theorem convert_steps_contract (ms : List Mapping) (hwf : ∀ m, m ∈ ms → wfMapping m = true) (d b a : Json) (v : Int)
    (k : Nat) (m : Mapping) (hv : effectiveVersion d = some v) (h1 : 1 ≤ v) (hk : v ≤ (k : Int) + 1)
    (hm : ms[k]? = some m) (hb : convertDict d (ms.take k) = .ok b) (ha : convertDict d (ms.take (k + 1)) = .ok a) :
    stepViolationsTop m b a = [] := by
  have hklt : k < ms.length := by
    rcases List.getElem?_eq_some_iff.mp hm with ⟨hlt, _⟩
    exact hlt
  rw [convertDict_drop _ hv h1] at hb ha
  have hvb := runSteps_effVersion _ d b v hv hb
  rw [List.take_add_one, hm, Option.toList_some,
    List.drop_append_of_le_length (by rw [List.length_take]; omega), runSteps_append, hb, bindE_ok] at ha
  simp only [runSteps] at ha
  rcases bindE_eq_ok ha with ⟨d', hc, h2⟩
  rcases bindE_eq_ok h2 with ⟨d'', hs, h3⟩
  cases h3
  rcases effectiveVersion_obj hvb with ⟨kvs, rfl, _⟩
  exact c17_step_contract_top m (hwf m (List.mem_of_getElem? hm)) kvs d' a _ hc hs

/-- **convert_fn_error_propagates**: whatever a user function raises on the arguments loop 1 hands it (the values
    the entries written before it left) is what `_convert` raises — for every user function, nothing is swallowed -/
theorem convert_fn_error_propagates (mp mr : Mapping) (k : String) (g : UserFn) (args : List String)
    (b op : Obj) (e : Err) (hp : loop1 (compileMap mp) b b = .ok op)
    (hg : g ((if args.isEmpty then [k] else args).map fun a => getD a op) = .error e) :
    convert (mp ++ (k, .fn g args) :: mr) (.obj b) = .error e := by
  simp only [convert, convShape, compileMap_append, loop1_append, hp, bindE_ok, compileMap, Entry.compile, loop1,
    step1, hg, bindE_error]

/-- … and when it answers, the key holds the answer (no other entry for the key): the FunctionCall clause spelled
    out for an arbitrary user function `g` -/
theorem convert_fn_result (mp mr : Mapping) (k : String) (g : UserFn) (args : List String) (b : Obj) (r : Json)
    (hu1 : ∀ e', (k, e') ∉ mp) (hu2 : ∀ e', (k, e') ∉ mr)
    (h : convert (mp ++ (k, .fn g args) :: mr) (.obj b) = .ok r) :
    ∃ op a v, loop1 (compileMap mp) b b = .ok op ∧ r = .obj a
      ∧ g ((if args.isEmpty then [k] else args).map fun x => getD x op) = .ok v ∧ get k a = some v := by
  rcases c17_convert_unfold h with ⟨o1, h1, rfl⟩
  rcases c17_loop1_at mp mr b b o1 (fun e' he' => absurd he' (hu2 e')) h1 with ⟨op, o2, hp, hs2, hg⟩
  simp only [Entry.compile, step1] at hs2
  rcases bindE_eq_ok hs2 with ⟨v, hv, hs3⟩
  cases hs3
  have hall : ∀ e', (k, e') ∈ mp ++ (k, Entry.fn g args) :: mr → e' = Entry.fn g args := by
    intro e' he'
    rcases c17_mem_split he' with h' | h' | h'
    · exact absurd h' (hu1 e')
    · exact h'
    · exact absurd h' (hu2 e')
  refine ⟨op, _, v, hp, rfl, hv, ?_⟩
  rw [c17_after_eq o1 (fun e' he' => by rw [hall e' he']; rfl) (fun e' he' => by rw [hall e' he']; rfl), hg,
    get_set_same]

/-- the contract is not vacuous: on a mapping with a rename, a Constant, a FunctionCall and a nested `._mapper` over a
    list the model's result passes, and tampering with any one of the moved key, the deleted key, the constant, the
    function result, a nested sub-document or an unmentioned key is reported -/
def exStepMapping : Mapping :=
  [("n", .move ["o", "i"]), ("o", .deleted), ("c", .const (.int 7)), ("f", .fn (applyFn .addOne) ["x"]),
   ("s", .sub [("t", .const (.str "q"))])]

def exStepBefore : Json :=
  .obj [("o", .obj [("i", .float 5 2)]), ("x", .int 4), ("s", .list [.obj [("u", .int 0)]]), ("z", .int 5)]

def exStepAfter (n c f t z : Json) (o : List (String × Json)) : Json :=
  .obj (o ++ [("x", .int 4), ("s", .list [.obj [("u", .int 0), ("t", t)]]), ("z", z), ("c", c), ("f", f), ("n", n)])

theorem step_contract_sensitive_example :
    wfMapping exStepMapping = true
    ∧ sameResult (convert exStepMapping exStepBefore)
        (.ok (exStepAfter (.float 5 2) (.int 7) (.int 5) (.str "q") (.int 5) [])) = true
    ∧ (stepViolations exStepMapping exStepBefore (exStepAfter (.float 5 2) (.int 7) (.int 5) (.str "q") (.int 5) [])).length = 0
    ∧ (stepViolations exStepMapping exStepBefore (exStepAfter (.int 5) (.int 7) (.int 5) (.str "q") (.int 5) [])).length = 1
    ∧ (stepViolations exStepMapping exStepBefore (exStepAfter (.float 5 2) (.int 8) (.int 5) (.str "q") (.int 5) [])).length = 1
    ∧ (stepViolations exStepMapping exStepBefore (exStepAfter (.float 5 2) (.int 7) (.int 4) (.str "q") (.int 5) [])).length = 1
    ∧ (stepViolations exStepMapping exStepBefore (exStepAfter (.float 5 2) (.int 7) (.int 5) (.str "r") (.int 5) [])).length = 1
    ∧ (stepViolations exStepMapping exStepBefore (exStepAfter (.float 5 2) (.int 7) (.int 5) (.str "q") (.int 6) [])).length = 2
    ∧ (stepViolations exStepMapping exStepBefore
        (exStepAfter (.float 5 2) (.int 7) (.int 5) (.str "q") (.int 5) [("o", .null)])).length = 1 := by
  decide

/-- precedence when a Constant and a `._mapper` entry share a key (entries act in the order written; the nested
    conversion reads the sub-document that was there BEFORE the step): `s`: Constant then `._mapper` → the converted
    sub-document wins; `p`: `._mapper` then Constant → the constant wins; `q`: Constant then `._mapper` on an absent
    sub-document → the constant stays.  Each wrong outcome is reported. -/
def exPrecMapping : Mapping :=
  [("s", .const (.int 0)), ("s", .sub [("t", .const (.int 1))]),
   ("p", .sub [("t", .const (.int 1))]), ("p", .const (.int 0)), ("q", .const (.int 9)), ("q", .sub [])]

def exPrecBefore : Json := .obj [("s", .obj [("u", .int 0)]), ("p", .obj [("u", .int 0)])]

theorem step_contract_precedence_example :
    wfMapping exPrecMapping = true
    ∧ sameResult (convert exPrecMapping exPrecBefore)
        (.ok (.obj [("s", .obj [("u", .int 0), ("t", .int 1)]), ("p", .int 0), ("q", .int 9)])) = true
    ∧ (stepViolations exPrecMapping exPrecBefore
        (.obj [("s", .obj [("u", .int 0), ("t", .int 1)]), ("p", .int 0), ("q", .int 9)])).length = 0
    ∧ (stepViolations exPrecMapping exPrecBefore (.obj [("s", .int 0), ("p", .int 0), ("q", .int 9)])).length = 1
    ∧ (stepViolations exPrecMapping exPrecBefore
        (.obj [("s", .obj [("u", .int 0), ("t", .int 1)]), ("p", .obj [("u", .int 0), ("t", .int 1)]), ("q", .int 9)])).length = 1
    ∧ (stepViolations exPrecMapping exPrecBefore
        (.obj [("s", .obj [("u", .int 0), ("t", .int 1)]), ("p", .int 0)])).length = 1 := by
  decide

/-! ### start versions below 1: the documentation ("The version is expected to start with 1", field `version:
    PositiveInt`) leaves no room for them; since typedpy commit e6a2398 `convert_dict` rejects them (before, it sliced
    the history with a negative index: findings `invalid-version-accepted:*`, now `fixed`) -/

/-- full-strength statement: a document whose `version` is an integer below 1 is not converted (it is rejected) -/
def NonPositiveRejectedStatement : Prop :=
  ∀ (ms : List Mapping) (d : Json) (v : Int), docVersion d = some v → v < 1 → ∃ e, convertDict d ms = .error e

/-- `convert_dict` raises ValueError on an int (or bool) `version` below 1, whatever the history -/
theorem convert_nonpositive_raises (ms : List Mapping) (kvs : Obj) (x : Json) (v : Int)
    (hv : get "version" kvs = some x) (hx : versionInt x = some v) (h : v < 1) :
    convertDict (.obj kvs) ms = .error (.other "ValueError") := by
  simp [convertDict, startVersion, hv, hx, h]

theorem nonpositive_rejected_holds : NonPositiveRejectedStatement := by
  intro ms d v hv h
  rcases docVersion_obj hv with ⟨kvs, rfl, hg⟩
  exact ⟨_, convert_nonpositive_raises ms kvs (.int v) v hg rfl h⟩

/-- was `invalid-version-accepted:convert_dict-nonpositive-start-version`:
    `convert_dict({"version": 0}, [{"a": Constant(1)}, {"b": Constant(2)}])` used to apply the LAST mapping only and
    answer `{"version": 1, "b": 2}`; now it raises ValueError -/
theorem fixed_nonpositive_example :
    sameResult (convertDict (.obj [("version", .int 0)]) [[("a", .const (.int 1))], [("b", .const (.int 2))]])
      (.error (.other "ValueError")) = true := by
  decide

/-- … and so does the `Versioned` prologue of deserialization, also for a class with an empty history or without
    `_versions_mapping` (was `invalid-version-accepted:deserialize-nonpositive-start-version`) -/
theorem deser_nonpositive_raises {α} (rest : Json → α) (ms : Option (List Mapping)) (kvs : Obj) (x : Json) (v : Int)
    (hv : get "version" kvs = some x) (hx : versionInt x = some v) (h : v < 1) :
    deserVersioned rest ms (.obj kvs) = .error (.other "ValueError") := by
  simp [deserVersioned, hv, nonPositiveVersion, hx, h]

/-! ### "leaves its input intact", proved on the heap

  `convert_pure` above is true by construction of the value-level model.  The statements below are about a
  heap-level model of the same code (Sem/AliasC17.lean: `hConvertDict` / `hConvert` over the ownership model of C19,
  Sem/Alias.lean — cells with identity, `copy.deepcopy` as `deepCopy`, `out_dict[k] = …` / `del` as writes into the
  cell `out_dict` refers to, `deep_get` handing out references, user functions as arbitrary heap transformers).
  What the code does at its three copy sites (`convert_dict`: `copy.deepcopy(the_dict)`; `_convert`:
  `copy.deepcopy(mapped_dict)`; Constant: `copy.deepcopy(v())`) is a parameter `S : Sites` of that model; the value
  the source has TODAY is regenerated on every run by extract/aliasing_c17.py into Generated/AliasingC17.lean
  (`Gen.sites`, `Gen.paramWrites`, `Gen.nestedReadsInput`) and the obligations `*_today` are re-decided.
  User functions are restricted by the capability discipline `FnOk` only (allocate; return an atom, something new
  or something reachable from the arguments) — they may even mutate what they were given. -/

/-- the two copy sites `convert_dict`'s intactness rests on — `copy.deepcopy(the_dict)` and
    `copy.deepcopy(v())` of a Constant's value — copy in the source as regenerated today.  (What `_convert` does with
    its own argument, deep / shallow / no copy, does not matter: it only ever sees `convert_dict`'s private copy.) -/
theorem sites_doc_const_copy_today :
    AliasC17.Gen.sites.doc.copies = true ∧ AliasC17.Gen.sites.const.copies = true := by decide

/-- no statement of `convert_dict` / `_convert` writes through an object of the caller (`the_dict`,
    `versions_mapping`, a mapping, a `FunctionCall`) or an un-copied alias of one -/
theorem no_doc_writes_today : AliasC17.Gen.docWrites = [] := by decide

/-- **convert_input_intact**: for every history (any nesting, any `FnOk` user functions), every heap and document,
    and EVERY way `_convert` may copy or not copy its own argument: `convert_dict` changes no cell that existed
    before the call (the caller's document, the mapping objects, the Constant values) — also when it raises midway;
    the result lives entirely in cells allocated by the call, so no cell reachable from it is reachable from any
    pre-existing root; whatever the caller later does to the result cannot change anything that existed before,
    and whatever it does to old objects cannot change the result -/
theorem convert_input_intact (A : AliasC17.Atoms) {S : AliasC17.Sites} (hd : S.doc.copies = true)
    (hc : S.const.copies = true) (fuel : Nat) (ver : Nat → Int) (ms : List AliasC17.HMapping)
    (hm : ∀ m, m ∈ ms → AliasC17.mapFnsOk m) :
    AliasC17.IntactFor (AliasC17.hConvertDict A S fuel ver ms) :=
  AliasC17.hConvertDict_intact_weak A hd hc fuel ver ms hm

/-- … with the copy sites the source has today -/
theorem convert_input_intact_today (A : AliasC17.Atoms) (fuel : Nat) (ver : Nat → Int)
    (ms : List AliasC17.HMapping) (hm : ∀ m, m ∈ ms → AliasC17.mapFnsOk m) :
    AliasC17.IntactFor (AliasC17.hConvertDict A AliasC17.Gen.sites fuel ver ms) :=
  AliasC17.hConvertDict_intact_weak A sites_doc_const_copy_today.1 sites_doc_const_copy_today.2 fuel ver ms hm

/-- the same for one `_convert` on its own (nested `._mapper` conversion included), when it deep-copies its
    argument and the Constant values (a statement about the private helper; no obligation of today's source) -/
theorem step_input_intact (A : AliasC17.Atoms) {S : AliasC17.Sites} (hst : S.step.copies = true)
    (hc : S.const.copies = true) (fuel : Nat) (m : AliasC17.HMapping)
    (hm : AliasC17.mapFnsOk m) : AliasC17.IntactFor (AliasC17.hConvert A S fuel m) :=
  AliasC17.hConvert_intact A hst hc fuel m hm

/-- unfolded: the converted document shares no cell with anything the caller held before -/
theorem convert_result_disjoint (A : AliasC17.Atoms) {S : AliasC17.Sites} (hd : S.doc.copies = true)
    (hc : S.const.copies = true) (fuel : Nat)
    (ver : Nat → Int) (ms : List AliasC17.HMapping) (hm : ∀ m, m ∈ ms → AliasC17.mapFnsOk m)
    (h : Alias.Heap) (doc : Alias.Item) (h' : Alias.Heap) (res : Alias.Item)
    (e : AliasC17.hConvertDict A S fuel ver ms h doc = (h', some res)) (cb : Alias.ClosedBelow h.next h)
    (K : List Nat) (hK : ∀ r, r ∈ K → r < h.next) :
    ∀ b, Alias.Held h' (AliasC17.roots res) b → (h.next ≤ b ∧ b < h'.next) ∧ ¬ Alias.Held h' K b :=
  AliasC17.hConvertDict_disjoint_weak A hd hc fuel ver ms hm h doc h' res e cb K hK

/-- non-vacuity / the hypotheses are needed (kernel-evaluated on a small heap): with all three sites copying the
    call succeeds, leaves the old cells alone and shares nothing; a `_convert` WITHOUT its own `deepcopy`, called
    directly on a caller's document, writes into it (which is why `convert_dict`'s own copy matters) -/
theorem heap_examples :
    ((AliasC17.exRun AliasC17.allDeep).2.isSome = true
      ∧ Alias.sameBelow AliasC17.exHeap.next AliasC17.exHeap (AliasC17.exRun AliasC17.allDeep).1 = true
      ∧ Alias.sharedPaths 8 (AliasC17.exRun AliasC17.allDeep).1 AliasC17.exOld []
          (AliasC17.resOf (AliasC17.exRun AliasC17.allDeep)) = [])
    ∧ ¬ Alias.Frame AliasC17.exHeap
        (AliasC17.hConvert AliasC17.exAtoms { AliasC17.allDeep with step := .alias } 9
          [("k", .const (.atom 7)), ("name", .deleted)] AliasC17.exHeap (.ref 0)).1 :=
  ⟨⟨AliasC17.example_all_deep.1, AliasC17.example_all_deep.2.2.1, AliasC17.example_all_deep.2.2.2.1⟩,
    AliasC17.step_alias_breaks_frame⟩

/-- a `version` that is no integer (str, None, float, list, dict) is rejected with TypeError before anything else
    happens (`start_version - 1`); a bool is an int in Python (`True` = 1, `False` = 0) -/
theorem convert_nonint_version_raises (ms : List Mapping) (kvs : Obj) (x : Json)
    (hv : get "version" kvs = some x) (hx : versionInt x = none) :
    convertDict (.obj kvs) ms = .error .typeErr := by
  simp [convertDict, startVersion, hv, hx]

/-! ### `Versioned` deserialization and construction -/

/-- **versioned_deser_equiv**: deserializing a `Versioned` class (with or without a `_versions_mapping`
    attribute) from a document at any version `v ≥ 1` is deserializing it from the converted
    latest-version document (`rest` = the remainder of `deserialize_structure_internal`, any function of the
    converted input) -/
theorem versioned_deser_equiv {α} (rest : Json → α) (ms : Option (List Mapping)) (d d' : Json) (v : Int)
    (hv : docVersion d = some v) (h1 : 1 ≤ v) (h : convertDict d (ms.getD []) = .ok d') :
    deserVersioned rest ms d' = deserVersioned rest ms d := by
  have hv' := convert_version_max_keyed _ d d' v hv h1 h
  have hid := convert_idempotent _ d d' v (effectiveVersion_of_docVersion hv) h1 h
  have hnil : ∀ x, convertDict d [] = .ok x → x = d := by
    intro x hx
    rw [convert_latest_id [] d v (effectiveVersion_of_docVersion hv) (by simpa using h1)] at hx
    cases hx; rfl
  rcases docVersion_obj hv with ⟨kvs, rfl, hg⟩
  rcases docVersion_obj hv' with ⟨kvs', rfl, hg'⟩
  cases ms with
  | none => rw [hnil _ h]
  | some l =>
    cases l with
    | nil => rw [hnil _ h]
    | cons m r =>
      simp only [Option.getD_some] at h hid
      simp only [deserVersioned, hg, hg', h, hid, bindE_ok, nonPositiveVersion_int h1,
        nonPositiveVersion_int (v := max v ((((some (m :: r)).getD []).length : Int) + 1)) (by omega), Bool.false_eq_true, if_false]

/-- and it yields `rest` of the converted document -/
theorem versioned_deser_result {α} (rest : Json → α) (ms : Option (List Mapping)) (d d' : Json) (v : Int)
    (hv : docVersion d = some v) (h1 : 1 ≤ v) (h : convertDict d (ms.getD []) = .ok d') :
    deserVersioned rest ms d = .ok (rest d') := by
  have hnil : ∀ x, convertDict d [] = .ok x → x = d := by
    intro x hx
    rw [convert_latest_id [] d v (effectiveVersion_of_docVersion hv) (by simpa using h1)] at hx
    cases hx; rfl
  rcases docVersion_obj hv with ⟨kvs, rfl, hg⟩
  cases ms with
  | none => rw [hnil _ h]; simp only [deserVersioned, hg, nonPositiveVersion_int h1, Bool.false_eq_true, if_false]
  | some l =>
    cases l with
    | nil => rw [hnil _ h]; simp only [deserVersioned, hg, nonPositiveVersion_int h1, Bool.false_eq_true, if_false]
    | cons m r =>
      simp only [Option.getD_some] at h
      simp only [deserVersioned, hg, h, bindE_ok, nonPositiveVersion_int h1, Bool.false_eq_true, if_false]

/-- **versioned_deser_extras**: the undeclared keys a `Versioned` class keeps (`keep_undefined`, additional
    properties) when deserializing an old document are exactly the undeclared keys of the *converted* document:
    legacy keys the history moved or deleted are gone, non-field keys the history added are there — for every
    setting of `keep_undefined` and of additional properties, every set of declared fields -/
theorem versioned_deser_extras (fields : List String) (keep : Option Bool) (addl : Bool)
    (ms : Option (List Mapping)) (d d' : Json) (v : Int)
    (hv : docVersion d = some v) (h1 : 1 ≤ v) (h : convertDict d (ms.getD []) = .ok d') :
    deserExtras fields keep addl ms d = .ok (undeclaredKept fields keep addl d')
    ∧ deserExtras fields keep addl ms d' = deserExtras fields keep addl ms d :=
  ⟨versioned_deser_result _ ms d d' v hv h1 h, versioned_deser_equiv _ ms d d' v hv h1 h⟩

/-- non-vacuity for the extras: history renames the non-field key `full` to the field `name`, deletes the legacy
    key, adds the non-field marker `migrated`; with `keep_undefined=True` on a class allowing additional
    properties the instance keeps `note` and `migrated` (not `full`); with the default nothing is kept -/
theorem deser_extras_example :
    (match deserExtras ["name", "version"] (some true) true
        (some [[("name", .move ["full"]), ("full", .deleted)], [("migrated", .const (.bool true))]])
        (.obj [("version", .int 1), ("full", .str "j"), ("note", .str "x")]) with
      | .ok ex => Json.beq (.obj ex) (.obj [("note", .str "x"), ("migrated", .bool true)])
      | .error _ => false) = true
    ∧ (match deserExtras ["name", "version"] none true
        (some [[("name", .move ["full"]), ("full", .deleted)], [("migrated", .const (.bool true))]])
        (.obj [("version", .int 1), ("full", .str "j"), ("note", .str "x")]) with
      | .ok ex => ex.isEmpty
      | .error _ => false) = true := by
  decide

/-- **new_instance_latest**: `Versioned.__init__` forces `version = len(_versions_mapping) + 1` (1 without the
    attribute), whatever the caller passed, and that value is a positive integer -/
theorem new_instance_latest (ms : Option (List Mapping)) (kw : Obj) :
    get "version" (versionedInitKw ms kw) = some (.int (((ms.getD []).length : Int) + 1))
    ∧ (0 : Int) < ((ms.getD []).length : Int) + 1 :=
  ⟨get_set_same _ _ _, by omega⟩

/-! ### the full statements — theorems since typedpy commit f017e49 -/

/-- full-strength version statement: every document `convert_dict` accepts as being at version `v ∈ 1..len+1`
    (a document without a `version` key is accepted as version 1) comes out at `len ms + 1` -/
def VersionStatement : Prop :=
  ∀ (ms : List Mapping) (d r : Json) (v : Int), effectiveVersion d = some v → 1 ≤ v →
    v ≤ (ms.length : Int) + 1 → convertDict d ms = .ok r → effectiveVersion r = some ((ms.length : Int) + 1)

/-- full-strength composition statement -/
def ComposeStatement : Prop :=
  ∀ (ms : List Mapping) (d d1 : Json) (v : Int) (k : Nat), effectiveVersion d = some v → 1 ≤ v →
    convertDict d (ms.take k) = .ok d1 → convertDict d1 ms = convertDict d ms

/-- full-strength deserialization statement for the default (empty) history of a `Versioned` class that does
    not define `_versions_mapping`: a document with a `version` key deserializes as itself -/
def DeserDefaultHistoryStatement : Prop :=
  ∀ (rest : Json → Json) (d : Json) (v : Int), docVersion d = some v → 1 ≤ v →
    deserVersioned rest none d = .ok (rest d)

theorem version_statement_holds : VersionStatement := convert_version

theorem compose_statement_holds : ComposeStatement := convert_compose

theorem deser_default_history_holds : DeserDefaultHistoryStatement := by
  intro rest d v hv h1
  rcases docVersion_obj hv with ⟨kvs, rfl, hg⟩
  simp only [deserVersioned, hg, nonPositiveVersion_int h1, Bool.false_eq_true, if_false]

/-! ### the inputs that refuted the statements before f017e49, now positive (kernel-evaluated) -/

/-- was `version-off-by-one:versionless-document`: `convert_dict({"a": 1}, [{}])` is `{"a": 1, "version": 2}` -/
theorem fixed_versionless_example :
    sameResult (convertDict (.obj [("a", .int 1)]) [[]]) (.ok (.obj [("a", .int 1), ("version", .int 2)])) = true := by
  decide

/-- was `version-clobbered:mapping-writes-version`:
    `convert_dict({"version": 1}, [{"version": Constant(7)}, {}])` is `{"version": 3}` -/
theorem fixed_clobber_example :
    sameResult (convertDict (.obj [("version", .int 1)]) [[("version", .const (.int 7))], []])
      (.ok (.obj [("version", .int 3)])) = true := by
  decide

/-- was `compose-broken:versionless-document`: with `ms = [{"a": FunctionCall(add_one)}]`, `d = {"a": 1}` the
    two-stage and the one-stage result are both `{"a": 2, "version": 2}` -/
theorem fixed_compose_versionless_example :
    (match convertDict (.obj [("a", .int 1)]) ([[("a", .fn (applyFn .addOne) [])]].take 1) with
      | .ok d1 => sameResult (convertDict d1 [[("a", .fn (applyFn .addOne) [])]])
                    (.ok (.obj [("a", .int 2), ("version", .int 2)]))
                  && sameResult (convertDict (.obj [("a", .int 1)]) [[("a", .fn (applyFn .addOne) [])]])
                    (.ok (.obj [("a", .int 2), ("version", .int 2)]))
      | .error _ => false) = true := by
  decide

/-- was `compose-broken:mapping-writes-version`: `ms = [{"version": Constant(5)}, {"a": Constant(0)}]`,
    `d = {"version": 1}`, split after the first mapping: both ways give `{"version": 3, "a": 0}` -/
theorem fixed_compose_clobber_example :
    (match convertDict (.obj [("version", .int 1)])
        ([[("version", .const (.int 5))], [("a", .const (.int 0))]].take 1) with
      | .ok d1 => sameResult (convertDict d1 [[("version", .const (.int 5))], [("a", .const (.int 0))]])
                    (.ok (.obj [("version", .int 3), ("a", .int 0)]))
                  && sameResult (convertDict (.obj [("version", .int 1)])
                      [[("version", .const (.int 5))], [("a", .const (.int 0))]])
                    (.ok (.obj [("version", .int 3), ("a", .int 0)]))
      | .error _ => false) = true := by
  decide

/-- was `deser-crash:versions-mapping-attribute-absent`: a `Versioned` class without `_versions_mapping`
    deserializes `{"version": 1}` from the document itself -/
theorem fixed_deser_no_attribute_example :
    (match deserVersioned id none (.obj [("version", .int 1)]) with
      | .ok d => d.beq (.obj [("version", .int 1)])
      | .error _ => false) = true := by
  decide

/-- the `Bool` comparison of outcomes used by the driver-evaluated laws means equality -/
theorem beq_sound (a b : R Json) (h : sameResult a b = true) : a = b := sameResult_sound h

/-! ### non-vacuity -/

/-- a three-step history with a Constant, a nested `._mapper` over a list of sub-documents, a FunctionCall
    with arguments, a dotted move and deletions -/
def exHistory : List Mapping :=
  [ [("j", .const (.int 100)),
     ("items", .sub [("n", .fn (applyFn .addOne) []), ("tag", .const (.str "t"))])],
    [("bar", .move ["old", "inner"]), ("old", .deleted), ("w", .fn (applyFn .pair) ["i", "j"])],
    [("first", .move ["items", "n"]), ("i", .fn (applyFn .wrap) ["i"])] ]

def exDoc : Json :=
  .obj [("version", .int 1), ("i", .int 2),
        ("items", .list [.obj [("n", .int 1)], .obj [("n", .int 5), ("z", .null)]]),
        ("old", .obj [("inner", .list [.bool true])])]

def exLatest : Json :=
  .obj [("version", .int 4), ("i", .list [.int 2]),
        ("items", .list [.obj [("n", .int 2), ("tag", .str "t")],
                         .obj [("n", .int 6), ("z", .null), ("tag", .str "t")]]),
        ("j", .int 100), ("w", .list [.int 2, .int 100]), ("bar", .list [.bool true]),
        ("first", .list [.int 2, .int 6])]

theorem laws_example :
    wfHistory exHistory = true ∧ inDomain exHistory exDoc = true
    ∧ sameResult (convertDict exDoc exHistory) (.ok exLatest) = true
    ∧ versionLaw exHistory exLatest = true
    ∧ (match convertDict exDoc (exHistory.take 1) with
        | .ok d1 => sameResult (convertDict d1 exHistory) (convertDict exDoc exHistory)
                     && sameResult (.ok d1) (.ok exLatest) == false
        | .error _ => false) = true
    ∧ (match convertDict exDoc (exHistory.take 2) with
        | .ok d2 => sameResult (convertDict d2 exHistory) (convertDict exDoc exHistory)
        | .error _ => false) = true
    ∧ sameResult (convertDict exLatest exHistory) (.ok exLatest) = true
    ∧ sameResult (upgrade exHistory 3 exDoc) (.ok exLatest) = true
    ∧ sameResult (convertDict (.obj [("version", .int 1), ("items", .int 3)]) exHistory)
        (.error .attrErr) = true := by
  decide

end Typedpy.C17
