/-
  Props/C04Subclass.lean — C04, last clause: "ImmutableStructure, FinalStructure and ImmutableField
  classes cannot be subclassed".

  The class statement is modelled in Sem/Define.lean (C14: `defineClass`, whose check list contains
  `finalCheck` = `_check_for_final_violations(clsobj.mro())`, and `defineFieldClass` for Field
  classes).  Here the clause is stated the way C04 reads it — about every world reachable by class
  statements, every position of the sealed class among the bases and every other base next to it —
  and derived from C14's `sealed_base_rejected` / `immutableField_subclass_rejected` and the world
  invariant `reachable_ok`.  Audited from Audit/C04.lean.
-/
import TypedpyModel.Props.C14
namespace Typedpy.C04
open Typedpy

theorem c04_findCls_name : ∀ (cs : List ClassDef) (n : String) (c : ClassDef),
    findCls n cs = some c → c.name = n
  | [], _, _, h => by simp [findCls] at h
  | d :: ds, n, c, h => by
    simp only [findCls] at h
    split at h
    · rename_i hn
      cases h
      simpa using hn
    · exact c04_findCls_name ds n c h

/-- **C04 (no subclassing, structures)**: in every world reachable by class statements, a class
    statement that lists — anywhere among its bases, next to any other bases or mix-ins — a class
    that is a strict subclass of ImmutableStructure or FinalStructure (`sealedCls`: a user-defined
    immutable / final structure class) raises, and no class object is created -/
theorem sealed_structure_not_subclassable (O : Oracles) {w : World} (hw : Reachable O w)
    (src : ClassSrc) {b : String} (hb : b ∈ src.bases) (hs : sealedCls w b = true) :
    (∃ e, defineClass O w src = .error e) ∧ stepWorld O w (.define src) = w := by
  have hex : ∃ e, defineClass O w src = .error e := by
    cases hf : w.find b with
    | none => simp [sealedCls, hf] at hs
    | some bd =>
      have hok := reachable_ok hw b bd hf
      rcases hok.head with ⟨t, ht⟩
      have hname : bd.name = b := c04_findCls_name _ _ _ hf
      have hmem : b ∈ bd.mro := by rw [ht, hname]; simp
      exact C14.sealed_base_rejected O src hb hf hmem hs
  refine ⟨hex, ?_⟩
  rcases hex with ⟨e, he⟩
  simp [stepWorld, stepClass, he]

/-- … also when the sealed class is only an ancestor of one of the bases -/
theorem sealed_ancestor_not_subclassable (O : Oracles) {w : World} (src : ClassSrc) {b s : String}
    {bd : ClassDef} (hb : b ∈ src.bases) (hbd : w.find b = some bd) (hsm : s ∈ bd.mro)
    (hs : sealedCls w s = true) :
    (∃ e, defineClass O w src = .error e) ∧ stepWorld O w (.define src) = w := by
  have hex := C14.sealed_base_rejected O src hb hbd hsm hs
  refine ⟨hex, ?_⟩
  rcases hex with ⟨e, he⟩
  simp [stepWorld, stepClass, he]

/-- **C04 (no subclassing, fields)**: a Field class statement one of whose bases is a strict
    subclass of ImmutableField raises, whatever the other bases -/
theorem immutable_field_not_subclassable (fw : List FieldCls) (name b : String) (bases : List String)
    (hb : b ∈ bases) (hs : sealedFieldCls fw b = true) :
    ∃ e, defineFieldClass fw name bases = .error e :=
  C14.immutableField_subclass_rejected fw name b bases hb hs

/-! ### non-vacuity -/

def subW : World :=
  runSteps C14.exO C14.W0
    [.define (C14.plainSrc "Imm" ["ImmutableStructure"] [("a", C14.intF)]),
     .define (C14.plainSrc "Fin" ["FinalStructure"] [("a", C14.intF)]),
     .define (C14.plainSrc "Plain" ["Structure"] [("p", C14.intF)]),
     .mixin "Mixin"]

def raisesTypeErr (r : R ClassDef) : Bool := match r with | .error .typeErr => true | _ => false
def isDefined (r : R ClassDef) : Bool := match r with | .ok _ => true | _ => false

theorem subclass_example :
    sealedCls subW "Imm" = true ∧ sealedCls subW "Fin" = true ∧ sealedCls subW "Plain" = false
    ∧ raisesTypeErr (defineClass C14.exO subW (C14.plainSrc "S1" ["Imm"] [])) = true
    ∧ raisesTypeErr (defineClass C14.exO subW (C14.plainSrc "S2" ["Mixin", "Imm"] [])) = true
    ∧ raisesTypeErr (defineClass C14.exO subW (C14.plainSrc "S3" ["Plain", "Fin"] [])) = true
    ∧ isDefined (defineClass C14.exO subW (C14.plainSrc "S4" ["Mixin", "Plain"] [])) = true
    ∧ (match defineFieldClass [⟨"IF", ["IF", "ImmutableField", "String"]⟩, ⟨"String", ["String"]⟩] "X" ["String", "IF"] with
        | .error .typeErr => true | _ => false) = true := by
  decide

end Typedpy.C04
