/-
  Props/C06.lean — C06: deserialization accepts exactly the JSON images of constructor-valid data.

  `deserialize` (Sem/Deser.lean) mirrors Deserializer(cls).deserialize without mappers: the
  document is pre-processed field by field and the result is handed to the constructor.
  Proved for every class, every document (any nesting) and every flag combination:
  * `deserialize_goes_through_constructor` / `deserialize_sound` — whatever is returned was built by
    the constructor from some keyword arguments, hence is well-formed (C01);
  * `deserialize_err_class` — every rejection is a TypeError / ValueError (or their common
    subclass), whatever the corruption (by mutual structural induction over the declaration);
  * `non_object_rejected` — a non-object top-level document is a TypeError;
  * `extra_keys_policy` — keys that are not fields are passed on exactly when keep_undefined is set
    and the class allows additional properties (or the ignore flag is off, in which case the
    constructor rejects them); `extra_keys_need_additional_properties` — they can only become
    attributes of a class that allows additional properties.
  The "exactly the images" direction uses the documented JSON form read backwards
  (Spec/Lift.lean: `expectedDeser` = constructor ∘ `liftDoc`): it
  is evaluated by the driver on every case as the oracle for the real Deserializer; its agreement
  with `deserialize` is proved on the exact fragment (`deserialize_exact_partial`: scalars, enums,
  Array/Deque/Tuple (uniqueItems over plain scalars), nested classes, any depth) and checked by correspondence
  elsewhere.
-/
import TypedpyModel.Lemmas.DeserErr
import TypedpyModel.Lemmas.LiftEquiv
namespace Typedpy.C06
open Typedpy

/-- a successful deserialization is the constructor applied to some keyword arguments -/
theorem deserialize_goes_through_constructor (O : Oracles) (opts : DeserOpts) (cls : FieldDecl)
    (d x : PyVal) (h : deserialize O opts cls d = .ok x) :
    ∃ kw, construct O cls kw = .ok x := by
  unfold deserialize at h
  cases cls with
  | struct c fields defaults => ?_
  | _ => simp at h
  simp only at h
  split at h
  · rename_i kvs
    rcases dClassRef_dict_ok kvs _ _ _ x h with ⟨kw, hk⟩
    rcases bindE_eq_ok hk with ⟨args, _, h2⟩
    exact ⟨args, by simpa [construct] using h2⟩
  · cases h

/-- **C06 ⊆ C01**: every deserialized instance is well-formed -/
theorem deserialize_sound (O : Oracles) (opts : DeserOpts) (cls : FieldDecl) (d x : PyVal)
    (hw : wfDecl cls = true) (h : deserialize O opts cls d = .ok x) : wellFormed O cls x = true := by
  rcases deserialize_goes_through_constructor O opts cls d x h with ⟨kw, hk⟩
  exact C01.construct_sound O cls kw x hw hk

/-- **C06**: every rejection is a TypeError or a ValueError (or InvalidStructureErr, their common
    subclass) — for every class, document and flag setting -/
theorem deserialize_err_class (O : Oracles) (opts : DeserOpts) (c : ClassOpts)
    (fields : List (String × FieldDecl)) (defaults : List (String × PyVal)) (d : PyVal) (e : ErrCls)
    (h : deserialize O opts (.struct c fields defaults) d = .error e) :
    e = .typeErr ∨ e = .valueErr ∨ e = .both := by
  unfold deserialize at h
  simp only at h
  split at h
  · refine dClassRef_err _ _ _ _ e (fun kw e' hk => ?_) (fun kw e' hk => ?_) h
    · cases hd : deserFields O opts c kw fields false with
      | error e2 =>
        rw [hd] at hk; simp at hk; subst hk
        exact deserFields_err O opts c kw fields false e2 hd
      | ok args => rw [hd] at hk; simp at hk
    · cases hd : deserFields O opts c kw fields false with
      | error e2 =>
        rw [hd] at hk; simp at hk; subst hk
        exact deserFields_err O opts c kw fields false e2 hd
      | ok args =>
        rw [hd] at hk; simp only [bindE_ok] at hk
        exact vConstruct_err c _ _ _ e' (fun e2 he => validateFields_err O c defaults _ fields e2 he) hk
  · cases h; exact Or.inl rfl

/-- a non-object top-level document is rejected with TypeError -/
theorem non_object_rejected (O : Oracles) (opts : DeserOpts) (c : ClassOpts)
    (fields : List (String × FieldDecl)) (defaults : List (String × PyVal)) (d : PyVal)
    (hd : ∀ kvs, d ≠ .dict kvs) :
    deserialize O opts (.struct c fields defaults) d = .error .typeErr := by
  unfold deserialize
  cases d <;> first | rfl | (rename_i kvs; exact absurd rfl (hd kvs))

/-- which undeclared keys are handed to the constructor -/
theorem extra_keys_policy (opts : DeserOpts) (c : ClassOpts) (names : List String)
    (doc : List (String × PyVal)) (a : String × PyVal) :
    a ∈ deserExtras opts c names doc ↔
      a ∈ doc ∧ names.contains a.1 = false ∧ opts.keepUndefined = true
        ∧ (c.addl = true ∨ opts.ignoreInvalidAddl = false) := by
  unfold deserExtras
  simp only [List.mem_filter, Bool.and_eq_true, Bool.not_eq_true', Bool.or_eq_true]
  constructor
  · rintro ⟨h1, ⟨h2, h3⟩, h4⟩; exact ⟨h1, h2, h3, h4⟩
  · rintro ⟨h1, h2, h3, h4⟩; exact ⟨h1, ⟨h2, h3⟩, h4⟩

/-- an undeclared key can only become an attribute of a class that allows additional properties:
    for a class that does not, the constructor refuses any undeclared keyword (TypeError) -/
theorem extra_keys_need_additional_properties (O : Oracles) (c : ClassOpts)
    (fields : List (String × FieldDecl)) (defaults kw : List (String × PyVal)) (a : String × PyVal)
    (hadd : c.addl = false) (ha : a ∈ kw) (hn : (fields.map (·.1)).contains a.1 = false) :
    construct O (.struct c fields defaults) kw = .error .typeErr := by
  have hb : bindOk c (fields.map (·.1)) kw = false := by
    unfold bindOk
    have : kw.any (fun a => !(fields.map (·.1)).contains a.1) = true :=
      List.any_eq_true.mpr ⟨a, ha, by rw [hn]; rfl⟩
    rw [hadd, this]
    cases (!c.required.any fun r => (lookup r kw).isNone) <;> rfl
  simp [construct, vConstruct, hb]

/-- **C06, "exactly the images" (partial: the exact fragment)**: for every class of the fragment
    `exactDecl` — scalars with every constraint, enums, Array / Deque / Tuple (uniqueItems only over
    plain scalar items), Set of strings (mutable or immutable), Map from strings to anything of the
    fragment, `Optional[X]` (either order of the options), nested Structure classes, at any depth — every JSON document `d` and every flag setting, the
    Deserializer succeeds with result `x` exactly when `d` is the documented JSON form of keyword
    arguments that the constructor accepts, and `x` is the instance the constructor builds from them -/
theorem deserialize_exact_partial (O : Oracles) (opts : DeserOpts) (c : ClassOpts)
    (fields : List (String × FieldDecl)) (defaults : List (String × PyVal)) (d x : PyVal)
    (hex : exactDecl (.struct c fields defaults) = true) (hj : strictJson d = true) :
    deserialize O opts (.struct c fields defaults) d = .ok x
      ↔ expectedDeser O opts (.struct c fields defaults) d = some x := by
  simp only [exactDecl, and_true_iff] at hex
  obtain ⟨⟨⟨_, _⟩, hnd⟩, hef⟩ := hex
  have hnd' : (fields.map (·.1)).Nodup := by simpa using hnd
  cases d with
  | dict kvs =>
    have hj' : strictJsonPairs kvs = true := by
      have := hj; simp only [strictJson, Bool.and_eq_true] at this; exact this.2
    rcases strict_kwOfDict kvs hj' with ⟨doc, hdoc, hall⟩
    have hE : ∀ a ∈ deserExtras opts c (fields.map (·.1)) doc, a.1 ∉ fields.map (·.1) := by
      intro a ha
      have := (List.mem_filter.mp ha).2
      simp only [Bool.and_eq_true, Bool.not_eq_true'] at this
      intro hm
      have hc : (fields.map (·.1)).contains a.1 = true := by simpa using hm
      rw [hc] at this; exact absurd this.1.1 (by simp)
    have H := fields_equiv O opts c defaults doc hall fields hef hnd' _ _ hE hE
    have core := struct_core O opts c fields defaults doc H x
    simp only [deserialize, dClassRef, hdoc]
    rw [core]
    simp only [expectedDeser, liftDoc, hdoc, Option.bind_some, construct]
    cases hl : liftFields O opts c doc fields with
    | none => simp
    | some args =>
      simp only [Option.map_some]
      cases hv : vConstruct c (fields.map (·.1)) (deserExtras opts c (fields.map (·.1)) doc ++ args)
          (validateFields O c defaults (deserExtras opts c (fields.map (·.1)) doc ++ args) fields) with
      | error e => simp
      | ok y => simp
  | _ =>
    first
    | (simp [strictJson] at hj; done)
    | simp [deserialize, expectedDeser, liftDoc]

/-- accepted exactly when the document denotes keyword arguments the constructor accepts -/
theorem deserialize_accepts_iff_partial (O : Oracles) (opts : DeserOpts) (c : ClassOpts)
    (fields : List (String × FieldDecl)) (defaults : List (String × PyVal)) (d : PyVal)
    (hex : exactDecl (.struct c fields defaults) = true) (hj : strictJson d = true) :
    (∃ x, deserialize O opts (.struct c fields defaults) d = .ok x)
      ↔ ∃ kw x, liftDoc O opts (.struct c fields defaults) d = some kw
          ∧ construct O (.struct c fields defaults) kw = .ok x := by
  constructor
  · rintro ⟨x, hx⟩
    have := (deserialize_exact_partial O opts c fields defaults d x hex hj).mp hx
    unfold expectedDeser at this
    cases hl : liftDoc O opts (.struct c fields defaults) d with
    | none => simp [hl] at this
    | some kw =>
      simp only [hl] at this
      cases hc : construct O (.struct c fields defaults) kw with
      | error e => simp [hc] at this
      | ok y => exact ⟨kw, y, rfl, hc⟩
  · rintro ⟨kw, x, hl, hc⟩
    exact ⟨x, (deserialize_exact_partial O opts c fields defaults d x hex hj).mpr (by simp [expectedDeser, hl, hc])⟩

/-! ### non-vacuity -/

def exO : Oracles := { reMatch := fun _ _ => true }
def exCls : FieldDecl :=
  .struct { name := "A", required := ["a"], addl := false, accepts := ["A"] }
    [("a", .seqOf .list (.enumCls "Color" ["RED", "BLUE"]) { max := some 2 }),
     ("b", .float { min := some ⟨0, 1⟩ })] []

theorem deserialize_example :
    (match deserialize exO {} exCls (.dict [(.str "a", .list [.str "RED"]), (.str "b", .int 3)]) with
      | .ok (.inst "A" [("a", .list [.enumv "Color" "RED"]), ("b", .float _)]) => true
      | _ => false) = true
    ∧ (match deserialize exO {} exCls (.dict [(.str "a", .list [.str "PINK"])]) with
      | .error .valueErr => true | _ => false) = true
    ∧ (match deserialize exO {} exCls (.dict [(.str "b", .int 3)]) with
      | .error .typeErr => true | _ => false) = true
    ∧ (match deserialize exO { keepUndefined := true, ignoreInvalidAddl := false } exCls
          (.dict [(.str "a", .list []), (.str "zz", .int 1)]) with
      | .error .typeErr => true | _ => false) = true
    ∧ (match deserialize exO {} exCls (.dict [(.str "a", .list []), (.str "zz", .int 1)]) with
      | .ok (.inst "A" [("a", .list [])]) => true | _ => false) = true
    ∧ (match expectedDeser exO {} exCls (.dict [(.str "a", .list [.str "RED"]), (.str "b", .int 3)]) with
      | some (.inst "A" _) => true | _ => false) = true := by
  decide

/-- the example class lies in the exact fragment and its documents are JSON: the hypotheses of
    `deserialize_exact_partial` are satisfiable -/
theorem exact_fragment_example :
    exactDecl exCls = true
    ∧ strictJson (.dict [(.str "a", .list [.str "RED"]), (.str "b", .int 3)]) = true
    ∧ exactDecl (.struct { name := "Outer", required := ["n"], accepts := ["Outer"] }
        [("n", exCls), ("t", .tuplePos [.integer {}, .string none (some 3) none] false),
         ("u", .seqOf .deque (.string none none none) { uniq := true, min := some 1 })] []) = true := by
  decide


/-- Set and Map inside the exact fragment: a class with a Set of strings and a Map from strings to
    arrays of nested structures lies in the fragment, its document is a JSON document, the model
    deserializes it to the documented instance (duplicates of the set collapse, enum names become
    members) and the specification agrees; a document whose set holds a non-string is rejected -/
def exMapCls : FieldDecl :=
  .struct { name := "M", required := ["tags", "m"], addl := false, accepts := ["M"] }
    [("tags", .setOf false (.string none (some 3) none) { max := some 2 }),
     ("m", .mapOf (.string (some 1) none none) (.seqOf .list exCls {}) { min := some 1 })] []

theorem exact_set_map_example :
    exactDecl exMapCls = true
    ∧ strictJson (.dict [(.str "tags", .list [.str "x", .str "y", .str "x"]),
        (.str "m", .dict [(.str "k", .list [.dict [(.str "a", .list [.str "RED"])]])])]) = true
    ∧ (match deserialize exO {} exMapCls (.dict [(.str "tags", .list [.str "x", .str "y", .str "x"]),
          (.str "m", .dict [(.str "k", .list [.dict [(.str "a", .list [.str "RED"])]])])]) with
      | .ok (.inst "M" [("tags", .set false [.str "x", .str "y"]),
            ("m", .dict [(.str "k", .list [.inst "A" [("a", .list [.enumv "Color" "RED"])]])])]) => true
      | _ => false) = true
    ∧ (match expectedDeser exO {} exMapCls (.dict [(.str "tags", .list [.str "x", .str "y", .str "x"]),
          (.str "m", .dict [(.str "k", .list [.dict [(.str "a", .list [.str "RED"])]])])]) with
      | some (.inst "M" _) => true | _ => false) = true
    ∧ (match deserialize exO {} exMapCls (.dict [(.str "tags", .list [.str "x", .int 1]),
          (.str "m", .dict [(.str "k", .list [])])]) with
      | .error _ => true | _ => false) = true
    ∧ (expectedDeser exO {} exMapCls (.dict [(.str "tags", .list [.str "x", .int 1]),
          (.str "m", .dict [(.str "k", .list [])])])).isNone = true := by
  decide


/-- `Optional[X]` inside the exact fragment: an optional scalar field and an array of optional strings
    (null elements become None), in both orders of the options; a value neither None nor an `X` is
    rejected by the model and by the specification -/
def exOptCls : FieldDecl :=
  .struct { name := "P", required := ["xs"], addl := false, accepts := ["P"] }
    [("o", .anyOf [.noneF, .integer { min := some ⟨0, 1⟩ }]),
     ("xs", .seqOf .list (.anyOf [.string none none none, .noneF]) {})] []

theorem exact_optional_example :
    exactDecl exOptCls = true
    ∧ strictJson (.dict [(.str "o", .int 5), (.str "xs", .list [.str "a", .none])]) = true
    ∧ (match deserialize exO {} exOptCls (.dict [(.str "o", .int 5), (.str "xs", .list [.str "a", .none])]) with
      | .ok (.inst "P" [("o", .int 5), ("xs", .list [.str "a", .none])]) => true
      | _ => false) = true
    ∧ (match expectedDeser exO {} exOptCls (.dict [(.str "o", .int 5), (.str "xs", .list [.str "a", .none])]) with
      | some (.inst "P" [("o", .int 5), ("xs", .list [.str "a", .none])]) => true | _ => false) = true
    ∧ (match deserialize exO {} exOptCls (.dict [(.str "o", .none), (.str "xs", .list [])]) with
      | .ok (.inst "P" [("xs", .list [])]) => true | _ => false) = true
    ∧ (match deserialize exO {} exOptCls (.dict [(.str "o", .int (-1)), (.str "xs", .list [])]) with
      | .error _ => true | _ => false) = true
    ∧ (expectedDeser exO {} exOptCls (.dict [(.str "o", .int (-1)), (.str "xs", .list [])])).isNone = true
    ∧ (expectedDeser exO {} exOptCls (.dict [(.str "xs", .list [.int 3])])).isNone = true := by
  decide

end Typedpy.C06

