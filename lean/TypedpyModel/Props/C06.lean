/-
  Props/C06.lean — C06: deserialization accepts exactly the JSON images of constructor-valid data.

  `deserialize` (Sem/Deser.lean) mirrors Deserializer(cls).deserialize without mappers: the
  document is pre-processed field by field and the result is handed to the constructor.
  Proved for every class, every document (any nesting) and every flag combination:
  * `deserialize_goes_through_constructor` / `deserialize_sound` — whatever is returned was built by
    the constructor from some keyword arguments, hence is well-formed (C01);
  * `deserialize_err_class` — every rejection is a TypeError / ValueError (or their common
    subclass), whatever the corruption (by mutual structural induction over the declaration);
  * `non_object_rejected` — a non-object top-level document is a TypeError;
  * `extra_keys_policy` — keys that are not fields are passed on exactly when keep_undefined is set
    and the class allows additional properties (or the ignore flag is off, in which case the
    constructor rejects them); `extra_keys_need_additional_properties` — they can only become
    attributes of a class that allows additional properties.
  The "exactly the images" direction uses the documented JSON form read backwards
  (Spec/Lift.lean: `expectedDeser` = constructor ∘ `liftDoc`): it
  is evaluated by the driver on every case as the oracle for the real Deserializer; its agreement
  with `deserialize` is proved on the exact fragment (`deserialize_exact_partial`: scalars, enums,
  Array/Deque/Tuple (uniqueItems over plain scalars), Set of strings, Map from strings, Optional, NoneField, nested
  classes and StructureReference, any depth) and checked by correspondence elsewhere.
-/
import TypedpyModel.Lemmas.DeserErr
import TypedpyModel.Lemmas.LiftEquiv
import TypedpyModel.Lemmas.RoundTripX
import TypedpyModel.Sem.Decimal
namespace Typedpy.C06
open Typedpy

/-- a successful deserialization is the constructor applied to some keyword arguments -/
theorem deserialize_goes_through_constructor (O : Oracles) (opts : DeserOpts) (cls : FieldDecl)
    (d x : PyVal) (h : deserialize O opts cls d = .ok x) :
    ∃ kw, construct O cls kw = .ok x := by
  unfold deserialize at h
  cases cls with
  | struct c fields defaults => ?_
  | _ => simp at h
  simp only at h
  split at h
  · rename_i kvs
    rcases dClassRef_dict_ok kvs _ _ _ x h with ⟨kw, hk⟩
    rcases bindE_eq_ok hk with ⟨args, _, h2⟩
    exact ⟨args, by simpa [construct] using h2⟩
  · cases h

/-- **C06 ⊆ C01**: every deserialized instance is well-formed -/
theorem deserialize_sound (O : Oracles) (opts : DeserOpts) (cls : FieldDecl) (d x : PyVal)
    (hw : wfDecl cls = true) (h : deserialize O opts cls d = .ok x) : wellFormed O cls x = true := by
  rcases deserialize_goes_through_constructor O opts cls d x h with ⟨kw, hk⟩
  exact C01.construct_sound O cls kw x hw hk

/-- **C06**: every rejection is a TypeError or a ValueError (or InvalidStructureErr, their common
    subclass) — for every class, document and flag setting -/
theorem deserialize_err_class (O : Oracles) (opts : DeserOpts) (c : ClassOpts)
    (fields : List (String × FieldDecl)) (defaults : List (String × PyVal)) (d : PyVal) (e : ErrCls)
    (h : deserialize O opts (.struct c fields defaults) d = .error e) :
    e = .typeErr ∨ e = .valueErr ∨ e = .both := by
  unfold deserialize at h
  simp only at h
  split at h
  · refine dClassRef_err _ _ _ _ e (fun kw e' hk => ?_) (fun kw e' hk => ?_) h
    · cases hd : deserFields O opts c kw fields false with
      | error e2 =>
        rw [hd] at hk; simp at hk; subst hk
        exact deserFields_err O opts c kw fields false e2 hd
      | ok args => rw [hd] at hk; simp at hk
    · cases hd : deserFields O opts c kw fields false with
      | error e2 =>
        rw [hd] at hk; simp at hk; subst hk
        exact deserFields_err O opts c kw fields false e2 hd
      | ok args =>
        rw [hd] at hk; simp only [bindE_ok] at hk
        exact vConstruct_err c _ _ _ e' (fun e2 he => validateFields_err O c defaults _ fields e2 he) hk
  · cases h; exact Or.inl rfl

/-- a non-object top-level document is rejected with TypeError -/
theorem non_object_rejected (O : Oracles) (opts : DeserOpts) (c : ClassOpts)
    (fields : List (String × FieldDecl)) (defaults : List (String × PyVal)) (d : PyVal)
    (hd : ∀ kvs, d ≠ .dict kvs) :
    deserialize O opts (.struct c fields defaults) d = .error .typeErr := by
  unfold deserialize
  cases d <;> first | rfl | (rename_i kvs; exact absurd rfl (hd kvs))

/-- which undeclared keys are handed to the constructor -/
theorem extra_keys_policy (opts : DeserOpts) (c : ClassOpts) (names : List String)
    (doc : List (String × PyVal)) (a : String × PyVal) :
    a ∈ deserExtras opts c names doc ↔
      a ∈ doc ∧ names.contains a.1 = false ∧ opts.keepUndefined = true
        ∧ (c.addl = true ∨ opts.ignoreInvalidAddl = false) := by
  unfold deserExtras
  simp only [List.mem_filter, Bool.and_eq_true, Bool.not_eq_true', Bool.or_eq_true]
  constructor
  · rintro ⟨h1, ⟨h2, h3⟩, h4⟩; exact ⟨h1, h2, h3, h4⟩
  · rintro ⟨h1, h2, h3, h4⟩; exact ⟨h1, ⟨h2, h3⟩, h4⟩

/-- an undeclared key can only become an attribute of a class that allows additional properties:
    for a class that does not, the constructor refuses any undeclared keyword (TypeError) -/
theorem extra_keys_need_additional_properties (O : Oracles) (c : ClassOpts)
    (fields : List (String × FieldDecl)) (defaults kw : List (String × PyVal)) (a : String × PyVal)
    (hadd : c.addl = false) (ha : a ∈ kw) (hn : (fields.map (·.1)).contains a.1 = false) :
    construct O (.struct c fields defaults) kw = .error .typeErr := by
  have hb : bindOk c (fields.map (·.1)) kw = false := by
    unfold bindOk
    have : kw.any (fun a => !(fields.map (·.1)).contains a.1) = true :=
      List.any_eq_true.mpr ⟨a, ha, by rw [hn]; rfl⟩
    rw [hadd, this]
    cases (!c.required.any fun r => (lookup r kw).isNone) <;> rfl
  simp [construct, vConstruct, hb]

/-- **C06, "exactly the images" (partial: the exact fragment)**: for every class of the fragment
    `exactDecl` — scalars with every constraint, enums, Array / Deque / Tuple (uniqueItems only over
    plain scalar items), Set of strings (mutable or immutable), Map from strings to anything of the
    fragment, `Optional[X]` (either order of the options), nested Structure classes, at any depth — every JSON document `d` and every flag setting, the
    Deserializer succeeds with result `x` exactly when `d` is the documented JSON form of keyword
    arguments that the constructor accepts, and `x` is the instance the constructor builds from them -/
theorem deserialize_exact_partial (O : Oracles) (opts : DeserOpts) (c : ClassOpts)
    (fields : List (String × FieldDecl)) (defaults : List (String × PyVal)) (d x : PyVal)
    (hex : exactDecl (.struct c fields defaults) = true) (hj : strictJson d = true) :
    deserialize O opts (.struct c fields defaults) d = .ok x
      ↔ expectedDeser O opts (.struct c fields defaults) d = some x := by
  simp only [exactDecl, and_true_iff] at hex
  obtain ⟨⟨_, hnd⟩, hef⟩ := hex
  have hnd' : (fields.map (·.1)).Nodup := by simpa using hnd
  cases d with
  | dict kvs =>
    have hj' : strictJsonPairs kvs = true := by
      have := hj; simp only [strictJson, Bool.and_eq_true] at this; exact this.2
    rcases strict_kwOfDict kvs hj' with ⟨doc, hdoc, hall⟩
    have hE : ∀ a ∈ deserExtras opts c (fields.map (·.1)) doc, a.1 ∉ fields.map (·.1) := by
      intro a ha
      have := (List.mem_filter.mp ha).2
      simp only [Bool.and_eq_true, Bool.not_eq_true'] at this
      intro hm
      have hc : (fields.map (·.1)).contains a.1 = true := by simpa using hm
      rw [hc] at this; exact absurd this.1.1 (by simp)
    have H := fields_equiv O opts c defaults doc hall fields hef hnd' _ _ hE hE
    have core := struct_core O opts c fields defaults doc H x
    simp only [deserialize, dClassRef, hdoc]
    rw [core]
    simp only [expectedDeser, liftDoc, hdoc, Option.bind_some, construct]
    cases hl : liftFields O opts c doc fields with
    | none => simp
    | some args =>
      simp only [Option.map_some]
      cases hv : vConstruct c (fields.map (·.1)) (deserExtras opts c (fields.map (·.1)) doc ++ args)
          (validateFields O c defaults (deserExtras opts c (fields.map (·.1)) doc ++ args) fields) with
      | error e => simp
      | ok y => simp
  | _ =>
    first
    | (simp [strictJson] at hj; done)
    | simp [deserialize, expectedDeser, liftDoc]

/-- accepted exactly when the document denotes keyword arguments the constructor accepts -/
theorem deserialize_accepts_iff_partial (O : Oracles) (opts : DeserOpts) (c : ClassOpts)
    (fields : List (String × FieldDecl)) (defaults : List (String × PyVal)) (d : PyVal)
    (hex : exactDecl (.struct c fields defaults) = true) (hj : strictJson d = true) :
    (∃ x, deserialize O opts (.struct c fields defaults) d = .ok x)
      ↔ ∃ kw x, liftDoc O opts (.struct c fields defaults) d = some kw
          ∧ construct O (.struct c fields defaults) kw = .ok x := by
  constructor
  · rintro ⟨x, hx⟩
    have := (deserialize_exact_partial O opts c fields defaults d x hex hj).mp hx
    unfold expectedDeser at this
    cases hl : liftDoc O opts (.struct c fields defaults) d with
    | none => simp [hl] at this
    | some kw =>
      simp only [hl] at this
      cases hc : construct O (.struct c fields defaults) kw with
      | error e => simp [hc] at this
      | ok y => exact ⟨kw, y, rfl, hc⟩
  · rintro ⟨kw, x, hl, hc⟩
    exact ⟨x, (deserialize_exact_partial O opts c fields defaults d x hex hj).mpr (by simp [expectedDeser, hl, hc])⟩

/-! ### non-vacuity -/

def exO : Oracles := { reMatch := fun _ _ => true }
def exCls : FieldDecl :=
  .struct { name := "A", required := ["a"], addl := false, accepts := ["A"] }
    [("a", .seqOf .list (.enumCls "Color" ["RED", "BLUE"]) { max := some 2 }),
     ("b", .float { min := some ⟨0, 1⟩ })] []

theorem deserialize_example :
    (match deserialize exO {} exCls (.dict [(.str "a", .list [.str "RED"]), (.str "b", .int 3)]) with
      | .ok (.inst "A" [("a", .list [.enumv "Color" "RED"]), ("b", .float _)]) => true
      | _ => false) = true
    ∧ (match deserialize exO {} exCls (.dict [(.str "a", .list [.str "PINK"])]) with
      | .error .valueErr => true | _ => false) = true
    ∧ (match deserialize exO {} exCls (.dict [(.str "b", .int 3)]) with
      | .error .typeErr => true | _ => false) = true
    ∧ (match deserialize exO { keepUndefined := true, ignoreInvalidAddl := false } exCls
          (.dict [(.str "a", .list []), (.str "zz", .int 1)]) with
      | .error .typeErr => true | _ => false) = true
    ∧ (match deserialize exO {} exCls (.dict [(.str "a", .list []), (.str "zz", .int 1)]) with
      | .ok (.inst "A" [("a", .list [])]) => true | _ => false) = true
    ∧ (match expectedDeser exO {} exCls (.dict [(.str "a", .list [.str "RED"]), (.str "b", .int 3)]) with
      | some (.inst "A" _) => true | _ => false) = true := by
  decide

/-- the example class lies in the exact fragment and its documents are JSON: the hypotheses of
    `deserialize_exact_partial` are satisfiable -/
theorem exact_fragment_example :
    exactDecl exCls = true
    ∧ strictJson (.dict [(.str "a", .list [.str "RED"]), (.str "b", .int 3)]) = true
    ∧ exactDecl (.struct { name := "Outer", required := ["n"], accepts := ["Outer"] }
        [("n", exCls), ("t", .tuplePos [.integer {}, .string none (some 3) none] false),
         ("u", .seqOf .deque (.string none none none) { uniq := true, min := some 1 })] []) = true := by
  decide


/-- Set and Map inside the exact fragment: a class with a Set of strings and a Map from strings to
    arrays of nested structures lies in the fragment, its document is a JSON document, the model
    deserializes it to the documented instance (duplicates of the set collapse, enum names become
    members) and the specification agrees; a document whose set holds a non-string is rejected -/
def exMapCls : FieldDecl :=
  .struct { name := "M", required := ["tags", "m"], addl := false, accepts := ["M"] }
    [("tags", .setOf false (.string none (some 3) none) { max := some 2 }),
     ("m", .mapOf (.string (some 1) none none) (.seqOf .list exCls {}) { min := some 1 })] []

theorem exact_set_map_example :
    exactDecl exMapCls = true
    ∧ strictJson (.dict [(.str "tags", .list [.str "x", .str "y", .str "x"]),
        (.str "m", .dict [(.str "k", .list [.dict [(.str "a", .list [.str "RED"])]])])]) = true
    ∧ (match deserialize exO {} exMapCls (.dict [(.str "tags", .list [.str "x", .str "y", .str "x"]),
          (.str "m", .dict [(.str "k", .list [.dict [(.str "a", .list [.str "RED"])]])])]) with
      | .ok (.inst "M" [("tags", .set false [.str "x", .str "y"]),
            ("m", .dict [(.str "k", .list [.inst "A" [("a", .list [.enumv "Color" "RED"])]])])]) => true
      | _ => false) = true
    ∧ (match expectedDeser exO {} exMapCls (.dict [(.str "tags", .list [.str "x", .str "y", .str "x"]),
          (.str "m", .dict [(.str "k", .list [.dict [(.str "a", .list [.str "RED"])]])])]) with
      | some (.inst "M" _) => true | _ => false) = true
    ∧ (match deserialize exO {} exMapCls (.dict [(.str "tags", .list [.str "x", .int 1]),
          (.str "m", .dict [(.str "k", .list [])])]) with
      | .error _ => true | _ => false) = true
    ∧ (expectedDeser exO {} exMapCls (.dict [(.str "tags", .list [.str "x", .int 1]),
          (.str "m", .dict [(.str "k", .list [])])])).isNone = true := by
  decide


/-- `Optional[X]` inside the exact fragment: an optional scalar field and an array of optional strings
    (null elements become None), in both orders of the options; a value neither None nor an `X` is
    rejected by the model and by the specification -/
def exOptCls : FieldDecl :=
  .struct { name := "P", required := ["xs"], addl := false, accepts := ["P"] }
    [("o", .anyOf [.noneF, .integer { min := some ⟨0, 1⟩ }]),
     ("xs", .seqOf .list (.anyOf [.string none none none, .noneF]) {})] []

theorem exact_optional_example :
    exactDecl exOptCls = true
    ∧ strictJson (.dict [(.str "o", .int 5), (.str "xs", .list [.str "a", .none])]) = true
    ∧ (match deserialize exO {} exOptCls (.dict [(.str "o", .int 5), (.str "xs", .list [.str "a", .none])]) with
      | .ok (.inst "P" [("o", .int 5), ("xs", .list [.str "a", .none])]) => true
      | _ => false) = true
    ∧ (match expectedDeser exO {} exOptCls (.dict [(.str "o", .int 5), (.str "xs", .list [.str "a", .none])]) with
      | some (.inst "P" [("o", .int 5), ("xs", .list [.str "a", .none])]) => true | _ => false) = true
    ∧ (match deserialize exO {} exOptCls (.dict [(.str "o", .none), (.str "xs", .list [])]) with
      | .ok (.inst "P" [("xs", .list [])]) => true | _ => false) = true
    ∧ (match deserialize exO {} exOptCls (.dict [(.str "o", .int (-1)), (.str "xs", .list [])]) with
      | .error _ => true | _ => false) = true
    ∧ (expectedDeser exO {} exOptCls (.dict [(.str "o", .int (-1)), (.str "xs", .list [])])).isNone = true
    ∧ (expectedDeser exO {} exOptCls (.dict [(.str "xs", .list [.int 3])])).isNone = true := by
  decide

/-- StructureReference and NoneField inside the exact fragment: an inline class (with its own undeclared-key
    policy) nested in an array, next to a field that only admits None; the nested object is validated by
    the inline class; an undeclared key inside a closed inline class is rejected (model and specification alike)
    when the flags keep it, and dropped when they drop it -/
def exInlineCls : FieldDecl :=
  .struct { name := "H", required := ["pts"], addl := false, accepts := ["H"] }
    [("pts", .seqOf .list (.struct { name := "StructureReference_1", required := ["x"], addl := false, inline := true }
                [("x", .integer { min := some ⟨0, 1⟩ }), ("tag", .string none none none)] []) {}),
     ("nothing", .noneF)] []

theorem exact_inline_example :
    exactDecl exInlineCls = true
    ∧ strictJson (.dict [(.str "pts", .list [.dict [(.str "x", .int 3)], .dict [(.str "x", .int 0), (.str "tag", .str "")]])]) = true
    ∧ (match deserialize exO {} exInlineCls
          (.dict [(.str "pts", .list [.dict [(.str "x", .int 3)], .dict [(.str "x", .int 0), (.str "tag", .str "")]])]) with
      | .ok (.inst "H" [("pts", .list [.inst "StructureReference_1" [("x", .int 3)],
                                       .inst "StructureReference_1" [("x", .int 0), ("tag", .str "")]])]) => true
      | _ => false) = true
    ∧ (match expectedDeser exO {} exInlineCls
          (.dict [(.str "pts", .list [.dict [(.str "x", .int 3)], .dict [(.str "x", .int 0), (.str "tag", .str "")]])]) with
      | some (.inst "H" _) => true | _ => false) = true
    ∧ (match deserialize exO { keepUndefined := true, ignoreInvalidAddl := false } exInlineCls
          (.dict [(.str "pts", .list [.dict [(.str "x", .int 3), (.str "zz", .int 1)]])]) with
      | .error _ => true | _ => false) = true
    ∧ (expectedDeser exO { keepUndefined := true, ignoreInvalidAddl := false } exInlineCls
          (.dict [(.str "pts", .list [.dict [(.str "x", .int 3), (.str "zz", .int 1)]])])).isNone = true
    ∧ (match deserialize exO {} exInlineCls (.dict [(.str "pts", .list [.dict [(.str "x", .int 3), (.str "zz", .int 1)]])]) with
      | .ok (.inst "H" [("pts", .list [.inst "StructureReference_1" [("x", .int 3)]])]) => true | _ => false) = true
    ∧ (match deserialize exO {} exInlineCls (.dict [(.str "pts", .list []), (.str "nothing", .int 0)]) with
      | .error _ => true | _ => false) = true
    ∧ (expectedDeser exO {} exInlineCls (.dict [(.str "pts", .list []), (.str "nothing", .int 0)])).isNone = true := by
  decide

/-! ### the extension kinds (Sem/SerdeX.lean): DecimalNumber, Enum by value, DateField / DateTime -/


/-- a successful deserialization of a class over the extension kinds is the constructor applied to
    some keyword arguments -/
theorem xdeserialize_goes_through_constructor (XO : XOracles) (opts : DeserOpts) (cls : XDecl)
    (d x : PyVal) (h : deserializeX XO opts cls d = .ok x) :
    ∃ kw, constructX XO cls kw = .ok x := by
  unfold deserializeX at h
  cases cls with
  | struct c fields =>
    cases d with
    | dict kvs =>
      simp only [deserX, PyVal.isNone, Bool.false_and, Bool.false_eq_true, if_false] at h
      rcases dClassRef_dict_ok kvs _ _ _ x h with ⟨kw, hk⟩
      rcases bindE_eq_ok hk with ⟨args, _, h2⟩
      exact ⟨args, by simpa [constructX] using h2⟩
    | _ => simp at h
  | structU c fields =>
    cases d with
    | dict kvs =>
      simp only [deserX, PyVal.isNone, Bool.false_and, Bool.false_eq_true, if_false] at h
      rcases dClassRef_dict_ok kvs _ _ _ x h with ⟨kw, hk⟩
      rcases bindE_eq_ok hk with ⟨args, _, h2⟩
      exact ⟨args, by simpa [constructX] using h2⟩
    | _ => simp at h
  | _ => simp at h

theorem c06_find_some {α} (p : α → Bool) : ∀ (l : List α) (a : α), l.find? p = some a → a ∈ l ∧ p a = true
  | [], _, h => by simp at h
  | b :: l, a, h => by
    simp only [List.find?] at h
    cases hp : p b with
    | true => simp [hp] at h; subst h; exact ⟨by simp, hp⟩
    | false =>
      simp [hp] at h
      have := c06_find_some p l a h
      exact ⟨by simp [this.1], this.2⟩

/-- **C06, Enum by value, "exactly the images"**: the Deserializer accepts a document value exactly when
    it is hashable and `==` to the value of some member — whatever that value's truthiness — -/
theorem enumVal_accepts_iff (XO : XOracles) (opts : DeserOpts) (cls : String)
    (ms : List (String × PyVal)) (mx : Bool) (d : PyVal) :
    (∃ y, deserX XO opts false (.enumVal cls ms mx) d = .ok y)
      ↔ (unhashable d = false ∧ ∃ m ∈ ms, PyVal.pyEq d m.2 = true) := by
  simp only [deserX, Bool.and_false, Bool.false_eq_true, if_false, dEnumVal, xFindByValue]
  constructor
  · rintro ⟨y, hy⟩
    cases hu : unhashable d with
    | true => simp [hu] at hy
    | false =>
      simp only [hu, Bool.false_eq_true, if_false] at hy
      cases hf : ms.find? (fun m => PyVal.pyEq d m.2) with
      | none => simp [hf] at hy
      | some m =>
        have := c06_find_some _ ms m hf
        exact ⟨rfl, m, this.1, this.2⟩
  · rintro ⟨hu, m, hm, hp⟩
    cases hf : ms.find? (fun m => PyVal.pyEq d m.2) with
    | none =>
      have := (List.find?_eq_none.mp hf) m hm
      simp [hp] at this
    | some m' => exact ⟨.enumv cls m'.1, by simp [hu]⟩

/-- … and what it returns is that member, which the constructor accepts unchanged -/
theorem enumVal_result_is_member (XO : XOracles) (opts : DeserOpts) (cls : String)
    (ms : List (String × PyVal)) (mx : Bool) (d y : PyVal)
    (h : deserX XO opts false (.enumVal cls ms mx) d = .ok y) :
    ∃ m ∈ ms, PyVal.pyEq d m.2 = true ∧ y = .enumv cls m.1
      ∧ validateX XO (.enumVal cls ms mx) y = .ok y := by
  simp only [deserX, Bool.and_false, Bool.false_eq_true, if_false, dEnumVal, xFindByValue] at h
  cases hu : unhashable d with
  | true => simp [hu] at h
  | false =>
    simp only [hu, Bool.false_eq_true, if_false] at h
    cases hf : ms.find? (fun m => PyVal.pyEq d m.2) with
    | none => simp [hf] at h
    | some m =>
      simp only [hf] at h
      have hm := c06_find_some _ ms m hf
      have hy : y = .enumv cls m.1 := by cases h; rfl
      refine ⟨m, hm.1, hm.2, hy, ?_⟩
      subst hy
      have hc : (ms.map (·.1)).contains m.1 = true := by
        simp only [List.contains_eq_mem, List.mem_map, decide_eq_true_eq]
        exact ⟨m, hm.1, rfl⟩
      simp only [validateX, vEnumVal, hc, beq_self_eq_true, Bool.and_self, if_true]

/-- **C06, DecimalNumber**: the documented lifting of a JSON value is the value itself (the constructor
    converts), and deserialize-then-construct IS construct: accepted exactly when the constructor
    accepts, with the same stored Decimal, rejected with the same exception class otherwise -/
theorem decimal_deser_exact (XO : XOracles) (opts : DeserOpts) (o : NumOpts) (d : PyVal) :
    bindE (deserX XO opts false (.decimal o) d) (validateX XO (.decimal o)) = validateX XO (.decimal o) d := by
  simp only [deserX, Bool.and_false, Bool.false_eq_true, if_false, validateX, dDecimal, sxDecimal]
  cases hc : xConvDecimal XO d with
  | error e => simp
  | ok q => simp [xConvDecimal, PyVal.asNum]

/-- **C06, DateField / DateTime**: likewise for every document value (a JSON document holds no date
    object), provided `strptime` returns a value of the field's type -/
theorem temporal_deser_exact (XO : XOracles) (opts : DeserOpts) (ty fmt : String) (ints : Bool) (d : PyVal)
    (hd : ∀ t, d ≠ .opaque t)
    (hp : ∀ s t, XO.parse ty fmt s = some t → xIsKind XO ty t = true) :
    bindE (deserX XO opts false (.temporal ty fmt ints) d) (validateX XO (.temporal ty fmt ints))
      = validateX XO (.temporal ty fmt ints) d := by
  simp only [deserX, Bool.and_false, Bool.false_eq_true, if_false, validateX]
  cases d with
  | str s =>
    simp only [vTemporal, dTemporal]
    cases hps : XO.parse ty fmt s with
    | none => simp
    | some t => simp [vTemporal, hp s t hps]
  | int i =>
    simp only [vTemporal, dTemporal]
    split <;> simp
  | _ => first | (rename_i t; exact absurd rfl (hd t)) | simp [vTemporal, dTemporal]

/-- **C06, formatted strings** (DateString, IPV4, HostName): the deserializer checks the type only, the
    constructor the type and the format: deserialize-then-construct IS construct -/
theorem fmtStr_deser_exact (XO : XOracles) (opts : DeserOpts) (kind : String) (d : PyVal) :
    bindE (deserX XO opts false (.fmtStr kind true) d) (validateX XO (.fmtStr kind true))
      = validateX XO (.fmtStr kind true) d := by
  simp only [deserX, Bool.and_false, Bool.false_eq_true, if_false, validateX]
  cases d <;> simp [dFmtStr, vFmtStr]

/-- **C06, Enum by name over a mixin enum class** (the documented JSON form of a member is its name, which the
    constructor accepts and converts): deserialize-then-construct IS construct, for every document value -/
theorem enumName_deser_exact (XO : XOracles) (opts : DeserOpts) (cls : String) (ms : List (String × PyVal))
    (mx : Bool) (d : PyVal) :
    bindE (deserX XO opts false (.enumName cls ms mx) d) (validateX XO (.enumName cls ms mx))
      = validateX XO (.enumName cls ms mx) d := by
  simp only [deserX, Bool.and_false, Bool.false_eq_true, if_false, validateX]
  cases d with
  | str n =>
    simp only [dEnumName, vEnumVal]
    cases hc : (ms.map (·.1)).contains n with
    | true => simp only [if_true, bindE_ok, vEnumVal, hc, beq_self_eq_true, Bool.and_self]
    | false => simp
  | _ => simp only [dEnumName]; exact dValidated_same (vEnumVal cls ms mx) _

/-- **one DecimalNumber, two models**: wherever the extension model (Sem/SerdeX.lean, used for C05/C06) does not
    answer "not modelled" (a NaN / Infinity string, a (sign, digits, exponent) sequence), its constructor
    `sxDecimal` is the constructor model of C01/C02 (`Typedpy.vDecimal`, Sem/Decimal.lean), with that model's string
    parser read off this model's oracle: the two properties talk about the same DecimalNumber -/
theorem decimal_models_agree (XO : XOracles) (o : NumOpts) (v : PyVal)
    (h : ∀ e, sxDecimal XO o v = .error e → xOutside e = false) :
    sxDecimal XO o v = Typedpy.vDecimal (fun s => (XO.decOfStr s).bind id) o v := by
  cases v with
  | str s =>
    cases hd : XO.decOfStr s with
    | none =>
      have := h (.other "outside-model:decimal-str") (by simp [sxDecimal, xConvDecimal, hd])
      exact absurd this (by decide)
    | some r =>
      cases r with
      | none => simp [sxDecimal, xConvDecimal, hd, Typedpy.vDecimal, toDecimal, decValue, decErr]
      | some q =>
        simp [sxDecimal, xConvDecimal, hd, Typedpy.vDecimal, toDecimal, decValue, vNumber, PyVal.asNum]
  | list xs =>
    have := h (.other "outside-model:decimal-seq") (by simp [sxDecimal, xConvDecimal])
    exact absurd this (by decide)
  | tuple xs =>
    have := h (.other "outside-model:decimal-seq") (by simp [sxDecimal, xConvDecimal])
    exact absurd this (by decide)
  | bool b =>
    simp [sxDecimal, xConvDecimal, Typedpy.vDecimal, toDecimal, decValue, vNumber, PyVal.asNum]
  | int i =>
    simp [sxDecimal, xConvDecimal, Typedpy.vDecimal, toDecimal, decValue, vNumber, PyVal.asNum]
  | float q =>
    simp [sxDecimal, xConvDecimal, Typedpy.vDecimal, toDecimal, decValue, vNumber, PyVal.asNum]
  | dec q =>
    simp [sxDecimal, xConvDecimal, Typedpy.vDecimal, toDecimal, decValue, vNumber, PyVal.asNum]
  | _ => simp [sxDecimal, xConvDecimal, Typedpy.vDecimal, toDecimal, decValue, decErr, PyVal.asNum]


def exXO : XOracles :=
  { base := exO, toFloat := fun q => q,
    parse := fun _ _ s => if s == "2020-01-31" then some "date:2020-01-31" else none,
    format := fun _ _ _ => "2020-01-31",
    typeOf := fun t => if t == "date:2020-01-31" then "date" else "?" }

def exLevel : XDecl := .enumVal "Level" [("OFF", .int 0), ("LOW", .int 1), ("HIGH", .int 2)] true
def exTask : XDecl :=
  .struct { name := "Task", required := ["priority"], accepts := ["Task"], addl := false }
    [("priority", exLevel), ("levels", .seqOf .list exLevel), ("due", .opt (.temporal "date" "%Y-%m-%d" false)),
     ("price", .decimal { min := some ⟨0, 1⟩ })]

/-- non-vacuity, on the shape of a seeded change that went unnoticed: the document value 0 denotes the
    FALSY member `Level.OFF` and is accepted (bare and as an array item); 7 is the value of no member
    (ValueError), a list is unhashable (TypeError); `false == 0` finds the same member; a negative price
    is converted by the deserializer and rejected by the constructor (ValueError), a date that does not
    parse is a ValueError, a number for an Optional date matches no option (ValueError) and is a TypeError
    for the bare field -/
theorem xdeserialize_example :
    (match deserializeX exXO {} exTask (.dict [(.str "priority", .int 0), (.str "levels", .list [.int 2, .int 0, .bool false])]) with
      | .ok (.inst "Task" [("priority", .enumv "Level" "OFF"),
            ("levels", .list [.enumv "Level" "HIGH", .enumv "Level" "OFF", .enumv "Level" "OFF"])]) => true
      | _ => false) = true
    ∧ (match deserializeX exXO {} exTask (.dict [(.str "priority", .int 7)]) with
      | .error .valueErr => true | _ => false) = true
    ∧ (match deserializeX exXO {} exTask (.dict [(.str "priority", .list [])]) with
      | .error .typeErr => true | _ => false) = true
    ∧ (match deserializeX exXO {} exTask (.dict [(.str "priority", .int 1), (.str "price", .int (-1))]) with
      | .error .valueErr => true | _ => false) = true
    ∧ (match deserializeX exXO {} exTask (.dict [(.str "priority", .int 1), (.str "price", .float ⟨5, 2⟩), (.str "due", .str "2020-01-31")]) with
      | .ok (.inst "Task" [("priority", .enumv "Level" "LOW"), ("due", .opaque "date:2020-01-31"), ("price", .dec _)]) => true
      | _ => false) = true
    ∧ (match deserializeX exXO {} exTask (.dict [(.str "priority", .int 1), (.str "due", .str "2020-13-45")]) with
      | .error .valueErr => true | _ => false) = true
    ∧ (match deserializeX exXO {} exTask (.dict [(.str "priority", .int 1), (.str "due", .float ⟨3, 2⟩)]) with
      | .error .valueErr => true | _ => false) = true
    ∧ (match deserX exXO {} false (.temporal "date" "%Y-%m-%d" false) (.float ⟨3, 2⟩) with
      | .error .typeErr => true | _ => false) = true := by
  decide

end Typedpy.C06

