/-
  Props/C06.lean — property theorems for C06 (stub; to be filled in).
-/
namespace Typedpy.C06
end Typedpy.C06
