/-
  Props/C11.lean — property theorems for C11 (stub; to be filled in).
-/
namespace Typedpy.C11
end Typedpy.C11
