/-
  Props/C11.lean — C11: equality, hash, copy, deepcopy and pickle are mutually coherent.

  Model: Sem/EqHash.lean (`instEq` = `Structure.__eq__`, `hashKey` = `str(self)`, the string
  `__hash__` hashes; `copyI` / `deepcopyI` / `pickleI`; `stepI` / `runI` / `run2` = the C03 mutation
  machine on instances that know whether they are `_instantiated`).

  Proved for all classes, instances and histories of the model:
  * `instEq_fieldwise` — `==` is exactly field-wise `==` of the values read back;
  * `instEq_refl` (unconditional), `instEq_symm`, `instEq_trans` on instances whose values satisfy
    the representation invariants `okVal` (Lemmas/EqLemmas.lean shows they are necessary);
  * `copy_eq`, `deepcopy_eq`, `pickle_eq` (+ hash where it holds);
  * `run2_frame`, `deepcopy_independent`, `unpickled_frame`, `unpickled_independent` — operations on
    one instance of a pair never affect the other, for every interleaved history, and the unpickled
    copy behaves exactly like the instance it was pickled from (`pickle_state`,
    `unpickled_immutable_protected`; since the repo fix 4ede29b).
  `a == b → hash(a) == hash(b)`: since /repo c4803f1 `Structure.__hash__` hashes a canonical form of
  what `__eq__` compares (Sem/CanonHash.lean) and the implication is proved IN FULL (`eq_canon_hash`,
  `deepcopy_canon_hash`, `pickle_canon_hash`).  It was false of the `str(self)`-based hash before
  that commit: the kernel-checked counterexamples (`eq_hash_statement_false`, the
  `eq_hash_counterexample_*`, `deepcopy_hash_counterexample`, `pickle_hash_counterexample`) stay as
  statements about the printed form `str(x)` (`hashKey`), which still tells those spellings apart;
  `eq_hash_partial` says which instances print alike.  The harness reports the former findings
  again should they return.
  Sharing (which objects a copy has in common with the original) is proved on the heap model
  Sem/AliasC11.lean: `deepcopy_disjoint`, `deepcopy_heap_independent(_back)`,
  `copy_shares_first_level`, `copy_tables_ok`.
-/
import TypedpyModel.Lemmas.EqLemmas
import TypedpyModel.Lemmas.HashLemmas
import TypedpyModel.Lemmas.CopyLemmas
import TypedpyModel.Lemmas.CanonHash
import TypedpyModel.Lemmas.AliasC11
import TypedpyModel.Generated.AliasingC11
import TypedpyModel.Generated.Wrappers
set_option linter.unusedVariables false
set_option linter.unusedSimpArgs false
namespace Typedpy.C11

open PyVal (pyEq)

/-! ### `==` agrees with field-wise equality of the values read back -/

theorem lookup_mem' {α} (k : String) : ∀ (l : List (String × α)) (v : α),
    lookup k l = some v → (k, v) ∈ l
  | [], _, h => by simp [lookup] at h
  | (k', w) :: rest, v, h => by
    simp only [lookup] at h
    by_cases hk : (k == k') = true
    · simp only [hk, if_true, Option.some.injEq] at h
      have : k = k' := by simpa using hk
      subst this; subst h; simp
    · simp only [hk, Bool.false_eq_true, if_false] at h
      exact List.mem_cons_of_mem _ (lookup_mem' k rest v h)

theorem namesEq_contains (a b : List String) (h : namesEq a b = true) (k : String) :
    a.contains k = b.contains k := by
  simp only [namesEq, Bool.and_eq_true, List.all_eq_true, List.contains_eq_mem, decide_eq_true_eq] at h
  cases ha : a.contains k <;> cases hb : b.contains k <;> try rfl
  · have := h.2 k (by simpa using hb); simp_all
  · have := h.1 k (by simpa using ha); simp_all

/-- a name that neither `__dict__` mentions reads back the same on both sides (instances of one
    class with the same `_none_fields`) -/
theorem getA_absent (d : EqCtx) (a b : Inst) (k : String) (hu : a.undef = b.undef)
    (hn : namesEq a.nones b.nones = true)
    (ha : lookup k a.attrs = none) (hb : lookup k b.attrs = none) : getA d a k = getA d b k := by
  simp only [getA, ha, hb, hu, namesEq_contains _ _ hn k]

/-- **C11 (field-wise)**: `a == b` iff same class, every name (field, extra attribute, or neither)
    reads back `==` on both, and the `_none_fields` agree -/
theorem instEq_fieldwise (d : EqCtx) (a b : Inst) :
    instEq d a b = true ↔ FieldwiseEq d a b := by
  unfold instEq FieldwiseEq
  simp only [Bool.and_eq_true, beq_iff_eq, List.all_eq_true, List.mem_append]
  constructor
  · rintro ⟨⟨⟨hc, hu⟩, hall⟩, hn⟩
    refine ⟨hc, hu, fun k => ?_, hn⟩
    cases ha : lookup k a.attrs with
    | some v => exact hall (k, v) (Or.inl (lookup_mem' k _ v ha))
    | none =>
      cases hb : lookup k b.attrs with
      | some w => exact hall (k, w) (Or.inr (lookup_mem' k _ w hb))
      | none => rw [getA_absent d a b k hu hn ha hb]; exact pyEq_refl _
  · rintro ⟨hc, hu, hall, hn⟩
    exact ⟨⟨⟨hc, hu⟩, fun kv _ => hall kv.1⟩, hn⟩

/-! ### `==` is an equivalence on instances whose values satisfy the representation invariants -/

theorem namesEq_refl (a : List String) : namesEq a a = true := by
  simp [namesEq, List.all_eq_true]

theorem namesEq_symm (a b : List String) : namesEq a b = namesEq b a := by
  simp only [namesEq, Bool.and_comm]

theorem namesEq_trans (a b c : List String) (h1 : namesEq a b = true) (h2 : namesEq b c = true) :
    namesEq a c = true := by
  simp only [namesEq, Bool.and_eq_true, List.all_eq_true, List.contains_eq_mem,
    decide_eq_true_eq] at *
  exact ⟨fun x hx => h2.1 x (h1.1 x hx), fun x hx => h1.2 x (h2.2 x hx)⟩

/-- **C11 (reflexive)**, no side condition -/
theorem instEq_refl (d : EqCtx) (a : Inst) : instEq d a a = true :=
  (instEq_fieldwise d a a).2 ⟨rfl, rfl, fun _ => pyEq_refl _, namesEq_refl _⟩

/-- the instance's attribute values (and the field defaults) satisfy `okVal` -/
def okInst (d : EqCtx) (a : Inst) : Bool := okAttrs a.attrs && okAttrs d.defaults

theorem okVal_getA (d : EqCtx) (a : Inst) (k : String) (h : okInst d a = true) :
    okVal (getA d a k) = true := by
  simp only [okInst, Bool.and_eq_true, okAttrs_iff] at h
  unfold getA
  cases ha : lookup k a.attrs with
  | some v => exact h.1 (k, v) (lookup_mem' k _ v ha)
  | none =>
    simp only
    split
    · split <;> rfl
    · cases hd : lookup k d.defaults with
      | some v => exact h.2 (k, v) (lookup_mem' k _ v hd)
      | none => rfl

/-- **C11 (symmetric)** -/
theorem instEq_symm (d : EqCtx) (a b : Inst) (ha : okInst d a = true) (hb : okInst d b = true) :
    instEq d a b = instEq d b a := by
  have key : ∀ a b : Inst, okInst d a = true → okInst d b = true → instEq d a b = true →
      instEq d b a = true := by
    intro a b ha hb h
    obtain ⟨hc, hu, hall, hn⟩ := (instEq_fieldwise d a b).1 h
    exact (instEq_fieldwise d b a).2 ⟨hc.symm, hu.symm,
      fun k => pyEq_symm _ (okVal_getA d a k ha) _ (okVal_getA d b k hb) (hall k),
      by rw [namesEq_symm]; exact hn⟩
  cases h1 : instEq d a b <;> cases h2 : instEq d b a <;> try rfl
  · rw [key b a hb ha h2] at h1; cases h1
  · rw [key a b ha hb h1] at h2; cases h2

/-- **C11 (transitive)**: only the middle instance needs the invariant -/
theorem instEq_trans (d : EqCtx) (a b c : Inst) (hb : okInst d b = true)
    (h1 : instEq d a b = true) (h2 : instEq d b c = true) : instEq d a c = true := by
  obtain ⟨hc1, hu1, hall1, hn1⟩ := (instEq_fieldwise d a b).1 h1
  obtain ⟨hc2, hu2, hall2, hn2⟩ := (instEq_fieldwise d b c).1 h2
  exact (instEq_fieldwise d a c).2 ⟨hc1.trans hc2, hu1.trans hu2,
    fun k => pyEq_trans _ _ _ (okVal_getA d b k hb) (hall1 k) (hall2 k),
    namesEq_trans _ _ _ hn1 hn2⟩


/-! ### `a == b → str(a) == str(b)` is false: what made `a == b → hash(a) == hash(b)` false of the `str`-based hash (before c4803f1) -/

/-- the full-strength statement for the `str`-based hash (`hash(x) = hash(str(x))`, the code before c4803f1),
    for a rendering `R` of Python's `str()` -/
def eq_hash_statement (R : Render) : Prop :=
  ∀ (d : EqCtx) (a b : Inst), instEq d a b = true → hashKey R a = hashKey R b

/-- an example rendering: a float prints its exact ratio (injective, never an int literal) -/
def exR : Render :=
  { float := fun q => toString q.num ++ "/" ++ toString q.den, other := fun _ => "?",
    inlineCls := fun _ => false }

/-- finding `eq-not-hash:int-vs-float`: `A(x=1) == A(x=1.0)`, printed `x = 1` / `x = 1.0` -/
theorem eq_hash_counterexample_int_float :
    instEq {} { cls := "A", attrs := [("x", .int 1)] } { cls := "A", attrs := [("x", .float ⟨1, 1⟩)] } = true
    ∧ (hashKey exR { cls := "A", attrs := [("x", .int 1)] }
        == hashKey exR { cls := "A", attrs := [("x", .float ⟨1, 1⟩)] }) = false := by decide

/-- finding `eq-not-hash:bool-vs-int`: `A(x=True) == A(x=1)` -/
theorem eq_hash_counterexample_bool_int :
    instEq {} { cls := "A", attrs := [("x", .bool true)] } { cls := "A", attrs := [("x", .int 1)] } = true
    ∧ (hashKey exR { cls := "A", attrs := [("x", .bool true)] }
        == hashKey exR { cls := "A", attrs := [("x", .int 1)] }) = false := by decide

/-- finding `eq-not-hash:dict-order`: `A(m={'a': 1, 'b': 2}) == A(m={'b': 2, 'a': 1})` -/
theorem eq_hash_counterexample_dict_order :
    instEq {} { cls := "A", attrs := [("m", .dict [(.str "a", .int 1), (.str "b", .int 2)])] }
              { cls := "A", attrs := [("m", .dict [(.str "b", .int 2), (.str "a", .int 1)])] } = true
    ∧ (hashKey exR { cls := "A", attrs := [("m", .dict [(.str "a", .int 1), (.str "b", .int 2)])] }
        == hashKey exR { cls := "A", attrs := [("m", .dict [(.str "b", .int 2), (.str "a", .int 1)])] }) = false := by
  decide

/-- finding `eq-not-hash:set-order`: `A(s={0, 8}) == A(s={8, 0})` (colliding elements iterate in
    insertion order) -/
theorem eq_hash_counterexample_set_order :
    instEq {} { cls := "A", attrs := [("s", .set false [.int 0, .int 8])] }
              { cls := "A", attrs := [("s", .set false [.int 8, .int 0])] } = true
    ∧ (hashKey exR { cls := "A", attrs := [("s", .set false [.int 0, .int 8])] }
        == hashKey exR { cls := "A", attrs := [("s", .set false [.int 8, .int 0])] }) = false := by decide

/-- finding `eq-not-hash:none-vs-absent`: `A(x=1, extra=None) == A(x=1)` -/
theorem eq_hash_counterexample_none_absent :
    instEq {} { cls := "A", attrs := [("x", .int 1), ("extra", .none)] } { cls := "A", attrs := [("x", .int 1)] } = true
    ∧ (hashKey exR { cls := "A", attrs := [("x", .int 1), ("extra", .none)] }
        == hashKey exR { cls := "A", attrs := [("x", .int 1)] }) = false := by decide

/-- finding `eq-not-hash:set-vs-frozenset`: `A(s=set()) == A(s=frozenset())`; Python prints a
    frozenset as `frozenset(…)`, typedpy prints a set as `{…}` -/
theorem eq_hash_counterexample_set_frozenset :
    instEq {} { cls := "A", attrs := [("s", .set false [])] } { cls := "A", attrs := [("s", .set true [])] } = true
    ∧ (hashKey { exR with other := fun _ => "frozenset()" } { cls := "A", attrs := [("s", .set false [])] }
        == hashKey { exR with other := fun _ => "frozenset()" } { cls := "A", attrs := [("s", .set true [])] }) = false := by
  decide

/-- the full statement fails for the example rendering: former findings `eq-not-hash:*`, fixed by c4803f1
    (`eq_canon_hash` is the statement about the repaired hash) -/
theorem eq_hash_statement_false : ¬ eq_hash_statement exR := by
  intro h
  have h1 := h {} { cls := "A", attrs := [("x", .int 1)] } { cls := "A", attrs := [("x", .float ⟨1, 1⟩)] }
    eq_hash_counterexample_int_float.1
  have h2 := eq_hash_counterexample_int_float.2
  rw [h1] at h2
  simp at h2

/-! ### copy -/

/-- **C11 (copy)**: `copy.copy(x) == x` (both ways) and it prints / hashes like `x` -/
theorem copy_eq (R : Render) (d : EqCtx) (x : Inst) :
    instEq d x (copyI x) = true ∧ instEq d (copyI x) x = true ∧ hashKey R (copyI x) = hashKey R x :=
  ⟨instEq_refl d x, instEq_refl d x, rfl⟩

/-! ### independence of two instances (frame) -/

/-- **C11 (independent)**: in every interleaved history on a pair of instances each instance ends
    exactly where its own operations alone take it, with exactly the outcomes they alone produce:
    an operation on one instance is validated against and applied to that instance only.  (Value
    semantics: that a deep / unpickled copy shares no mutable object with the original is what the
    `pairs` suite establishes on the real code.) -/
theorem run2_frame (bd dh : Bool) (tbl : List MethodRec) (O : Oracles) (c : ClassOpts) (fields : List (String × FieldDecl)) :
    ∀ (h : List (Side × Op)) (p : Inst × Inst),
      (run2 bd dh tbl O c fields p h).1 =
        ((runI bd dh tbl O c fields p.1 (sideOf .orig h)).1, (runI bd dh tbl O c fields p.2 (sideOf .copy h)).1)
      ∧ sideOf .orig (run2 bd dh tbl O c fields p h).2 = (runI bd dh tbl O c fields p.1 (sideOf .orig h)).2
      ∧ sideOf .copy (run2 bd dh tbl O c fields p h).2 = (runI bd dh tbl O c fields p.2 (sideOf .copy h)).2
  | [], p => by simp [run2, runI, sideOf]
  | (.orig, op) :: rest, p => by
    have ih := run2_frame bd dh tbl O c fields rest ((stepI bd dh tbl O c fields p.1 op).1, p.2)
    simp only [run2, sideOf, List.filter, List.map, runI] at ih ⊢
    simp only [show ((Side.orig == Side.orig) = true) from rfl, show ((Side.orig == Side.copy) = false) from rfl,
      List.map] at ih ⊢
    simp only [runI]
    exact ⟨ih.1, by rw [ih.2.1], ih.2.2⟩
  | (.copy, op) :: rest, p => by
    have ih := run2_frame bd dh tbl O c fields rest (p.1, (stepI bd dh tbl O c fields p.2 op).1)
    simp only [run2, sideOf, List.filter, List.map, runI] at ih ⊢
    simp only [show ((Side.copy == Side.copy) = true) from rfl, show ((Side.copy == Side.orig) = false) from rfl,
      List.map] at ih ⊢
    simp only [runI]
    exact ⟨ih.1, ih.2.1, by rw [ih.2.2]⟩

theorem sideOf_map_copy (ops : List Op) :
    sideOf .copy (ops.map (fun op => (Side.copy, op))) = ops ∧
    sideOf .orig (ops.map (fun op => (Side.copy, op))) = [] := by
  induction ops with
  | nil => simp [sideOf]
  | cons op rest ih =>
    simp only [sideOf, List.map, List.filter] at ih ⊢
    simp only [show ((Side.copy == Side.copy) = true) from rfl, show ((Side.copy == Side.orig) = false) from rfl,
      List.map]
    exact ⟨by rw [ih.1], ih.2⟩

/-- **C11 (deepcopy independent)**: whatever history is applied to the copy, the original is
    unchanged, and the copy goes through exactly the states and outcomes of that history run on it
    alone -/
theorem deepcopy_independent (bd dh : Bool) (tbl : List MethodRec) (O : Oracles) (c : ClassOpts)
    (fields : List (String × FieldDecl)) (S : SetOrder) (x : Inst) (ops : List Op) :
    let r := run2 bd dh tbl O c fields (x, deepcopyI c S x) (ops.map (fun op => (Side.copy, op)))
    r.1.1 = x
    ∧ r.1.2 = (runI bd dh tbl O c fields (deepcopyI c S x) ops).1
    ∧ sideOf .copy r.2 = (runI bd dh tbl O c fields (deepcopyI c S x) ops).2 := by
  intro r
  have h := run2_frame bd dh tbl O c fields (ops.map (fun op => (Side.copy, op))) (x, deepcopyI c S x)
  rw [(sideOf_map_copy ops).1, (sideOf_map_copy ops).2] at h
  refine ⟨?_, ?_, h.2.2⟩
  · have := congrArg Prod.fst h.1; simpa [runI] using this
  · have := congrArg Prod.snd h.1; simpa using this

/-- the same frame property for an unpickled copy, for every iteration order of its rebuilt sets -/
theorem unpickled_frame (bd dh : Bool) (tbl : List MethodRec) (O : Oracles) (c : ClassOpts)
    (fields : List (String × FieldDecl)) (S : SetOrder) (x : Inst) (ops : List Op) :
    let r := run2 bd dh tbl O c fields (x, pickleI S x) (ops.map (fun op => (Side.copy, op)))
    r.1.1 = x
    ∧ r.1.2 = (runI bd dh tbl O c fields (pickleI S x) ops).1
    ∧ sideOf .copy r.2 = (runI bd dh tbl O c fields (pickleI S x) ops).2 := by
  intro r
  have h := run2_frame bd dh tbl O c fields (ops.map (fun op => (Side.copy, op))) (x, pickleI S x)
  rw [(sideOf_map_copy ops).1, (sideOf_map_copy ops).2] at h
  refine ⟨?_, ?_, h.2.2⟩
  · have := congrArg Prod.fst h.1; simpa [runI] using this
  · have := congrArg Prod.snd h.1; simpa using this

/-- the pickle round trip of a constructed instance (`_instantiated`) whose
    rebuilt sets come out in the iteration order they had gives back the very same state: fields,
    additional properties, `_none_fields` and the bookkeeping entries (since 4ede29b, 7925862) -/
theorem pickle_state (S : SetOrder) (x : Inst) (hi : x.instantiated = true)
    (hfix : rebuildAttrs S x.attrs = x.attrs) : pickleI S x = x := by
  cases x with
  | mk cls attrs inst nones undef =>
    simp only at hi hfix
    simp only [pickleI, hfix, hi]

/-- **C11 (unpickled copy independent, behaves like a fresh equal instance)**: whatever history is
    applied to the unpickled copy, the original is unchanged, and the copy goes through exactly the
    states and outcomes that the same history produces on the instance it was pickled from —
    immutability and every validation included.  (`hfix`: the rebuilt sets iterate as before, e.g.
    `S = id`, see `rebuildAttrs_id`; for other orders `unpickled_frame` and `pickle_eq` apply.) -/
theorem unpickled_independent (bd dh : Bool) (tbl : List MethodRec) (O : Oracles) (c : ClassOpts)
    (fields : List (String × FieldDecl)) (S : SetOrder) (x : Inst) (ops : List Op)
    (hi : x.instantiated = true) (hfix : rebuildAttrs S x.attrs = x.attrs) :
    let r := run2 bd dh tbl O c fields (x, pickleI S x) (ops.map (fun op => (Side.copy, op)))
    r.1.1 = x
    ∧ r.1.2 = (runI bd dh tbl O c fields x ops).1
    ∧ sideOf .copy r.2 = (runI bd dh tbl O c fields x ops).2 := by
  have h := unpickled_frame bd dh tbl O c fields S x ops
  rw [pickle_state S x hi hfix] at h ⊢
  exact h

/-! ### the unpickled copy is `_instantiated` again (fixed by 4ede29b) -/

def exO : Oracles := { reMatch := fun _ _ => true }
def exImm : ClassOpts := { name := "I", required := ["x"], addl := false, immutable := true, accepts := ["I"] }
def exImmFields : List (String × FieldDecl) := [("x", .integer {})]
def exImmInst : Inst := { cls := "I", attrs := [("x", .int 1)] }

/-- an immutable instance stays immutable through a pickle round trip: for every class, every
    instance and every rebuilt-set order, assignment to the unpickled copy of an
    ImmutableStructure is refused and leaves it unchanged -/
theorem unpickled_immutable_protected (bd dh : Bool) (tbl : List MethodRec) (O : Oracles) (c : ClassOpts)
    (fields : List (String × FieldDecl)) (S : SetOrder) (x : Inst) (f : String) (v : PyVal)
    (hc : c.immutable = true) :
    stepI bd dh tbl O c fields (pickleI S x) (.setattr f v) = (pickleI S x, .err .valueErr) := by
  simp only [stepI, pickleI, hc, Bool.and_self, setattrStep, setattrUndef, if_true]
  split <;> rfl

/-- non-vacuity / former finding `unpickled:immutable-setattr-unprotected`: assignment is refused
    on the instance and on its unpickled copy alike, and the copy `==` the original -/
theorem unpickled_immutable_example :
    (stepI Generated.nestedBound Generated.delitemHook Generated.wrappers exO exImm exImmFields exImmInst (.setattr "x" (.int 2))).2 = .err .valueErr
    ∧ (stepI Generated.nestedBound Generated.delitemHook Generated.wrappers exO exImm exImmFields (pickleI id exImmInst) (.setattr "x" (.int 2))).2
        = .err .valueErr
    ∧ instEq {} exImmInst (pickleI id exImmInst) = true := by decide

/-- former finding `pickle-not-eq:extra-attrs`: additional properties (also inside a nested
    Structure, also `None`-valued ones) survive the round trip; the copy `==` the original and
    prints alike -/
theorem pickle_keeps_extras_example :
    instEq {} { cls := "A", attrs := [("x", .int 1), ("extra", .int 5), ("n", .inst "B" [("y", .none), ("e", .str "s")])] }
      (pickleI id { cls := "A", attrs := [("x", .int 1), ("extra", .int 5), ("n", .inst "B" [("y", .none), ("e", .str "s")])] }) = true
    ∧ (hashKey exR { cls := "A", attrs := [("x", .int 1), ("extra", .int 5), ("n", .inst "B" [("y", .none), ("e", .str "s")])] }
        == hashKey exR (pickleI id { cls := "A", attrs := [("x", .int 1), ("extra", .int 5), ("n", .inst "B" [("y", .none), ("e", .str "s")])] })) = true := by
  decide

/-- finding `deepcopy-hash-differs:set-order` / `pickle-hash-differs:set-order`: a rebuilt set may
    iterate in another order; the copy is `==` but prints differently -/
theorem deepcopy_hash_counterexample :
    instEq {} { cls := "A", attrs := [("s", .set false [.str "a", .int 3])] }
      (deepcopyI { name := "A", required := [] } List.reverse { cls := "A", attrs := [("s", .set false [.str "a", .int 3])] }) = true
    ∧ (hashKey exR { cls := "A", attrs := [("s", .set false [.str "a", .int 3])] }
        == hashKey exR (deepcopyI { name := "A", required := [] } List.reverse
            { cls := "A", attrs := [("s", .set false [.str "a", .int 3])] })) = false := by
  decide

/-! ### `a == b → hash(a) == hash(b)` on the region that excludes the findings -/

/-- **C11 (eq ⇒ hash, partial)**: instances of one class that are `==` and spelled alike
    (`sameSpellI`: same Python number types, same Set / Map iteration orders, same attribute names,
    no Decimals) print — hence hash — alike, whatever the insertion order of their `__dict__`s and
    for every rendering of floats / foreign objects that is a function of the value.
    (`sameSpellI` alone already forces the conclusion; `heq` records that the region lies inside
    the statement's domain.) -/
theorem eq_hash_partial (R : Render) (hR : RenderRespects R) (d : EqCtx) (a b : Inst)
    (ha : keysDistinct (a.attrs.map (·.1)) = true) (hb : keysDistinct (b.attrs.map (·.1)) = true)
    (heq : instEq d a b = true) (hs : sameSpellI a b = true) : hashKey R a = hashKey R b :=
  hashKey_of_sameSpell R hR a b ha hb hs

/-- non-vacuity: different `__dict__` order and different representations of one float are inside
    the region; the instances are `==` and print alike -/
theorem eq_hash_partial_example :
    sameSpellI { cls := "A", attrs := [("x", .float ⟨1, 2⟩), ("m", .dict [(.str "a", .list [.int 1, .bool true])])] }
               { cls := "A", attrs := [("m", .dict [(.str "a", .list [.int 1, .bool true])]), ("x", .float ⟨2, 4⟩)] } = true
    ∧ instEq {} { cls := "A", attrs := [("x", .float ⟨1, 2⟩), ("m", .dict [(.str "a", .list [.int 1, .bool true])])] }
               { cls := "A", attrs := [("m", .dict [(.str "a", .list [.int 1, .bool true])]), ("x", .float ⟨2, 4⟩)] } = true
    ∧ (hashKey { exR with float := fun _ => "0.5" }
          { cls := "A", attrs := [("x", .float ⟨1, 2⟩), ("m", .dict [(.str "a", .list [.int 1, .bool true])])] }
        == hashKey { exR with float := fun _ => "0.5" }
          { cls := "A", attrs := [("m", .dict [(.str "a", .list [.int 1, .bool true])]), ("x", .float ⟨2, 4⟩)] }) = true := by
  decide

/-- the findings are outside the region -/
theorem eq_hash_region_excludes_findings :
    sameSpellI { cls := "A", attrs := [("x", .int 1)] } { cls := "A", attrs := [("x", .float ⟨1, 1⟩)] } = false
    ∧ sameSpellI { cls := "A", attrs := [("x", .bool true)] } { cls := "A", attrs := [("x", .int 1)] } = false
    ∧ sameSpellI { cls := "A", attrs := [("s", .set false [.int 0, .int 8])] }
                 { cls := "A", attrs := [("s", .set false [.int 8, .int 0])] } = false
    ∧ sameSpellI { cls := "A", attrs := [("m", .dict [(.str "a", .int 1), (.str "b", .int 2)])] }
                 { cls := "A", attrs := [("m", .dict [(.str "b", .int 2), (.str "a", .int 1)])] } = false
    ∧ sameSpellI { cls := "A", attrs := [("x", .int 1), ("extra", .none)] } { cls := "A", attrs := [("x", .int 1)] } = false
    ∧ sameSpellI { cls := "A", attrs := [("s", .set false [])] } { cls := "A", attrs := [("s", .set true [])] } = false
    ∧ sameSpellI { cls := "A", attrs := [("x", .dec ⟨1, 1⟩)] } { cls := "A", attrs := [("x", .dec ⟨1, 1⟩)] } = false := by
  decide

/-! ### deepcopy and pickle -/

theorem rebuildV_isNone (S : SetOrder) (v : PyVal) : (rebuildV S v).isNone = v.isNone := by
  cases v <;> rfl

theorem instEq_map (d : EqCtx) (f : PyVal → PyVal) (x : Inst) (i : Bool) (n : List String)
    (hf : ∀ p ∈ x.attrs, pyEq p.2 (f p.2) = true) (hn : namesEq x.nones n = true) :
    instEq d x { cls := x.cls, attrs := x.attrs.map (fun p => (p.1, f p.2)), instantiated := i, nones := n,
                 undef := x.undef } = true := by
  refine (instEq_fieldwise d x _).2 ⟨rfl, rfl, fun k => ?_, hn⟩
  cases hl : lookup k x.attrs with
  | some v =>
    have h1 : getA d x k = v := by simp only [getA, hl]
    have h2 : getA d { cls := x.cls, attrs := x.attrs.map (fun p => (p.1, f p.2)), instantiated := i,
                       nones := n, undef := x.undef } k = f v := by
      simp only [getA, lookup_map_val f k x.attrs, hl, Option.map]
    rw [h1, h2]; exact hf (k, v) (lookup_mem' k _ v hl)
  | none =>
    rw [← getA_absent d x { cls := x.cls, attrs := x.attrs.map (fun p => (p.1, f p.2)), instantiated := i,
                             nones := n, undef := x.undef } k rfl hn hl
        (by simp only [lookup_map_val f k x.attrs, hl, Option.map])]
    exact pyEq_refl _

/-- no `__dict__` entry that `__setattr__` would swallow on re-assignment: a `None` under a
    non-required name on a class that ignores `None` or has `_enable_undefined_value` (such an entry
    cannot be created through `__setattr__` in the first place) -/
def noDrop (c : ClassOpts) (x : Inst) : Bool :=
  x.attrs.all (fun kv => !(kv.2.isNone && (c.ignoreNone || x.undef) && !c.required.contains kv.1))

theorem deepcopy_attrs (S : SetOrder) (c : ClassOpts) (x : Inst) (hnd : noDrop c x = true) :
    (rebuildAttrs S x.attrs).filter
        (fun kv => !(kv.2.isNone && (c.ignoreNone || x.undef) && !c.required.contains kv.1))
      = x.attrs.map (fun p => (p.1, rebuildV S p.2)) := by
  rw [rebuildAttrs_eq_map]
  apply List.filter_eq_self.2
  intro q hq
  obtain ⟨p, hp, rfl⟩ := List.mem_map.1 hq
  simp only [noDrop, List.all_eq_true] at hnd
  simpa only [rebuildV_isNone] using hnd p hp

/-- **C11 (deepcopy)**: `copy.deepcopy(x) == x` — `_none_fields` included — for every iteration
    order the rebuilt sets come out in -/
theorem deepcopy_eq (S : SetOrder) (hS : MemPreserving S) (c : ClassOpts) (d : EqCtx) (x : Inst)
    (hnd : noDrop c x = true ∨ c.immutable = true) : instEq d x (deepcopyI c S x) = true := by
  unfold deepcopyI
  cases hi : c.immutable with
  | true => simp only [if_true]; exact instEq_refl d x
  | false =>
    have hnd' : noDrop c x = true := by
      rcases hnd with h | h
      · exact h
      · rw [hi] at h; cases h
    simp only [Bool.false_eq_true, if_false, deepcopy_attrs S c x hnd']
    exact instEq_map d (rebuildV S) x x.instantiated x.nones
      (fun p _ => pyEq_rebuildV S hS p.2) (namesEq_refl _)

/-- … and it prints / hashes like `x` when the rebuilt sets keep their iteration order
    (otherwise not: `deepcopy_hash_counterexample`) -/
theorem deepcopy_hash_partial (R : Render) (c : ClassOpts) (x : Inst)
    (hnd : noDrop c x = true ∨ c.immutable = true) :
    deepcopyI c id x = x ∧ hashKey R (deepcopyI c id x) = hashKey R x := by
  have h : deepcopyI c id x = x := by
    unfold deepcopyI
    cases hi : c.immutable with
    | true => simp
    | false =>
      have hnd' : noDrop c x = true := by
        rcases hnd with h | h
        · exact h
        · rw [hi] at h; cases h
      simp only [Bool.false_eq_true, if_false, deepcopy_attrs id c x hnd']
      have : x.attrs.map (fun p => (p.1, rebuildV id p.2)) = x.attrs := by
        rw [← rebuildAttrs_eq_map, rebuildAttrs_id]
      rw [this]
  exact ⟨h, by rw [h]⟩

/-- **C11 (pickle)**: the unpickled copy `==` the original — additional properties at every level
    and the explicitly-`None` field names (`_none_fields`, since 7925862) included — for every
    iteration order the rebuilt sets come out in; no hypothesis on the instance -/
theorem pickle_eq (S : SetOrder) (hS : MemPreserving S) (d : EqCtx) (x : Inst) :
    instEq d x (pickleI S x) = true := by
  unfold pickleI
  rw [rebuildAttrs_eq_map]
  exact instEq_map d (rebuildV S) x true x.nones (fun p _ => pyEq_rebuildV S hS p.2) (namesEq_refl _)

/-- **C11 (pickle, with the order of the new `__dict__`)**: the unpickled copy, its `__dict__`
    re-ordered as `__getstate__` / `__setstate__` leave it, `==` the original -/
theorem pickle_ord_eq (fields : List String) (S : SetOrder) (hS : MemPreserving S) (d : EqCtx) (x : Inst) :
    instEq d x (pickleOrdI fields S x) = true := by
  obtain ⟨hc, hu, hall, hn⟩ := (instEq_fieldwise d x (pickleI S x)).1 (pickle_eq S hS d x)
  exact (instEq_fieldwise d x _).2 ⟨hc, hu, fun k => by rw [getA_pickleOrd]; exact hall k, hn⟩

theorem pickle_ord_example :
    (pickleOrdI ["a", "b", "c"] id { cls := "A", attrs := [("z", .int 9), ("c", .int 3), ("a", .int 1)] }).attrs
      = [("a", .int 1), ("c", .int 3), ("z", .int 9)] := by
  rfl

/-- … and prints / hashes like it when the rebuilt sets keep their iteration order (otherwise not:
    `deepcopy_hash_counterexample` applies to pickle verbatim, finding `pickle-hash-differs:set-order`) -/
theorem pickle_hash_partial (R : Render) (x : Inst) :
    hashKey R (pickleI id x) = hashKey R x := by
  unfold pickleI hashKey
  simp only [rebuildAttrs_id]

/-- finding `pickle-hash-differs:set-order`, kernel-checked for pickle itself -/
theorem pickle_hash_counterexample :
    instEq {} { cls := "A", attrs := [("s", .set false [.str "a", .int 3])] }
      (pickleI List.reverse { cls := "A", attrs := [("s", .set false [.str "a", .int 3])] }) = true
    ∧ (hashKey exR { cls := "A", attrs := [("s", .set false [.str "a", .int 3])] }
        == hashKey exR (pickleI List.reverse { cls := "A", attrs := [("s", .set false [.str "a", .int 3])] })) = false := by
  decide

/-! ### classes with `_enable_undefined_value`: "never set" vs "explicitly `None`" -/

def exU : EqCtx := { fields := ["a", "b"] }
def exUC : ClassOpts := { name := "C", required := [], addl := false, accepts := ["C"] }
def exUFields : List (String × FieldDecl) := [("a", .integer {}), ("b", .integer {})]
/-- `C(a=1)`: `b` never set, reads `Undefined` -/
def exUnset : Inst := { cls := "C", attrs := [("a", .int 1)], undef := true }
/-- `C(a=1, b=None)`: `b` recorded in `_none_fields`, reads `None` -/
def exNone : Inst := { cls := "C", attrs := [("a", .int 1)], nones := ["b"], undef := true }

/-- the two are told apart by `==` in both directions (symmetry is `instEq_symm`, which covers
    `_none_fields`), by the values read back, and by the printed form; assigning `None` turns the
    first into the second -/
theorem undef_unset_vs_none_example :
    instEq exU exUnset exNone = false ∧ instEq exU exNone exUnset = false
    ∧ PyVal.pyEq (getA exU exUnset "b") undefinedV = true ∧ PyVal.pyEq (getA exU exNone "b") .none = true
    ∧ (hashKey exR exUnset == hashKey exR exNone) = false
    ∧ instEq exU (stepI Generated.nestedBound Generated.delitemHook Generated.wrappers exO exUC exUFields exUnset (.setattr "b" .none)).1 exNone = true
    ∧ instEq exU (stepI Generated.nestedBound Generated.delitemHook Generated.wrappers exO exUC exUFields exNone (.setattr "b" (.int 2))).1
        { cls := "C", attrs := [("a", .int 1), ("b", .int 2)], undef := true } = true := by
  decide

/-- on such a class `x.f = None` for a non-required (not immutable) field of a mutable instance
    is never stored: the name is recorded in `_none_fields` and whatever `__dict__` held for it is
    removed (since ed6dbae), so the field reads `None` afterwards -/
theorem setattr_none_recorded (bd dh : Bool) (tbl : List MethodRec) (O : Oracles) (c : ClassOpts)
    (fields : List (String × FieldDecl)) (x : Inst) (f : String) (fd : FieldDecl)
    (hu : x.undef = true) (hm : c.immutable = false) (hf : lookup f fields = some fd)
    (hr : c.required.contains f = false)
    (hi : c.immFields.contains f = false ∨ lookup f x.attrs = none) :
    stepI bd dh tbl O c fields x (.setattr f .none)
      = ({ x with nones := addName f x.nones, attrs := assocDel f x.attrs }, .ok) := by
  have hg : (c.immFields.contains f && (lookup f x.attrs).isSome) = false := by
    rcases hi with h | h
    · rw [h]; rfl
    · rw [h]; simp
  simp only [stepI, setattrUndef, hu, hm, hf, hr, hg, PyVal.isNone, if_true, Bool.false_and,
    Bool.false_eq_true, if_false, Option.isSome_some, Bool.not_true, Bool.not_false, Bool.and_self,
    Bool.true_and]

/-- … and on an immutable field that already holds a value it is refused and changes nothing
    (since f1caf24), like every other assignment to such a field -/
theorem setattr_none_immutable_field_refused (bd dh : Bool) (tbl : List MethodRec) (O : Oracles) (c : ClassOpts)
    (fields : List (String × FieldDecl)) (x : Inst) (f : String) (fd : FieldDecl) (w : PyVal)
    (hu : x.undef = true) (hf : lookup f fields = some fd)
    (hr : c.required.contains f = false) (hi : c.immFields.contains f = true)
    (hs : lookup f x.attrs = some w) :
    stepI bd dh tbl O c fields x (.setattr f .none) = (x, .err .valueErr) := by
  simp only [stepI, setattrUndef, hu, hf, hr, hi, hs, PyVal.isNone, if_true, Bool.false_and,
    Bool.false_eq_true, if_false, Option.isSome_some, Bool.not_true, Bool.not_false, Bool.and_self,
    Bool.true_and]
  split <;> rfl

/-- former finding `pickle-not-eq:none-fields-lost` (fixed by 7925862): the unpickled copy of
    `C(a=1, b=None)` keeps `b` in `_none_fields`: it `==` the original in both directions, is still
    `!=` `C(a=1)`, and prints alike; deepcopy and copy likewise -/
theorem pickle_keeps_nones_example :
    instEq exU exNone (pickleI id exNone) = true ∧ instEq exU (pickleI id exNone) exNone = true
    ∧ instEq exU (pickleI id exNone) exUnset = false
    ∧ (hashKey exR (pickleI id exNone) == hashKey exR exNone) = true
    ∧ instEq exU exNone (deepcopyI exUC id exNone) = true ∧ instEq exU exNone (copyI exNone) = true := by
  decide

/-- former finding `eq-vs-readback:none-recorded-over-stored-value` (fixed by ed6dbae):
    `x = C(a=1, b=5); x.b = None` records `b` in `_none_fields` *and* removes the 5 from `__dict__`:
    the result is `==` `C(a=1, b=None)`, reads `b` as `None`, and is told apart from `C(a=1, b=5)`
    by `==` and by the values read back alike -/
theorem none_replaces_value_example :
    (stepI Generated.nestedBound Generated.delitemHook Generated.wrappers exO exUC exUFields
        { cls := "C", attrs := [("a", .int 1), ("b", .int 5)], undef := true } (.setattr "b" .none)).1.nones = ["b"]
    ∧ instEq exU (stepI Generated.nestedBound Generated.delitemHook Generated.wrappers exO exUC exUFields
        { cls := "C", attrs := [("a", .int 1), ("b", .int 5)], undef := true } (.setattr "b" .none)).1 exNone = true
    ∧ PyVal.pyEq (getA exU (stepI Generated.nestedBound Generated.delitemHook Generated.wrappers exO exUC exUFields
        { cls := "C", attrs := [("a", .int 1), ("b", .int 5)], undef := true } (.setattr "b" .none)).1 "b") .none = true
    ∧ instEq exU (stepI Generated.nestedBound Generated.delitemHook Generated.wrappers exO exUC exUFields
        { cls := "C", attrs := [("a", .int 1), ("b", .int 5)], undef := true } (.setattr "b" .none)).1
        { cls := "C", attrs := [("a", .int 1), ("b", .int 5)], undef := true } = false := by
  decide

/-- former finding `eq-vs-readback:none-recorded-over-immutable-field` (fixed by f1caf24): on an
    *immutable field* that holds a value, `x.b = None` is refused with ValueError and the instance
    — `__dict__` and `_none_fields` — stays `==` what it was; on a not yet set immutable field the
    explicit `None` is recorded as on any other field -/
theorem none_over_immutable_field_example :
    (stepI Generated.nestedBound Generated.delitemHook Generated.wrappers exO { exUC with immFields := ["b"] } exUFields
        { cls := "C", attrs := [("a", .int 1), ("b", .int 5)], undef := true } (.setattr "b" .none)).2
        = .err .valueErr
    ∧ (stepI Generated.nestedBound Generated.delitemHook Generated.wrappers exO { exUC with immFields := ["b"] } exUFields
        { cls := "C", attrs := [("a", .int 1), ("b", .int 5)], undef := true } (.setattr "b" .none)).1.nones = []
    ∧ instEq exU (stepI Generated.nestedBound Generated.delitemHook Generated.wrappers exO { exUC with immFields := ["b"] } exUFields
        { cls := "C", attrs := [("a", .int 1), ("b", .int 5)], undef := true } (.setattr "b" .none)).1
        { cls := "C", attrs := [("a", .int 1), ("b", .int 5)], undef := true } = true
    ∧ instEq exU (stepI Generated.nestedBound Generated.delitemHook Generated.wrappers exO { exUC with immFields := ["b"] } exUFields exUnset
        (.setattr "b" .none)).1 exNone = true := by
  decide

/-! ### fields with defaults -/

def exD : EqCtx := { defaults := [("b", .int 0)], fields := ["a", "b"] }

/-- findings `eq-not-hash:default-vs-absent@…`: a field with a default that is absent from
    `__dict__` (explicit `None` swallowed by the constructor of an `_ignore_none` class, or deleted
    later) reads its default, so the instance `==` one that holds the default — but `__str__` /
    `__hash__` see `__dict__` only.  The pair is outside `sameSpellI` (different attribute names). -/
theorem eq_hash_counterexample_default_absent :
    instEq exD { cls := "C", attrs := [("a", .int 1)] } { cls := "C", attrs := [("a", .int 1), ("b", .int 0)] } = true
    ∧ instEq exD { cls := "C", attrs := [("a", .int 1), ("b", .int 0)] } { cls := "C", attrs := [("a", .int 1)] } = true
    ∧ (hashKey exR { cls := "C", attrs := [("a", .int 1)] }
        == hashKey exR { cls := "C", attrs := [("a", .int 1), ("b", .int 0)] }) = false
    ∧ sameSpellI { cls := "C", attrs := [("a", .int 1)] } { cls := "C", attrs := [("a", .int 1), ("b", .int 0)] } = false
    ∧ (stepI Generated.nestedBound Generated.delitemHook Generated.wrappers exO exUC exUFields { cls := "C", attrs := [("a", .int 1), ("b", .int 0)] }
        (.delitem "b")).1.attrs = [("a", .int 1)] := by
  refine ⟨by decide, by decide, by decide, by decide, by rfl⟩

/-- former finding `eq-vs-readback:explicit-none-reads-default` (fixed by 11aa0bc): on an
    `_enable_undefined_value` class a defaulted field recorded as explicitly `None` reads `None`,
    not the default: the instance is told apart from the one where the default was applied by `==`
    and by the values read back alike -/
theorem explicit_none_reads_none_example :
    instEq exD { cls := "C", attrs := [("a", .int 1)], nones := ["b"], undef := true }
               { cls := "C", attrs := [("a", .int 1), ("b", .int 0)], undef := true } = false
    ∧ PyVal.pyEq (getA exD { cls := "C", attrs := [("a", .int 1)], nones := ["b"], undef := true } "b") .none = true
    ∧ PyVal.pyEq (getA exD { cls := "C", attrs := [("a", .int 1)], nones := ["b"], undef := true } "b")
                 (getA exD { cls := "C", attrs := [("a", .int 1), ("b", .int 0)], undef := true } "b") = false := by
  decide

/-! ### the repaired hash (proposed_fixes/C11-canonical-hash.diff): `a == b → hash(a) == hash(b)` in full -/

theorem okValS_getA (d : EqCtx) (a : Inst) (k : String) (h : okInstS d a = true) :
    okValS (getA d a k) = true := by
  simp only [okInstS, Bool.and_eq_true, okAttrsS_iff] at h
  unfold getA
  cases ha : lookup k a.attrs with
  | some v => exact h.1.1 (k, v) (lookup_mem' k _ v ha)
  | none =>
    simp only
    split
    · split <;> rfl
    · cases hd : lookup k d.defaults with
      | some v => exact h.1.2 (k, v) (lookup_mem' k _ v hd)
      | none => rfl

/-- the full statement for the repaired hash -/
def eq_canon_hash_statement (H : HashO) : Prop :=
  ∀ (d : EqCtx) (a b : Inst), okInstS d a = true → okInstS d b = true →
    instEq d a b = true → canonHashI H d a = canonHashI H d b

/-- **C11 (eq ⇒ hash, FULL, for the repaired `__hash__`)**: instances that are `==` hash alike —
    whatever the Python types of their equal numbers (int / float / bool / Decimal, any exponent),
    the iteration orders of their sets and dicts, set versus frozenset, attributes holding `None`
    versus absent ones, defaulted fields absent from `__dict__`, the insertion order of `__dict__`
    — for every built-in `hash` that meets Python's contract (`HashO.Respects`).  No exclusion: the
    only hypotheses are the representation invariants of values read back from Python. -/
theorem eq_canon_hash (H : HashO) (hH : H.Respects) : eq_canon_hash_statement H := by
  intro d a b oka okb heq
  obtain ⟨hc, hu, hall, hn⟩ := (instEq_fieldwise d a b).1 heq
  have hentry : ∀ k, canonEntry H d a k = canonEntry H d b k := by
    intro k
    have e := hall k
    have hh := cHash_of_pyEq H hH _ (okValS_getA d a k oka) _ (okValS_getA d b k okb) e
    unfold canonEntry
    cases ha : (getA d a k).isNone <;> cases hb : (getA d b k).isNone
    · simp only [Bool.false_eq_true, if_false, hh]
    · rw [isNone_iff.1 hb] at e; rw [pyEq_none_right e] at ha; cases ha
    · rw [isNone_iff.1 ha] at e; rw [pyEq_none_left e] at hb; cases hb
    · rfl
  have hfun : canonEntry H d a = canonEntry H d b := funext hentry
  unfold canonHashI
  rw [hc, hfun]
  congr 1
  · apply hH.frozen_perm
    apply c11_filterMap_perm (nodup_dedupS _) (nodup_dedupS _)
    intro k hk
    constructor
    · intro _
      apply Classical.byContradiction
      intro hnot
      have := getA_none_of_not_name d b k hnot
      simp [canonEntry, this, PyVal.isNone] at hk
    · intro _
      apply Classical.byContradiction
      intro hnot
      have := getA_none_of_not_name d a k hnot
      rw [← hentry k] at hk
      simp [canonEntry, this, PyVal.isNone] at hk
  · apply hH.frozen_perm
    apply List.Perm.map
    simp only [okInstS, Bool.and_eq_true] at oka okb
    apply (List.perm_ext_iff_of_nodup (List.nodup_iff_pairwise_ne.2 (keysDistinct_pairwise _ oka.2))
      (List.nodup_iff_pairwise_ne.2 (keysDistinct_pairwise _ okb.2))).2
    intro k
    have := namesEq_contains _ _ hn k
    simp only [List.contains_eq_mem, decide_eq_decide] at this
    exact this

/-- an example built-in hash meeting the contract: numbers hash their integer part's… sign-free
    normal form is not needed — every number hashes to 0, a frozenset to the SUM of its members -/
def exH : HashO :=
  { noneH := 1, num := fun _ => 0, str := fun s => s.length + 2, enumv := fun _ n => n.length + 3,
    foreign := fun t => t.length + 5, seq := fun l => l.foldl (fun acc x => 31 * acc + x) 7,
    pair := fun a b => 1000 * a + b, frozen := fun l => l.sum,
    inst := fun c a n => 1000000 * c + 1000 * a + n }

theorem exH_respects : exH.Respects :=
  ⟨fun _ _ _ _ _ => rfl, fun _ _ hp => hp.sum_nat⟩

/-- non-vacuity: every spelling that today's `__hash__` tells apart (the findings' counterexamples)
    hashes alike under the repaired one, and instances that differ do not collide in the example -/
theorem eq_canon_hash_example :
    (canonHashI exH {} { cls := "A", attrs := [("x", .int 1)] } == canonHashI exH {} { cls := "A", attrs := [("x", .float ⟨1, 1⟩)] }) = true
    ∧ (canonHashI exH {} { cls := "A", attrs := [("x", .bool true)] } == canonHashI exH {} { cls := "A", attrs := [("x", .dec ⟨10, 10⟩)] }) = true
    ∧ (canonHashI exH {} { cls := "A", attrs := [("m", .dict [(.str "a", .int 1), (.str "b", .int 2)])] }
        == canonHashI exH {} { cls := "A", attrs := [("m", .dict [(.str "b", .int 2), (.str "a", .int 1)])] }) = true
    ∧ (canonHashI exH {} { cls := "A", attrs := [("s", .set false [.int 0, .int 8])] }
        == canonHashI exH {} { cls := "A", attrs := [("s", .set true [.int 8, .int 0])] }) = true
    ∧ (canonHashI exH {} { cls := "A", attrs := [("x", .int 1), ("extra", .none)] }
        == canonHashI exH {} { cls := "A", attrs := [("x", .int 1)] }) = true
    ∧ (canonHashI exH exD { cls := "C", attrs := [("a", .int 1)] }
        == canonHashI exH exD { cls := "C", attrs := [("b", .int 0), ("a", .int 1)] }) = true
    ∧ instEq exD { cls := "C", attrs := [("a", .int 1)] } { cls := "C", attrs := [("b", .int 0), ("a", .int 1)] } = true
    ∧ okInstS exD { cls := "C", attrs := [("b", .int 0), ("a", .int 1)] } = true
    ∧ (canonHashI exH {} { cls := "A", attrs := [("x", .str "a")] }
        == canonHashI exH {} { cls := "A", attrs := [("x", .str "ab")] }) = false := by
  decide

/-- **C11 (deepcopy / pickle keep the repaired hash, for EVERY iteration order of rebuilt sets)**:
    the findings `deepcopy-hash-differs:set-order` / `pickle-hash-differs:set-order` cannot occur with
    the canonical hash -/
theorem deepcopy_canon_hash (H : HashO) (hH : H.Respects) (S : SetOrder) (hS : MemPreserving S)
    (c : ClassOpts) (d : EqCtx) (x : Inst) (hnd : noDrop c x = true ∨ c.immutable = true)
    (okx : okInstS d x = true) (oky : okInstS d (deepcopyI c S x) = true) :
    canonHashI H d (deepcopyI c S x) = canonHashI H d x :=
  (eq_canon_hash H hH d x _ okx oky (deepcopy_eq S hS c d x hnd)).symm

theorem pickle_canon_hash (H : HashO) (hH : H.Respects) (S : SetOrder) (hS : MemPreserving S)
    (d : EqCtx) (x : Inst) (okx : okInstS d x = true) (oky : okInstS d (pickleI S x) = true) :
    canonHashI H d (pickleI S x) = canonHashI H d x :=
  (eq_canon_hash H hH d x _ okx oky (pickle_eq S hS d x)).symm

/-- the former counterexamples `deepcopy_hash_counterexample` / `pickle_hash_counterexample`: the
    re-ordered set prints differently but hashes alike under the repaired hash -/
theorem deepcopy_canon_hash_example :
    (canonHashI exH {} { cls := "A", attrs := [("s", .set false [.str "a", .int 3])] }
      == canonHashI exH {} (deepcopyI { name := "A", required := [] } List.reverse
            { cls := "A", attrs := [("s", .set false [.str "a", .int 3])] })) = true
    ∧ (hashKey exR { cls := "A", attrs := [("s", .set false [.str "a", .int 3])] }
        == hashKey exR (pickleI List.reverse { cls := "A", attrs := [("s", .set false [.str "a", .int 3])] })) = false
    ∧ (canonHashI exH {} { cls := "A", attrs := [("s", .set false [.str "a", .int 3])] }
        == canonHashI exH {} (pickleI List.reverse { cls := "A", attrs := [("s", .set false [.str "a", .int 3])] })) = true := by
  decide

/-! ### sharing: `copy.copy`, `copy.deepcopy`, pickle on the heap model (Sem/AliasC11.lean)

  Identity is an address.  The walk `dcItem` is driven by the table regenerated from the code
  (`Generated.copyRows`); the theorems hold for EVERY table, under the decidable hypothesis that the
  strict walk succeeds (it fails exactly where an existing object would be handed on: an immutable
  structure returned as is, a wrapper left bound to an owner that is not being copied). -/

section Sharing
open Typedpy.Alias Typedpy.AliasC11

def heapRoots : Item → List Nat
  | .ref a => [a]
  | .atom _ => []

theorem c11_newClosed_init (h : Heap) : NewClosed h.next h :=
  fun _ ha hlt => absurd (Nat.lt_of_lt_of_le hlt ha) (Nat.lt_irrefl _)

/-- **C11 (deep / unpickled copy shares nothing)**: when the strict walk succeeds it is the real
    walk; it leaves every pre-existing cell alone; everything reachable from the copy was allocated
    by the walk, everything reachable from the original existed before: the two reachable cell sets
    are disjoint -/
theorem deepcopy_disjoint (T : CKind → KindRow) (fuel : Nat) (h : Heap) (x : Nat) (h' : Heap) (y : Item)
    (cb : ClosedBelow h.next h) (hx : x < h.next)
    (e : dcItem true T fuel false h (.ref x) = (h', some y)) :
    dcItem false T fuel false h (.ref x) = (h', some y)
    ∧ (∀ a, a < h.next → h'.cells a = h.cells a)
    ∧ (∀ b, Held h' (heapRoots y) b → h.next ≤ b ∧ b < h'.next)
    ∧ (∀ b, Reach h' x b → b < h.next) := by
  have fr := dcItem_frame true T fuel false h (.ref x) h' _ e
  have fs := dcItem_fresh h.next T fuel false h (.ref x) h' y (Nat.le_refl _) (c11_newClosed_init h) e
  refine ⟨dcItem_strict_agree T fuel false h (.ref x) h' y e, fr.2, ?_, ?_⟩
  · intro b hb
    obtain ⟨r, hr, rb⟩ := hb
    cases y with
    | atom v => simp [heapRoots] at hr
    | ref a =>
      simp only [heapRoots, List.mem_singleton] at hr
      subst hr
      exact reach_new fs.1 (fs.2 r rfl) rb
  · intro b rb
    exact reach_below (closedBelow_frame cb fr) hx rb

/-- … hence NO history of native mutations applied to the copy (any sequence of writes into objects
    reachable from it, and into objects created on the way) changes anything that existed before:
    every observation of the original, to any depth, is what it was -/
theorem deepcopy_heap_independent (T : CKind → KindRow) (fuel : Nat) (h : Heap) (x : Nat) (h' : Heap) (y : Item)
    (cb : ClosedBelow h.next h) (hx : x < h.next)
    (e : dcItem true T fuel false h (.ref x) = (h', some y))
    (acts : List Act) (adm : AdmissibleAll h' (heapRoots y) acts) (n : Nat) :
    (∀ a, a < h.next → (runScript h' (heapRoots y) acts).1.cells a = h.cells a)
    ∧ observeN n (runScript h' (heapRoots y) acts).1 (.ref x) = observeN n h (.ref x) := by
  obtain ⟨_, fr2, hnew, _⟩ := deepcopy_disjoint T fuel h x h' y cb hx e
  have fr := dcItem_frame true T fuel false h (.ref x) h' _ e
  have sp := script_protects (fun a => a < h.next) acts h' (heapRoots y)
    (fun a ha hlt => absurd hlt (Nat.not_lt.mpr (hnew a ha).1))
    (fun a ha => Nat.lt_of_lt_of_le ha fr.1) adm
  have cells : ∀ a, a < h.next → (runScript h' (heapRoots y) acts).1.cells a = h.cells a := by
    intro a ha; rw [sp.1 a ha, fr2 a ha]
  refine ⟨cells, ?_⟩
  apply observe_agree (fun a => a < h.next) cells (fun a ha k hk => cb a ha k hk) n
  intro a ea
  simp only [Item.ref.injEq] at ea
  subst ea
  exact hx

/-- … and NO history of native mutations applied to the original (or to anything else that
    existed before) changes any observation of the copy -/
theorem deepcopy_heap_independent_back (T : CKind → KindRow) (fuel : Nat) (h : Heap) (x : Nat) (h' : Heap) (y : Item)
    (cb : ClosedBelow h.next h) (hx : x < h.next)
    (e : dcItem true T fuel false h (.ref x) = (h', some y))
    (K : List Nat) (hK : ∀ r, r ∈ K → r < h.next)
    (acts : List Act) (adm : AdmissibleAll h' K acts) (n : Nat) :
    observeN n (runScript h' K acts).1 y = observeN n h' y := by
  have fr := dcItem_frame true T fuel false h (.ref x) h' _ e
  have fs := dcItem_fresh h.next T fuel false h (.ref x) h' y (Nat.le_refl _) (c11_newClosed_init h) e
  have cb' := closedBelow_frame cb fr
  have sp := script_protects (fun a => h.next ≤ a ∧ a < h'.next) acts h' K
    (by
      intro a ha hp
      obtain ⟨r, hr, rb⟩ := ha
      exact absurd (reach_below cb' (hK r hr) rb) (Nat.not_lt.mpr hp.1))
    (fun a ha => ha.2) adm
  apply observe_agree (fun a => h.next ≤ a ∧ a < h'.next)
    (fun a ha => sp.1 a ha) (fun a ha k hk => fs.1 a ha.1 ha.2 k hk) n
  intro a ea
  exact fs.2 a ea

/-- **C11 (shallow copy shares exactly the first level)**: `copy.copy` of a structure (a row with
    mode `shallow`) is a new cell with the very same items — same values, same references — and
    nothing that existed is touched -/
theorem copy_shares_first_level (T : CKind → KindRow) (h : Heap) (x : Nat)
    (hk : (kindOfTag (h.cells x).tag).isWrapper = false)
    (hm : (T (kindOfTag (h.cells x).tag)).mode = .shallow) :
    copyTop T h x = ((h.alloc (h.cells x)).1, some (.ref h.next))
    ∧ (h.alloc (h.cells x)).1.cells h.next = h.cells x
    ∧ ((h.alloc (h.cells x)).1.cells h.next).kids = (h.cells x).kids
    ∧ (∀ a, a < h.next → (h.alloc (h.cells x)).1.cells a = h.cells a) := by
  have hc : (h.alloc (h.cells x)).1.cells h.next = h.cells x := by simp [Heap.alloc]
  refine ⟨?_, hc, by rw [hc], (frame_alloc h _).2⟩
  simp only [copyTop, hk, Bool.false_eq_true, if_false, hm, allocLike, Heap.alloc]

/-- the rows of a wrapper that keep copies apart: the copy is a plain container, or is bound to the
    copied owner, and taking it does not touch the original owner -/
def wrapperRowSafe (r : CopyRow) : Bool :=
  !r.ownerMutated && (r.back == .detach || r.back == .memoOrDetach || r.back == .memoOrCopyOwner)

/-- the wrapper rows behind the findings `wrapper-copy-*` (the table of 58bf716) -/
def unsafeWrapperRows : List CopyRow := [
  { op := .copy, kind := .listStruct, mode := .shallow, back := .owner, ownerMutated := true, astMode := "owner", agree := true },
  { op := .copy, kind := .dictStruct, mode := .shallow, back := .owner, ownerMutated := false, astMode := "owner", agree := true },
  { op := .deepcopy, kind := .listStruct, mode := .deep, back := .memoOrOwner, ownerMutated := false, astMode := "memoOrOwner", agree := true },
  { op := .deepcopy, kind := .dictStruct, mode := .deep, back := .memoOrOwner, ownerMutated := false, astMode := "memoOrOwner", agree := true },
  { op := .deepcopy, kind := .dequeStruct, mode := .deep, back := .memoOrOwner, ownerMutated := false, astMode := "memoOrOwner", agree := true }]

/-- the repaired rows (proposed_fixes/C11-wrapper-copies-detached.diff) -/
def repairedWrapperRows : List CopyRow := [
  { op := .copy, kind := .listStruct, mode := .shallow, back := .detach, ownerMutated := false, astMode := "detach", agree := true },
  { op := .copy, kind := .dictStruct, mode := .shallow, back := .detach, ownerMutated := false, astMode := "detach", agree := true },
  { op := .deepcopy, kind := .listStruct, mode := .deep, back := .memoOrDetach, ownerMutated := false, astMode := "memoOrDetach", agree := true },
  { op := .deepcopy, kind := .dictStruct, mode := .deep, back := .memoOrDetach, ownerMutated := false, astMode := "memoOrDetach", agree := true },
  { op := .deepcopy, kind := .dequeStruct, mode := .deep, back := .memoOrDetach, ownerMutated := false, astMode := "memoOrDetach", agree := true }]

/-- obligation re-checked against the regenerated table on every run: the source idioms agree with
    the identity probe; structures are copied the way the statement needs (deep copy and pickle
    rebuild a mutable structure, pickle rebuilds an immutable one too, deepcopy hands it back as it
    is or rebuilds it — never a half copy); every wrapper row is safe or one of the listed findings.
    (What `copy.copy` does is not constrained by the statement: `copy_shares_first_level` describes
    a `shallow` row, which is what today's table has.) -/
theorem copy_tables_ok :
    Generated.copyRows.all (fun r => r.agree) = true
    ∧ (projOf Generated.copyRows .deepcopy .structure).mode = .deep
    ∧ (projOf Generated.copyRows .deepcopy .immStructure).mode ≠ .shallow
    ∧ (projOf Generated.copyRows .pickle .structure).mode = .deep
    ∧ (projOf Generated.copyRows .pickle .immStructure).mode = .deep
    ∧ Generated.copyRows.all (fun r => !r.kind.isWrapper || wrapperRowSafe r || unsafeWrapperRows.contains r) = true := by
  decide

/-- former findings `wrapper-copy-*` (fixed by /repo 45dcf95): every wrapper row of today's table keeps
    copies apart — a copy of a field's collection taken on its own is a plain container, a wrapper
    copied with its owner is bound to the NEW owner, and taking a copy never touches the original
    owner.  (The rows of 58bf716 are `unsafeWrapperRows`: `wrapper_deepcopy_reaches_owner`,
    `wrapper_copy_mutates_owner` replay them on the model.) -/
theorem fixed_wrapper_rows_safe :
    Generated.copyRows.all (fun r => !r.kind.isWrapper || wrapperRowSafe r) = true := by
  decide

/-- `x = A(arr=[1, [..]], m={..}, n=B(arr=[..]))`: cell 0 = x, 1 = x.arr (bound to 0), 2 = an untyped
    list inside, 3 = x.m (bound to 0), 4 = the nested structure, 5 = its wrapper (bound to 4) -/
def exHeap : Heap := Heap.ofList [
  ⟨"Structure", [("arr", .ref 1), ("m", .ref 3), ("n", .ref 4), ("k", .atom 7)]⟩,
  ⟨"_ListStruct", [("0", .atom 1), ("1", .ref 2), ("_instance", .ref 0)]⟩,
  ⟨"list", [("0", .atom 5)]⟩,
  ⟨"_DictStruct", [("a", .atom 1), ("_instance", .ref 0)]⟩,
  ⟨"Structure", [("arr", .ref 5)]⟩,
  ⟨"_DequeStruct", [("0", .atom 9), ("_instance", .ref 4)]⟩]

/-- non-vacuity on today's table: the strict deep copy / pickle round trip of `x` succeed, allocate
    six new cells, share no cell with `x` (to depth 6), leave the six old cells as they were, and
    the copy reads back like `x`; `copy.copy(x)` shares exactly the first-level values -/
theorem deepcopy_disjoint_example :
    (match copyOp Generated.copyRows .deepcopy true 8 exHeap 0 with
     | (h', some y) => h'.next == 12 && sameBelow 6 exHeap h'
         && (sharedPaths 6 h' (reachList 6 exHeap (.ref 0)) [] y).isEmpty
         && Tree.beq (observeN 6 h' y) (observeN 6 exHeap (.ref 0))
     | _ => false) = true
    ∧ (match copyOp Generated.copyRows .pickle true 8 exHeap 0 with
     | (h', some y) => sameBelow 6 exHeap h' && (sharedPaths 6 h' (reachList 6 exHeap (.ref 0)) [] y).isEmpty
     | _ => false) = true
    ∧ (match copyOp Generated.copyRows .copy false 8 exHeap 0 with
     | (h', some y) => sameBelow 6 exHeap h' && sharedPaths 1 h' (reachList 6 exHeap (.ref 0)) [] y == [["arr"], ["m"], ["n"]]
     | _ => false) = true := by
  decide

/-- findings `wrapper-copy-bound-to-owner:deepcopy:*` (the rows of 58bf716): `copy.deepcopy(x.arr)`
    taken on its own is a new wrapper whose back-reference is the ORIGINAL owner — the copy reaches
    `x` (and through it everything `x` holds), so the strict walk fails; with the repaired rows the
    copy is a detached plain list that shares nothing -/
theorem wrapper_deepcopy_reaches_owner :
    (match copyOp unsafeWrapperRows .deepcopy false 8 exHeap 1 with
     | (h', some y) => sharedPaths 1 h' [0] [] y == [["_instance"]]
     | _ => false) = true
    ∧ (copyOp unsafeWrapperRows .deepcopy true 8 exHeap 1).2.isNone = true
    ∧ (match copyOp repairedWrapperRows .deepcopy true 8 exHeap 1 with
     | (h', some y) => (sharedPaths 6 h' (reachList 6 exHeap (.ref 0)) [] y).isEmpty && sameBelow 6 exHeap h'
     | _ => false) = true := by
  decide

/-- finding `wrapper-copy-mutates-owner:copy:list`: `copy.copy(x.arr)` re-assigns `x.arr` (cell 0
    changes: it now holds a new wrapper with the items stored twice) and returns a wrapper bound to
    `x`; with the repaired rows nothing that existed changes and the copy is a plain list -/
theorem wrapper_copy_mutates_owner :
    (match copyOp unsafeWrapperRows .copy false 8 exHeap 1 with
     | (h', some y) => !sameBelow 6 exHeap h' && (h'.cells 0).items.contains ("arr", .ref 6)
         && (h'.cells 6).items.length == 5 && sharedPaths 1 h' [0] [] y == [["_instance"]]
     | _ => false) = true
    ∧ (match copyOp repairedWrapperRows .copy false 8 exHeap 1 with
     | (h', some y) => sameBelow 6 exHeap h' && (h'.cells 6).tag == "list" && (sharedPaths 1 h' [0] [] y).isEmpty
     | _ => false) = true := by
  decide

end Sharing

end Typedpy.C11
