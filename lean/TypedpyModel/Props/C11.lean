/-
  Props/C11.lean — C11 (work in progress).
-/
import TypedpyModel.Sem.EqHash
namespace Typedpy.C11
open Typedpy

theorem copy_id (x : Inst) : copyI x = x := rfl

end Typedpy.C11
