/-
  Props/C08.lean — property theorems for C08 (stub; to be filled in).
-/
namespace Typedpy.C08
end Typedpy.C08
