/-
  Props/C08.lean — C08: the exported JSON schema is well-formed and admits every serialized valid
  instance; on the exact sub-fragment every admitted document is accepted by the Deserializer.

  Model: Sem/Schema.lean (`toSchema`, `dialectFix`); validator and well-formedness written from the
  draft-4 specification: Spec/JsValid.lean (`jsValidFuel`, `wfDocument`); fragments and regions:
  Spec/SchemaFrag.lean.  The code violates the full statement (see the counterexample theorems,
  each a known finding); what is proved is the statement restricted by explicit decidable
  predicates that exclude exactly those regions.
-/
import TypedpyModel.Lemmas.SchemaAdmits
import TypedpyModel.Lemmas.SchemaWf
import TypedpyModel.Lemmas.SchemaExact
import TypedpyModel.Lemmas.SchemaDialect
import TypedpyModel.Lemmas.SchemaDefs
import TypedpyModel.Lemmas.SchemaRename
import TypedpyModel.Lemmas.SchemaExactClass
namespace Typedpy.C08
open Typedpy Typedpy.Sch

/-- the verdict of the draft-4 validator on a document, for the pair `structure_to_schema`
    returns (after the dialect fix), with fuel `n` for `$ref` jumps -/
def schemaAccepts (S : String → String → Bool) (cls : FieldDecl) (n : Nat) (doc : PyVal) : Bool :=
  jsValidFuel n (fixedPtrDefs cls) S (dialectFix (toSchema cls).1) doc

/-- full-strength statement, admits half (false of the code today, see the counterexamples) -/
def C08_admits_statement : Prop :=
  ∀ (O : Oracles) (S : String → String → Bool), (∀ p s, O.reMatch p s = true → S p s = true) →
  ∀ (cls : FieldDecl) (x j : PyVal), raises cls = false → wellFormed O cls x = true →
    serialize O cls x = .ok j → schemaAccepts S cls (refDepth cls) j = true

/-- full-strength statement, well-formedness half -/
def C08_wellformed_statement : Prop :=
  ∀ cls : FieldDecl, raises cls = false →
    wfDocument (dialectFix (toSchema cls).1) (fixDefs (toSchema cls).2) = true

/-- **the dialect rewrite is exactly the emission with the two draft-4 spellings** — for EVERY
    class declaration (any nesting, defaults, field wrappers, raising kinds included): the schema
    and the definitions `structure_to_schema` returns, rewritten by the documented two-rule
    `dialectFix` (`multiplesOf` → `multipleOf`, `not: [..]` → `not: {anyOf: [..]}`, at schema
    positions only), are `classSchema true` / `classDefs true`, the objects the lemmas speak about. -/
theorem dialect_fix_is_emit_true (cls : FieldDecl) :
    dialectFix (toSchema cls).1 = classSchema true cls
    ∧ fixDefs (toSchema cls).2 = classDefs true cls
    ∧ fixedPtrDefs cls = ptrDefs (classDefs true cls) :=
  ⟨c08_fix_classSchema cls, c08_fix_classDefs cls, c08_fixedPtrDefs_eq cls⟩

/-- field level of `dialect_fix_is_emit_true`, every declaration -/
theorem dialect_fix_field (f : FieldDecl) : dialectFix (emit false f) = emit true f := c08_fix_emit f

/-- **schema_admits (partial).**  For every class declaration in the fragment (unbounded nesting),
    every regular-expression oracle pair with `match ⇒ search`, every instance in the region (deeply
    well-formed, outside the known-finding regions) and every fuel that covers the nesting of class
    references: the schema `structure_to_schema` returns, after the dialect rewrite, accepts the
    serialization.  `ClassRefsFaithful` says that no two different classes share a `__name__`. -/
theorem schema_admits_partial (O : Oracles) (S : String → String → Bool)
    (hS : ∀ p s, O.reMatch p s = true → S p s = true) (cls : FieldDecl) (x j : PyVal) (n : Nat)
    (hfrag : inSchemaFragment cls = true)
    (hrefs : ClassRefsFaithful (fixedPtrDefs cls) cls)
    (hn : refDepth cls ≤ n)
    (hreg : inAdmitRegion O cls x = true)
    (hser : serialize O cls x = .ok j) :
    schemaAccepts S cls n j = true := by
  unfold schemaAccepts
  rw [(dialect_fix_is_emit_true cls).1]
  exact admits_class O S hS (fixedPtrDefs cls) cls x j n hfrag hrefs hn hreg hser

/-- **schema_admits under a key-renaming `_serialization_mapper` (partial).**  `km` is the
    string-valued key map of the top-level class's mapper (`mapper[key]` when it is a `str`).  Under
    the hypotheses of `schema_admits_partial` plus the decidable `renameSafe` (the key map is
    injective on the field names and the keys of the document, and the exported `required` is the
    image of the required names) the schema exported WITH the mapper, after the dialect rewrite,
    accepts the serialization written WITH the mapper. -/
theorem schema_admits_renamed_partial (O : Oracles) (S : String → String → Bool)
    (hS : ∀ p s, O.reMatch p s = true → S p s = true) (km : KeyMap) (cls : FieldDecl) (x j : PyVal) (n : Nat)
    (hfrag : inSchemaFragment cls = true)
    (hrefs : ClassRefsFaithful (fixedPtrDefs cls) cls)
    (hn : refDepth cls ≤ n)
    (hreg : inAdmitRegion O cls x = true)
    (hser : serialize O cls x = .ok j)
    (hsafe : renameSafe km cls j = true) :
    jsValidFuel n (fixedPtrDefs cls) S (dialectFix (classSchemaM false km cls)) (renameDoc km j) = true := by
  rw [c08_fix_classSchemaM]
  exact c08_admits_class_renamed O S hS (fixedPtrDefs cls) km cls x j n hfrag hrefs hn hreg hser hsafe

/-- the empty key map is the mapper-free class (same properties, same `required` up to order) -/
theorem renamed_dialect_fix (km : KeyMap) (cls : FieldDecl) :
    dialectFix (classSchemaM false km cls) = classSchemaM true km cls := c08_fix_classSchemaM km cls

/-- the region of `schema_admits_partial` contains only well-formed instances of the class -/
theorem region_instances_wellformed (O : Oracles) (cls : FieldDecl) (x : PyVal)
    (hfrag : inSchemaFragment cls = true) (hreg : inAdmitRegion O cls x = true) :
    wellFormed O cls x = true :=
  region_wellFormed O cls x hfrag hreg

/-- **field level, any nesting depth**: the schema of a field accepts the serialization of every
    conforming value in the region -/
theorem field_admits_partial (O : Oracles) (S : String → String → Bool)
    (hS : ∀ p s, O.reMatch p s = true → S p s = true) (D : Defs) (f : FieldDecl) (n : Nat) (v j : PyVal)
    (hfrag : fragF f = true) (hrefs : RefsFaithful D f) (hn : refDepth f ≤ n)
    (hc : conforms O f v = true) (hreg : regF O f v = true) (hser : ser O f v = .ok j) :
    jsValidFuel n D S (emit true f) j = true :=
  admits_field O S hS D f n v hfrag hrefs hn hc hreg j hser

/-- the "field wrapper" form (one required field, no additional properties): the class's schema is
    the field's schema and accepts the compact serialization -/
theorem wrapper_admits_partial (O : Oracles) (S : String → String → Bool)
    (hS : ∀ p s, O.reMatch p s = true → S p s = true) (D : Defs) (c : ClassOpts) (name : String)
    (f : FieldDecl) (v j : PyVal) (n : Nat)
    (hcol : collapses c [name] = true) (hfrag : fragF f = true) (hrefs : RefsFaithful D f)
    (hn : refDepth f ≤ n) (hc : conforms O f v = true) (hreg : regF O f v = true)
    (hser : ser O f v = .ok j) :
    jsValidFuel n D S (classSchema true (.struct c [(name, f)] [])) j = true :=
  admits_wrapper O S hS D c name f v j n hcol hfrag hrefs hn hc hreg hser

/-- **schema_wellformed (partial).**  For every class declaration in the well-formedness fragment
    (unbounded nesting; defaults that are JSON values included) the WHOLE document
    `structure_to_schema` returns is well-formed after the dialect rewrite: the schema and every
    definition in the definitions table satisfy the draft-4 meta-schema keyword by keyword, and every
    `$ref` anywhere in them resolves inside the returned definitions.  No hypothesis on class names:
    a `__name__` shared by two classes makes a definition wrong (`counterexample_name_collision`),
    not ill-formed. -/
theorem schema_wellformed_partial (cls : FieldDecl) (hfrag : inWfFragment cls = true) :
    wfDocument (dialectFix (toSchema cls).1) (fixDefs (toSchema cls).2) = true :=
  c08_wf_document_fixed cls hfrag

/-- **every `$ref` resolves** — for EVERY class declaration (no fragment at all): each class
    reference at any depth points at a name that the returned definitions define -/
theorem definitions_refs_resolve (cls : FieldDecl) : ClassRefsResolve (fixedPtrDefs cls) cls := by
  rw [(dialect_fix_is_emit_true cls).2.2]
  cases cls with
  | struct c fields defaults => exact c08_resolves_defsAccP true fields []
  | _ => trivial

/-- field level, any nesting depth, against any pointer table in which the class references resolve -/
theorem field_wellformed_partial (D : Defs) (f : FieldDecl) (hfrag : wfFragF f = true)
    (hrefs : RefsResolve D f) : wfDraft4 D (emit true f) = true :=
  wf_field D f hfrag hrefs

/-- **schema_exact (partial, field level).**  On the exact scalar sub-fragment (Integer with
    bounds / multiplesOf / a sign class without an explicit bound on the same side; Number and Float
    with bounds; String with lengths and a start-anchored pattern; Boolean; Enum of literals or of
    an enum class), with the regular-expression hypothesis `search ⇒ match` for start-anchored
    patterns made explicit: every document value the field's schema admits is accepted by
    `deserialize_single_field` and by the validation the constructor then runs. -/
theorem field_exact_partial (O : Oracles) (R : String → PyVal → Bool) (S : String → String → Bool)
    (hS : ∀ p s, startAnchored p = true → S p s = true → O.reMatch p s = true)
    (opts : DeserOpts) (ign : Bool) (f : FieldDecl) (v : PyVal)
    (hfrag : exactScalar f = true) (h : jsV R S (emit true f) v = true) :
    ∃ y y', deser O opts ign f v = .ok y ∧ validate O f y = .ok y' :=
  exact_scalar O R S hS opts ign f v hfrag h

/-- **schema_exact (partial, field level: containers and nested classes).**  `field_exact_partial`
    extended to the fragment `exactF`: homogeneous `Array[X]` (any size bounds) and `Tuple[X]` without
    `uniqueItems`, `Optional[X]` (not as a direct array element), `Map[String, X]` (unconstrained key, no size
    bounds) and nested Structure classes by `$ref`
    (no defaults), nested to any depth over the exact scalars.  Every JSON document value (object keys are strings) that the field's schema admits —
    class references resolved through a faithful definitions table with enough fuel — is not null and
    is accepted by `deserialize_single_field` and by the field's validation -/
theorem field_exact_containers_partial (O : Oracles) (S : String → String → Bool)
    (hS : ∀ p s, startAnchored p = true → S p s = true → O.reMatch p s = true)
    (opts : DeserOpts) (D : Defs) (f : FieldDecl) (n : Nat) (ign : Bool) (v : PyVal)
    (hfrag : exactF f = true) (hrefs : RefsFaithful D f) (hn : refDepth f ≤ n) (hdoc : jsonDoc v = true)
    (h : jsValidFuel n D S (dialectFix (emit false f)) v = true) :
    v.isNone = false ∧ ∃ y y', deser O opts ign f v = .ok y ∧ validate O f y = .ok y' := by
  unfold jsValidFuel at h
  rw [dialect_fix_field] at h
  exact c08_exactN O S hS D f n opts ign v hfrag hrefs hn hdoc h

/-- **schema_exact (partial, class level).**  For every class of `inExactFragment` (not a field wrapper,
    no defaults, fields in `exactF`: exact scalars, Array[X], Tuple[X], Optional[X], Map[String, X], nested classes, at any depth),
    every JSON object that the class's schema admits — the schema and definitions `structure_to_schema`
    returns, after the dialect rewrite, with fuel covering the nesting of class references — and every
    flag setting of the Deserializer: `Deserializer(cls).deserialize(doc)` succeeds (each member passes
    its field, required members are present, undeclared members are allowed or absent, the constructor's
    validation accepts).  Positional items and sized / key-constrained Maps are not covered: there the
    schema is NOT exact (findings exact:positional-shorter, exact:map-size, exact:map-key-constraint). -/
theorem schema_exact_class_partial (O : Oracles) (S : String → String → Bool)
    (hS : ∀ p s, startAnchored p = true → S p s = true → O.reMatch p s = true)
    (opts : DeserOpts) (cls : FieldDecl) (n : Nat) (kvs : List (PyVal × PyVal))
    (hfrag : inExactFragment cls = true) (hrefs : ClassRefsFaithful (fixedPtrDefs cls) cls)
    (hn : refDepth cls ≤ n) (hdoc : jsonDoc (.dict kvs) = true)
    (h : schemaAccepts S cls n (.dict kvs) = true) :
    ∃ x, deserialize O opts cls (.dict kvs) = .ok x := by
  unfold schemaAccepts jsValidFuel at h
  rw [(dialect_fix_is_emit_true cls).1] at h
  exact c08_exact_class O S hS opts (fixedPtrDefs cls) cls n kvs hfrag hrefs hn hdoc h

/-! ### a concrete non-trivial input meets the hypotheses -/

def exO : Oracles := { reMatch := fun p s => p == "^x" && s == "xy" }
def exS : String → String → Bool := fun p s => p == "^x" && s == "xy"

def exInner : FieldDecl :=
  .struct { name := "Inner", required := ["k"], addl := false, accepts := ["Inner"] }
    [("k", .integer { min := some ⟨0, 1⟩, max := some ⟨10, 1⟩, exclMax := true }),
     ("s", .string (some 1) (some 3) (some "^x"))] []

/-- a class with a nested class used twice (one of them inside an array), a positional array, a
    tuple, a map, an enum, an Optional and a sign-class number -/
def exCls : FieldDecl :=
  .struct { name := "Outer", required := ["a", "i"], accepts := ["Outer"] }
    [("a", .seqPos .list [.integer {}, .string none none none] false {}),
     ("i", exInner),
     ("j", .seqOf .list exInner { max := some 2 }),
     ("t", .tuplePos [.boolean, .enumCls "Color" ["RED", "GREEN"]] false),
     ("m", .mapOf (.string none none none) (.float { sign := .nonneg }) {}),
     ("o", .anyOf [.number { mult := some 2 }, .noneF])] []

def exInnerVal (k : Int) : PyVal := .inst "Inner" [("k", .int k), ("s", .str "xy")]

def exVal : PyVal :=
  .inst "Outer" [("a", .list [.int 1, .str "q"]), ("i", exInnerVal 3), ("j", .list [exInnerVal 0, exInnerVal 9]),
                 ("t", .tuple [.bool true, .enumv "Color" "GREEN"]),
                 ("m", .dict [(.str "p", .float ⟨1, 2⟩)]), ("o", .int 4)]

theorem schema_admits_example :
    inSchemaFragment exCls = true ∧ classRefsFaithfulB (fixedPtrDefs exCls) exCls = true
    ∧ inAdmitRegion exO exCls exVal = true ∧ refDepth exCls = 2
    ∧ (match serialize exO exCls exVal with
       | .ok j => schemaAccepts exS exCls 2 j
       | .error _ => false) = true := by decide

theorem schema_wellformed_example :
    inWfFragment exCls = true ∧ classRefsFaithfulB (fixedPtrDefs exCls) exCls = true
    ∧ wfDocument (dialectFix (toSchema exCls).1) (fixDefs (toSchema exCls).2) = true
    ∧ structEq (dialectFix (toSchema exCls).1) (classSchema true exCls) = true := by decide

theorem field_exact_example :
    exactScalar (.integer { min := some ⟨0, 1⟩, max := some ⟨10, 1⟩, exclMax := true, mult := some 5 }) = true
    ∧ jsV (fun _ _ => false) exS
        (emit true (.integer { min := some ⟨0, 1⟩, max := some ⟨10, 1⟩, exclMax := true, mult := some 5 }))
        (.int 5) = true
    ∧ jsV (fun _ _ => false) exS
        (emit true (.integer { min := some ⟨0, 1⟩, max := some ⟨10, 1⟩, exclMax := true, mult := some 5 }))
        (.int 10) = false := by decide

/-! ### the code violates the full statement: kernel-checked counterexamples (known findings) -/

def anyO : Oracles := { reMatch := fun _ _ => true }
def anyS : String → String → Bool := fun _ _ => true

/-- what the validator says about the serialization of `x` (`true` when serialization fails) -/
def verdict (cls : FieldDecl) (x : PyVal) : Bool :=
  match serialize anyO cls x with
  | .ok j => schemaAccepts anyS cls (refDepth cls) j
  | .error _ => true

def flat (name : String) (required : List String) (fields : List (String × FieldDecl))
    (defaults : List (String × PyVal) := []) (ignoreNone : Bool := false) : FieldDecl :=
  .struct { name := name, required := required, accepts := [name], ignoreNone := ignoreNone } fields defaults

/-- finding `admits:bool-as-number`: `Integer` accepts `True`, which serializes to `true`, which
    `type: integer` rejects -/
theorem counterexample_bool_as_number :
    wellFormed anyO (flat "K" ["a"] [("a", .integer {})]) (.inst "K" [("a", .bool true)]) = true
    ∧ verdict (flat "K" ["a"] [("a", .integer {})]) (.inst "K" [("a", .bool true)]) = false := by decide

/-- finding `admits:sign-only-float-bound`: `PositiveFloat` is mapped to `minimum: 0.000001` -/
theorem counterexample_sign_only_float_bound :
    wellFormed anyO (flat "K" ["f"] [("f", .float { sign := .pos })])
      (.inst "K" [("f", .float ⟨1, 10000000⟩)]) = true
    ∧ verdict (flat "K" ["f"] [("f", .float { sign := .pos })])
      (.inst "K" [("f", .float ⟨1, 10000000⟩)]) = false := by decide

/-- fixed (579fe8f, was finding `admits:homogeneous-tuple`): `Tuple[Integer]` of any length is now
    exported as `items: integer`; inside `schema_admits_partial` -/
theorem fixed_homogeneous_tuple :
    inSchemaFragment (flat "K" ["t"] [("t", .tupleOf (.integer {}) false)]) = true
    ∧ inAdmitRegion anyO (flat "K" ["t"] [("t", .tupleOf (.integer {}) false)])
      (.inst "K" [("t", .tuple [.int 1, .int 2, .int 3])]) = true
    ∧ verdict (flat "K" ["t"] [("t", .tupleOf (.integer {}) false)])
      (.inst "K" [("t", .tuple [.int 1, .int 2, .int 3])]) = true := by decide

/-- what the Deserializer says about a document the schema admits -/
def admittedButRejected (cls : FieldDecl) (doc : PyVal) : Bool :=
  schemaAccepts anyS cls (refDepth cls) doc
    && (match deserialize anyO {} cls doc with | .ok _ => false | .error _ => true)

def wrapperInner : FieldDecl :=
  .struct { name := "Inner", required := ["a"], addl := false, accepts := ["Inner"] } [("a", .integer {})] []

/-- fixed (da4a1d5, was findings `admits:nested-field-wrapper` / `exact:nested-field-wrapper`): a
    nested class with one required field and no additional properties is now exported as an object
    schema; inside `schema_admits_partial` -/
theorem fixed_nested_field_wrapper :
    inSchemaFragment (flat "Outer" ["i"] [("i", wrapperInner), ("b", .boolean)]) = true
    ∧ inAdmitRegion anyO (flat "Outer" ["i"] [("i", wrapperInner), ("b", .boolean)])
      (.inst "Outer" [("i", .inst "Inner" [("a", .int 1)])]) = true
    ∧ verdict (flat "Outer" ["i"] [("i", wrapperInner), ("b", .boolean)])
      (.inst "Outer" [("i", .inst "Inner" [("a", .int 1)])]) = true
    ∧ admittedButRejected (flat "Outer" ["i"] [("i", wrapperInner), ("b", .boolean)])
      (.dict [(.str "i", .int 5)]) = false := by decide

/-- finding `admits:default-marked-required`: a field with a default is listed under `required`,
    but under `_ignore_none` an explicit `None` leaves it unset -/
theorem counterexample_default_marked_required :
    (match construct anyO (flat "K" ["b"] [("a", .integer {}), ("b", .integer {})] [("a", .int 5)] true)
        [("a", .none), ("b", .int 1)] with
     | .ok y => PyVal.pyEq y (.inst "K" [("b", .int 1)])
     | .error _ => false) = true
    ∧ wellFormed anyO (flat "K" ["b"] [("a", .integer {}), ("b", .integer {})] [("a", .int 5)] true)
      (.inst "K" [("b", .int 1)]) = true
    ∧ verdict (flat "K" ["b"] [("a", .integer {}), ("b", .integer {})] [("a", .int 5)] true)
      (.inst "K" [("b", .int 1)]) = false := by decide

/-- finding `admits:required-holds-none`: a required `AnyOf[Integer, None]` holding `None` is
    dropped by the serializer -/
theorem counterexample_required_holds_none :
    wellFormed anyO (flat "K" ["a"] [("a", .anyOf [.integer {}, .noneF]), ("b", .boolean)])
      (.inst "K" [("a", .none)]) = true
    ∧ verdict (flat "K" ["a"] [("a", .anyOf [.integer {}, .noneF]), ("b", .boolean)])
      (.inst "K" [("a", .none)]) = false := by decide

def sameA : FieldDecl :=
  .struct { name := "Same", required := ["x"], accepts := ["Same"] } [("x", .integer {}), ("y", .integer {})] []
def sameB : FieldDecl :=
  .struct { name := "Same", required := ["s"], accepts := ["Same"] } [("s", .boolean), ("t", .boolean)] []

/-- finding `definitions-name-collision`: two different classes with one `__name__` share one
    definition -/
theorem counterexample_name_collision :
    classRefsFaithfulB (fixedPtrDefs (flat "K" ["a", "b"] [("a", sameA), ("b", sameB)]))
      (flat "K" ["a", "b"] [("a", sameA), ("b", sameB)]) = false
    ∧ verdict (flat "K" ["a", "b"] [("a", sameA), ("b", sameB)])
      (.inst "K" [("a", .inst "Same" [("x", .int 1)]), ("b", .inst "Same" [("s", .bool true)])]) = false := by
  decide

def wfOf (cls : FieldDecl) : Bool := wfDocument (dialectFix (toSchema cls).1) (fixDefs (toSchema cls).2)

/-- finding `ill-formed:required:minItems`: a class without required fields gets `required: []`,
    which draft 4 forbids (`stringArray` has `minItems: 1`) -/
theorem counterexample_required_empty :
    raises (flat "K" [] [("a", .integer {}), ("b", .boolean)]) = false
    ∧ wfOf (flat "K" [] [("a", .integer {}), ("b", .boolean)]) = false := by decide

/-- fixed (dc01ef6, was finding `ill-formed:patternProperties:type`): a constrained map key is now
    exported as `patternProperties: {pattern: schema}`; inside both fragments -/
theorem fixed_pattern_properties :
    inWfFragment (flat "K" ["m"] [("m", .mapOf (.string none none (some "^a")) (.integer {}) {}), ("b", .boolean)]) = true
    ∧ inSchemaFragment (flat "K" ["m"] [("m", .mapOf (.string none none (some "^a")) (.integer {}) {}), ("b", .boolean)]) = true
    ∧ wfOf (flat "K" ["m"] [("m", .mapOf (.string none none (some "^a")) (.integer {}) {}), ("b", .boolean)]) = true
    ∧ verdict (flat "K" ["m"] [("m", .mapOf (.string none none (some "^a")) (.integer {}) {}), ("b", .boolean)])
        (.inst "K" [("m", .dict [(.str "ab", .int 1)])]) = true := by decide

/-- fixed (1f58d10, was `ill-formed:exclusiveMaximum:dependencies` and
    `admits:exclusiveMaximum-without-maximum`): `exclusiveMaximum` is emitted only with a declared
    maximum, so `NonPositiveInt(exclusiveMaximum=True)` holding 0 validates -/
theorem fixed_exclusive_maximum_alone :
    inWfFragment (flat "K" ["a"] [("a", .integer { exclMax := true, sign := .nonpos }), ("b", .boolean)]) = true
    ∧ wfOf (flat "K" ["a"] [("a", .integer { exclMax := true, sign := .nonpos }), ("b", .boolean)]) = true
    ∧ verdict (flat "K" ["a"] [("a", .integer { exclMax := true, sign := .nonpos }), ("b", .boolean)])
        (.inst "K" [("a", .int 0)]) = true := by decide

/-- fixed (1f58d10, was `ill-formed:multipleOf:minimum`): a negative `multiplesOf` is exported as
    its absolute value -/
theorem fixed_multiple_of_negative :
    inWfFragment (flat "K" ["a"] [("a", .integer { mult := some (-2) }), ("b", .boolean)]) = true
    ∧ wfOf (flat "K" ["a"] [("a", .integer { mult := some (-2) }), ("b", .boolean)]) = true
    ∧ verdict (flat "K" ["a"] [("a", .integer { mult := some (-2) }), ("b", .boolean)])
        (.inst "K" [("a", .int (-4))]) = true := by decide

def exExactInner : FieldDecl :=
  .struct { name := "In", required := ["k"], addl := false, accepts := ["In"] }
    [("k", .integer { min := some ⟨0, 1⟩ }), ("s", .string none (some 2) none)] []

def exExactCls : FieldDecl :=
  flat "K" ["i", "s"] [("i", .integer { min := some ⟨0, 1⟩, max := some ⟨10, 1⟩, sign := .any }),
                       ("s", .string (some 1) (some 3) none), ("b", .boolean),
                       ("e", .enumCls "Color" ["RED", "GREEN"]),
                       ("l", .seqOf .list (.tupleOf (.integer { max := some ⟨5, 1⟩ }) false) { max := some 2 }),
                       ("n", .seqOf .list exExactInner {}),
                       ("o", .anyOf [.seqOf .list (.number {}) { min := some 1 }, .noneF]),
                       ("m", .mapOf (.string none none none) (.tupleOf .boolean false) {})]

theorem schema_exact_class_example :
    inExactFragment exExactCls = true
    ∧ classRefsFaithfulB (fixedPtrDefs exExactCls) exExactCls = true ∧ refDepth exExactCls = 2
    ∧ schemaAccepts exS exExactCls 2 (.dict [(.str "i", .int 3), (.str "s", .str "xy"), (.str "e", .str "RED"), (.str "l", .list [.list [.int 1, .int 5], .list []]), (.str "n", .list [.dict [(.str "k", .int 2)]]), (.str "o", .list [.float ⟨1, 2⟩]), (.str "m", .dict [(.str "k", .list [.bool true])])]) = true
    ∧ (match deserialize exO {} exExactCls (.dict [(.str "i", .int 3), (.str "s", .str "xy"), (.str "e", .str "RED"), (.str "l", .list [.list [.int 1, .int 5], .list []]), (.str "n", .list [.dict [(.str "k", .int 2)]]), (.str "o", .list [.float ⟨1, 2⟩]), (.str "m", .dict [(.str "k", .list [.bool true])])]) with
       | .ok _ => true | .error _ => false) = true
    ∧ schemaAccepts exS exExactCls 2 (.dict [(.str "i", .int 11), (.str "s", .str "xy")]) = false := by decide

def exDefaults : FieldDecl :=
  flat "K" ["a"] [("a", .integer {}), ("c", .enumCls "Color" ["RED", "GREEN"]),
                  ("l", .seqOf .list (.string none none none) {}), ("i", exInner)]
    [("c", .enumv "Color" "GREEN"), ("l", .list [.str "x", .str "y"])]

/-- defaults that are JSON values (an enum member by its name, a list of strings) are inside
    `schema_wellformed_partial`; the definitions table (here: `Inner`) is part of the statement -/
theorem wellformed_defaults_example :
    inWfFragment exDefaults = true ∧ wfOf exDefaults = true
    ∧ (toSchema exDefaults).2.length = 1 := by decide

/-- classes with defaults are inside `schema_admits_partial`: the `default` written into a property
    schema is ignored by the validator, the defaulted fields are required by the schema and present in
    every instance of the region -/
theorem admits_defaults_example :
    inSchemaFragment exDefaults = true
    ∧ inAdmitRegion exO exDefaults
        (.inst "K" [("a", .int 1), ("c", .enumv "Color" "RED"), ("l", .list [.str "q"])]) = true
    ∧ (match serialize exO exDefaults (.inst "K" [("a", .int 1), ("c", .enumv "Color" "RED"), ("l", .list [.str "q"])]) with
       | .ok j => schemaAccepts exS exDefaults 1 j
       | .error _ => false) = true := by decide

/-- `AllOf` over raw scalars (Number / Integer / String / Enum of literals: accepted = conforms, the
    stored value is the input) is inside `schema_admits_partial`; an `AllOf` with a Float option keeps the
    raw int and stays outside (finding `admits:allOf`) -/
theorem admits_allOf_example :
    inSchemaFragment (flat "K" ["x"] [("x", .allOf [.integer { min := some ⟨0, 1⟩ }, .number { mult := some 2 },
        .enumLit [.int 2, .int 4, .str "q"]]), ("b", .boolean)]) = true
    ∧ inAdmitRegion anyO (flat "K" ["x"] [("x", .allOf [.integer { min := some ⟨0, 1⟩ }, .number { mult := some 2 },
        .enumLit [.int 2, .int 4, .str "q"]]), ("b", .boolean)]) (.inst "K" [("x", .int 4)]) = true
    ∧ verdict (flat "K" ["x"] [("x", .allOf [.integer { min := some ⟨0, 1⟩ }, .number { mult := some 2 },
        .enumLit [.int 2, .int 4, .str "q"]]), ("b", .boolean)]) (.inst "K" [("x", .int 4)]) = true
    ∧ inSchemaFragment (flat "K" ["x"] [("x", .allOf [.integer {}, .float {}]), ("b", .boolean)]) = false := by decide

/-- `OneOf` over Number / Integer / String options of pairwise different JSON types is inside
    `schema_admits_partial`: the option that accepts the value accepts its serialization, every other
    option's schema fails on `type`, so exactly one sub-schema matches.  Two numeric options are outside
    (finding `admits:oneOf`: Python tells 1 from 1.0 and an int from a bool, JSON types do not) -/
theorem admits_oneOf_example :
    inSchemaFragment (flat "K" ["x"] [("x", .oneOf [.integer { min := some ⟨0, 1⟩ }, .string (some 1) none none]),
        ("b", .boolean)]) = true
    ∧ inAdmitRegion anyO (flat "K" ["x"] [("x", .oneOf [.integer { min := some ⟨0, 1⟩ }, .string (some 1) none none]),
        ("b", .boolean)]) (.inst "K" [("x", .str "q")]) = true
    ∧ verdict (flat "K" ["x"] [("x", .oneOf [.integer { min := some ⟨0, 1⟩ }, .string (some 1) none none]),
        ("b", .boolean)]) (.inst "K" [("x", .str "q")]) = true
    ∧ inSchemaFragment (flat "K" ["x"] [("x", .oneOf [.integer {}, .number {}]), ("b", .boolean)]) = false := by decide

/-- fixed (was finding `ill-formed:default:not-json`): a default is written in its JSON form (a list of
    enum members as the list of their names, a set / tuple as an array); inside `schema_wellformed_partial` -/
theorem fixed_default_json :
    inWfFragment (flat "K" ["a"] [("a", .integer {}), ("l", .seqOf .list (.enumCls "Color" ["RED", "GREEN"]) {}),
        ("s", .setOf false (.integer {}) {})]
      [("l", .list [.enumv "Color" "RED"]), ("s", .set false [.int 1, .int 2])]) = true
    ∧ wfOf (flat "K" ["a"] [("a", .integer {}), ("l", .seqOf .list (.enumCls "Color" ["RED", "GREEN"]) {}),
        ("s", .setOf false (.integer {}) {})]
      [("l", .list [.enumv "Color" "RED"]), ("s", .set false [.int 1, .int 2])]) = true := by decide

def exSetCls : FieldDecl :=
  flat "K" ["s"] [("s", .setOf false (.string none none none) { max := some 3 }),
                  ("u", .seqOf .list (.integer {}) { uniq := true }),
                  ("t", .tupleOf (.enumCls "Color" ["RED", "GREEN"]) true),
                  ("a", .setAny false {})]

def exSetVal : PyVal :=
  .inst "K" [("s", .set false [.str "a", .str "b"]), ("u", .list [.int 1, .int 2]),
             ("t", .tuple [.enumv "Color" "RED", .enumv "Color" "GREEN"]),
             ("a", .set false [.int 1, .str "x"])]

/-- Set (typed and untyped) and `uniqueItems` on Array / Tuple are inside `schema_admits_partial` when the
    JSON images of the elements are pairwise distinct (`distinctImages`, part of the region) -/
theorem admits_set_unique_example :
    inSchemaFragment exSetCls = true ∧ inAdmitRegion exO exSetCls exSetVal = true
    ∧ (match serialize exO exSetCls exSetVal with
       | .ok j => schemaAccepts exS exSetCls 0 j
       | .error _ => false) = true := by decide

/-- finding `admits:uniqueItems`: a tuple and a list are different for Python and have one JSON
    image; the instance is well-formed, outside the region, and its serialization is rejected -/
theorem counterexample_unique_items :
    wellFormed anyO (flat "K" ["u"] [("u", .seqAny .list { uniq := true }), ("b", .boolean)])
      (.inst "K" [("u", .list [.tuple [.int 1], .list [.int 1]])]) = true
    ∧ inAdmitRegion anyO (flat "K" ["u"] [("u", .seqAny .list { uniq := true }), ("b", .boolean)])
      (.inst "K" [("u", .list [.tuple [.int 1], .list [.int 1]])]) = false
    ∧ verdict (flat "K" ["u"] [("u", .seqAny .list { uniq := true }), ("b", .boolean)])
      (.inst "K" [("u", .list [.tuple [.int 1], .list [.int 1]])]) = false := by decide
def exKm : KeyMap := [("a", "b"), ("i", "inner"), ("t", "T.t")]

/-- a swap-free rename including one onto a dotted key, on the class of `schema_admits_example` -/
theorem admits_renamed_example :
    (match serialize exO exCls exVal with
     | .ok j => renameSafe exKm exCls j
         && jsValidFuel 2 (fixedPtrDefs exCls) exS (dialectFix (classSchemaM false exKm exCls)) (renameDoc exKm j)
         && !jsValidFuel 2 (fixedPtrDefs exCls) exS (dialectFix (classSchemaM false exKm exCls)) j
     | .error _ => false) = true := by decide

def chainCls : FieldDecl := flat "K" ["a"] [("a", .integer {}), ("b", .integer {})]
def chainKm : KeyMap := [("a", "b"), ("b", "c")]

/-- fixed (was finding `admits:mapper-required-renamed-in-place`): `_serialization_mapper = {"a": "b", "b": "c"}`
    with only `a` required now exports `required: ["b"]`; `K(a=1)` serializes to `{"b": 1}`, which validates -/
theorem fixed_mapper_required :
    inSchemaFragment chainCls = true
    ∧ inAdmitRegion anyO chainCls (.inst "K" [("a", .int 1)]) = true
    ∧ requiredFaithful chainKm { name := "K", required := ["a"], accepts := ["K"] } [] ["a", "b"] = true
    ∧ (match serialize anyO chainCls (.inst "K" [("a", .int 1)]) with
       | .ok j => renameSafe chainKm chainCls j
                  && jsValidFuel 0 (fixedPtrDefs chainCls) anyS (dialectFix (classSchemaM false chainKm chainCls))
                    (renameDoc chainKm j)
       | .error _ => false) = true := by decide

/-- finding `exact:positional-shorter`: positional `Tuple` / `Array` items carry no `minItems`, so
    a shorter array is admitted by the schema and rejected by the Deserializer -/
theorem counterexample_exact_positional_shorter :
    admittedButRejected (flat "K" ["t"] [("t", .tuplePos [.integer {}, .boolean] false), ("b", .boolean)])
      (.dict [(.str "t", .list [.int 1])]) = true := by decide

/-- fixed (was finding `exact:map-size`): `Map(minItems/maxItems)` is exported as `minProperties` /
    `maxProperties`: an over-long object is no longer admitted; a map inside the bound still is -/
theorem fixed_map_size :
    admittedButRejected (flat "K" ["m"] [("m", .mapAny { max := some 1 }), ("b", .boolean)])
      (.dict [(.str "m", .dict [(.str "p", .int 1), (.str "q", .int 2)])]) = false
    ∧ schemaAccepts anyS (flat "K" ["m"] [("m", .mapAny { max := some 1 }), ("b", .boolean)]) 0
      (.dict [(.str "m", .dict [(.str "p", .int 1), (.str "q", .int 2)])]) = false
    ∧ inAdmitRegion anyO (flat "K" ["m"] [("m", .mapAny { max := some 1 }), ("b", .boolean)])
      (.inst "K" [("m", .dict [(.str "p", .int 1)])]) = true
    ∧ verdict (flat "K" ["m"] [("m", .mapAny { max := some 1 }), ("b", .boolean)])
      (.inst "K" [("m", .dict [(.str "p", .int 1)])]) = true := by decide

/-- fixed (was finding `admits:null-in-container`): in element position `Optional[X]` is exported as
    `{"anyOf": [X, {"type": "null"}]}`; an array holding None validates (at class level the schema of an
    Optional field stays the schema of X) -/
theorem fixed_null_in_container :
    verdict (flat "K" ["a"] [("a", .seqOf .list (.anyOf [.integer {}, .noneF]) {}), ("o", .anyOf [.integer {}, .noneF])])
      (.inst "K" [("a", .list [.int 1, .none]), ("o", .int 2)]) = true
    ∧ wfOf (flat "K" ["a"] [("a", .seqOf .list (.anyOf [.integer {}, .noneF]) {}), ("o", .anyOf [.integer {}, .noneF])]) = true
    ∧ verdict (flat "K" ["m"] [("m", .mapOf (.string none none none) (.anyOf [.boolean, .noneF]) {}), ("b", .boolean)])
      (.inst "K" [("m", .dict [(.str "k", .none)])]) = true := by decide

/-- finding `exact:enum-null` (since fix 512799b an Enum with a None value is exported, with `null` among the
    enum members): the schema admits `{"d": null}` for a required `d`; the runtime treats a null as an
    absent key and rejects the document -/
theorem counterexample_exact_enum_null :
    raises (flat "K" ["d"] [("d", .enumLit [.int 1, .none]), ("b", .boolean)]) = false
    ∧ admittedButRejected (flat "K" ["d"] [("d", .enumLit [.int 1, .none]), ("b", .boolean)])
      (.dict [(.str "d", .none)]) = true := by decide

end Typedpy.C08
