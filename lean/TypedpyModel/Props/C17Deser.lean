/-
  Props/C17Deser.lean — C17, second file (kept apart from Props/C17.lean only because Sem/Deser.lean and
  Sem/Convert.lean both define `R` / `bindE` / `truthy` / `deserExtras` in their namespaces): the whole path of
  `Deserializer(VersionedCls).deserialize`.
-/
import TypedpyModel.Props.C17
import TypedpyModel.Lemmas.ConvertDeser
namespace Typedpy.C17
open Typedpy.ConvertDeser
open Typedpy.Convert (Json Mapping docVersion convertDict docVersion_obj)

/-! ### the whole path of `Deserializer(VersionedCls).deserialize`

  `versioned_deser_equiv` quantifies over an abstract remainder `rest`.  Here the remainder is the executable model of
  deserialization (Sem/Deser.lean: per-field pass, undeclared keys of the class and of nested classes, constructor
  validation) composed with `Versioned.__init__` (Sem/ConvertDeser.lean `deserializeVersioned`), which the
  correspondence run compares with the real instance / exception on every non-trusted case. -/

/-- **versioned_deserialize_whole_path**: deserializing an old document IS running the remainder of deserialization
    on the converted document, and equals deserializing the converted document — for every class declaration,
    every setting of the flags, every history -/
theorem versioned_deserialize_whole_path (O : Oracles) (opts : DeserOpts) (cls : FieldDecl)
    (ms : Option (List Mapping)) (d d' : Json) (v : Int)
    (hv : docVersion d = some v) (h1 : 1 ≤ v) (h : convertDict d (ms.getD []) = .ok d') :
    deserializeVersioned O opts cls ms d = .ok (versionedRest O opts cls (((ms.getD []).length : Int) + 1) d')
    ∧ deserializeVersioned O opts cls ms d' = deserializeVersioned O opts cls ms d :=
  ⟨versioned_deser_result _ ms d d' v hv h1 h, versioned_deser_equiv _ ms d d' v hv h1 h⟩

/-- the same with `direct_trusted_mapping=True` (Sem/Trusted.lean: eligibility classifier, `from_trusted_data`, which
    still runs `Versioned.__init__`): old document and converted document deserialize alike, through the remainder
    applied to the converted document -/
theorem versioned_deserialize_trusted_whole_path (O : Oracles) (opts : DeserOpts) (cls : FieldDecl)
    (ms : Option (List Mapping)) (d d' : Json) (v : Int)
    (hv : docVersion d = some v) (h1 : 1 ≤ v) (h : convertDict d (ms.getD []) = .ok d') :
    deserializeVersionedTrusted O opts cls ms d
        = .ok (versionedRestTrusted O opts cls (((ms.getD []).length : Int) + 1) d')
    ∧ deserializeVersionedTrusted O opts cls ms d' = deserializeVersionedTrusted O opts cls ms d :=
  ⟨versioned_deser_result _ ms d d' v hv h1 h, versioned_deser_equiv _ ms d d' v hv h1 h⟩

/-- **versioned_deserialize_is_plain**: for a class whose `version` field is an integer field, deserializing a
    document at any version `v ∈ 1..len+1` yields exactly what the plain deserializer (`Typedpy.deserialize`, the
    model C05/C06 are about) yields for the same class on the converted latest-version document -/
theorem versioned_deserialize_is_plain (O : Oracles) (opts : DeserOpts) (c : ClassOpts)
    (fields : List (String × FieldDecl)) (defaults : List (String × PyVal)) (o : NumOpts)
    (ms : Option (List Mapping)) (d d' : Json) (v : Int)
    (hf : ∀ f, ("version", f) ∈ fields → f = FieldDecl.integer o) (hin : "version" ∈ fields.map (·.1))
    (hv : docVersion d = some v) (h1 : 1 ≤ v) (h2 : v ≤ ((ms.getD []).length : Int) + 1)
    (h : convertDict d (ms.getD []) = .ok d') :
    deserializeVersioned O opts (FieldDecl.struct c fields defaults) ms d
      = .ok (deserializePlain O opts (FieldDecl.struct c fields defaults) d') := by
  rw [(versioned_deserialize_whole_path O opts _ ms d d' v hv h1 h).1]
  have hv' := convert_version_keyed _ d d' v hv h1 h2 h
  rcases docVersion_obj hv' with ⟨kvs', rfl, hg'⟩
  rw [c17_forced_version_noop O opts c fields defaults _ kvs' o hf hin hg']

/-- **versioned_instance_latest**: whatever document a `Versioned` class (integer `version` field) accepts — at any
    version, with any history — the instance it returns carries version `len(_versions_mapping) + 1` -/
theorem versioned_instance_latest (O : Oracles) (opts : DeserOpts) (c : ClassOpts)
    (fields : List (String × FieldDecl)) (defaults : List (String × PyVal)) (o : NumOpts)
    (ms : Option (List Mapping)) (d : Json) (x : PyVal)
    (hf : ∀ f, ("version", f) ∈ fields → f = FieldDecl.integer o) (hin : "version" ∈ fields.map (·.1))
    (h : deserializeVersioned O opts (FieldDecl.struct c fields defaults) ms d = .ok (.ok x)) :
    ∃ attrs, x = .inst c.name attrs ∧ lookup "version" attrs = some (.int (((ms.getD []).length : Int) + 1)) := by
  rcases Typedpy.Convert.deserVersioned_ok h with ⟨d', hd'⟩
  exact c17_versionedRest_version O opts c fields defaults _ d' o hf hin x hd'.symm

/-- the same with `direct_trusted_mapping=True`: `from_trusted_data` still runs `Versioned.__init__` -/
theorem versioned_instance_latest_trusted (O : Oracles) (opts : DeserOpts) (c : ClassOpts)
    (fields : List (String × FieldDecl)) (defaults : List (String × PyVal)) (o : NumOpts)
    (ms : Option (List Mapping)) (d : Json) (n : String) (attrs : List (String × PyVal))
    (hf : ∀ f, ("version", f) ∈ fields → f = FieldDecl.integer o) (hin : "version" ∈ fields.map (·.1))
    (h : deserializeVersionedTrusted O opts (FieldDecl.struct c fields defaults) ms d = .ok (.ok (.inst n attrs))) :
    lookup "version" attrs = some (.int (((ms.getD []).length : Int) + 1)) := by
  rcases Typedpy.Convert.deserVersioned_ok h with ⟨d', hd'⟩
  simp only [versionedRestTrusted] at hd'
  split at hd'
  · rcases c17_versionedRest_version O opts c fields defaults _ d' o hf hin _ hd'.symm with ⟨attrs', he, hl⟩
    cases he
    exact hl
  · split at hd'
    · cases hd'
      exact c17_lookup_setKw _ _ _
    · rename_i hne
      exact absurd hd'.symm (by
        intro hx
        exact hne _ _ hx)

/-- non-vacuity: a class `V(version: PositiveInt, name: String)` without additional properties, history
    "rename `full` to `name`": the version-1 document deserializes to the instance `V(version=2, name="j")`, the
    same as its converted form; a document at version 0 … is accepted too (finding) -/
def exCls : FieldDecl :=
  .struct { name := "V", required := ["version"], addl := false }
    [("version", .integer { sign := .pos }), ("name", .string none none none)] []

theorem whole_path_example :
    (match ConvertDeser.deserializeVersioned { reMatch := fun _ _ => false } {} exCls
        (some [[("name", .move ["full"]), ("full", .deleted)]])
        (.obj [("version", .int 1), ("full", .str "j")]) with
      | .ok (.ok (.inst n attrs)) => n == "V" && attrs.length == 2
          && (match lookup "name" attrs with | some (.str s) => s == "j" | _ => false)
          && (match lookup "version" attrs with | some (.int i) => i == 2 | _ => false)
      | _ => false) = true := by
  decide

end Typedpy.C17
