/-
  Props/C10.lean — C10: trusted and fast shortcut paths equal the validated paths on valid data.

  Models: Sem/Trusted.lean (the classifier `_structure_simplicity_level`, the trusted branch of
  `deserialize_structure_internal`, `from_trusted_data` / `trust_supplied_values`), Sem/Fast.lean
  (`create_serializer` and the per-field `serialize` methods), next to the regular paths
  Sem/Deser.lean (`deserialize`), Sem/Validate.lean (`construct`), Sem/Serde.lean (`serialize`).
  All theorems quantify over ALL class declarations (unbounded nesting), documents, keyword
  arguments, instances and oracles; proofs are mutual structural inductions over `FieldDecl`
  (Lemmas/Trusted.lean, Lemmas/TrustedCtor.lean, Lemmas/Fast.lean).

  The code violates the property as stated (`trusted_statement`, `ineligible_statement`,
  `from_trusted_statement`, `fast_statement` below are all FALSE of the model, which mirrors the
  code): each known defect is a kernel-checked counterexample theorem, and what is proved are the
  `_partial` theorems, restricted by explicit decidable predicates to the complement of the
  known-finding region (Spec/TrustedSafe.lean, Spec/FastSafe.lean).

  "equal" is `eqv`: Python `==` where `Structure.__eq__` reads an attribute holding None like an
  unset one and a frozenset equals the set of the same elements (`tnorm` normal forms equal).
  "serializing identically" is equality of the serialized documents (strict: 1 and 1.0 differ).
-/
import TypedpyModel.Lemmas.TrustedCtor
import TypedpyModel.Lemmas.TrustedMap
import TypedpyModel.Lemmas.TrustedExh
import TypedpyModel.Lemmas.Fast
import TypedpyModel.Lemmas.FastMap
import TypedpyModel.Lemmas.Mappers
namespace Typedpy.C10
open Typedpy

/-! ## 1. trusted deserialization -/

/-- the statement at full strength: every class typedpy classifies as eligible, every JSON
    document the regular path accepts -/
def trusted_statement : Prop :=
  ∀ (O : Oracles) (opts : DeserOpts) (cls : FieldDecl) (d x : PyVal),
    wfDecl cls = true → eligible noMappers cls = true → isJson d = true →
    deserialize O opts cls d = .ok x →
    ∃ y, deserializeTrusted noMappers O opts cls d = .ok y ∧ eqv x y = true
      ∧ serialize O cls y = serialize O cls x

/-- **C10 (trusted deserialization), proved part**: for every eligible class in the region
    `tsafeCls` (nested classes at any depth, Array / Optional of scalars and classes, Set of
    scalars, Enum, `_ignore_none`, additional properties on or off) and every document in
    `plainDoc` that the regular path accepts, `direct_trusted_mapping=True` returns an instance
    equal to the regular one, and both serialize to the same document. -/
theorem trusted_equiv_partial (O : Oracles) (opts : DeserOpts) (cls : FieldDecl) (d x : PyVal)
    (he : eligible noMappers cls = true) (hs : tsafeCls cls = true)
    (hp : plainDoc opts cls d = true) (hr : deserialize O opts cls d = .ok x) :
    ∃ y, deserializeTrusted noMappers O opts cls d = .ok y ∧ eqv x y = true
      ∧ serialize O cls y = serialize O cls x := by
  rcases trusted_equiv_core O opts cls d x he hs hp hr with ⟨y, h1, h2, h3⟩
  refine ⟨y, h1, ?_, h3⟩
  unfold eqv
  rw [h2]
  exact pyEq_refl _

/-- for a class typedpy does not classify as eligible (and whose mapper it supports) the flag
    changes nothing -/
theorem ineligible_noop_partial (Mp : MapEnv) (O : Oracles) (opts : DeserOpts) (cls : FieldDecl)
    (d : PyVal) (hcls : ∃ c fs ds, cls = .struct c fs ds)
    (he : eligible Mp cls = false) (hm : verdictOf Mp cls ≠ .raises) :
    deserializeWithFlag Mp O opts true cls d = deserialize O opts cls d := by
  rcases hcls with ⟨c, fs, ds, rfl⟩
  unfold eligible at he
  simp only [deserializeWithFlag, if_true, deserializeTrusted]
  cases hv : verdictOf Mp (.struct c fs ds) with
  | raises => exact absurd hv hm
  | no => rfl
  | lvl l => simp [hv] at he

def ineligible_statement : Prop :=
  ∀ (Mp : MapEnv) (O : Oracles) (opts : DeserOpts) (c : ClassOpts) (fs : List (String × FieldDecl))
    (ds : List (String × PyVal)) (d : PyVal),
    eligible Mp (.struct c fs ds) = false →
    deserializeWithFlag Mp O opts true (.struct c fs ds) d = deserialize O opts (.struct c fs ds) d

/-! ### counterexamples: the known findings of the trusted path (each checked by the kernel) -/

def exO : Oracles := { reMatch := fun _ _ => true }
def isErr {α} (r : R α) : Bool := match r with | .error _ => true | .ok _ => false
def isOk {α} (r : R α) : Bool := match r with | .error _ => false | .ok _ => true

def mkCls (name : String) (req : List String) (fields : List (String × FieldDecl))
    (defaults : List (String × PyVal) := []) : FieldDecl :=
  .struct { name := name, required := req, accepts := [name] } fields defaults

def foo : FieldDecl := mkCls "Foo" ["a"] [("a", .integer {})]
def str0 : FieldDecl := .string none none none

/-! #### fixed by d9ee4f9 (kept as positive theorems about today's model) -/

/-- fixed `crash:enum-mapping` (d9ee4f9): a class with a non-optional `AnyOf` field no longer makes
    `_get_enum_mapping` raise; it is `not_nested`, inside the proved region, and both paths agree -/
def cxCrash : FieldDecl := mkCls "A" ["m"] [("m", .anyOf [.integer {}, str0])]
theorem fixed_crash_enum_mapping :
    wfDecl cxCrash = true ∧ verdictOf noMappers cxCrash = .lvl .flat ∧ tsafeCls cxCrash = true
    ∧ plainDoc {} cxCrash (.dict [(.str "m", .int 1)]) = true
    ∧ (match deserialize exO {} cxCrash (.dict [(.str "m", .int 1)]),
             deserializeTrusted noMappers exO {} cxCrash (.dict [(.str "m", .int 1)]) with
        | .ok x, .ok y => eqv x y
        | _, _ => false) = true := by
  decide

/-- fixed `optional-unchecked:non-none-option` (d9ee4f9): `Optional[Map[String, Foo]]` is classified
    through its non-None option and is no longer eligible: the flag changes nothing -/
def cxOptMap : FieldDecl := mkCls "A" ["m"] [("m", .anyOf [.mapOf str0 foo {}, .noneF])]
def cxOptMapDoc : PyVal := .dict [(.str "m", .dict [(.str "k", .dict [(.str "a", .int 1)])])]
theorem fixed_optional_unchecked :
    eligible noMappers cxOptMap = false ∧ verdictOf noMappers cxOptMap = .no
    ∧ (match deserialize exO {} cxOptMap cxOptMapDoc, deserializeWithFlag noMappers exO {} true cxOptMap cxOptMapDoc with
        | .ok x, .ok y => eqv x y && PyVal.pyEq x y
        | _, _ => false) = true := by
  decide

/-- fixed `optional-unchecked:none-first` (d9ee4f9): `AnyOf[NoneField, Foo]` is read through `Foo` -/
def cxNoneFirst : FieldDecl := mkCls "A" ["m"] [("m", .anyOf [.noneF, foo])]
theorem fixed_optional_none_first :
    eligible noMappers cxNoneFirst = true ∧ tsafeCls cxNoneFirst = true
    ∧ (match deserialize exO {} cxNoneFirst (.dict [(.str "m", .dict [(.str "a", .int 1)])]),
             deserializeTrusted noMappers exO {} cxNoneFirst (.dict [(.str "m", .dict [(.str "a", .int 1)])]) with
        | .ok x, .ok y => eqv x y
        | _, _ => false) = true := by
  decide

/-- fixed `unnormalised:array-of-enum` (d9ee4f9): `Array[Enum[Color]]` makes the class `nested` and
    is mapped element by element -/
def cxArrEnum : FieldDecl := mkCls "A" ["m"] [("m", .seqOf .list (.enumCls "Color" ["RED", "BLUE"]) {})]
theorem fixed_array_of_enum :
    verdictOf noMappers cxArrEnum = .lvl .nested ∧ tsafeCls cxArrEnum = true
    ∧ (match deserialize exO {} cxArrEnum (.dict [(.str "m", .list [.str "RED"])]),
             deserializeTrusted noMappers exO {} cxArrEnum (.dict [(.str "m", .list [.str "RED"])]) with
        | .ok x, .ok y => eqv x y
        | _, _ => false) = true := by
  decide

/-- fixed `dropped:set-items` (d9ee4f9): `Set[Number]` keeps its items -/
def cxSetNumber : FieldDecl := mkCls "A" ["m"] [("m", .setOf false (.number {}) {})]
theorem fixed_set_items_dropped :
    eligible noMappers cxSetNumber = true ∧ tsafeCls cxSetNumber = true
    ∧ (match deserialize exO {} cxSetNumber (.dict [(.str "m", .list [.int 1, .int 1, .float ⟨5, 2⟩])]),
             deserializeTrusted noMappers exO {} cxSetNumber (.dict [(.str "m", .list [.int 1, .int 1, .float ⟨5, 2⟩])]) with
        | .ok x, .ok (.inst "A" [("m", .set _ ys)]) => eqv x (.inst "A" [("m", .set false ys)]) && ys.length == 2
        | _, _ => false) = true := by
  decide

/-- finding `unnormalised:anyof-enum`: a non-optional `AnyOf` is kept raw, so an Enum-class option
    given a member name stays a string where the regular path stores the member -/
def cxAnyEnum : FieldDecl := mkCls "A" ["m"] [("m", .anyOf [.enumCls "Color" ["RED", "BLUE"], .integer {}])]
theorem counterexample_anyof_enum :
    eligible noMappers cxAnyEnum = true
    ∧ (match deserialize exO {} cxAnyEnum (.dict [(.str "m", .str "RED")]),
             deserializeTrusted noMappers exO {} cxAnyEnum (.dict [(.str "m", .str "RED")]) with
        | .ok x, .ok y => !eqv x y
        | _, _ => false) = true := by
  decide

/-- finding `unnormalised:optional-immutable-set`: the trusted instance of `Optional[ImmutableSet[X]]`
    holds a plain set, which the ImmutableSet option no longer validates: it cannot be serialized -/
def cxOptImmSet : FieldDecl := mkCls "A" ["m"] [("m", .anyOf [.setOf true (.integer {}) {}, .noneF])]
theorem counterexample_optional_immutable_set :
    eligible noMappers cxOptImmSet = true
    ∧ (match deserialize exO {} cxOptImmSet (.dict [(.str "m", .list [.int 1])]),
             deserializeTrusted noMappers exO {} cxOptImmSet (.dict [(.str "m", .list [.int 1])]) with
        | .ok x, .ok y => eqv x y && isOk (serialize exO cxOptImmSet x) && isErr (serialize exO cxOptImmSet y)
        | _, _ => false) = true := by
  decide

/-- `Optional[Set[X]]` with a mutable Set is inside the proved region (both option orders): the plain
    set the trusted instance holds is what the Set option validates and serializes -/
def cxOptSet : FieldDecl :=
  mkCls "A" ["m"] [("m", .anyOf [.setOf false (.integer {}) {}, .noneF]), ("n", .anyOf [.noneF, .setOf false (.enumCls "Color" ["RED", "BLUE"]) {}])]
theorem trusted_optional_set_example :
    eligible noMappers cxOptSet = true ∧ tsafeCls cxOptSet = true
    ∧ plainDoc {} cxOptSet (.dict [(.str "m", .list [.int 1, .int 1, .int 2]), (.str "n", .list [.str "RED"])]) = true
    ∧ (match deserialize exO {} cxOptSet (.dict [(.str "m", .list [.int 1, .int 1, .int 2]), (.str "n", .list [.str "RED"])]),
             deserializeTrusted noMappers exO {} cxOptSet (.dict [(.str "m", .list [.int 1, .int 1, .int 2]), (.str "n", .list [.str "RED"])]) with
        | .ok x, .ok y => eqv x y && isOk (serialize exO cxOptSet y)
        | _, _ => false) = true := by
  decide

/-- finding `unnormalised:boolean-string`: the regular path turns 'True' into `True` -/
def cxBool : FieldDecl := mkCls "A" ["m"] [("m", .boolean)]
theorem counterexample_boolean_string :
    eligible noMappers cxBool = true
    ∧ (match deserialize exO {} cxBool (.dict [(.str "m", .str "True")]),
             deserializeTrusted noMappers exO {} cxBool (.dict [(.str "m", .str "True")]) with
        | .ok x, .ok y => !eqv x y
        | _, _ => false) = true := by
  decide

/-- finding `dropped:undeclared-keys`: with keep_undefined and additional properties the regular
    path keeps an undeclared key as an attribute, `from_trusted_data` only copies declared fields -/
def cxExtras : FieldDecl := mkCls "A" ["m"] [("m", .integer {})]
theorem counterexample_undeclared_keys :
    eligible noMappers cxExtras = true
    ∧ (match deserialize exO { keepUndefined := true } cxExtras (.dict [(.str "m", .int 1), (.str "zz", .int 3)]),
             deserializeTrusted noMappers exO { keepUndefined := true } cxExtras
               (.dict [(.str "m", .int 1), (.str "zz", .int 3)]) with
        | .ok x, .ok y => !eqv x y
        | _, _ => false) = true := by
  decide

/-- observation that tells two serialized documents apart: the value under key `k` -/
def docHas (k : String) (p : PyVal → Bool) (r : R PyVal) : Bool :=
  match r with
  | .ok (.dict kvs) => kvs.any fun kv => (match kv.1 with | .str s => s == k | _ => false) && p kv.2
  | _ => false

/-- finding `defaults-not-applied`: the trusted instance lacks the default the constructor stores;
    the instances are `==` (reads fall back to the default) but serialize differently -/
def cxDefault : FieldDecl := mkCls "A" [] [("m", .integer {}), ("n", .integer {})] [("m", .int 5)]
theorem counterexample_defaults :
    eligible noMappers cxDefault = true
    ∧ ∀ x y, deserialize exO {} cxDefault (.dict [(.str "n", .int 1)]) = .ok x →
        deserializeTrusted noMappers exO {} cxDefault (.dict [(.str "n", .int 1)]) = .ok y →
        serialize exO cxDefault y ≠ serialize exO cxDefault x := by
  refine ⟨by decide, fun x y hx hy h => ?_⟩
  have e1 : docHas "m" (fun _ => true) (bindE (deserialize exO {} cxDefault (.dict [(.str "n", .int 1)])) (serialize exO cxDefault)) = true := by decide
  have e2 : docHas "m" (fun _ => true) (bindE (deserializeTrusted noMappers exO {} cxDefault (.dict [(.str "n", .int 1)])) (serialize exO cxDefault)) = false := by decide
  rw [hx] at e1; rw [hy] at e2
  simp only [bindE_ok] at e1 e2
  rw [h, e1] at e2
  cases e2

/-- finding `unnormalised:float-int`: a Float field given `1` holds `1.0` on the regular path and `1`
    on the trusted path: `==` holds, the serialized JSON numbers differ (1.0 vs 1) -/
def cxFloat : FieldDecl := mkCls "A" ["m"] [("m", .float {})]
def isIntDoc : PyVal → Bool | .int _ => true | _ => false
theorem counterexample_float_int :
    eligible noMappers cxFloat = true
    ∧ (match deserialize exO {} cxFloat (.dict [(.str "m", .int 1)]),
             deserializeTrusted noMappers exO {} cxFloat (.dict [(.str "m", .int 1)]) with
        | .ok x, .ok y => eqv x y
        | _, _ => false) = true
    ∧ ∀ x y, deserialize exO {} cxFloat (.dict [(.str "m", .int 1)]) = .ok x →
        deserializeTrusted noMappers exO {} cxFloat (.dict [(.str "m", .int 1)]) = .ok y →
        serialize exO cxFloat y ≠ serialize exO cxFloat x := by
  refine ⟨by decide, by decide, fun x y hx hy h => ?_⟩
  have e1 : docHas "m" isIntDoc (bindE (deserialize exO {} cxFloat (.dict [(.str "m", .int 1)])) (serialize exO cxFloat)) = false := by decide
  have e2 : docHas "m" isIntDoc (bindE (deserializeTrusted noMappers exO {} cxFloat (.dict [(.str "m", .int 1)])) (serialize exO cxFloat)) = true := by decide
  rw [hx] at e1; rw [hy] at e2
  simp only [bindE_ok] at e1 e2
  rw [h, e1] at e2
  cases e2

/-- fixed `none-attribute-hash:set-of-structures` (c4803f1: equal structures have equal hashes): the
    trusted instances that keep a null as an attribute holding None are `==` to the ones without it
    AND hash alike, so `Set[Foo]` collapses them on the trusted path as on the regular path -/
def fooOpt : FieldDecl := mkCls "Foo" [] [("a", .integer {}), ("b", .integer {})]
def cxSetStruct : FieldDecl := mkCls "A" ["m"] [("m", .setOf false fooOpt {})]
def cxSetStructDoc : PyVal :=
  .dict [(.str "m", .list [.dict [(.str "a", .int 1)], .dict [(.str "a", .int 1), (.str "b", .none)]])]
theorem fixed_set_of_structures :
    eligible noMappers cxSetStruct = true
    ∧ (match deserialize exO {} cxSetStruct cxSetStructDoc,
             deserializeTrusted noMappers exO {} cxSetStruct cxSetStructDoc with
        | .ok (.inst cx [(nx, .set fx xs)]), .ok (.inst cy [(ny, .set fy ys)]) =>
            xs.length == 1 && ys.length == 1 && eqv (.inst cx [(nx, .set fx xs)]) (.inst cy [(ny, .set fy ys)])
        | _, _ => false) = true := by
  decide

/-- the statement at full strength is false of the model (hence, by correspondence, of the code) -/
theorem trusted_statement_false : ¬ trusted_statement := by
  intro h
  have hc := counterexample_boolean_string.2
  cases hx : deserialize exO {} cxBool (.dict [(.str "m", .str "True")]) with
  | error e => rw [hx] at hc; cases hc
  | ok x =>
    rcases h exO {} cxBool (.dict [(.str "m", .str "True")]) x (by decide) (by decide) (by decide) hx with ⟨y, hy, he, _⟩
    rw [hx, hy] at hc
    simp only [he, Bool.not_true] at hc
    cases hc

/-- finding `ineligible-raises:unsupported-mapper`: a class whose mapper `_is_mapper_simple`
    refuses is not eligible, yet the flag is not a no-op: the classifier raises ValueError -/
def cxComplexEnv : MapEnv := fun n => if n == "A" then .complex false else .none
theorem counterexample_ineligible_raises :
    eligible cxComplexEnv cxExtras = false
    ∧ isOk (deserialize exO {} cxExtras (.dict [(.str "m", .int 1)])) = true
    ∧ isErr (deserializeWithFlag cxComplexEnv exO {} true cxExtras (.dict [(.str "m", .int 1)])) = true := by
  decide

theorem ineligible_statement_false : ¬ ineligible_statement := by
  intro h
  rcases counterexample_ineligible_raises with ⟨h1, h2, h3⟩
  have := h cxComplexEnv exO {} { name := "A", required := ["m"], accepts := ["A"] }
    [("m", .integer {})] [] (.dict [(.str "m", .int 1)]) h1
  unfold cxExtras mkCls at h2 h3
  rw [this] at h3
  cases hd : deserialize exO {} (.struct { name := "A", required := ["m"], accepts := ["A"] }
      [("m", .integer {})] []) (.dict [(.str "m", .int 1)]) with
  | ok x => rw [hd] at h3; cases h3
  | error e => rw [hd] at h2; cases h2

/-! ### non-vacuity of `trusted_equiv_partial` -/

def exInner : FieldDecl :=
  .struct { name := "Inner", required := ["id"], accepts := ["Inner"], ignoreNone := true, addl := false }
    [("id", .integer { min := some ⟨0, 1⟩ }), ("tags", .setOf true (.string (some 1) none none) {}),
     ("note", .anyOf [.string none none none, .noneF])] []
def exOuter : FieldDecl :=
  .struct { name := "Outer", required := ["kind", "items"], accepts := ["Outer"] }
    [("kind", .enumCls "Color" ["RED", "BLUE"]), ("items", .seqOf .list exInner { max := some 3 }),
     ("best", .anyOf [exInner, .noneF]), ("ratio", .anyOf [.noneF, .float {}]), ("flags", .seqOf .list .boolean {}), ("count", .integer {}),
     ("colors", .seqOf .list (.enumCls "Color" ["RED", "BLUE"]) {}), ("either", .anyOf [.integer {}, .string none none none]),
     ("nums", .setOf false (.number {}) {})] []
def exDoc : PyVal :=
  .dict [(.str "kind", .str "BLUE"),
         (.str "items", .list [.dict [(.str "id", .int 1), (.str "tags", .list [.str "a", .str "b", .str "a"]), (.str "note", .none)],
                               .dict [(.str "id", .int 2)]]),
         (.str "best", .dict [(.str "id", .int 7), (.str "note", .str "x")]),
         (.str "ratio", .float ⟨1, 2⟩), (.str "flags", .list [.bool true]), (.str "count", .none), (.str "unused", .none),
         (.str "colors", .list [.str "RED", .str "BLUE"]), (.str "either", .str "x"),
         (.str "nums", .list [.int 1, .float ⟨1, 2⟩, .int 1])]

/-- a nested class tree with Enum, Array of classes, Optional class, Set, `_ignore_none`, nulls and
    an undeclared key (keep_undefined off) meets every hypothesis of `trusted_equiv_partial`, and the trusted instance
    really differs syntactically from the regular one (attributes holding None, set vs frozenset) -/
theorem trusted_equiv_example :
    eligible noMappers exOuter = true ∧ tsafeCls exOuter = true
    ∧ plainDoc { keepUndefined := false } exOuter exDoc = true
    ∧ isOk (deserialize exO { keepUndefined := false } exOuter exDoc) = true
    ∧ (match deserialize exO { keepUndefined := false } exOuter exDoc,
             deserializeTrusted noMappers exO { keepUndefined := false } exOuter exDoc with
        | .ok (.inst cx ax), .ok (.inst cy ay) => eqv (.inst cx ax) (.inst cy ay) && ax.length != ay.length
        | _, _ => false) = true := by
  decide

/-- a `not_nested` class (scalars and an Array of scalars) -/
def exFlat : FieldDecl :=
  .struct { name := "Flat", required := ["a"], accepts := ["Flat"] }
    [("a", .integer {}), ("b", .seqOf .list (.string none none none) {}), ("c", .float {})] []
theorem trusted_equiv_flat_example :
    verdictOf noMappers exFlat = .lvl .flat ∧ tsafeCls exFlat = true
    ∧ plainDoc {} exFlat (.dict [(.str "a", .int 1), (.str "b", .list [.str "x"]), (.str "c", .none)]) = true
    ∧ isOk (deserialize exO {} exFlat (.dict [(.str "a", .int 1), (.str "b", .list [.str "x"]), (.str "c", .none)])) = true := by
  decide

/-! ## 2. trusted construction: `from_trusted_data`, `trust_supplied_values` -/

def from_trusted_statement : Prop :=
  ∀ (O : Oracles) (cls : FieldDecl) (kw : List (String × PyVal)) (x : PyVal),
    construct O cls kw = .ok x → ∃ y, fromTrustedKw cls kw = .ok y ∧ eqv x y = true

/-- **C10 (trusted construction), proved part**: on constructor-valid keyword arguments that are
    already in stored form (`storedKw`: the explicit normalisation side condition — no Float ← int,
    Boolean ← 'True'/'False', Enum ← member name, StructureReference ← dict, omitted default,
    undeclared keyword; a Set / Map / positional collection the constructor rebuilds is given as a
    set / frozenset of the field's mutability, a dict with pairwise different string keys, a
    tuple / list of stored-form elements) `from_trusted_data(mapping)` yields an instance equal to
    the validated one -/
theorem from_trusted_equiv_partial (O : Oracles) (cls : FieldDecl) (kw : List (String × PyVal))
    (x : PyVal) (hs : storedKw cls kw = true) (hc : construct O cls kw = .ok x) :
    ∃ y, fromTrustedMap cls kw = .ok y ∧ eqv x y = true := by
  rcases from_trusted_map_core O cls kw x hs hc with ⟨y, h1, h2⟩
  refine ⟨y, h1, ?_⟩
  unfold eqv; rw [h2]; exact pyEq_refl _

/-- `from_trusted_data(None, **kw)` and `cls(**kw)` under `trust_supplied_values()` store every
    keyword as given; listed in field order (the order of `__dict__` is not observable through
    `==`) this is the instance `from_trusted_data(mapping)` builds -/
theorem from_trusted_kw_equiv_partial (O : Oracles) (c : ClassOpts) (fields : List (String × FieldDecl))
    (defaults kw : List (String × PyVal)) (x : PyVal)
    (hs : storedKw (.struct c fields defaults) kw = true)
    (hord : kwInFieldOrder fields kw = kw)
    (hc : construct O (.struct c fields defaults) kw = .ok x) :
    ∃ y, fromTrustedKw (.struct c fields defaults) kw = .ok y ∧ eqv x y = true := by
  rcases from_trusted_equiv_partial O _ kw x hs hc with ⟨y, h1, h2⟩
  refine ⟨y, ?_, h2⟩
  simp only [fromTrustedMap] at h1
  simp only [fromTrustedKw]
  unfold kwInFieldOrder at hord
  rw [hord] at h1
  exact h1

/-- the excluded points, run on the model: an Enum field given a member NAME is constructor-valid,
    the validated instance holds the member, the trusted one the string — not equal (finding
    `unnormalised:enum-name`); a Float given an int is equal (`1 == 1.0`) -/
def cxEnumName : FieldDecl := mkCls "A" ["m"] [("m", .enumCls "Color" ["RED"])]
theorem counterexample_from_trusted_enum_name :
    (match construct exO cxEnumName [("m", .str "RED")], fromTrustedKw cxEnumName [("m", .str "RED")] with
      | .ok x, .ok y => !eqv x y
      | _, _ => false) = true
    ∧ (match construct exO cxFloat [("m", .int 1)], fromTrustedKw cxFloat [("m", .int 1)] with
      | .ok x, .ok y => eqv x y
      | _, _ => false) = true := by
  decide

theorem from_trusted_statement_false : ¬ from_trusted_statement := by
  intro h
  have hc := counterexample_from_trusted_enum_name.1
  cases hx : construct exO cxEnumName [("m", .str "RED")] with
  | error e => rw [hx] at hc; cases hc
  | ok x =>
    rcases h exO cxEnumName [("m", .str "RED")] x hx with ⟨y, hy, he⟩
    rw [hx, hy] at hc
    simp only [he, Bool.not_true] at hc
    cases hc

theorem from_trusted_example :
    storedKw exOuter [("kind", .enumv "Color" "RED"), ("items", .list []), ("flags", .list [.bool false])] = true
    ∧ isOk (construct exO exOuter [("kind", .enumv "Color" "RED"), ("items", .list []), ("flags", .list [.bool false])]) = true := by
  decide

/-- collections the constructor rebuilds, given in stored form, are inside the region: a Set and an
    ImmutableSet, a fixed-length Tuple, a positional Array with a surplus element, a Map -/
def cxRebuilt : FieldDecl :=
  mkCls "A" ["s"] [("s", .setOf false (.integer {}) {}), ("f", .setOf true str0 {}), ("t", .tuplePos [.integer {}, str0] false),
                   ("p", .seqPos .list [.integer {}] true {}), ("m", .mapOf str0 (.float {}) {})]
def cxRebuiltKw : List (String × PyVal) :=
  [("s", .set false [.int 1, .int 2]), ("f", .set true [.str "a"]), ("t", .tuple [.int 1, .str "x"]),
   ("p", .list [.int 1, .str "surplus"]), ("m", .dict [(.str "k", .float ⟨1, 2⟩)])]
theorem from_trusted_rebuilt_example :
    storedKw cxRebuilt cxRebuiltKw = true ∧ isOk (construct exO cxRebuilt cxRebuiltKw) = true
    ∧ storedKw cxRebuilt [("s", .set true [.int 1])] = true               -- a frozenset for a mutable Set: stays frozen
    ∧ storedKw cxRebuilt [("s", .set false [.int 1]), ("f", .set false [.str "a"])] = false   -- a plain set for an ImmutableSet
    ∧ (match construct exO cxRebuilt cxRebuiltKw, fromTrustedMap cxRebuilt cxRebuiltKw with
        | .ok x, .ok y => eqv x y
        | _, _ => false) = true := by
  decide

/-! ## 3. fast serialization -/

/-- the statement at full strength: every class tree (all classes FastSerializable, no mapper) for
    which `create_serializer` succeeds, every well-formed instance, both flags (`JK`: the enum classes
    whose members are int / float / str instances) -/
def fast_statement : Prop :=
  ∀ (O : Oracles) (JK : List String) (cls : FieldDecl) (x : PyVal) (compact : Bool),
    wfDecl cls = true → createOk noMappers [] cls = true → wellFormed O cls x = true →
    fastSerialize noMappers [] JK false compact cls x = serializeCompact O compact cls x

/-- **C10 (fast serialization), proved part**: for every class in the region `fsafeCls` (scalars,
    Enum, Array / Deque / Set / Map / fixed-length Tuple over such fields at any depth, nested
    FastSerializable classes, Optional) and every instance of the stored shape (`fwf`), the
    installed `serialize()` returns the document the regular serialization of the identically
    declared class returns (for the instance with its attributes listed in field order: the
    order of `__dict__` / of the document's keys is not part of the claim). -/
theorem fast_equiv_partial (O : Oracles) (JK : List String) (cls : FieldDecl) (x : PyVal)
    (hs : fsafeCls [] cls = true) (hw : fwf O cls x = true) :
    fastSerialize noMappers [] JK false false cls x = serialize O cls (canonV cls x) :=
  fast_equiv_core O JK cls x hs hw

/-- `compact=True` on both sides, for the classes the regular path compacts (one field, required,
    no additional properties) holding a value -/
theorem fast_equiv_compact_partial (O : Oracles) (JK : List String) (c : ClassOpts) (n : String) (f : FieldDecl)
    (defaults : List (String × PyVal)) (cn : String) (attrs : List (String × PyVal)) (v : PyVal)
    (hs : fsafeCls [] (.struct c [(n, f)] defaults) = true)
    (hw : fwf O (.struct c [(n, f)] defaults) (.inst cn attrs) = true)
    (hreq : c.required = [n]) (haddl : c.addl = false)
    (hv : lookup n attrs = some v) (hvn : v.isNone = false) :
    fastSerialize noMappers [] JK false true (.struct c [(n, f)] defaults) (.inst cn attrs)
      = serializeCompact O true (.struct c [(n, f)] defaults)
          (canonV (.struct c [(n, f)] defaults) (.inst cn attrs)) :=
  fast_compact_core O JK c n f defaults cn attrs v hs hw hreq haddl hv hvn

/-- `serialize_none=True` only adds explicit nulls: removing them gives the `serialize_none=False`
    document (for every class, instance and set of non-fast classes; no region needed) -/
theorem fast_serialize_none (NF JK : List String) (cls : FieldDecl) (x : PyVal) :
    fastSerialize noMappers NF JK false false cls x
      = bindE (fastSerialize noMappers NF JK true false cls x) fun d =>
          match d with
          | .dict r => .ok (.dict (r.filter fun kv => !kv.2.isNone))
          | w => .ok w :=
  fast_serialize_none_core NF JK cls x

/-! ### counterexamples: the known findings of fast serialization -/

/-- fixed `fast:tuple-index` (00ca995): `Tuple[Integer]` of two elements serializes element-wise, and
    the class is inside the proved region -/
def cxTuple : FieldDecl := mkCls "A" ["t"] [("t", .tupleOf (.integer {}) false)]
theorem fixed_fast_tuple_index :
    createOk noMappers [] cxTuple = true ∧ fsafeCls [] cxTuple = true
    ∧ fwf exO cxTuple (.inst "A" [("t", .tuple [.int 1, .int 2])]) = true
    ∧ (match serialize exO cxTuple (.inst "A" [("t", .tuple [.int 1, .int 2])]),
             fastSerialize noMappers [] [] false false cxTuple (.inst "A" [("t", .tuple [.int 1, .int 2])]) with
        | .ok (.dict [(_, .list [.int 1, .int 2])]), .ok (.dict [(_, .list [.int 1, .int 2])]) => true
        | _, _ => false) = true := by
  decide

/-- fixed `fast:positional-index` (00ca995): a positional Array passes its surplus elements through -/
def cxPos : FieldDecl := mkCls "A" ["t"] [("t", .seqPos .list [.integer {}] true {})]
theorem fixed_fast_positional_index :
    createOk noMappers [] cxPos = true
    ∧ (match serialize exO cxPos (.inst "A" [("t", .list [.int 1, .str "x"])]),
             fastSerialize noMappers [] [] false false cxPos (.inst "A" [("t", .list [.int 1, .str "x"])]) with
        | .ok (.dict [(_, .list [.int 1, .str "x"])]), .ok (.dict [(_, .list [.int 1, .str "x"])]) => true
        | _, _ => false) = true := by
  decide

/-- fixed `fast:positional-index:deque`: a positional Deque passes its surplus elements through, like
    the positional Array -/
def cxPosDeque : FieldDecl := mkCls "A" ["t"] [("t", .seqPos .deque [.integer {}] true {})]
theorem fixed_fast_positional_index_deque :
    createOk noMappers [] cxPosDeque = true
    ∧ wellFormed exO cxPosDeque (.inst "A" [("t", .deque [.int 1, .str "x"])]) = true
    ∧ (match serialize exO cxPosDeque (.inst "A" [("t", .deque [.int 1, .str "x"])]),
             fastSerialize noMappers [] [] false false cxPosDeque (.inst "A" [("t", .deque [.int 1, .str "x"])]) with
        | .ok (.dict [(_, .list [.int 1, .str "x"])]), .ok (.dict [(_, .list [.int 1, .str "x"])]) => true
        | _, _ => false) = true := by
  decide

/-- finding `fast:compact-conditions`: `set_compact_wrapper` compacts every one-field class; the
    regular path only one whose field is required and that forbids additional properties -/
def cxCompact : FieldDecl := mkCls "A" ["a"] [("a", .integer {})]
def isDictDoc : R PyVal → Bool | .ok (.dict _) => true | _ => false
theorem counterexample_fast_compact_conditions :
    createOk noMappers [] cxCompact = true
    ∧ isDictDoc (serializeCompact exO true cxCompact (.inst "A" [("a", .int 1)])) = true
    ∧ isDictDoc (fastSerialize noMappers [] [] false true cxCompact (.inst "A" [("a", .int 1)])) = false := by
  decide

/-- finding `fast:inline-none-keys`: `StructureReference.serialize` emits every field, unset ones
    as null; the regular path drops them -/
def cxInline : FieldDecl :=
  mkCls "A" ["s"] [("s", .struct { name := "Inl", required := ["x"], inline := true }
                          [("x", .integer {}), ("y", str0)] [])]
def cxInlineX : PyVal := .inst "A" [("s", .inst "Inl" [("x", .int 1)])]
def sizeAt (k : String) (r : R PyVal) : Nat :=
  match r with
  | .ok (.dict kvs) => (kvs.filterMap fun kv => match kv.1, kv.2 with
      | .str s, .dict inner => if s == k then some inner.length else none
      | _, _ => none).foldl (· + ·) 0
  | _ => 0
theorem counterexample_fast_inline_none_keys :
    createOk noMappers [] cxInline = true
    ∧ sizeAt "s" (serialize exO cxInline cxInlineX) = 1
    ∧ sizeAt "s" (fastSerialize noMappers [] [] false false cxInline cxInlineX) = 2 := by
  decide

/-- finding `fast:untyped-raw`: the elements of an untyped Array / Deque / Map are copied, not
    serialized: a tuple inside stays a tuple where the regular path emits a JSON array -/
def cxUntyped : FieldDecl := mkCls "A" ["q"] [("q", .seqAny .list {})]
def fieldHoldsTuple (r : R PyVal) : Bool :=
  match r with
  | .ok (.dict [(_, .list [.tuple _])]) => true
  | _ => false
theorem counterexample_fast_untyped_raw :
    createOk noMappers [] cxUntyped = true
    ∧ fieldHoldsTuple (serialize exO cxUntyped (.inst "A" [("q", .list [.tuple [.int 2, .int 3]])])) = false
    ∧ fieldHoldsTuple (fastSerialize noMappers [] [] false false cxUntyped
        (.inst "A" [("q", .list [.tuple [.int 2, .int 3]])])) = true := by
  decide

/-- finding `fast:extras-dropped` (documented limitation): an attribute that is not a declared
    field is serialized by the regular path only -/
theorem counterexample_fast_extras :
    createOk noMappers [] cxCompact = true
    ∧ wellFormed exO cxCompact (.inst "A" [("a", .int 1), ("zz", .int 2)]) = true
    ∧ docHas "zz" (fun _ => true) (serialize exO cxCompact (.inst "A" [("a", .int 1), ("zz", .int 2)])) = true
    ∧ docHas "zz" (fun _ => true)
        (fastSerialize noMappers [] [] false false cxCompact (.inst "A" [("a", .int 1), ("zz", .int 2)])) = false := by
  decide

theorem fast_statement_false : ¬ fast_statement := by
  intro h
  rcases counterexample_fast_extras with ⟨h1, h2, h3, h4⟩
  have := h exO [] cxCompact (.inst "A" [("a", .int 1), ("zz", .int 2)]) false (by decide) h1 h2
  simp only [serializeCompact, cxCompact, mkCls, Bool.false_and, Bool.false_eq_true, if_false] at this
  simp only [cxCompact, mkCls] at h3 h4
  rw [this, h3] at h4
  cases h4

/-! ### non-vacuity of `fast_equiv_partial` -/

def exFastInner : FieldDecl :=
  .struct { name := "Inner", required := ["id"], accepts := ["Inner"] }
    [("id", .integer {}), ("tags", .setOf false (.enumCls "Color" ["RED", "BLUE"]) {}),
     ("note", .anyOf [.string none none none, .noneF])] []
def exFastOuter : FieldDecl :=
  .struct { name := "Outer", required := ["items"], accepts := ["Outer"] }
    [("items", .seqOf .list exFastInner {}), ("m", .mapOf (.string none none none) (.float {}) {}),
     ("pair", .tuplePos [.integer {}, .boolean] false), ("names", .tupleOf (.string none none none) false),
     ("best", .anyOf [.noneF, exFastInner]),
     ("q", .seqOf .deque (.number {}) {})] []
def exFastX : PyVal :=
  .inst "Outer" [("best", .inst "Inner" [("note", .str "n"), ("id", .int 7)]),
                 ("items", .list [.inst "Inner" [("id", .int 1), ("tags", .set false [.enumv "Color" "RED"])]]),
                 ("m", .dict [(.str "k", .float ⟨1, 2⟩)]), ("pair", .tuple [.int 1, .bool true]), ("names", .tuple [.str "a", .str "b", .str "c"]),
                 ("q", .deque [.int 1, .float ⟨3, 2⟩])]

/-- a class tree with nested classes, Array / Set / Map / Tuple / Deque, Enum and both Optional
    shapes, with attributes NOT in field order, meets the hypotheses; the fast document is a
    six-key JSON object -/
theorem fast_equiv_example :
    fsafeCls [] exFastOuter = true ∧ fwf exO exFastOuter exFastX = true
    ∧ createOk noMappers [] exFastOuter = true ∧ wellFormed exO exFastOuter exFastX = true
    ∧ (match fastSerialize noMappers [] [] false false exFastOuter exFastX with
        | .ok (.dict r) => r.length == 6 && isJson (.dict r)
        | _ => false) = true := by
  decide

/-! ## 4. which mapper attribute the trusted path reads -/

/-- a declared `_deserialization_mapper` wins over the `_serialization_mapper` (as in the regular
    path): the table of the trusted path is built from it -/
theorem mapper_deser_first (m s : TMapper) (b b' : Option TMapper) :
    ({ ser := some s, deser := some m, baseSer := b, baseDeser := b' } : MapperDecl).resolved = m := rfl

/-- … an empty one included: `{}` declared for reading switches the renaming off -/
theorem mapper_deser_empty_wins (s : TMapper) :
    mapKey ({ ser := some s, deser := some (.rename []) } : MapperDecl).resolved "a_b" = "a_b" := rfl

/-- without a deserialization mapper the serialization mapper is read -/
theorem mapper_ser_fallback (s : TMapper) :
    ({ ser := some s } : MapperDecl).resolved = s := rfl

/-- an inherited mapper is read when the class declares none; the class's own shadows it -/
theorem mapper_inherited (b : TMapper) :
    ({ baseSer := some b } : MapperDecl).resolved = b
    ∧ ∀ s, ({ ser := some s, baseSer := some b } : MapperDecl).resolved = s := ⟨rfl, fun _ => rfl⟩

example : mapKey (mapEnvOf [("A", { ser := some .lower, deser := some (.rename [("a_b", "k")]) })] "A") "a_b" = "k" := by
  decide

/-! ## 5. order of first use: a fresh FastSerializable class whose first instance a trusted path makes -/

/-- **C10 (first use)**: the trusted constructor reaches `FastSerializable.__init__` (which installs
    the class's serializer) once per instance, so `x.serialize()` of a trusted-built instance is the
    document of the installed serializer whether or not the class was instantiated before -/
theorem first_use_partial (Mp : MapEnv) (NF JK : List String) (had : Bool) (cls : FieldDecl) (x : PyVal) :
    fastSerializeFirst Mp NF JK had cls x = fastSerialize Mp NF JK false false cls x := by
  simp [fastSerializeFirst, installedAfterTrustedInit]

theorem first_use_warm (Mp : MapEnv) (NF JK : List String) (cls : FieldDecl) (x : PyVal) :
    fastSerializeFirst Mp NF JK true cls x = fastSerialize Mp NF JK false false cls x :=
  first_use_partial Mp NF JK true cls x

/-- the statement at full strength (history independence for every trusted-built instance) -/
def first_use_statement : Prop :=
  ∀ (Mp : MapEnv) (NF JK : List String) (cls : FieldDecl) (x : PyVal),
    fastSerializeFirst Mp NF JK false cls x = fastSerializeFirst Mp NF JK true cls x

/-- … which holds since the repair of `first-use-order:no-values` -/
theorem first_use_history_independent : first_use_statement := by
  intro Mp NF JK cls x
  rw [first_use_partial, first_use_partial]

/-- fixed `first-use-order:no-values`: an instance made from no values gets the serializer too -/
def cxFirstUse : FieldDecl := mkCls "A" [] [("a", .integer {})]
theorem fixed_first_use_no_values :
    createOk noMappers [] cxFirstUse = true
    ∧ isDictDoc (fastSerializeFirst noMappers [] [] false cxFirstUse (.inst "A" [])) = true
    ∧ isDictDoc (fastSerializeFirst noMappers [] [] true cxFirstUse (.inst "A" [])) = true
    ∧ isDictDoc (serialize exO cxFirstUse (.inst "A" [])) = true := by
  decide

/-- non-vacuity: a trusted-built instance with values on a fresh class serializes as on a warm one -/
theorem first_use_example :
    (attrsOf (.inst "A" [("a", .int 1)])).isEmpty = false
    ∧ isDictDoc (fastSerializeFirst noMappers [] [] false cxFirstUse (.inst "A" [("a", .int 1)])) = true := by
  decide

/-! ## 6. key-renaming mappers: trusted ≡ regular with one simple mapper per class -/

/-- **the trusted path with mappers factors through the key translation**: with one simple mapper
    per class (`simpleEnv`: NO_MAPPER / TO_CAMELCASE / TO_LOWERCASE / a flat rename dict, resolved
    per class by `MapperDecl.resolved`), for every eligible class of the region `tsafeCls` at any
    nesting depth and EVERY document, `direct_trusted_mapping=True` returns what the mapper-free
    trusted path returns for the document with every class-level object's keys translated back to
    field names by its class's own mapper (`untrV`) -/
theorem trusted_mapper_factor (Mp : MapEnv) (hM : simpleEnv Mp) (O : Oracles) (opts : DeserOpts)
    (cls : FieldDecl) (d : PyVal) (he : eligible Mp cls = true) (hs : tsafeCls cls = true) :
    deserializeTrusted Mp O opts cls d = deserializeTrusted noMappers O opts cls (untrV Mp cls d) :=
  c10_trusted_factor Mp hM O opts cls d he hs

/-- simple mappers do not change the classifier's verdict -/
theorem mapper_verdict_invariant (Mp : MapEnv) (hM : simpleEnv Mp) (cls : FieldDecl) :
    verdictOf Mp cls = verdictOf noMappers cls := c10_verdict_simple Mp hM cls

/-- **C10 (trusted deserialization WITH mappers), proved part**: for every eligible class tree of
    the region `tsafeCls` whose classes each have a simple mapper, and every document that the
    regular path with those mappers (`deserializeMapped`: every class-level object read through its
    class's own mapper) accepts and whose translation lies in `plainDoc`: the trusted path
    succeeds, the instances are `==` and serialize to the same document.  (The regular path with
    mappers outside `deserializeMapped` — an enclosing class's TO_CAMELCASE / TO_LOWERCASE reaching
    nested classes, chained parent mappers, field-name fallback — is the known-finding region
    `mapper:cascade` / `mapper:base-chain` / `mapper:fallback`.) -/
theorem trusted_mapper_equiv_partial (Mp : MapEnv) (hM : simpleEnv Mp) (O : Oracles) (opts : DeserOpts)
    (cls : FieldDecl) (d x : PyVal)
    (he : eligible Mp cls = true) (hs : tsafeCls cls = true)
    (hp : plainDoc opts cls (untrV Mp cls d) = true)
    (hr : deserializeMapped Mp O opts cls d = .ok x) :
    ∃ y, deserializeTrusted Mp O opts cls d = .ok y ∧ eqv x y = true
      ∧ serialize O cls y = serialize O cls x := by
  rw [trusted_mapper_factor Mp hM O opts cls d he hs]
  rw [c10_eligible_simple Mp hM] at he
  exact trusted_equiv_partial O opts cls (untrV Mp cls d) x he hs hp hr

/-- non-vacuity: a rename mapper on the outer class, TO_CAMELCASE on the nested one, a document
    spelled with each class's own keys -/
def exMapInner : FieldDecl := mkCls "In" ["first_name"] [("first_name", str0), ("age", .integer {})]
def exMapOuter : FieldDecl :=
  mkCls "Out" ["who"] [("who", exMapInner), ("all_of", .seqOf .list exMapInner {}), ("n", .anyOf [.integer {}, .noneF])]
def exMapEnv : MapEnv := fun n =>
  if n == "Out" then .rename [("who", "person"), ("all_of", "everyone")] else if n == "In" then .camel else .none
def exMapDoc : PyVal :=
  .dict [(.str "person", .dict [(.str "firstName", .str "a"), (.str "age", .int 3)]),
         (.str "everyone", .list [.dict [(.str "firstName", .str "b")]]), (.str "n", .none)]
theorem trusted_mapper_example :
    eligible exMapEnv exMapOuter = true ∧ tsafeCls exMapOuter = true
    ∧ plainDoc {} exMapOuter (untrV exMapEnv exMapOuter exMapDoc) = true
    ∧ isOk (deserializeMapped exMapEnv exO {} exMapOuter exMapDoc) = true
    ∧ isErr (deserialize exO {} exMapOuter exMapDoc) = true
    ∧ (match deserializeMapped exMapEnv exO {} exMapOuter exMapDoc,
             deserializeTrusted exMapEnv exO {} exMapOuter exMapDoc with
        | .ok x, .ok y => eqv x y
        | _, _ => false) = true := by
  decide

theorem exMapEnv_simple : simpleEnv exMapEnv := by
  intro n
  simp only [exMapEnv]
  split
  · rfl
  · split <;> rfl

/-! ### the key table of the trusted path is the one C07's model of the regular path resolves -/

/-- a simple mapper of this model as the mapper list of `Sem/Mappers.lean` (C07) -/
def toMappers : TMapper → List Mappers.Mapper
  | .none => []
  | .camel => [.camel]
  | .lower => [.lower]
  | .rename d => [.dict (d.map fun p => (Mappers.MKey.fld p.1, Mappers.MV.key p.2))]
  | .complex _ => []

theorem c10_lookupR_rename (f : String) : ∀ d : List (String × String),
    Mappers.lookupR (Mappers.MKey.fld f) (d.map fun p => (Mappers.MKey.fld p.1, Mappers.MV.key p.2))
      = (lookupLast f d).map Mappers.MV.key
  | [] => rfl
  | (k, v) :: r => by
    simp only [List.map_cons, Mappers.lookupR, lookupLast, c10_lookupR_rename f r]
    cases lookupLast f r with
    | some x => rfl
    | none =>
      simp only [Option.map_none]
      by_cases h : k = f
      · subst h; simp
      · have h' : (f == k) = false := by simp [Ne.symm h]
        simp [h, h']

/-- the key of field `f` under C07's pointwise specification `keyOf` of the aggregated mapper is
    `mapKey m f`, the key the trusted path (and the fast serializer) uses -/
theorem mapKey_is_keyOf (m : TMapper) (f : String) :
    Mappers.keyOf Mappers.asciiFns (toMappers m) f = .key (mapKey m f) := by
  cases m with
  | none => rfl
  | camel => rfl
  | lower => rfl
  | complex l => rfl
  | rename d =>
    simp only [toMappers, Mappers.keyOf, List.foldl_cons, List.foldl_nil, Mappers.stepKey, Mappers.mapsTo,
      Mappers.applyKey, c10_lookupR_rename, mapKey]
    cases lookupLast f d with
    | none => simp
    | some t =>
      simp only [Option.map_some, Option.getD_some]
      split <;> rename_i h
      · have : f = t := by simpa using h
        rw [this]
      · rfl

/-- **composition with C07's model of the regular path**: in the mapper `aggregate_serialization_mappers`
    (`forSer = true`) / `aggregate_deserialization_mappers` (`forSer = false`) resolve for a class
    whose only mapper is the simple mapper `m`, every field `f` of the class is keyed by
    `mapKey m f` — the entry `get_flat_resolved_mapper` gives the trusted path and
    `create_serializer` gives the fast path -/
theorem trusted_key_is_regular_key (m : TMapper) (forSer : Bool) (fs : List Mappers.Fld) (f : String)
    (hf : fs.any (fun fl => fl.name == f) = true) :
    Mappers.lookupR (.fld f) (Mappers.aggregate Mappers.asciiFns forSer (toMappers m) fs none false)
      = some (.key (mapKey m f)) := by
  have := mapKey_is_keyOf m f
  unfold Mappers.keyOf at this
  unfold Mappers.aggregate
  rw [Mappers.lookupR_foldAdd_fld, Mappers.lookupR_baseFields, hf]
  simp only [if_true, Option.map_some, Mappers.effList, Bool.false_eq_true, if_false, List.append_nil]
  rw [this]

/-- a mapper declared only by a parent class is collected twice by the regular path
    (`_get_all_values_of_attribute` sees the inherited attribute again): for a rename dict the second
    application changes nothing, so the regular path reads the keys of `MapperDecl.resolved` -/
theorem mapper_inherited_twice_rename (d : List (String × String)) (f : String) :
    Mappers.keyOf Mappers.asciiFns
        (Mappers.collect none [some (.single (.dict (d.map fun p => (Mappers.MKey.fld p.1, Mappers.MV.key p.2)))), none]) f
      = .key (mapKey ({ baseSer := some (.rename d) } : MapperDecl).resolved f) := by
  have h1 := mapKey_is_keyOf (.rename d) f
  simp only [toMappers, Mappers.keyOf, List.foldl_cons, List.foldl_nil] at h1
  simp only [Mappers.collect, Mappers.ClassAttr.toList, List.append_nil, List.cons_append, List.nil_append,
    Mappers.keyOf, List.foldl_cons, List.foldl_nil, h1]
  show Mappers.stepKey _ _ f (.key (mapKey (.rename d) f)) = _
  simp only [Mappers.stepKey, Mappers.mapsTo, c10_lookupR_rename, mapKey]
  cases h : lookupLast f d with
  | none => simp [Mappers.applyKey, c10_lookupR_rename, MapperDecl.resolved, mapKey, h]
  | some t => simp [MapperDecl.resolved, mapKey, h]

/-! ## 7. key-renaming mappers: fast ≡ regular -/

/-- **a class's mapper renames that class's own keys only** (at every class level of a tree, for
    every class, instance and flag): the entries the installed serializer builds with mapper `m` are
    the entries it builds without a mapper, with the keys renamed by `m` — nothing reaches the nested
    classes (the regular path lets TO_CAMELCASE / TO_LOWERCASE reach them: finding `fast:mapper-cascade`) -/
theorem fast_mapper_own_keys (Mp : MapEnv) (NF JK : List String) (sn : Bool) (m : TMapper)
    (ds attrs : List (String × PyVal)) (fields : List (String × FieldDecl)) :
    fFields Mp NF JK sn m ds attrs fields
      = bindE (fFields Mp NF JK sn .none ds attrs fields) fun r => .ok (relabelPairs m r) :=
  c10_fFields_relabel Mp NF JK sn m ds attrs fields

/-- a mapper that is injective on the class's fields loses no getter (`processed_mapper[mapped_key] =
    getter` never overwrites): the document has one entry per non-None field -/
theorem fast_mapper_injective_keeps_all (Mp : MapEnv) (NF JK : List String) (sn : Bool) (m : TMapper)
    (ds attrs : List (String × PyVal)) (fields : List (String × FieldDecl)) (r : List (PyVal × PyVal))
    (hn : strNodup (fields.map fun p => mapKey m p.1) = true)
    (h : fFields Mp NF JK sn m ds attrs fields = .ok r) : keyDedupe m r = r :=
  c10_keyDedupe_id Mp NF JK sn m ds attrs fields r hn h

/-- **C10 (fast serialization WITH a mapper), proved part**: for every class of the region
    `fsafeCls` with a simple mapper (NO_MAPPER / TO_CAMELCASE / TO_LOWERCASE / a rename dict) that is
    injective on its fields and whose nested classes have no mapper (`mfreeFields`), and every
    instance of the stored shape, the installed `serialize()` returns the regular document of the
    identically declared mapper-free class with this class's keys renamed by the mapper — the keys
    `aggregate_serialization_mappers` resolves (`trusted_key_is_regular_key` with `forSer := true`). -/
theorem fast_mapper_equiv_partial (O : Oracles) (JK : List String) (Mp : MapEnv) (c : ClassOpts)
    (fields : List (String × FieldDecl)) (ds : List (String × PyVal)) (x : PyVal)
    (hs : fsafeCls [] (.struct c fields ds) = true) (hw : fwf O (.struct c fields ds) x = true)
    (hfree : mfreeFields Mp fields = true)
    (hinj : strNodup (fields.map fun p => mapKey (Mp c.name) p.1) = true) :
    fastSerialize Mp [] JK false false (.struct c fields ds) x
      = bindE (serialize O (.struct c fields ds) (canonV (.struct c fields ds) x)) (relabelDoc (Mp c.name)) :=
  c10_fast_outer_mapper O JK Mp c fields ds x hs hw hfree hinj

/-- non-vacuity: TO_CAMELCASE on a class with a nested mapper-free class and an Array of them -/
def exFastMapInner : FieldDecl := mkCls "In" ["first_name"] [("first_name", str0), ("age", .integer {})]
def exFastMapOuter : FieldDecl :=
  mkCls "Out" ["the_one"] [("the_one", exFastMapInner), ("all_of", .seqOf .list exFastMapInner {}), ("n_n", .integer {})]
def exFastMapEnv : MapEnv := fun n => if n == "Out" then .camel else .none
def exFastMapX : PyVal :=
  .inst "Out" [("the_one", .inst "In" [("first_name", .str "a")]), ("all_of", .list [.inst "In" [("first_name", .str "b"), ("age", .int 1)]]),
               ("n_n", .int 2)]
theorem fast_mapper_example :
    fsafeCls [] exFastMapOuter = true ∧ fwf exO exFastMapOuter exFastMapX = true
    ∧ (match exFastMapOuter with | .struct _ fs _ => mfreeFields exFastMapEnv fs | _ => false) = true
    ∧ docHas "theOne" (fun _ => true) (fastSerialize exFastMapEnv [] [] false false exFastMapOuter exFastMapX) = true
    ∧ docHas "allOf" (fun _ => true) (fastSerialize exFastMapEnv [] [] false false exFastMapOuter exFastMapX) = true
    ∧ docHas "nN" (fun _ => true) (fastSerialize exFastMapEnv [] [] false false exFastMapOuter exFastMapX) = true
    ∧ docHas "n_n" (fun _ => true) (fastSerialize exFastMapEnv [] [] false false exFastMapOuter exFastMapX) = false := by
  decide

/-- **C10 (fast serialization WITH one simple mapper per class, at any depth), proved part**: for
    every class tree of the region `fsafeCls` in which every class has a simple mapper that is injective
    on its fields (`fmsafeD`: classes with mappers directly in fields, in Array / Deque / Set / Tuple[X]
    items and in Optionals; mapper-free inside Map values and positional items) and every instance of
    the stored shape, the installed `serialize()` returns the regular document of the identically
    declared mapper-free class tree with the keys of every class-level object renamed by that
    class's own mapper (`relV`) -/
theorem fast_mapper_full_equiv_partial (O : Oracles) (JK : List String) (Mp : MapEnv) (cls : FieldDecl) (x : PyVal)
    (hs : fsafeCls [] cls = true) (hw : fwf O cls x = true) (hm : fmsafeD Mp cls = true) :
    fastSerialize Mp [] JK false false cls x
      = bindE (serialize O cls (canonV cls x)) fun j => .ok (relV Mp cls j) :=
  c10_fast_full_mapper O JK Mp cls x hs hw hm

/-- non-vacuity: a rename dict on the outer class, TO_CAMELCASE on the nested one (also inside an
    Array and an Optional): each level is written with its own keys -/
def exFastFullInner : FieldDecl := mkCls "In" ["first_name"] [("first_name", str0), ("age", .integer {})]
def exFastFullOuter : FieldDecl :=
  mkCls "Out" ["the_one"] [("the_one", exFastFullInner), ("all_of", .seqOf .list exFastFullInner {}),
                           ("maybe", .anyOf [exFastFullInner, .noneF]), ("n_n", .integer {})]
def exFastFullEnv : MapEnv := fun n =>
  if n == "Out" then .rename [("the_one", "one"), ("n_n", "count")] else if n == "In" then .camel else .none
def exFastFullX : PyVal :=
  .inst "Out" [("the_one", .inst "In" [("first_name", .str "a")]),
               ("all_of", .list [.inst "In" [("first_name", .str "b"), ("age", .int 1)]]), ("n_n", .int 2)]
def innerHas (k inner : String) (r : R PyVal) : Bool :=
  match r with
  | .ok (.dict kvs) => kvs.any fun kv => (match kv.1, kv.2 with
      | .str s, .dict ikvs => s == k && ikvs.any (fun p => match p.1 with | .str t => t == inner | _ => false)
      | _, _ => false)
  | _ => false
theorem fast_mapper_full_example :
    fsafeCls [] exFastFullOuter = true ∧ fwf exO exFastFullOuter exFastFullX = true
    ∧ fmsafeD exFastFullEnv exFastFullOuter = true
    ∧ docHas "count" (fun _ => true) (fastSerialize exFastFullEnv [] [] false false exFastFullOuter exFastFullX) = true
    ∧ innerHas "one" "firstName" (fastSerialize exFastFullEnv [] [] false false exFastFullOuter exFastFullX) = true
    ∧ innerHas "one" "first_name" (fastSerialize exFastFullEnv [] [] false false exFastFullOuter exFastFullX) = false := by
  decide

/-! ## 8. the partition "proved region / named defect" is exhaustive -/

/-- every class declaration lies inside the proved region of trusted deserialization (`tsafeCls`) or
    carries at least one named tag of `declDefects` (a known finding, an "…:unproved" shape, or
    "ineligible-shape"): the check can never meet a class outside the region without a name for it -/
theorem trusted_region_exhaustive (c : ClassOpts) (fields : List (String × FieldDecl)) (ds : List (String × PyVal)) :
    tsafeCls (.struct c fields ds) = true ∨ declDefects (.struct c fields ds) ≠ [] :=
  c10_region_exhaustive c fields ds

example : tsafeCls cxOptImmSet = false ∧ declDefects cxOptImmSet = ["unnormalised:optional-immutable-set"] := by decide

end Typedpy.C10
