/-
  Props/C10.lean — property theorems for C10 (stub; to be filled in).
-/
namespace Typedpy.C10
end Typedpy.C10
