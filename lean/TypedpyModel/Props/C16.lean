/-
  Props/C16.lean — generated `.pyi` stubs agree with the runtime constructor signatures.

  Model: Sem/Stub.lean (stub generator's field → parameter derivation; `StructMeta.__new__` /
  `make_signature` / `get_base_info` / `__setattr__` guard on the runtime side), over ALL class
  hierarchies `ClassInfo` (any number of bases, any depth — induction over the tree of bases in
  `Lemmas/Stub.lean: names_inv`), all field lists, all `_required` / `_optional` / defaults / constants /
  `_additional_properties` declarations, and both values of the additional-properties default.

  Full statement: `C16_statement` — a THEOREM (`C16_statement_holds`) since the repair of the findings
  "inherited-additional-properties" / "inherited-additional-properties-off:signature-kwargs": `StructMeta.__new__` now
  reads `_additional_properties` with `getattr` on the new class (inherited lookup), as `Structure.__setattr__` and the
  stub generator always did, so the `**` clause of the stub, the `**kwargs` of `inspect.signature(cls)` and what the
  constructor admits are one and the same for every hierarchy and both defaults (`stub_kw_iff`, `stub_sigkw_agree`,
  `sig_kwargs_iff_admitted`); names and default-iff-not-required agree for every hierarchy (`stub_names_agree`,
  `stub_required_agree`).  The former counterexamples are kept as kernel-evaluated `fixed_*` examples.
  Layers of this file:
    1. parameters over tree-shaped hierarchies (Sem/Stub.lean; induction over the whole hierarchy): names, defaults,
       the `**` clause, helper methods, ordering, imports — `C16_statement_holds`;
    2. the TEXT (Sem/StubText.lean): annotation AST, token sequences of every generated header, the recogniser
       `parseDef` of Python's `def` header subset, the lexer `lexPy`: `stub_init_text_parses`, `stub_helper_text_parses`,
       `stub_method_text_roundtrip`, `lex_render_roundtrip`, `stub_*_text_accepted`, `stub_*_dupfree_iff`, `type_info_wf`;
    3. both sides as models of code (Sem/StubDefine.lean over Sem/Define.lean's class objects, any hierarchy shape):
       `stubD_*`, `stubD_sig_names_in_stub_reachable` (every reachable world), `fixed_diamond_names_example`.
  No open finding; the former counterexamples are `fixed_*` examples (5f45702, 9cb14af, f0f7ce1).
  History: until /repo commit 08ea09e a *required* `AnyOf[X, None]` field was rendered `Optional[X] = None`
  (finding "required-optional-default", fixed); `required_optional_fixed_example` is the former counterexample.
-/
import TypedpyModel.Lemmas.Stub
import TypedpyModel.Lemmas.StubSort
import TypedpyModel.Lemmas.StubText
import TypedpyModel.Lemmas.StubLex
import TypedpyModel.Lemmas.StubDefine
import TypedpyModel.Lemmas.DefineSig
namespace Typedpy.C16
open Typedpy.Stub

/-! ### the statement -/

/-- keyword names of a stub parameter list = names the runtime signature accepts (constants are in neither) -/
def NamesAgree (dflt : Bool) (c : ClassInfo) (ps : List Param) : Prop :=
  ∀ n, n ∈ ps.map (·.name) ↔ n ∈ (runtimeSig dflt c).params.map (·.name)

/-- a stub parameter has no default exactly for the runtime-required fields -/
def RequiredAgree (dflt : Bool) (c : ClassInfo) (ps : List Param) : Prop :=
  ∀ n, (⟨n, false⟩ : Param) ∈ ps ↔ runtimeRequired dflt c n = true

/-- `**kw` exactly when the class admits additional properties -/
def KwAgree (dflt : Bool) (c : ClassInfo) (kw : Bool) : Prop := kw = runtimeAdmitsExtra dflt c

/-- the generated `__init__` (stub generated with `additional_properties_default` = the runtime default) -/
def InitAgrees (dflt : Bool) (c : ClassInfo) : Prop :=
  NamesAgree dflt c (stubInit dflt dflt c).params ∧ RequiredAgree dflt c (stubInit dflt dflt c).params ∧
    KwAgree dflt c (stubInit dflt dflt c).kw

/-- the names a helper method's own fixed parameters shadow: they cannot be passed as field overrides at run time -/
def helperShadowed : Helper → List String
  | .shallowClone => []
  | _ => reservedHelper

/-- `shallow_clone_with_overrides` / `from_other_class` / `from_trusted_data`: the fixed leading
    parameters, then the field keywords (those the fixed parameters do not shadow), every one optional, in the order
    of `__init__`, `**kw` as for `__init__` -/
def HelperAgrees (dflt : Bool) (c : ClassInfo) (h : Helper) : Prop :=
  (∃ fields, (stubHelper dflt dflt h c).params = helperPrefix h ++ fields ∧
    (∀ n, n ∈ fields.map (·.name) ↔
      (n ∈ (runtimeSig dflt c).params.map (·.name) ∧ n ∉ helperShadowed h)) ∧
    (∀ p ∈ fields, p.hasDefault = true) ∧
    fields.map (·.name) = ((stubInit dflt dflt c).params.map (·.name)).filter (fun n => !(helperShadowed h).contains n)) ∧
  KwAgree dflt c (stubHelper dflt dflt h c).kw

/-- C16 (model part), full strength -/
def C16_statement : Prop := ∀ (dflt : Bool) (c : ClassInfo), InitAgrees dflt c ∧ ∀ h, HelperAgrees dflt c h

/-! ### the region of the two repaired findings (decidable; kept to name a regression) -/

/-- default off, nothing declared by the class itself, `True` found further up the MRO -/
def inheritedAddlOn (dflt : Bool) (c : ClassInfo) : Bool :=
  !dflt && c.decl.addl.isNone && (addlLookup (mro c) == some true)

/-- default on, nothing declared by the class itself, `False` found further up the MRO -/
def inheritedAddlOff (dflt : Bool) (c : ClassInfo) : Bool :=
  dflt && c.decl.addl.isNone && (addlLookup (mro c) == some false)

/-- the `**` clause of the stub `__init__` equals the `**kwargs` of `inspect.signature(cls)` -/
def SigKwAgree (dflt : Bool) (c : ClassInfo) : Prop := (stubInit dflt dflt c).kw = (runtimeSig dflt c).kw

/-- C16, the `**` clause read off `inspect.signature(cls)` instead of the constructor's behaviour -/
def C16_signature_statement : Prop := ∀ (dflt : Bool) (c : ClassInfo), SigKwAgree dflt c

/-! ### names -/

/-- keyword names of the generated `__init__` are exactly the names the runtime signature accepts —
    for every hierarchy, unconditionally -/
theorem stub_names_agree (dflt apd : Bool) (c : ClassInfo) : NamesAgree dflt c (stubInit dflt apd c).params := by
  intro n
  show n ∈ (stubArgs dflt c).map (·.name) ↔ _
  rw [names_stubArgs, names_inv]

/-- no constant is a keyword of the stub `__init__`, and every non-constant field is -/
theorem stub_names_are_nonconstant_fields (dflt apd : Bool) (c : ClassInfo) (n : String) :
    n ∈ (stubInit dflt apd c).params.map (·.name) ↔ ∃ f, finalField c n = some f ∧ f.isConst = false :=
  names_stubArgs dflt c n

/-! ### default ⇔ not required -/

theorem annEndsNone_false (req : List String) (f : FieldInfo) :
    annEndsNone req f = false ↔ f.name ∈ req := by
  unfold annEndsNone
  by_cases hr : f.name ∈ req <;> cases ho : f.optShape <;> simp [hr]

/-- a stub parameter has no default exactly for the runtime-required fields — for every hierarchy,
    unconditionally (whatever the shape of the field's type) -/
theorem stub_required_agree (dflt apd : Bool) (c : ClassInfo) :
    RequiredAgree dflt c (stubInit dflt apd c).params := by
  intro n
  show (⟨n, false⟩ : Param) ∈ stubArgs dflt c ↔ _
  rw [mem_stubArgs, runtimeRequired_iff]
  constructor
  · rintro ⟨f, h1, h2, h3⟩
    have hn : f.name = n := (lookupF_some h1).2
    exact ⟨⟨f, h1, h2⟩, hn ▸ (annEndsNone_false _ f).mp h3.symm⟩
  · rintro ⟨⟨f, h1, h2⟩, hr⟩
    have hn : f.name = n := (lookupF_some h1).2
    exact ⟨f, h1, h2, ((annEndsNone_false _ f).mpr (hn ▸ hr)).symm⟩

/-- conversely: a stub parameter has a default exactly for the accepted names that are not in `_required` -/
theorem stub_default_iff (dflt apd : Bool) (c : ClassInfo) (n : String) :
    (⟨n, true⟩ : Param) ∈ (stubInit dflt apd c).params ↔
      (n ∈ (runtimeSig dflt c).params.map (·.name) ∧ runtimeRequired dflt c n = false) := by
  show (⟨n, true⟩ : Param) ∈ stubArgs dflt c ↔ _
  rw [mem_stubArgs, names_inv]
  have hreq := runtimeRequired_iff dflt c n
  constructor
  · rintro ⟨f, h1, h2, h3⟩
    have hn : f.name = n := (lookupF_some h1).2
    refine ⟨⟨f, h1, h2⟩, ?_⟩
    cases hr : runtimeRequired dflt c n
    · rfl
    · have := (annEndsNone_false _ f).mpr (hn ▸ (hreq.mp hr).2)
      rw [this] at h3; cases h3
  · rintro ⟨⟨f, h1, h2⟩, hr⟩
    have hn : f.name = n := (lookupF_some h1).2
    refine ⟨f, h1, h2, ?_⟩
    cases ha : annEndsNone (clsRequired dflt c) f
    · have hmem := (annEndsNone_false _ f).mp ha
      have : runtimeRequired dflt c n = true := hreq.mpr ⟨⟨f, h1, h2⟩, hn ▸ hmem⟩
      rw [hr] at this; cases this
    · rfl

/-! ### `**kw` -/

/-- the stub's `**kw` is exactly "the constructor admits unknown keywords" — every hierarchy, both defaults -/
theorem stub_kw_iff (dflt : Bool) (c : ClassInfo) :
    (stubInit dflt dflt c).kw = runtimeAdmitsExtra dflt c := by
  cases c with
  | mk d bases =>
    simp [stubInit, stubKw, runtimeAdmitsExtra, setattrAllows, runtimeSig, Stub.sigOf, makeSignature, mro]

theorem stub_kw_agree (dflt : Bool) (c : ClassInfo) : KwAgree dflt c (stubInit dflt dflt c).kw :=
  stub_kw_iff dflt c

/-! ### `**kw` vs the `**kwargs` of `__signature__` -/

/-- `inspect.signature(cls)` has `**kwargs` exactly when the constructor admits unknown keywords -/
theorem sig_kwargs_iff_admitted (dflt : Bool) (c : ClassInfo) :
    (runtimeSig dflt c).kw = runtimeAdmitsExtra dflt c := by
  cases c with
  | mk d bases =>
    simp [runtimeAdmitsExtra, setattrAllows, runtimeSig, Stub.sigOf, makeSignature, mro]

/-- the `**` clause of the stub equals the `**kwargs` of `inspect.signature(cls)` — every hierarchy -/
theorem stub_sigkw_agree (dflt : Bool) (c : ClassInfo) : SigKwAgree dflt c := by
  unfold SigKwAgree
  rw [stub_kw_iff, sig_kwargs_iff_admitted]

/-- with a stub generated under another `additional_properties_default` than the runtime's (`apd ≠ dflt`) the `**`
    clause still agrees whenever some class of the MRO declares the flag; otherwise it is `apd` against `dflt` -/
theorem stub_kw_apd_iff (dflt apd : Bool) (c : ClassInfo) :
    (stubInit dflt apd c).kw =
      (match addlLookup (mro c) with | some _ => runtimeAdmitsExtra dflt c | none => apd) := by
  cases c with
  | mk d bases =>
    simp only [stubInit, stubKw, runtimeAdmitsExtra, setattrAllows, runtimeSig, Stub.sigOf, makeSignature, mro]
    cases addlLookup (d :: mroL bases) <;> simp

/-! ### helper methods -/

theorem helperKeep_names (h : Helper) (ps : List Param) :
    (helperKeep h ps).map (·.name) = (ps.map (·.name)).filter (fun n => !(helperShadowed h).contains n) := by
  cases h
  · have : ∀ l : List Param, l.filter (fun _ => true) = l := by
      intro l; induction l with
      | nil => rfl
      | cons a l ih => simp [List.filter_cons, ih]
    simp [helperKeep, helperShadowed, List.filter_map, Function.comp_def, this]
  · simp [helperKeep, helperShadowed, List.filter_map, Function.comp_def]
  · simp [helperKeep, helperShadowed, List.filter_map, Function.comp_def]

theorem helper_fields_agree (dflt apd : Bool) (c : ClassInfo) (h : Helper) :
    ∃ fields, (stubHelper dflt apd h c).params = helperPrefix h ++ fields ∧
      (∀ n, n ∈ fields.map (·.name) ↔
        (n ∈ (runtimeSig dflt c).params.map (·.name) ∧ n ∉ helperShadowed h)) ∧
      (∀ p ∈ fields, p.hasDefault = true) ∧
      fields.map (·.name) =
        ((stubInit dflt apd c).params.map (·.name)).filter (fun n => !(helperShadowed h).contains n) := by
  have hm : (stubHelperFields dflt c).map (·.name) = (stubArgs dflt c).map (·.name) := by
    simp [stubHelperFields, List.map_map, Function.comp_def]
  refine ⟨helperKeep h (stubHelperFields dflt c), rfl, ?_, ?_, ?_⟩
  · intro n
    rw [helperKeep_names, hm, List.mem_filter]
    have := stub_names_agree dflt apd c n
    simp only [stubInit] at this
    rw [this]
    simp
  · intro p hp
    have hp' : p ∈ stubHelperFields dflt c := by
      cases h
      · exact hp
      · exact (List.mem_filter.mp hp).1
      · exact (List.mem_filter.mp hp).1
    simp only [stubHelperFields, List.mem_map] at hp'
    obtain ⟨q, _, rfl⟩ := hp'
    cases hq : q.hasDefault <;> simp
  · rw [helperKeep_names, hm]
    rfl

/-! ### the property, full strength -/

theorem stub_params_agree (dflt : Bool) (c : ClassInfo) : InitAgrees dflt c ∧ ∀ h, HelperAgrees dflt c h :=
  ⟨⟨stub_names_agree dflt dflt c, stub_required_agree dflt dflt c, stub_kw_agree dflt c⟩,
   fun h => ⟨helper_fields_agree dflt dflt c h, stub_kw_agree dflt c⟩⟩

/-- C16 (model part) holds: every hierarchy, both defaults -/
theorem C16_statement_holds : C16_statement := fun dflt c => stub_params_agree dflt c

theorem C16_signature_statement_holds : C16_signature_statement := fun dflt c => stub_sigkw_agree dflt c

/-! ### ordering -/

theorem mandatoryFirst_append (xs ys : List Param) (hx : ∀ p ∈ xs, p.hasDefault = false)
    (hy : ∀ p ∈ ys, p.hasDefault = true) : mandatoryFirst (xs ++ ys) = true := by
  induction xs with
  | nil =>
    cases ys with
    | nil => rfl
    | cons y ys =>
      simp only [List.nil_append, mandatoryFirst, hy y List.mem_cons_self, if_true, List.all_eq_true]
      exact fun q hq => hy q (List.mem_cons_of_mem _ hq)
  | cons x xs ih =>
    simp only [List.cons_append, mandatoryFirst, hx x List.mem_cons_self, Bool.false_eq_true, if_false]
    exact ih (fun p hp => hx p (List.mem_cons_of_mem _ hp))

/-- `_get_ordered_args` yields a legal Python parameter order (no mandatory parameter after an optional one) -/
theorem stub_mandatory_first (dflt apd : Bool) (c : ClassInfo) :
    mandatoryFirst (stubInit dflt apd c).params = true := by
  show mandatoryFirst (orderedArgs _) = true
  unfold orderedArgs
  apply mandatoryFirst_append
  · intro p hp; simpa using (List.mem_filter.mp hp).2
  · intro p hp; simpa using (List.mem_filter.mp hp).2

/-! ### hash-seed independence of the import section -/

/-- the rendered import section is invariant under permutation of the iterated set -/
theorem stub_perm_invariant (xs ys : List (String × String)) (h : xs.Perm ys) :
    renderImports xs = renderImports ys :=
  sortU_perm _ _ (h.map importLine)

/-- stronger: it depends only on the set of (name, module) items (any order, any multiplicity) -/
theorem stub_set_invariant (xs ys : List (String × String)) (h : ∀ kv, kv ∈ xs ↔ kv ∈ ys) :
    renderImports xs = renderImports ys := by
  apply sortU_ext
  intro s
  simp only [List.mem_map]
  constructor
  · rintro ⟨kv, hkv, rfl⟩; exact ⟨kv, (h kv).mp hkv, rfl⟩
  · rintro ⟨kv, hkv, rfl⟩; exact ⟨kv, (h kv).mpr hkv, rfl⟩

theorem stub_imports_sorted (xs : List (String × String)) : (renderImports xs).Pairwise (· < ·) :=
  sortU_sorted _

/-! ### kernel-checked former counterexamples (the inputs replayed on the real code by the `stub` suite) -/

/-- `class K(Structure): e: AnyOf[Integer, None]; s: String` — `e` is required.  The counterexample of the
    fixed finding "required-optional-default": the stub now keeps `e` mandatory. -/
def ceRequiredOptional : ClassInfo :=
  .mk { name := "K", fields := [{ name := "e", optShape := true }, { name := "s" }] } []

theorem required_optional_fixed_example :
    runtimeRequired true ceRequiredOptional "e" = true ∧
    (stubInit true true ceRequiredOptional).params = [⟨"e", false⟩, ⟨"s", false⟩] := by
  decide

/-- `class P(Structure): a: String; _additional_properties = True` / `class Q(P): b: String`,
    `additional_properties_default = False` — the counterexample of the repaired finding
    "inherited-additional-properties": stub, `__signature__` and constructor now all admit extra keywords -/
def ceInheritedAddl : ClassInfo :=
  .mk { name := "Q", fields := [{ name := "b" }] }
    [.mk { name := "P", fields := [{ name := "a" }], addl := some true } []]

theorem fixed_inherited_addl_example :
    inheritedAddlOn false ceInheritedAddl = true ∧
    (stubInit false false ceInheritedAddl).kw = true ∧ (runtimeSig false ceInheritedAddl).kw = true ∧
    runtimeAdmitsExtra false ceInheritedAddl = true := by
  decide

/-- `class P(Structure): a: String; _additional_properties = False` / `class Q(P): b: String`, shipped default —
    the counterexample of the repaired finding "inherited-additional-properties-off:signature-kwargs" -/
def ceInheritedAddlOff : ClassInfo :=
  .mk { name := "Q", fields := [{ name := "b" }] }
    [.mk { name := "P", fields := [{ name := "a" }], addl := some false } []]

theorem fixed_inherited_addl_off_example :
    inheritedAddlOff true ceInheritedAddlOff = true ∧
    (stubInit true true ceInheritedAddlOff).kw = false ∧ (runtimeSig true ceInheritedAddlOff).kw = false ∧
    runtimeAdmitsExtra true ceInheritedAddlOff = false := by
  decide

/-! ### non-vacuity -/

/-- a three-level hierarchy with a constant, a default, an optional-shaped optional field, a base that
    switches additional properties off and a subclass that re-declares a base field as constant -/
def exHierarchy : ClassInfo :=
  .mk { name := "C", fields := [{ name := "z" }, { name := "k2", isConst := true }, { name := "b", isConst := true }],
        optionalDecl := ["z"] }
    [.mk { name := "B", fields := [{ name := "c", hasDefault := true }, { name := "b" }] }
      [.mk { name := "A", fields := [{ name := "k", isConst := true }, { name := "a" }, { name := "o", optShape := true }],
             requiredDecl := some ["a"], addl := some false } []],
     .mk { name := "M", fields := [{ name := "m" }, { name := "a", hasDefault := true }] } []]

theorem stub_params_agree_example :
    (stubInit true true exHierarchy).params = [⟨"m", false⟩, ⟨"a", false⟩, ⟨"o", true⟩, ⟨"c", true⟩, ⟨"z", true⟩] ∧
    (stubInit true true exHierarchy).kw = false ∧ (runtimeSig true exHierarchy).kw = false ∧
    runtimeAdmitsExtra true exHierarchy = false ∧
    (runtimeSig true exHierarchy).params = [⟨"a", false⟩, ⟨"m", false⟩, ⟨"o", true⟩, ⟨"c", true⟩, ⟨"z", true⟩] ∧
    inheritedAddlOn true exHierarchy = false ∧ inheritedAddlOff true exHierarchy = true ∧
    renderImports [("B", "pkg.b"), ("A", "pkg.a"), ("B", "pkg.b")] = ["from pkg.a import A", "from pkg.b import B"] := by
  decide

/-! ### the TEXT of the stub: every generated header is a `def` / `class` header of Python, for all hierarchies

  `Sem/StubText.lean`: annotations are a typed AST (`Ann`: dotted names, subscriptions `Optional[..]`, `dict[.., ..]`,
  `Union[..]`, `Literal[..]`, list displays, `...`, literals), `initToks` / `helperToks` / `classToks` / `attrToks` /
  `methodToks` are what the generator writes (token level; `lexPy` is the character level, corresponded on the real
  `.pyi` text each run), `parseDef` is the recogniser of Python's `def` header subset with the ordering rules of
  signatures.  `textDomain`: field names are identifiers that are not keywords and the annotations are well-formed
  (`Ann.wf`) — what `get_type_info` returns for every case the harness generates (checked per case). -/

open Typedpy.StubText

/-- the generated `__init__` of every class of every hierarchy parses, and the parser reads exactly the modelled
    parameter list back: `self`, the field keywords (positional-or-keyword, default flag as modelled), `**kw` -/
theorem stub_init_text_parses (dflt apd : Bool) (c : ClassInfo) (anns : String → Ann)
    (h : textDomain anns (stubInit dflt apd c).params = true) :
    parseDef (initToks anns (stubInit dflt apd c)) =
      some ⟨"__init__", ⟨"self", .pk, false⟩ ::
        ((stubInit dflt apd c).params.map pkInfo ++
          kwInfos (stubInit dflt apd c).kw (kwName (stubInit dflt apd c).params))⟩ :=
  c16_init_parses anns _ (stub_mandatory_first dflt apd c) h

/-- the three helper methods parse: fixed leading parameters, bare `*` where written, every field keyword with a
    default, `**kw` last -/
theorem stub_helper_text_parses (dflt apd : Bool) (c : ClassInfo) (anns : String → Ann) (hk : Helper)
    (h : textDomain anns (stubInit dflt apd c).params = true) :
    parseDef (helperToks anns hk (stubInit dflt apd c)) =
      some ⟨helperName hk, helperLeadInfos hk ++
        ((helperFields hk (stubInit dflt apd c).params).map (helperInfo hk) ++
          kwInfos (stubInit dflt apd c).kw (kwName (stubInit dflt apd c).params))⟩ :=
  c16_helper_parses anns hk _ h

/-- the parameter order rule holds of the text for ANY parameter table with mandatory parameters first (this is the
    statement the Define-based model below re-uses) -/
theorem init_text_parses_of_mandatory_first (anns : String → Ann) (s : Stub.Sig)
    (hm : mandatoryFirst s.params = true) (h : textDomain anns s.params = true) :
    parseDef (initToks anns s) = some ⟨"__init__", ⟨"self", .pk, false⟩ :: (s.params.map pkInfo ++ kwInfos s.kw (kwName s.params))⟩ :=
  c16_init_parses anns s hm h

/-- `class X(Base, Structure):` parses -/
theorem stub_class_header_parses (c : String) (bases : List (List String)) (hc : identOk c = true)
    (hb : ∀ b ∈ bases, dottedOk b = true) : parseClass (classToks c bases) = some (c, bases.length) :=
  c16_class_parses c bases hc hb

/-- every attribute line `    name: annotation [= None]` parses -/
theorem stub_attr_text_parses (dflt apd : Bool) (c : ClassInfo) (anns : String → Ann)
    (h : textDomain anns (stubInit dflt apd c).params = true) :
    ∀ p ∈ (stubInit dflt apd c).params, parseAttr (attrToks (anns p.name) p) = some (p.name, p.hasDefault) := by
  intro p hp
  have := List.all_eq_true.mp h p hp
  simp only [Bool.and_eq_true] at this
  exact c16_attr_parses _ p this.1 this.2

/-- methods, functions and user-written `__init__`: printing a legal `inspect.Signature` the way
    `_get_list_of_params_with_type` does (the `/` and `*` markers from the two flags) and parsing the text gives the
    same names, kinds and default flags back — for every legal signature -/
theorem stub_method_text_roundtrip (f : String) (ps : List RParam) (ret : Option Ann) (hf : identOk f = true)
    (hne : ps ≠ []) (hv : validSig ps = true) (hok : ∀ p ∈ ps, rparamOk p = true ∧ noVarDefault p = true)
    (hret : optWf ret = true) :
    parseDef (methodToks f ps ret) = some ⟨f, ps.map RParam.info⟩ :=
  c16_method_roundtrip f ps ret hf hne hv hok hret

/-- parameter names of the generated `__init__` are pairwise distinct (so the stub compiles) exactly when no field
    is named `self` or like the var-keyword — which is called `kwargs` when a field is called `kw` (repair of the
    finding "uncompilable-stub:parameter-name-clash") -/
theorem stub_init_dupfree_iff (dflt apd : Bool) (c : ClassInfo) :
    dupFree (["self"] ++ ((stubInit dflt apd c).params.map (·.name) ++
        (if (stubInit dflt apd c).kw then [kwName (stubInit dflt apd c).params] else []))) =
      ((stubInit dflt apd c).params.map (·.name)).all
        (fun n => !(fixedNames ["self"] (stubInit dflt apd c).kw (kwName (stubInit dflt apd c).params)).contains n) :=
  c16_dupFree_method ["self"] _ _ _ (by decide) (by unfold kwName; split <;> decide) (c16_nodup_stubArgs dflt c)

def helperLeadNames (h : Helper) : List String := (helperLeadInfos h).map (·.name)

/-- the same for the three helper methods, whose field keywords leave out what the fixed parameters shadow -/
theorem stub_helper_dupfree_iff (dflt apd : Bool) (c : ClassInfo) (h : Helper) :
    dupFree (helperLeadNames h ++ ((helperFields h (stubInit dflt apd c).params).map (·.name) ++
        (if (stubInit dflt apd c).kw then [kwName (stubInit dflt apd c).params] else []))) =
      ((helperFields h (stubInit dflt apd c).params).map (·.name)).all
        (fun n => !(fixedNames (helperLeadNames h) (stubInit dflt apd c).kw
          (kwName (stubInit dflt apd c).params)).contains n) := by
  apply c16_dupFree_method
  · cases h <;> decide
  · cases h <;> (unfold kwName; split <;> decide)
  · have hsub : ((helperFields h (stubInit dflt apd c).params).map (·.name)).Sublist
        ((stubInit dflt apd c).params.map (·.name)) := by
      unfold helperFields
      cases h
      · exact List.Sublist.refl _
      · exact List.Sublist.map _ List.filter_sublist
      · exact List.Sublist.map _ List.filter_sublist
    exact hsub.nodup (c16_nodup_stubArgs dflt c)

/-- hence: unless a field is literally named `self`, `cls` or `kwargs` (typedpy refuses `kwargs` as a field name),
    all four generated methods have pairwise distinct parameter names — fields named `source_object`, `ignore_props`
    or `kw` no longer clash -/
theorem stub_methods_dupfree (dflt apd : Bool) (c : ClassInfo)
    (hn : ∀ n ∈ (stubInit dflt apd c).params.map (·.name), n ≠ "self" ∧ n ≠ "cls" ∧ n ≠ "kwargs") :
    dupFree (["self"] ++ ((stubInit dflt apd c).params.map (·.name) ++
        (if (stubInit dflt apd c).kw then [kwName (stubInit dflt apd c).params] else []))) = true ∧
    ∀ h, dupFree (helperLeadNames h ++ ((helperFields h (stubInit dflt apd c).params).map (·.name) ++
        (if (stubInit dflt apd c).kw then [kwName (stubInit dflt apd c).params] else []))) = true := by
  have hk : ∀ n ∈ (stubInit dflt apd c).params.map (·.name), n ≠ kwName (stubInit dflt apd c).params := by
    intro n hmem e
    unfold kwName at e
    split at e
    · exact (hn n hmem).2.2 e
    · rename_i hany
      apply hany
      obtain ⟨p, hp, rfl⟩ := List.mem_map.mp hmem
      exact List.any_eq_true.mpr ⟨p, hp, by simp [e]⟩
  constructor
  · rw [stub_init_dupfree_iff, List.all_eq_true]
    intro n hmem
    have h1 := (hn n hmem).1
    have h2 := hk n hmem
    cases hkw : (stubInit dflt apd c).kw <;> simp [fixedNames, h1, h2]
  · intro h
    rw [stub_helper_dupfree_iff, List.all_eq_true]
    intro n hmem
    have hmem' : n ∈ (stubInit dflt apd c).params.map (·.name) := by
      obtain ⟨p, hp, rfl⟩ := List.mem_map.mp hmem
      exact List.mem_map_of_mem (c16_helperFields_sub hp)
    have h1 := hn n hmem'
    have h2 := hk n hmem'
    cases h with
    | shallowClone =>
      cases hkw : (stubInit dflt apd c).kw <;> simp [fixedNames, helperLeadNames, helperLeadInfos, h1.1, h2]
    | fromOtherClass =>
      have hres : n ≠ "source_object" ∧ n ≠ "ignore_props" := by
        obtain ⟨p, hp, rfl⟩ := List.mem_map.mp hmem
        have := (List.mem_filter.mp hp).2
        simpa [reservedHelper] using this
      cases hkw : (stubInit dflt apd c).kw <;>
        simp [fixedNames, helperLeadNames, helperLeadInfos, h1.2.1, h2, hres.1, hres.2]
    | fromTrustedData =>
      have hres : n ≠ "source_object" ∧ n ≠ "ignore_props" := by
        obtain ⟨p, hp, rfl⟩ := List.mem_map.mp hmem
        have := (List.mem_filter.mp hp).2
        simpa [reservedHelper] using this
      cases hkw : (stubInit dflt apd c).kw <;>
        simp [fixedNames, helperLeadNames, helperLeadInfos, h1.2.1, h2, hres.1, hres.2]

/-- `class S(Structure): source_object: String; kw: String` — the former instance of the repaired finding
    "uncompilable-stub:parameter-name-clash": the headers parse and no two parameters share a name -/
def ceNameClash : ClassInfo := .mk { name := "S", fields := [{ name := "source_object" }, { name := "kw" }] } []

theorem fixed_name_clash_example :
    parseDef (helperToks (fun _ => .name ["str"]) .fromOtherClass (stubInit true true ceNameClash)) =
      some ⟨"from_other_class", [⟨"cls", .pk, false⟩, ⟨"source_object", .pk, false⟩, ⟨"ignore_props", .ko, true⟩,
        ⟨"kw", .ko, true⟩, ⟨"kwargs", .vk, false⟩]⟩ ∧
    parseDef (initToks (fun _ => .name ["str"]) (stubInit true true ceNameClash)) =
      some ⟨"__init__", [⟨"self", .pk, false⟩, ⟨"source_object", .pk, false⟩, ⟨"kw", .pk, false⟩,
        ⟨"kwargs", .vk, false⟩]⟩ := by
  decide

/-- non-vacuity, at the character level: the `__init__` of `exHierarchy` as text, lexed and parsed -/
def exAnns : String → Ann
  | "o" => .sub ["Optional"] [.name ["int"]]
  | "c" => .sub ["dict"] [.name ["str"], .sub ["Union"] [.name ["int"], .name ["datetime", "date"]]]
  | "z" => .sub ["Callable"] [.lst [.name ["int"]], .name ["None"]]
  | "m" => .sub ["Literal"] [.lit, .lit]
  | _ => .name ["str"]

set_option maxRecDepth 100000 in
theorem stub_text_example :
    toksText (initToks exAnns (stubInit true true exHierarchy)) =
      "def __init__ ( self , m : Literal [ 0 , 0 ] , a : str , o : Optional [ int ] = None , " ++
      "c : Optional [ dict [ str , Union [ int , datetime . date ] ] ] = None , " ++
      "z : Optional [ Callable [ [ int ] , None ] ] = None ) : ..." ∧
    (lexPy (toksText (initToks exAnns (stubInit true true exHierarchy)))).bind parseDef =
      some ⟨"__init__", [⟨"self", .pk, false⟩, ⟨"m", .pk, false⟩, ⟨"a", .pk, false⟩, ⟨"o", .pk, true⟩,
        ⟨"c", .pk, true⟩, ⟨"z", .pk, true⟩]⟩ ∧
    textDomain exAnns (stubInit true true exHierarchy).params = true := by
  decide

set_option maxRecDepth 100000 in
/-- the recogniser is not trivial: the texts of the repaired defects and of typical breakage are rejected -/
theorem parse_rejects_examples :
    -- a parameter without default after one with default (finding "required-optional-default" era ordering)
    (lexPy "def __init__(self, e: Optional[int] = None, s: str, **kw): ...").bind parseDef = none ∧
    -- `= None` inside a subscription (fixed finding "unparsable-stub:nested-optional-default")
    (lexPy "def __init__(self, m: dict[str, Optional[int] = None]): ...").bind parseDef = none ∧
    -- `**kw` not last, bare `*` without a named parameter, `/` first, two `*`
    (lexPy "def f(self, **kw, a: int = None): ...").bind parseDef = none ∧
    (lexPy "def f(cls, source_object: Any, *, **kw): ...").bind parseDef = none ∧
    (lexPy "def f(/, a): ...").bind parseDef = none ∧
    (lexPy "def f(*a, *, b): ...").bind parseDef = none ∧
    -- unbalanced bracket, missing comma, unterminated string (seeded C16-10: `Literal["1/2"", "3/4""]`)
    (lexPy "def f(a: dict[str, int): ...").bind parseDef = none ∧
    (lexPy "def f(a: int b: str): ...").bind parseDef = none ∧
    (lexPy "def f(size: Literal[\"1/2\"\", \"3/4\"\"]): ...").bind parseDef = none ∧
    -- and a positional-only marker is read back
    (lexPy "def f(a, /, b=None, *args, c, **kw) -> dict[str, int]: ...").bind parseDef =
      some ⟨"f", [⟨"a", .po, false⟩, ⟨"b", .pk, true⟩, ⟨"args", .va, false⟩, ⟨"c", .ko, false⟩, ⟨"kw", .vk, false⟩]⟩ := by
  decide

/-! ### `get_type_info`: the nesting combinators are rendered by the model -/

/-- whatever the leaves render to (well-formed annotations), `AnyOf/OneOf/AllOf[X, None]` → `Optional[..]`, other
    unions → `Union[..]`, `Map[K, V]` → `dict[.., ..]`, nested to any depth, is a well-formed annotation: it contains
    no default and is accepted by the expression recogniser (the fixed finding "unparsable-stub:nested-optional-default"
    cannot recur in the model) -/
theorem type_info_wf (t : FTy) (h : FTy.wf t = true) :
    (typeInfo t).wf = true ∧ exprOk (annToks (typeInfo t)) = true ∧ (∀ u ∈ annToks (typeInfo t), u ≠ Tok.eq) := by
  have hw := c16_typeInfo_wf t h
  refine ⟨hw, c16_exprOk_ann _ hw, ?_⟩
  intro u hu e
  have := c16_annTok_ann _ u hu
  rw [e] at this
  simp [annTok] at this

/-- `m: Map[String, AnyOf[Integer, None]]` (the input of the fixed finding): `dict[str, Optional[int]]` -/
theorem type_info_example :
    toksText (annToks (typeInfo (.map [.leaf (.name ["str"]), .opt (.leaf (.name ["int"]))]))) =
      "dict [ str , Optional [ int ] ]" := by
  decide

/-! ### the character level -/

/-- printing any token sequence whose names are identifier-shaped (one blank after each token) and lexing the
    characters gives the tokens back: every token-level acceptance theorem above is a theorem about text -/
theorem lex_render_roundtrip (ts : List Tok) (h : ∀ t ∈ ts, tokLexOk t = true) :
    lexPy (renderText ts) = some ts :=
  c16_lexPy_render ts h

/-- the TEXT of the generated `__init__` of every class of every hierarchy is lexed and parsed into exactly the
    modelled parameter list -/
theorem stub_init_text_accepted (dflt apd : Bool) (c : ClassInfo) (anns : String → Ann)
    (h : textDomain anns (stubInit dflt apd c).params = true) :
    (lexPy (renderText (initToks anns (stubInit dflt apd c)))).bind parseDef =
      some ⟨"__init__", ⟨"self", .pk, false⟩ ::
        ((stubInit dflt apd c).params.map pkInfo ++
          kwInfos (stubInit dflt apd c).kw (kwName (stubInit dflt apd c).params))⟩ := by
  rw [c16_lexPy_render _ (c16_lexOk_initToks anns _ h)]
  exact stub_init_text_parses dflt apd c anns h

/-- the TEXT of the three generated helper methods, lexed and parsed -/
theorem stub_helper_text_accepted (dflt apd : Bool) (c : ClassInfo) (anns : String → Ann) (hk : Helper)
    (h : textDomain anns (stubInit dflt apd c).params = true) :
    (lexPy (renderText (helperToks anns hk (stubInit dflt apd c)))).bind parseDef =
      some ⟨helperName hk, helperLeadInfos hk ++
        ((helperFields hk (stubInit dflt apd c).params).map (helperInfo hk) ++
          kwInfos (stubInit dflt apd c).kw (kwName (stubInit dflt apd c).params))⟩ := by
  rw [c16_lexPy_render _ (c16_lexOk_helperToks anns hk _ h)]
  exact stub_helper_text_parses dflt apd c anns hk h

/-- the TEXT of every re-rendered method / function header: print a legal signature, lex, parse — the same
    names, kinds and default flags -/
theorem stub_method_text_accepted (f : String) (ps : List RParam) (ret : Option Ann) (hf : identOk f = true)
    (hne : ps ≠ []) (hv : validSig ps = true) (hok : ∀ p ∈ ps, rparamOk p = true ∧ noVarDefault p = true)
    (hret : optWf ret = true) :
    (lexPy (renderText (methodToks f ps ret))).bind parseDef = some ⟨f, ps.map RParam.info⟩ := by
  rw [c16_lexPy_render _ (c16_lexOk_methodToks f ps ret hf (fun p hp => (hok p hp).1) hret)]
  exact stub_method_text_roundtrip f ps ret hf hne hv hok hret

/-! ### a stub generated under another `additional_properties_default` than the runtime's (`apd ≠ dflt`) -/

/-- when some class of the MRO declares `_additional_properties`, the `**` clause does not depend on the default the
    stub generator was given: everything proved for `apd = dflt` carries over -/
theorem stub_kw_apd_declared (dflt apd : Bool) (c : ClassInfo) (h : (addlLookup (mro c)).isSome = true) :
    (stubInit dflt apd c).kw = (stubInit dflt dflt c).kw := by
  simp only [stubInit, stubKw]
  cases hl : addlLookup (mro c) with
  | none => simp [hl] at h
  | some b => rfl

/-- when no class declares it, the stub says `apd` and the constructor follows the runtime default: they agree iff
    the generator was configured like the runtime -/
theorem stub_kw_apd_undeclared (dflt apd : Bool) (c : ClassInfo) (h : addlLookup (mro c) = none) :
    (stubInit dflt apd c).kw = apd ∧ runtimeAdmitsExtra dflt c = dflt := by
  cases c with
  | mk d bases =>
    simp only [mro] at h
    have hd : d.addl = none := by
      cases hd : d.addl with
      | none => rfl
      | some b => simp [addlLookup, hd] at h
    constructor
    · simp [stubInit, stubKw, mro, h]
    · simp [runtimeAdmitsExtra, setattrAllows, runtimeSig, Stub.sigOf, makeSignature, mro, h, hd]

/-! ### both sides as models of code: the stub generator over the class objects of Sem/Define.lean

  `Sem/StubDefine.lean` reads `_field_by_name`, `_constants`, `_required` and the inherited `_additional_properties`
  off the class object that `Sem/Define.build` creates — Define's `make_signature` / `get_base_info` / C3 linearisation
  (the model C12/C14 prove things about and the `define` suite corresponds) IS the runtime side.  The statements
  below are one-step facts: they hold for EVERY world `w` and EVERY class source `src`, hence for every hierarchy
  shape (several bases, shared ancestors, diamonds), with no reachability hypothesis. -/

open Typedpy.StubD

/-- keyword names of the stub `__init__` = names of Define's runtime signature, exactly when every non-constant
    name of `_field_by_name` is one `make_signature` draws from (`namesCovered`, decidable, evaluated per case) -/
theorem stubD_names_agree_iff (apd : Bool) (w : World) (src : ClassSrc) :
    (∀ n, n ∈ (stubInitD apd w src).params.map (·.name) ↔ n ∈ (sigParamsD (Typedpy.sigOf w src)).map (·.name)) ↔
      namesCovered w src = true :=
  c16_names_agree_iff w src

/-- a stub parameter lacks a default exactly when Define's signature lists the name as required — for every world,
    on the names both sides know -/
theorem stubD_required_agree (apd : Bool) (w : World) (src : ClassSrc) (n : String)
    (hcov : covered w src n = true) (hk : n ∈ (allFieldsOf w src).map (·.1)) :
    (⟨n, false⟩ : Param) ∈ (stubInitD apd w src).params ↔ n ∈ (Typedpy.sigOf w src).req :=
  c16_stubD_required w src n hcov hk

/-- the `**` clause over Define's worlds: stub = constructor = `__signature__`, every world -/
theorem stubD_kw_iff (dflt : Bool) (w : World) (src : ClassSrc) :
    (stubInitD dflt w src).kw = admitsD dflt w src :=
  c16_stubD_kw_iff dflt w src

theorem stubD_sigkw_agree (dflt : Bool) (w : World) (src : ClassSrc) :
    (stubInitD dflt w src).kw = sigKwD dflt w src :=
  c16_stubD_sigkw dflt w src

/-- with the shipped default the `**kwargs` compared above is literally the `kwargs` of Define's `make_signature` -/
theorem stubD_sigkw_is_define (w : World) (src : ClassSrc) : sigKwD true w src = (build w src).sig.kwargs := rfl

theorem stubD_mandatory_first (apd : Bool) (w : World) (src : ClassSrc) :
    mandatoryFirst (stubInitD apd w src).params = true := by
  show mandatoryFirst (orderedArgs _) = true
  unfold orderedArgs
  apply mandatoryFirst_append
  · intro p hp; simpa using (List.mem_filter.mp hp).2
  · intro p hp; simpa using (List.mem_filter.mp hp).2

/-- the generated `__init__` parses for every class of every world (diamonds included) -/
theorem stubD_init_text_parses (apd : Bool) (w : World) (src : ClassSrc) (anns : String → Ann)
    (h : textDomain anns (stubInitD apd w src).params = true) :
    parseDef (initToks anns (stubInitD apd w src)) =
      some ⟨"__init__", ⟨"self", .pk, false⟩ ::
        ((stubInitD apd w src).params.map pkInfo ++
          kwInfos (stubInitD apd w src).kw (kwName (stubInitD apd w src).params))⟩ :=
  c16_init_parses anns _ (stubD_mandatory_first apd w src) h

/-- the three helper methods of every class of every world parse -/
theorem stubD_helper_text_parses (apd : Bool) (w : World) (src : ClassSrc) (anns : String → Ann) (hk : Helper)
    (h : textDomain anns (stubInitD apd w src).params = true) :
    parseDef (helperToks anns hk (stubInitD apd w src)) =
      some ⟨helperName hk, helperLeadInfos hk ++
        ((helperFields hk (stubInitD apd w src).params).map (helperInfo hk) ++
          kwInfos (stubInitD apd w src).kw (kwName (stubInitD apd w src).params))⟩ :=
  c16_helper_parses anns hk _ h

/-- character level, every world: the text of the generated `__init__` lexes and parses into the parameter list read
    off Define's class object -/
theorem stubD_init_text_accepted (apd : Bool) (w : World) (src : ClassSrc) (anns : String → Ann)
    (h : textDomain anns (stubInitD apd w src).params = true) :
    (lexPy (renderText (initToks anns (stubInitD apd w src)))).bind parseDef =
      some ⟨"__init__", ⟨"self", .pk, false⟩ ::
        ((stubInitD apd w src).params.map pkInfo ++
          kwInfos (stubInitD apd w src).kw (kwName (stubInitD apd w src).params))⟩ := by
  rw [c16_lexPy_render _ (c16_lexOk_initToks anns _ h), Option.bind_some]
  exact stubD_init_text_parses apd w src anns h

/-! #### kernel-checked diamonds -/

def dFld (n : String) (d : Bool := false) : String × SrcEntry :=
  (n, .obj (.field .anything (if d then some (.lit (.int 0)) else none)))
def dCst (n : String) : String × SrcEntry := (n, .obj (.const (.int 3)))

def defAll : World → List ClassSrc → World
  | w, [] => w
  | w, s :: rest => defAll (w.add (build w s)) rest

/-- `class A: x, a; _optional = ['x']` / `class B(A): b` / `class C(A): x (required again), c = default;
    _additional_properties = False` / `class D(B, C): d` — a benign diamond: MRO `D B C A` (C3); `get_base_info` finds `x` optional in `B`'s signature and required in `C`'s: the later,
    stricter base wins (fix d18be04); stub and signature agree on names, defaults and the `**` clause
    (`_additional_properties = False` inherited from `C`, fix 5f45702) -/
def dmA : ClassSrc := { name := "A", bases := ["Structure"], entries := [dFld "x", dFld "a"], optional := ["x"] }
def dmB : ClassSrc := { name := "B", bases := ["A"], entries := [dFld "b"] }
def dmC : ClassSrc := { name := "C", bases := ["A"], entries := [dFld "x", dFld "c" true], addl := some false }
def dmD : ClassSrc := { name := "D", bases := ["B", "C"], entries := [dFld "d"] }
def dmW : World := defAll World.init [dmA, dmB, dmC]

theorem stubD_diamond_example :
    (build dmW dmD).mro = ["D", "B", "C", "A", "Structure"] ∧
    (stubInitD true dmW dmD).params = [⟨"x", false⟩, ⟨"a", false⟩, ⟨"b", false⟩, ⟨"d", false⟩, ⟨"c", true⟩] ∧
    (Typedpy.sigOf dmW dmD).req = ["a", "b", "x", "d"] ∧ (Typedpy.sigOf dmW dmD).opt = ["c"] ∧
    namesCovered dmW dmD = true ∧
    (stubInitD true dmW dmD).kw = false ∧ sigKwD true dmW dmD = false ∧ (Typedpy.sigOf dmW dmD).kwargs = false ∧
    inheritedOffD true dmW dmD = true := by
  decide

/-- `class Y: n = Constant(3), y` / `class P(Y): p` / `class Z(Y): n: String, z` / `class B(P, Z): b` /
    `class D(B): d` — the former counterexample of the repaired finding "names-mismatch:constant-shadowed-in-diamond"
    (fix f0f7ce1): until then `B` took `n` for a Constant (`getattr` inside `StructMeta.__new__` answered from `P`'s
    `_field_by_name`), `B.__signature__` dropped `n`, and the stub of `D` had a keyword `n` that `D.__signature__` had
    not.  Constant-ness is now read from the class dicts along the MRO: `n` is `Z`'s Field in `B` and in `D`, on both
    sides. -/
def dqY : ClassSrc := { name := "Y", bases := ["Structure"], entries := [dCst "n", dFld "y"] }
def dqP : ClassSrc := { name := "P", bases := ["Y"], entries := [dFld "p"] }
def dqZ : ClassSrc := { name := "Z", bases := ["Y"], entries := [dFld "n", dFld "z"] }
def dqB : ClassSrc := { name := "B", bases := ["P", "Z"], entries := [dFld "b"] }
def dqD : ClassSrc := { name := "D", bases := ["B"], entries := [dFld "d"] }
def dqW : World := defAll World.init [dqY, dqP, dqZ, dqB]

theorem fixed_diamond_names_example :
    namesCovered dqW dqD = true ∧
    "n" ∈ (stubInitD true dqW dqD).params.map (·.name) ∧ "n" ∈ (sigParamsD (Typedpy.sigOf dqW dqD)).map (·.name) ∧
    (∀ n, n ∈ (stubInitD true dqW dqD).params.map (·.name) ↔ n ∈ (sigParamsD (Typedpy.sigOf dqW dqD)).map (·.name)) := by
  refine ⟨by decide, by decide, by decide, ?_⟩
  exact (stubD_names_agree_iff true dqW dqD).mpr (by decide)

/-! #### every reachable world (all histories of class statements, Lemmas/DefineSig.lean's invariant) -/

/-- in every world reachable by successful class statements, for every class statement that passes the checks:
    every name of the runtime signature is a keyword of the stub `__init__` (the stub never lacks a parameter the
    constructor signature has) — any hierarchy shape, no hypothesis on the class records -/
theorem stubD_sig_names_in_stub_reachable {O : Oracles} {w : World} (hr : Reachable O w) {src : ClassSrc} (apd : Bool)
    (hc : runChecks (checks O w src) = .ok ()) (hfresh : w.find src.name = none) (n : String)
    (hn : n ∈ (sigParamsD (Typedpy.sigOf w src)).map (·.name)) :
    n ∈ (stubInitD apd w src).params.map (·.name) := by
  have hs := c14_build_sigOk (reachable_ok hr) (reachable_sigOk hr) hc hfresh
  have hmem : n ∈ (Typedpy.sigOf w src).req ∨ n ∈ (Typedpy.sigOf w src).opt := by
    simpa [sigParamsD, List.map_append, List.map_map, Function.comp_def] using hn
  have := hs.names n hmem
  exact (c16_stubD_names w src n).mpr ⟨this.1, (c16_const_isNone w src n).mp this.2⟩

end Typedpy.C16
