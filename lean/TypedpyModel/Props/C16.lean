/-
  Props/C16.lean — property theorems for C16 (stub; to be filled in).
-/
namespace Typedpy.C16
end Typedpy.C16
